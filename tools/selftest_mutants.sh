#!/bin/bash
# Runs every positive-control mutant against /repo's working tree and fails when one is
# skipped (anchor text drifted) or missed. Meant for the unchanged tree; `bin/check <ID> thorough`
# tolerates skipped mutants because an edited tree may legitimately have removed an anchor.
set -u
cd "$(dirname "$0")/.."
./bin/check --build-only >/dev/null || exit 2
names=$(grep -o '{Name: "[a-z0-9-]*"' checker/rules/registry.go | sed 's/.*"\(.*\)"/\1/')
out=$(mktemp)
echo "$names" | xargs -P 6 -I{} sh -c '.cache/gojacheck -mutant {} 2>&1 | tail -1 | sed "s/^/{} /"' > "$out"
sort "$out"
bad=$(grep -cvE ' MUTANT-DETECTED' "$out")
total=$(wc -l < "$out")
rm -f "$out"
echo "mutants: $total, not detected: $bad"
[ "$bad" -eq 0 ]

#!/bin/bash
# Confirm each seeded change independently: demo passes without the patch, fails with it,
# and the full existing suite passes with the patch. Works in a scratch worktree, removed at the end.
# usage: tools/verify_seeds.sh <src-dir (e.g. /tmp/seeded)> [ids...]
export GOFLAGS=-mod=mod GOPROXY=off GOSUMDB=off GOWORK=off GOTOOLCHAIN=local PATH=/opt/veriftools/go1.26.8/bin:$PATH
SRC=$1; shift
WT=/tmp/wt/verify.$$
git -C /repo worktree add --detach $WT HEAD >/dev/null 2>&1 || exit 2
trap 'git -C /repo worktree remove --force $WT' EXIT
for d in $(ls -d $SRC/C*/[a-z] | sort); do
  id=$(basename $(dirname $d)); n=$(basename $d)
  if [ $# -gt 0 ] && ! echo " $* " | grep -q " $id "; then continue; fi
  if [ -n "$NS" ] && ! echo " $NS " | grep -q " $n "; then continue; fi
  cd $WT && git checkout -q -- . && git clean -fdq
  [ -f $d/patch.diff ] || { echo "$id/$n NOPATCH"; continue; }
  demo=$d/demo_test.go; [ -f $demo ] || demo=$d/demo_test.go.txt
  pkgline=$(grep -m1 '^package ' $demo | awk '{print $2}')
  case "$pkgline" in goja) sub=. ;; parser|parser_test) sub=parser ;; *) sub=$pkgline ;; esac
  [ -d "$WT/$sub" ] || sub=.
  cp $demo $WT/$sub/zz_seed_demo_test.go
  base=$(cd $WT/$sub && go test -vet=off -count=1 -run 'TestSeed' . 2>&1 | tail -1)
  if ! git apply --check $d/patch.diff 2>/dev/null; then echo "$id/$n PATCH-DOES-NOT-APPLY base=[$base]"; continue; fi
  git apply $d/patch.diff
  if ! go build ./... 2>/dev/null; then echo "$id/$n DOES-NOT-BUILD"; continue; fi
  with=$(cd $WT/$sub && timeout 600 go test -vet=off -count=1 -run 'TestSeed' . 2>&1 | grep -E '^(ok|FAIL|---|panic)' | tail -1)
  rm $WT/$sub/zz_seed_demo_test.go
  suite=$(go test -vet=off -count=1 ./... 2>&1 | grep -v 'no test files' | grep -vc '^ok')
  echo "$id/$n base=[$base] with=[$with] suite_nonok_lines=$suite"
done

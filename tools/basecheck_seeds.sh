#!/bin/bash
# Base-only re-verification of the seeds after repairs to /repo: every demonstration must still pass on
# the unmodified (repaired) tree. (tools/verify_seeds.sh does the full job - base, with patch, whole suite
# with patch - but takes about a minute per seed.) Works in a scratch worktree, removed at the end.
# usage: tools/basecheck_seeds.sh [ids...]
export GOFLAGS=-mod=mod GOPROXY=off GOSUMDB=off GOWORK=off GOTOOLCHAIN=local PATH=/opt/veriftools/go1.26.8/bin:$PATH
WT=/tmp/wt/base.$$
git -C /repo worktree add --detach $WT HEAD >/dev/null 2>&1 || exit 2
trap 'git -C /repo worktree remove --force $WT' EXIT
for d in $(ls -d /verif/seeded/C*/[a-z] | sort); do
  id=$(basename $(dirname $d)); n=$(basename $d)
  if [ $# -gt 0 ] && ! echo " $* " | grep -q " $id "; then continue; fi
  demo=$d/demo_test.go.txt; [ -f $demo ] || demo=$d/demo_test.go
  [ -f $demo ] || { echo "$id/$n NODEMO"; continue; }
  pkgline=$(grep -m1 '^package ' $demo | awk '{print $2}')
  case "$pkgline" in goja) sub=. ;; parser|parser_test) sub=parser ;; fast) sub=ftoa/internal/fast ;; *) sub=$pkgline ;; esac
  [ -d "$WT/$sub" ] || sub=.
  cp $demo $WT/$sub/zz_seed_demo_test.go
  base=$(cd $WT/$sub && timeout 300 go test -vet=off -count=1 -run 'TestSeed' . 2>&1 | tail -1 | cut -c1-60)
  rm $WT/$sub/zz_seed_demo_test.go
  echo "$id/$n base=[$base]"
done

#!/usr/bin/env python3
"""Generate seeded/<id>/<n>/meta.json from the notes, the verification log and the check results.
usage: tools/gen_meta.py <verify-log>... -- <final-results> [<first-results>...]"""
import json, os, re, sys
args = sys.argv[1:]
sep = args.index('--')
vlogs, rlogs = args[:sep], args[sep+1:]
verify = {}
for f in vlogs:
    for l in open(f):
        m = re.match(r'(C\d+)/(\w) base=\[(.*?)\] with=\[(.*?)\] suite_nonok_lines=(\d+)', l)
        if m:
            verify[(m.group(1), m.group(2))] = dict(demo_without_patch=m.group(3).split('\t')[0].strip() or m.group(3), demo_with_patch=m.group(4), suite_failures_with_patch=int(m.group(5)))
def parse_results(f):
    out = {}
    for l in open(f):
        m = re.match(r'(C\d+)/(\w) (C\d+):(\S+?)(\[(.*))?$', l.strip())
        if not m: continue
        st = m.group(4)
        rule = None
        if st.startswith('CAUGHT'):
            mm = re.search(r'(violated|undecided) (R-[A-Z-]+):([^\[]*)', l)
            if mm: rule = mm.group(2); key = mm.group(3).strip()
            out[(m.group(1), m.group(2))] = dict(caught=True, rule=rule, construct=key if mm else None)
        else:
            out[(m.group(1), m.group(2))] = dict(caught=False, rule=None, construct=None, status=st)
    return out
final = parse_results(rlogs[0])
firsts = [parse_results(f) for f in rlogs[1:]]
root = '/verif/seeded'
for pid in sorted(os.listdir(root)):
    d = os.path.join(root, pid)
    if not os.path.isdir(d): continue
    for n in sorted(os.listdir(d)):
        sd = os.path.join(d, n)
        if not os.path.isfile(os.path.join(sd, 'patch.diff')): continue
        patch = open(os.path.join(sd, 'patch.diff')).read()
        files = re.findall(r'^diff --git a/(\S+)', patch, re.M)
        funcs = sorted(set(re.findall(r'^@@.*@@ func (?:\([^)]*\) )?([A-Za-z0-9_]+)', patch, re.M)))
        notes = open(os.path.join(sd, 'notes.md')).read() if os.path.exists(os.path.join(sd, 'notes.md')) else ''
        title = ''
        for l in notes.splitlines():
            if l.startswith('#'):
                title = l.lstrip('# ').strip(); break
        needs = ''
        m = re.search(r'^#+ *(What is needed[^\n]*|Needed to manifest[^\n]*|Trigger[^\n]*|What it needs[^\n]*|Conditions[^\n]*|To manifest[^\n]*)\n(.*?)(?=^#+ |\Z)', notes, re.M | re.S | re.I)
        if m:
            needs = ' '.join(m.group(2).split())[:900]
        else:
            mm = re.search(r'(\*\*(Trigger|Needs|To manifest|When it shows|Why tests miss it)[^*]*\*\*.*?)(?=\n- \*\*|\n\n|\Z)', notes, re.S)
            if mm: needs = ' '.join(mm.group(1).split())[:900]
        key = (pid, n)
        old = {}
        mp = os.path.join(sd, 'meta.json')
        if os.path.exists(mp):
            try:
                old = json.load(open(mp))
            except Exception:
                old = {}
        first = None
        for fr in firsts:
            if key in fr:
                first = fr[key]; break
        meta = dict(
            property=pid, seed=n, round={'a':1,'b':1,'c':2,'d':2,'e':3,'f':3,'g':4,'h':4,'i':5,'j':5,'k':6,'l':6,'m':7,'n':7}.get(n,0),
            title=title, files_changed=files, functions_touched=funcs,
            breaks='see notes.md (clause of the property, why it looks innocent)',
            needs_to_manifest=needs or 'see notes.md',
            demonstration='demo_test.go.txt (copy into the package directory as *_test.go; test names start with TestSeed)',
            what_was_run=dict(
                procedure='tools/verify_seeds.sh: scratch worktree of /repo HEAD; demo without the patch; git apply patch.diff; go build ./...; demo with the patch; go test -vet=off -count=1 ./... with the patch',
                **(verify.get(key) or {k: v for k, v in old.get('what_was_run', {}).items() if k != 'procedure'} or dict(note='not re-verified in the last run'))),
            checks=dict(
                command='tools/run_seeds.sh (git -C /repo apply patch.diff; gojacheck -prop %s -tier quick; git -C /repo checkout -- .)' % pid,
                caught=final.get(key, {}).get('caught'),
                caught_by=final.get(key, {}).get('rule'), construct=final.get(key, {}).get('construct'),
                caught_when_first_run=(first or {}).get('caught') if first is not None else old.get('checks', {}).get('caught_when_first_run'),
                caught_when_first_run_by=(first or {}).get('rule') if first is not None else old.get('checks', {}).get('caught_when_first_run_by')),
        )
        json.dump(meta, open(os.path.join(sd, 'meta.json'), 'w'), indent=1)
        print(pid, n, meta['checks']['caught'], meta['checks']['caught_by'], '| first:', meta['checks']['caught_when_first_run'])

#!/bin/bash
# Run the registered checks against each seeded change: apply to /repo, run, undo straight afterwards.
# usage: tools/run_seeds.sh [--all-props] [ids...]   (writes seeded/RESULTS.txt)
cd /verif
ALL=0; if [ "$1" = "--all-props" ]; then ALL=1; shift; fi
git -C /repo diff --quiet || { echo "/repo is dirty"; exit 2; }
bin/check --build-only
CLAIMED=$(.cache/gojacheck -list | sed -n 's/^\(C[0-9]*\):.*/\1/p')
out=${OUT:-seeded/RESULTS.txt}; : > $out.tmp
for d in $(ls -d seeded/C*/[a-z] | sort); do
  id=$(basename $(dirname $d)); n=$(basename $d)
  if [ $# -gt 0 ] && ! echo " $* " | grep -q " $id "; then continue; fi
  if [ -n "$NS" ] && ! echo " $NS " | grep -q " $n "; then continue; fi
  if ! git -C /repo apply --check $PWD/$d/patch.diff 2>/dev/null; then echo "$id/$n PATCH-DOES-NOT-APPLY" | tee -a $out.tmp; continue; fi
  git -C /repo apply $PWD/$d/patch.diff
  props=$id; [ $ALL = 1 ] && props=$CLAIMED
  res=""
  for p in $props; do
    if echo "$CLAIMED" | grep -q "^$p$"; then
      o=$(.cache/gojacheck -prop $p -tier quick -no-evidence 2>&1); rc=$?
      if [ $rc = 1 ]; then res="$res $p:CAUGHT[$(echo "$o" | grep -E '^  (violated|undecided)' | head -2 | sed 's/^  //' | cut -c1-160 | tr '\n' '|')]"; elif [ $rc = 0 ]; then res="$res $p:missed"; else res="$res $p:rc$rc[$(echo "$o" | tail -1 | cut -c1-120)]"; fi
    else res="$res $p:not-claimed"; fi
  done
  git -C /repo checkout -- . 
  echo "$id/$n$res" | tee -a $out.tmp
done
git -C /repo status --short | grep -v '^??' && echo "WARNING: /repo dirty"
mv $out.tmp $out

package core

import (
	"fmt"
	"go/token"
	"go/types"
	"os"
	"sort"
	"strings"

	"golang.org/x/tools/go/ssa"
)

// Guard-freshness dataflow (R-FRESH): a forward must-analysis over SSA/CFG.
//
// Some guard G(x) ("x's buffer is attached", "x is a pristine standard array") is established
// by a check and silently destroyed by any code that may run script. A *use* of x that relies
// on G must be reached only by paths on which G(x) was established after the last call that
// may run script. The engine is generic; a FreshSpec supplies the anchors.

// FreshUse is a use of a guarded object at an instruction.
type FreshUse struct {
	Key  string // canonical access path of the guarded object ("" = untracked)
	What string // e.g. "typedArray.setRaw"
}

// FreshSpec configures one instance of the analysis.
type FreshSpec struct {
	Name string
	// Root canonicalises a value to the guarded object's key, or nil if v is not tracked.
	Root func(v ssa.Value) string
	// Uses lists the guarded uses performed by an instruction.
	Uses func(in ssa.Instruction) []FreshUse
	// GenAfter: keys established unconditionally once this instruction completes
	// (a throwing check, a fresh allocation). `fresh` is the state before the instruction.
	GenAfter func(in ssa.Instruction, fresh func(string) bool) []string
	// GenOnBool: the instruction yields a bool that, when equal to `when`, establishes keys.
	GenOnBool func(in ssa.Instruction) (keys []string, when bool, ok bool)
	// Kills: the call destroys all guards ("" = it does not).
	Kills func(c ssa.CallInstruction) string
	// Skip: functions not analysed (primitives whose callers carry the obligation).
	Skip func(f *ssa.Function) bool
	// Tracked reports whether a type is a guarded object type (for summaries).
	Tracked func(t types.Type) bool
	// NewObject: the instruction creates a brand-new guarded object that no script can reach yet.
	// Such a key survives kills until it escapes.
	NewObject func(in ssa.Instruction) (key string, ok bool)
	// Escapes: keys whose object becomes reachable by other code at this instruction.
	Escapes func(in ssa.Instruction) []string
	// RetAlias is installed by the engine: for a call whose callee always returns an object
	// guarded by the same key as one of its arguments (a view constructed over a buffer),
	// it yields that argument. Root implementations should consult it.
	RetAlias func(c *ssa.Call) ssa.Value
	// RetNew is installed by the engine: the call returns a brand-new object (callee summary).
	RetNew func(c *ssa.Call) bool
}

// FreshFinding is a use not covered by a fresh guard.
type FreshFinding struct {
	Fn       *ssa.Function
	Instr    ssa.Instruction
	Use      FreshUse
	LastKill string // the killing call on some path, or "never established"
}

// FreshSite is a use that is covered.
type FreshSite struct {
	Fn    *ssa.Function
	Instr ssa.Instruction
	Use   FreshUse
	How   string
}

type fsummary struct {
	retFresh     bool         // result #0 is a tracked object, fresh at every return
	paramOnRet   map[int]bool // param i fresh at every normal return
	paramOnTrue  map[int]bool // param i fresh whenever the bool result is true
	paramOnFalse map[int]bool
	needs        map[int]string // param i must be fresh at entry (use before any kill, no local guard)
	kills        bool           // may run script and return
	retNew       bool           // result #0 is a brand-new object, fresh and unescaped at every return
	retAlias     int            // result #0 is guarded by the same key as parameter retAlias (-1: none)
}

type fstate struct {
	fresh    map[string]string        // key → how established
	pend     map[ssa.Value][]pendFact // bool value → facts
	lastKill string
	clean    bool            // no kill since function entry
	local    map[string]bool // keys of brand-new objects that have not escaped
}

type pendFact struct {
	key  string
	when bool
	how  string
}

func (s *fstate) clone() *fstate {
	n := &fstate{fresh: make(map[string]string, len(s.fresh)), pend: make(map[ssa.Value][]pendFact, len(s.pend)), lastKill: s.lastKill, clean: s.clean, local: make(map[string]bool, len(s.local))}
	for k, v := range s.fresh {
		n.fresh[k] = v
	}
	for k := range s.local {
		n.local[k] = true
	}
	for k, v := range s.pend {
		n.pend[k] = v
	}
	return n
}

func meet(a, b *fstate) *fstate {
	if a == nil {
		return b.clone()
	}
	n := &fstate{fresh: map[string]string{}, pend: map[ssa.Value][]pendFact{}, clean: a.clean && b.clean, local: map[string]bool{}}
	for k, v := range a.fresh {
		if _, ok := b.fresh[k]; ok {
			n.fresh[k] = v
		}
	}
	for k := range a.local {
		if b.local[k] {
			n.local[k] = true
		}
	}
	for k, v := range a.pend {
		if w, ok := b.pend[k]; ok && len(v) == len(w) {
			n.pend[k] = v
		}
	}
	n.lastKill = a.lastKill
	if n.lastKill == "" {
		n.lastKill = b.lastKill
	}
	return n
}

func equalState(a, b *fstate) bool {
	if a == nil || b == nil {
		return a == b
	}
	if len(a.fresh) != len(b.fresh) || len(a.pend) != len(b.pend) || a.clean != b.clean || len(a.local) != len(b.local) {
		return false
	}
	for k := range a.local {
		if !b.local[k] {
			return false
		}
	}
	for k := range a.fresh {
		if _, ok := b.fresh[k]; !ok {
			return false
		}
	}
	for k := range a.pend {
		if _, ok := b.pend[k]; !ok {
			return false
		}
	}
	return true
}

// FreshResult is the outcome of the whole-module analysis.
type FreshResult struct {
	Findings []FreshFinding
	Sites    []FreshSite
	Funcs    int
	Rounds   int
}

// RunFresh analyses every module function with interprocedural summaries.
func (p *Prog) RunFresh(spec *FreshSpec) *FreshResult {
	sums := map[*ssa.Function]*fsummary{}
	type target struct {
		fn    *ssa.Function
		shift int // callee parameter index = call argument index + shift (bound receivers)
	}
	resolve := func(c *ssa.Call) []target {
		var out []target
		for _, callee := range p.Callees(c) {
			shift := 0
			// look through $bound/$thunk/promoted-method wrappers
			for i := 0; i < 3 && callee != nil && callee.Synthetic != "" && callee.Blocks != nil; i++ {
				var inner *ssa.Function
				n := 0
				extra := 0
				AllInstrs(callee, func(in ssa.Instruction) {
					if ci, ok := in.(ssa.CallInstruction); ok {
						n++
						inner = StaticCallee(ci)
						extra = len(ci.Common().Args) - len(callee.Params)
					}
				})
				if n != 1 || inner == nil {
					break
				}
				shift += extra
				callee = inner
			}
			out = append(out, target{callee, shift})
		}
		return out
	}
	spec.RetAlias = func(c *ssa.Call) ssa.Value {
		if c.Call.IsInvoke() {
			return nil
		}
		callees := resolve(c)
		if len(callees) == 0 {
			return nil
		}
		idx := -2
		for _, t := range callees {
			cs := sums[t.fn]
			if cs == nil || cs.retAlias < 0 {
				return nil
			}
			ai := cs.retAlias - t.shift
			if idx == -2 {
				idx = ai
			} else if idx != ai {
				return nil
			}
		}
		args := c.Call.Args
		if idx >= 0 && idx < len(args) {
			return args[idx]
		}
		return nil
	}
	spec.RetNew = func(c *ssa.Call) bool {
		callees := resolve(c)
		if len(callees) == 0 {
			return false
		}
		for _, t := range callees {
			if cs := sums[t.fn]; cs == nil || !cs.retNew {
				return false
			}
		}
		return true
	}
	var funcs []*ssa.Function
	for _, f := range p.Funcs {
		if spec.Skip != nil && spec.Skip(f) {
			continue
		}
		funcs = append(funcs, f)
	}
	// which functions can matter at all: those that mention a tracked type or call one that does.
	// (cheap pre-filter: analyse all; ~4000 small functions)
	res := &FreshResult{Funcs: len(funcs)}
	for round := 0; round < 8; round++ {
		res.Rounds = round + 1
		changed := false
		for _, f := range funcs {
			ns := p.freshFunc(spec, f, sums, nil)
			if !sameSummary(sums[f], ns) {
				sums[f] = ns
				changed = true
			}
		}
		if !changed {
			break
		}
	}
	// final pass: collect findings; preconditions are discharged at static call sites
	hasStaticCaller := map[*ssa.Function]bool{}
	for _, f := range funcs {
		AllInstrs(f, func(in ssa.Instruction) {
			if c, ok := in.(ssa.CallInstruction); ok {
				if sc := StaticCallee(c); sc != nil {
					hasStaticCaller[sc] = true
				}
			}
		})
	}
	for _, f := range funcs {
		p.freshFunc(spec, f, sums, &collector{res: res, hasStaticCaller: hasStaticCaller})
	}
	if dbg := os.Getenv("DEBUG_FRESH"); dbg != "" {
		for _, f := range funcs {
			if strings.Contains(FuncName(f), dbg) {
				if cs := sums[f]; cs != nil {
					fmt.Fprintf(os.Stderr, "SUMMARY %s: retFresh=%v retNew=%v retAlias=%d onRet=%v onTrue=%v needs=%v kills=%v\n", FuncName(f), cs.retFresh, cs.retNew, cs.retAlias, cs.paramOnRet, cs.paramOnTrue, cs.needs, cs.kills)
				}
			}
		}
	}
	sort.SliceStable(res.Findings, func(i, j int) bool { return res.Findings[i].Instr.Pos() < res.Findings[j].Instr.Pos() })
	return res
}

type collector struct {
	res             *FreshResult
	hasStaticCaller map[*ssa.Function]bool
}

func sameSummary(a, b *fsummary) bool {
	if a == nil || b == nil {
		return a == b
	}
	if a.retFresh != b.retFresh || a.kills != b.kills || a.retNew != b.retNew || a.retAlias != b.retAlias {
		return false
	}
	eq := func(x, y map[int]bool) bool {
		if len(x) != len(y) {
			return false
		}
		for k := range x {
			if !y[k] {
				return false
			}
		}
		return true
	}
	if len(a.needs) != len(b.needs) {
		return false
	}
	for k := range a.needs {
		if _, ok := b.needs[k]; !ok {
			return false
		}
	}
	return eq(a.paramOnRet, b.paramOnRet) && eq(a.paramOnTrue, b.paramOnTrue) && eq(a.paramOnFalse, b.paramOnFalse)
}

func paramIndex(spec *FreshSpec, f *ssa.Function, key string) int {
	for i, prm := range f.Params {
		if spec.Tracked(prm.Type()) && spec.Root(prm) == key {
			return i
		}
	}
	return -1
}

// paramIndexAny: the parameter (tracked or not by type) whose key is `key`.
func paramIndexAny(spec *FreshSpec, f *ssa.Function, key string) int {
	if key == "" {
		return -1
	}
	for i, prm := range f.Params {
		if spec.Root(prm) == key {
			return i
		}
	}
	return -1
}

func (p *Prog) freshFunc(spec *FreshSpec, f *ssa.Function, sums map[*ssa.Function]*fsummary, col *collector) *fsummary {
	sum := &fsummary{paramOnRet: map[int]bool{}, paramOnTrue: map[int]bool{}, paramOnFalse: map[int]bool{}, needs: map[int]string{}, retAlias: -1}
	if len(f.Blocks) == 0 {
		return sum
	}
	in := make([]*fstate, len(f.Blocks))
	edgeOut := make(map[[2]int]*fstate)
	in[0] = &fstate{fresh: map[string]string{}, pend: map[ssa.Value][]pendFact{}, clean: true, local: map[string]bool{}}
	work := []int{0}
	inWork := map[int]bool{0: true}
	iter := 0
	for len(work) > 0 && iter < 20000 {
		iter++
		bi := work[0]
		work = work[1:]
		inWork[bi] = false
		b := f.Blocks[bi]
		st := in[bi].clone()
		p.freshBlock(spec, f, b, st, sums, nil, nil)
		// successors
		for si, s := range b.Succs {
			es := st
			if ifi, ok := b.Instrs[len(b.Instrs)-1].(*ssa.If); ok && len(b.Succs) == 2 {
				es = st.clone()
				applyCond(es, ifi.Cond, si == 0)
			}
			key := [2]int{bi, s.Index}
			if old, ok := edgeOut[key]; ok && equalState(old, es) {
				continue
			}
			edgeOut[key] = es
			// recompute in[s]
			var acc *fstate
			for _, pr := range s.Preds {
				if e, ok := edgeOut[[2]int{pr.Index, s.Index}]; ok {
					acc = meet(acc, e)
				}
			}
			if acc != nil && !equalState(acc, in[s.Index]) {
				in[s.Index] = acc
				if !inWork[s.Index] {
					work = append(work, s.Index)
					inWork[s.Index] = true
				}
			}
		}
	}
	// final per-block pass with stable in-states: summaries and findings
	type retInfo struct {
		st  *fstate
		ret *ssa.Return
	}
	var rets []retInfo
	for bi, b := range f.Blocks {
		if in[bi] == nil {
			continue // unreachable
		}
		st := in[bi].clone()
		p.freshBlock(spec, f, b, st, sums, sum, col)
		if r, ok := b.Instrs[len(b.Instrs)-1].(*ssa.Return); ok {
			rets = append(rets, retInfo{st, r})
		}
	}
	if len(rets) > 0 {
		// retFresh
		if f.Signature.Results().Len() >= 1 && spec.Tracked(f.Signature.Results().At(0).Type()) {
			all := true
			for _, ri := range rets {
				k := spec.Root(ri.ret.Results[0])
				if k == "" {
					all = false
					break
				}
				if _, ok := ri.st.fresh[k]; !ok {
					all = false
					break
				}
			}
			sum.retFresh = all
			allNew := all
			alias := -2
			for _, ri := range rets {
				k := spec.Root(ri.ret.Results[0])
				if k == "" || !ri.st.local[k] {
					allNew = false
				}
				pi := paramIndexAny(spec, f, k)
				if alias == -2 {
					alias = pi
				} else if alias != pi {
					alias = -1
				}
			}
			sum.retNew = allNew
			if alias >= 0 && !allNew {
				sum.retAlias = alias
			}
		}
		boolRes := f.Signature.Results().Len() == 1 && isBool(f.Signature.Results().At(0).Type())
		for i, prm := range f.Params {
			if !spec.Tracked(prm.Type()) {
				continue
			}
			key := spec.Root(prm)
			if key == "" {
				continue
			}
			onRet, onTrue, onFalse := true, true, true
			for _, ri := range rets {
				_, fr := ri.st.fresh[key]
				if !fr {
					onRet = false
				}
				if boolRes {
					rv := ri.ret.Results[0]
					tOK, fOK := fr, fr
					if c, ok := rv.(*ssa.Const); ok && c.Value != nil {
						if c.Value.String() == "true" {
							fOK = true
						} else {
							tOK = true
						}
					} else {
						for _, pf := range ri.st.pend[rv] {
							if pf.key == key && pf.when {
								tOK = true
							}
							if pf.key == key && !pf.when {
								fOK = true
							}
						}
					}
					if !tOK {
						onTrue = false
					}
					if !fOK {
						onFalse = false
					}
				}
			}
			if onRet {
				sum.paramOnRet[i] = true
			}
			if boolRes && onTrue && !onRet {
				sum.paramOnTrue[i] = true
			}
			if boolRes && onFalse && !onRet {
				sum.paramOnFalse[i] = true
			}
		}
	}
	return sum
}

// applyCond refines the state on a branch edge.
func applyCond(st *fstate, cond ssa.Value, taken bool) {
	for depth := 0; depth < 4; depth++ {
		if u, ok := cond.(*ssa.UnOp); ok && u.Op == token.NOT {
			cond = u.X
			taken = !taken
			continue
		}
		if b, ok := cond.(*ssa.BinOp); ok && (b.Op == token.EQL || b.Op == token.NEQ) {
			if c, okc := b.Y.(*ssa.Const); okc && c.Value != nil && isBool(c.Type()) {
				want := c.Value.String() == "true"
				if b.Op == token.NEQ {
					want = !want
				}
				cond = b.X
				if !want {
					taken = !taken
				}
				continue
			}
		}
		break
	}
	for _, pf := range st.pend[cond] {
		if pf.when == taken {
			st.fresh[pf.key] = pf.how
		}
	}
}

func (p *Prog) freshBlock(spec *FreshSpec, f *ssa.Function, b *ssa.BasicBlock, st *fstate, sums map[*ssa.Function]*fsummary, sum *fsummary, col *collector) {
	isFresh := func(k string) bool { _, ok := st.fresh[k]; return ok }
	for _, in := range b.Instrs {
		// 1. uses
		for _, u := range spec.Uses(in) {
			if u.Key == "" {
				continue
			}
			how, ok := st.fresh[u.Key]
			if ok {
				if col != nil {
					col.res.Sites = append(col.res.Sites, FreshSite{f, in, u, how})
				}
				continue
			}
			// not fresh: a precondition on a parameter (no kill since entry) or a finding
			if pi := paramIndex(spec, f, u.Key); pi >= 0 && st.clean {
				if sum != nil {
					sum.needs[pi] = u.What
				}
				if col != nil && !col.hasStaticCaller[f] {
					col.res.Findings = append(col.res.Findings, FreshFinding{f, in, u, "never established: the guarded object is a parameter and no static caller establishes the guard"})
				} else if col != nil {
					col.res.Sites = append(col.res.Sites, FreshSite{f, in, u, "precondition moved to the static callers of " + FuncName(f)})
				}
				continue
			}
			if col != nil {
				lk := st.lastKill
				if lk == "" {
					lk = "never established on some path"
				}
				col.res.Findings = append(col.res.Findings, FreshFinding{f, in, u, lk})
			}
		}
		// 1b. escapes: a brand-new object handed to other code is no longer immune to kills
		if spec.Escapes != nil && len(st.local) > 0 {
			for _, k := range spec.Escapes(in) {
				delete(st.local, k)
			}
		}
		// 2. calls: callee preconditions, kills, summaries
		if c, ok := in.(ssa.CallInstruction); ok {
			if _, isGo := c.(*ssa.Go); !isGo {
				var after []pendFact
				var afterKeys []string
				var afterHow string
				if sc := StaticCallee(c); sc != nil {
					if cs := sums[sc]; cs != nil {
						args := c.Common().Args
						for pi, what := range cs.needs {
							if pi < len(args) {
								k := spec.Root(args[pi])
								if k == "" {
									continue
								}
								u := FreshUse{Key: k, What: "call " + FuncName(sc) + " (needs guard for " + what + ")"}
								if how, ok := st.fresh[k]; ok {
									if col != nil {
										col.res.Sites = append(col.res.Sites, FreshSite{f, in, u, how})
									}
								} else if pj := paramIndex(spec, f, k); pj >= 0 && st.clean {
									if sum != nil {
										sum.needs[pj] = u.What
									}
									if col != nil && !col.hasStaticCaller[f] {
										col.res.Findings = append(col.res.Findings, FreshFinding{f, in, u, "never established: parameter, no static caller"})
									}
								} else if col != nil {
									lk := st.lastKill
									if lk == "" {
										lk = "never established on some path"
									}
									col.res.Findings = append(col.res.Findings, FreshFinding{f, in, u, lk})
								}
							}
						}
						for pi := range cs.paramOnRet {
							if pi < len(args) {
								if k := spec.Root(args[pi]); k != "" {
									afterKeys = append(afterKeys, k)
									afterHow = "established by " + FuncName(sc)
								}
							}
						}
						if v, isVal := in.(ssa.Value); isVal {
							for pi := range cs.paramOnTrue {
								if pi < len(args) {
									if k := spec.Root(args[pi]); k != "" {
										after = append(after, pendFact{k, true, "true result of " + FuncName(sc)})
									}
								}
							}
							for pi := range cs.paramOnFalse {
								if pi < len(args) {
									if k := spec.Root(args[pi]); k != "" {
										after = append(after, pendFact{k, false, "false result of " + FuncName(sc)})
									}
								}
							}
							if cs.retFresh {
								if k := spec.Root(v); k != "" {
									afterKeys = append(afterKeys, k)
									afterHow = "returned fresh by " + FuncName(sc)
								}
							}
						}
					}
				}
				gk := spec.GenAfter(in, isFresh)
				if why := spec.Kills(c); why != "" {
					nf := map[string]string{}
					for k, how := range st.fresh {
						if st.local[k] {
							nf[k] = how
						}
					}
					st.fresh = nf
					st.pend = map[ssa.Value][]pendFact{}
					st.lastKill = fmt.Sprintf("%s at %s", why, p.Pos(c.Pos()))
					st.clean = false
					if sum != nil {
						sum.kills = true
					}
				}
				for _, k := range afterKeys {
					st.fresh[k] = afterHow
				}
				for _, k := range gk {
					st.fresh[k] = "check at " + p.Pos(in.Pos())
				}
				if cv, isCall := in.(*ssa.Call); isCall {
					newKey := ""
					if spec.RetNew(cv) {
						newKey = spec.Root(cv)
					} else if spec.NewObject != nil {
						if k, ok := spec.NewObject(in); ok {
							newKey = k
						}
					}
					if newKey != "" {
						st.fresh[newKey] = "brand-new object (not yet reachable by script)"
						st.local[newKey] = true
					}
				}
				if v, isVal := in.(ssa.Value); isVal {
					if len(after) > 0 {
						st.pend[v] = append(st.pend[v], after...)
					}
					if keys, when, ok := spec.GenOnBool(in); ok {
						for _, k := range keys {
							st.pend[v] = append(st.pend[v], pendFact{k, when, "check at " + p.Pos(in.Pos())})
						}
					}
				}
				continue
			}
		}
		// 3. non-call gens (allocations, field tests)
		if spec.NewObject != nil {
			if k, ok := spec.NewObject(in); ok {
				st.fresh[k] = "brand-new object (not yet reachable by script)"
				st.local[k] = true
			}
		}
		for _, k := range spec.GenAfter(in, isFresh) {
			st.fresh[k] = "established at " + p.Pos(in.Pos())
		}
		if v, isVal := in.(ssa.Value); isVal {
			if keys, when, ok := spec.GenOnBool(in); ok {
				for _, k := range keys {
					st.pend[v] = append(st.pend[v], pendFact{k, when, "test at " + p.Pos(in.Pos())})
				}
			}
			// a phi of pending bools / fresh objects is handled conservatively (dropped)
		}
	}
}

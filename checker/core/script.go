package core

import (
	"go/types"
	"strings"
	"sync"

	"golang.org/x/tools/go/ssa"
)

// scriptFacts: scriptFree(f) = no call reachable from f can execute JS code or a
// host-supplied Go callback. Greatest fixed point over the module's functions:
// a function is script-free iff every call in it is
//   - a builtin,
//   - a static call to a script-free module function,
//   - a static call to a function outside the module that receives no callback-capable argument,
//   - a dynamic call all of whose VTA/CHA targets are script-free module functions.
//
// Everything else (unresolved function values, reflection) may run script.
type scriptFacts struct {
	once   sync.Once
	free   map[*ssa.Function]bool
	reason map[*ssa.Function]string // why not free (first offending call)
}

var scriptFreeAudit = map[string]string{
	// (function name → reason it cannot run user code although the call graph says it might)
	"(*templatedObject).getOwnPropStr": "materialises one property of an intrinsic object from its objectTemplate: the call graph merges all ~700 property initialisers behind `f(o.val.runtime)`; they build fresh intrinsic values (newNativeFunc, valueProp, a new base object with a nil prototype filled through setOwnStr) and have no handle on user-visible objects, so no user code can run",
	"(*destructKeyedSource).w":         "ToObject of the wrapped destructuring source: an object is returned as is, a primitive is wrapped in its intrinsic wrapper object; instantiating intrinsic prototypes from templates runs no user code (the call graph only reaches user code through objectImpl._putProp, whose reflect-backed implementation is never the kind being built)",
}

// ScriptFreeAudit exposes the audited table (listed as assumptions in evidence).
func ScriptFreeAudit() map[string]string { return scriptFreeAudit }

// scriptFreeInvokeAudit: interface methods (by "iface.method") every implementation of which is
// audited not to run user code; rules that rely on an entry verify the implementations structurally.
var scriptFreeInvokeAudit = map[string]string{
	"objectImpl.assertCallable":    "implementations return the stored function value (or a closure over it) without invoking it",
	"objectImpl.assertConstructor": "implementations return the stored constructor (or a closure over it) without invoking it",
}

// ScriptFreeInvokeAudit exposes the table for evidence and verification.
func ScriptFreeInvokeAudit() map[string]string { return scriptFreeInvokeAudit }

// SetScriptFreeAudit installs the audited table (rule packages own the reasons).
func SetScriptFreeAudit(m map[string]string) { scriptFreeAudit = m }

func (p *Prog) sf() *scriptFacts {
	f := p.f()
	if f.script == nil {
		f.script = &scriptFacts{}
	}
	return f.script
}

func (p *Prog) computeScriptFree() {
	s := p.sf()
	s.once.Do(func() {
		free := map[*ssa.Function]bool{}
		for _, fn := range p.Funcs {
			free[fn] = true
		}
		reason := map[*ssa.Function]string{}
		changed := true
		for changed {
			changed = false
			for _, fn := range p.Funcs {
				if !free[fn] {
					continue
				}
				if _, ok := scriptFreeAudit[FuncName(fn)]; ok {
					continue
				}
				if why := p.firstScriptCall(fn, free); why != "" {
					free[fn] = false
					reason[fn] = why
					changed = true
				}
			}
		}
		s.free, s.reason = free, reason
	})
}

// firstScriptCall finds a call that may run script AND after which fn can still return
// normally. Script that runs only on a path ending in panic (panic(r.NewTypeError("%s", obj)))
// cannot invalidate anything the caller relies on afterwards, because the caller does not continue.
func (p *Prog) firstScriptCall(fn *ssa.Function, free map[*ssa.Function]bool) string {
	canReturn := p.blocksReachingReturn(fn)
	for _, b := range fn.Blocks {
		stop := p.FirstNoReturn(b)
		for i, in := range b.Instrs {
			if stop >= 0 && i >= stop {
				break
			}
			c, ok := in.(ssa.CallInstruction)
			if !ok {
				continue
			}
			if _, isGo := c.(*ssa.Go); isGo {
				continue
			}
			if stop >= 0 {
				continue // the block ends in a no-return call/panic after this call
			}
			if !canReturn[b] {
				continue
			}
			if w := p.callMayRunScript(c, free); w != "" {
				return w
			}
		}
	}
	return ""
}

// blocksReachingReturn: blocks from whose end a Return is reachable (no-return calls cut paths).
func (p *Prog) blocksReachingReturn(fn *ssa.Function) map[*ssa.BasicBlock]bool {
	out := map[*ssa.BasicBlock]bool{}
	hasDefer := false
	for _, b := range fn.Blocks {
		for _, in := range b.Instrs {
			if _, ok := in.(*ssa.Defer); ok {
				hasDefer = true
			}
		}
	}
	if hasDefer {
		// a deferred recover may turn a panic into a normal return: every block counts
		for _, b := range fn.Blocks {
			out[b] = true
		}
		return out
	}
	changed := true
	for changed {
		changed = false
		for _, b := range fn.Blocks {
			if out[b] {
				continue
			}
			if p.FirstNoReturn(b) >= 0 {
				continue
			}
			ok := false
			if len(b.Instrs) > 0 {
				if _, isRet := b.Instrs[len(b.Instrs)-1].(*ssa.Return); isRet {
					ok = true
				}
			}
			for _, s := range b.Succs {
				if out[s] {
					ok = true
				}
			}
			if ok {
				out[b] = true
				changed = true
			}
		}
	}
	return out
}

// callMayRunScript returns "" if the call cannot run script, else a reason.
func (p *Prog) callMayRunScript(c ssa.CallInstruction, free map[*ssa.Function]bool) string {
	return p.callMayRunScriptD(c, free, 0)
}

func (p *Prog) callMayRunScriptD(c ssa.CallInstruction, free map[*ssa.Function]bool, depth int) string {
	cc := c.Common()
	if _, ok := cc.Value.(*ssa.Builtin); ok {
		return ""
	}
	check := func(callee *ssa.Function) string {
		if callee == nil {
			return "unresolved callee"
		}
		if _, ok := scriptFreeAudit[FuncName(callee)]; ok {
			return ""
		}
		if v, known := free[callee]; known {
			if v {
				return ""
			}
			return "calls " + FuncName(callee)
		}
		// synthetic wrappers ($bound, $thunk, promoted-method wrappers) and generic
		// instantiations are not in p.Funcs: look inside them
		if callee.Blocks != nil && (callee.Synthetic != "" || callee.Origin() != nil) {
			if depth > 6 {
				return "wrapper nesting too deep at " + callee.Name()
			}
			for _, b := range callee.Blocks {
				for _, in := range b.Instrs {
					if c2, ok := in.(ssa.CallInstruction); ok {
						if w := p.callMayRunScriptD(c2, free, depth+1); w != "" {
							return w
						}
					}
				}
			}
			return ""
		}
		if callee.Blocks == nil || !p.InModule(callee) {
			return p.externalMayCallBack(callee, cc, free, depth)
		}
		return "calls " + FuncName(callee)
	}
	if sc := cc.StaticCallee(); sc != nil {
		return check(sc)
	}
	// dynamic: interface invoke or function value
	if cc.IsInvoke() {
		if n := NamedOf(cc.Value.Type()); n != nil {
			if _, ok := scriptFreeInvokeAudit[n.Obj().Name()+"."+cc.Method.Name()]; ok {
				return ""
			}
		}
	}
	callees := p.Callees(c)
	if len(callees) == 0 {
		if cc.IsInvoke() {
			// no implementation in the program: cannot be called at all
			return ""
		}
		return "call of a function value with no resolved target"
	}
	if !cc.IsInvoke() {
		// function values of the native-function shapes are host/script entry points by definition
		if sig, ok := cc.Value.Type().Underlying().(*types.Signature); ok && isScriptEntrySig(sig) {
			return "call of a func(FunctionCall) Value / constructor value"
		}
	}
	for _, callee := range callees {
		if w := check(callee); w != "" {
			if cc.IsInvoke() {
				return "invoke " + cc.Method.Name() + " → " + w
			}
			return w
		}
	}
	return ""
}

func isScriptEntrySig(sig *types.Signature) bool {
	if sig.Params().Len() == 1 && IsGojaNamed(sig.Params().At(0).Type(), "FunctionCall") {
		return true
	}
	if sig.Params().Len() == 2 && sig.Results().Len() == 1 && IsGojaNamed(sig.Results().At(0).Type(), "Object") {
		if _, ok := sig.Params().At(0).Type().Underlying().(*types.Slice); ok {
			return true
		}
	}
	return false
}

// externalMayCallBack: a function outside the module can only reach module code through
// a function value or a value with methods handed to it.
func (p *Prog) externalMayCallBack(callee *ssa.Function, cc *ssa.CallCommon, free map[*ssa.Function]bool, depth int) string {
	for _, a := range cc.Args {
		// a function value handed to an external function (sync.Once.Do, sort.Slice): the only
		// module code it can reach is that function
		if _, isSig := a.Type().Underlying().(*types.Signature); isSig {
			var fn *ssa.Function
			switch x := a.(type) {
			case *ssa.MakeClosure:
				fn, _ = x.Fn.(*ssa.Function)
			case *ssa.Function:
				fn = x
			}
			if fn != nil {
				if v, known := free[fn]; known && v {
					continue
				}
				if _, known := free[fn]; !known && fn.Blocks != nil && depth < 6 {
					bad := ""
					for _, b := range fn.Blocks {
						for _, in := range b.Instrs {
							if c2, ok := in.(ssa.CallInstruction); ok && bad == "" {
								bad = p.callMayRunScriptD(c2, free, depth+1)
							}
						}
					}
					if bad == "" {
						continue
					}
				}
				return "external " + callee.Name() + " calls back " + FuncName(fn)
			}
		}
		if pp := funcPkgPath(callee); regexpEnginePkgs[pp] {
			// A regular-expression engine calls back into the module only through an interface value
			// it is handed (io.RuneReader): every module implementation of that interface must be
			// script-free. Its own data (the compiled program, options) is not module code.
			if iface, ok := a.Type().Underlying().(*types.Interface); ok {
				if why := p.moduleImplsMayRunScript(iface, free); why != "" {
					return "external " + pp + "." + callee.Name() + " calls back " + why
				}
				continue
			}
			t := a.Type()
			for i := 0; i < 3; i++ {
				if NamedOf(t) != nil {
					break
				}
				switch u := t.Underlying().(type) {
				case *types.Pointer:
					t = u.Elem()
				case *types.Slice:
					t = u.Elem()
				}
			}
			if n := NamedOf(t); n != nil && n.Obj().Pkg() != nil && regexpEnginePkgs[n.Obj().Pkg().Path()] {
				continue
			}
		}
		if callbackCapable(a.Type(), 0) {
			// a few heavily used, well-known pure consumers
			if pp := funcPkgPath(callee); pp != "" {
				switch pp {
				case "reflect", "unsafe", "math", "math/bits", "strconv", "unicode", "unicode/utf8", "unicode/utf16", "strings", "bytes", "sync/atomic", "time", "math/big", "hash/maphash", "errors", "weak", "runtime":
					// weak.Make / runtime.AddCleanup: the cleanup runs on a GC goroutine, never synchronously
					return ""
				}
			}
			name := callee.Name()
			if callee.Pkg != nil {
				name = callee.Pkg.Pkg.Path() + "." + name
			}
			return "external " + name + " receives a callback-capable value"
		}
	}
	return ""
}

// regexpEnginePkgs: the two regular-expression engines goja drives (Go's regexp and dlclark/regexp2).
var regexpEnginePkgs = map[string]bool{"regexp": true, "github.com/dlclark/regexp2/v2": true, "github.com/dlclark/regexp2/v2/syntax": true}

// moduleImplsMayRunScript: some module type implementing iface has a method of iface that is not
// script-free under the current assumption; returns its name.
func (p *Prog) moduleImplsMayRunScript(iface *types.Interface, free map[*ssa.Function]bool) string {
	names := map[string]bool{}
	for i := 0; i < iface.NumMethods(); i++ {
		names[iface.Method(i).Name()] = true
	}
	for _, f := range p.Funcs {
		r := f.Signature.Recv()
		if r == nil || !names[f.Name()] || f.Parent() != nil {
			continue
		}
		if !types.Implements(r.Type(), iface) {
			continue
		}
		if v, known := free[f]; known && !v {
			return FuncName(f)
		}
	}
	return ""
}

var opaqueStdPkgs = map[string]bool{"sync": true, "sync/atomic": true, "internal/sync": true, "time": true, "reflect": true, "math/big": true,
	"strings": true, "bytes": true, "unicode": true, "regexp": true, "regexp/syntax": true, "math/rand": true, "hash/maphash": true, "unsafe": true, "weak": true}

func callbackCapable(t types.Type, depth int) bool {
	if depth > 6 {
		return true
	}
	if n := NamedOf(t); n != nil && n.Obj().Pkg() != nil && opaqueStdPkgs[n.Obj().Pkg().Path()] {
		if _, isIface := n.Underlying().(*types.Interface); !isIface {
			return false // plain data of a standard package: cannot reach module code
		}
	}
	switch u := t.Underlying().(type) {
	case *types.Signature:
		return true
	case *types.Interface:
		return true
	case *types.Pointer:
		return callbackCapable(u.Elem(), depth+1) || hasModuleMethods(t)
	case *types.Slice:
		return callbackCapable(u.Elem(), depth+1)
	case *types.Array:
		return callbackCapable(u.Elem(), depth+1)
	case *types.Map:
		return callbackCapable(u.Elem(), depth+1) || callbackCapable(u.Key(), depth+1)
	case *types.Struct:
		if hasModuleMethods(t) {
			return true
		}
		for i := 0; i < u.NumFields(); i++ {
			if callbackCapable(u.Field(i).Type(), depth+1) {
				return true
			}
		}
		return false
	}
	return hasModuleMethods(t)
}

// funcPkgPath also resolves instantiations of generic functions (whose Pkg is nil).
func funcPkgPath(f *ssa.Function) string {
	if f.Pkg != nil {
		return f.Pkg.Pkg.Path()
	}
	if o := f.Origin(); o != nil && o.Pkg != nil {
		return o.Pkg.Pkg.Path()
	}
	if obj := f.Object(); obj != nil && obj.Pkg() != nil {
		return obj.Pkg().Path()
	}
	return ""
}

func hasModuleMethods(t types.Type) bool {
	n := NamedOf(t)
	if n == nil || n.Obj().Pkg() == nil {
		return false
	}
	if !strings.HasPrefix(n.Obj().Pkg().Path(), GojaPath) {
		return false
	}
	return n.NumMethods() > 0
}

// ScriptFree reports whether fn can never run script.
func (p *Prog) ScriptFree(fn *ssa.Function) bool {
	p.computeScriptFree()
	return p.sf().free[fn]
}

// WhyNotScriptFree gives the first offending call chain element.
func (p *Prog) WhyNotScriptFree(fn *ssa.Function) string {
	p.computeScriptFree()
	return p.sf().reason[fn]
}

// MayRunScript: the call may execute JS or a host callback ("" = it cannot).
func (p *Prog) MayRunScript(c ssa.CallInstruction) string {
	p.computeScriptFree()
	return p.callMayRunScript(c, p.sf().free)
}

// ScriptFreeCount returns (#free, #total) for evidence.
func (p *Prog) ScriptFreeCount() (int, int) {
	p.computeScriptFree()
	n := 0
	for _, fn := range p.Funcs {
		if p.sf().free[fn] {
			n++
		}
	}
	return n, len(p.Funcs)
}

package core

import (
	"fmt"
	"sort"
)

// Status of an obligation.
type Status string

const (
	Discharged Status = "discharged"
	Violated   Status = "violated"
	Undecided  Status = "undecided" // counts as a violation
	Info       Status = "info"      // evidence only, never gates
)

// Obligation is one instance of a rule on one construct of the source.
type Obligation struct {
	Rule   string `json:"rule"`
	Key    string `json:"key"` // rule + construct, never a line number
	Pos    string `json:"pos"` // file:line, for humans
	Status Status `json:"status"`
	Idiom  string `json:"idiom,omitempty"`  // idiom that discharged it
	Detail string `json:"detail,omitempty"` // explanation for violated/undecided
}

// Result is what one rule returns.
type Result struct {
	Rule        string
	Floor       int // minimum number of gating obligations confirmed by hand
	Obligations []Obligation
	Analysed    map[string]int // e.g. "functions": 462
	Notes       []string
	Assumptions []string
	Err         error // unresolved anchor etc.: no verdict
}

func NewResult(rule string, floor int) *Result {
	return &Result{Rule: rule, Floor: floor, Analysed: map[string]int{}}
}

func (r *Result) add(st Status, key, pos, idiom, detail string) {
	r.Obligations = append(r.Obligations, Obligation{Rule: r.Rule, Key: r.Rule + ":" + key, Pos: pos, Status: st, Idiom: idiom, Detail: detail})
}

func (r *Result) OK(key, pos, idiom string)       { r.add(Discharged, key, pos, idiom, "") }
func (r *Result) Bad(key, pos, detail string)     { r.add(Violated, key, pos, "", detail) }
func (r *Result) Unknown(key, pos, detail string) { r.add(Undecided, key, pos, "", detail) }
func (r *Result) Inform(key, pos, detail string)  { r.add(Info, key, pos, "", detail) }
func (r *Result) Note(format string, a ...any)    { r.Notes = append(r.Notes, fmt.Sprintf(format, a...)) }
func (r *Result) Assume(format string, a ...any) {
	r.Assumptions = append(r.Assumptions, fmt.Sprintf(format, a...))
}
func (r *Result) Count(what string, n int) { r.Analysed[what] += n }
func (r *Result) Fail(err error) *Result   { r.Err = err; return r }
func (r *Result) Failf(format string, a ...any) *Result {
	r.Err = &AnchorError{fmt.Sprintf(format, a...)}
	return r
}

// Finish makes keys unique (suffix #n in source order for duplicates) and sorts.
func (r *Result) Finish() {
	seen := map[string]int{}
	for i := range r.Obligations {
		k := r.Obligations[i].Key
		seen[k]++
		if seen[k] > 1 {
			r.Obligations[i].Key = fmt.Sprintf("%s#%d", k, seen[k])
		}
	}
	sort.SliceStable(r.Obligations, func(i, j int) bool { return r.Obligations[i].Key < r.Obligations[j].Key })
}

// Gating returns the obligations that count (everything except Info).
func (r *Result) Gating() (n, discharged int, bad []Obligation) {
	for _, o := range r.Obligations {
		switch o.Status {
		case Info:
		case Discharged:
			n++
			discharged++
		default:
			n++
			bad = append(bad, o)
		}
	}
	return
}

// Rule is a named static rule.
type Rule struct {
	Name string
	Doc  string
	Run  func(p *Prog) *Result
}

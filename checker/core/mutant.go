package core

import (
	"fmt"
	"os"
	"path/filepath"
	"strings"
)

// Mutant is a positive control: one in-memory edit of the real tree (applied through
// packages.Config.Overlay, nothing is written to disk) that breaks the discipline a rule
// checks while still type-checking. The rule must report the mutated construct by key.
type Mutant struct {
	Name   string // unique
	Rule   string // rule that must fire
	File   string // path relative to repo root
	Old    string // literal text, must occur exactly Nth+... times
	New    string
	Nth    int    // 0 = the text must be unique; k>0 = replace the k-th occurrence
	Old2   string // optional second edit in the same file (unique text)
	New2   string
	Expect string // substring of the violated obligation's key
	Why    string // behaviour broken by the mutant
}

// Apply returns the overlay for this mutant, or ok=false if its anchor text no longer
// matches the (possibly edited) tree.
func (m *Mutant) Apply(repo string) (map[string][]byte, bool, error) {
	abs := filepath.Join(repo, m.File)
	src, err := os.ReadFile(abs)
	if err != nil {
		return nil, false, nil
	}
	s := string(src)
	cnt := strings.Count(s, m.Old)
	if cnt == 0 {
		return nil, false, nil
	}
	var out string
	if m.Nth == 0 {
		if cnt != 1 {
			return nil, false, fmt.Errorf("mutant %s: anchor text occurs %d times, want 1", m.Name, cnt)
		}
		out = strings.Replace(s, m.Old, m.New, 1)
	} else {
		if cnt < m.Nth {
			return nil, false, nil
		}
		idx := -1
		from := 0
		for k := 0; k < m.Nth; k++ {
			i := strings.Index(s[from:], m.Old)
			idx = from + i
			from = idx + len(m.Old)
		}
		out = s[:idx] + m.New + s[idx+len(m.Old):]
	}
	if m.Old2 != "" {
		if strings.Count(out, m.Old2) != 1 {
			return nil, false, nil
		}
		out = strings.Replace(out, m.Old2, m.New2, 1)
	}
	return map[string][]byte{abs: []byte(out)}, true, nil
}

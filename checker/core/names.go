package core

import (
	"go/ast"
	"go/token"

	"golang.org/x/tools/go/ast/astutil"
	"golang.org/x/tools/go/ssa"
)

// SourceName returns the source-level identifier an SSA value is bound to (`ta` for
// `ta, ok := x.(*T)`), so that obligation keys do not depend on SSA register numbering.
// Falls back to the register name.
func (p *Prog) SourceName(v ssa.Value) string {
	switch x := v.(type) {
	case *ssa.Parameter:
		return x.Name()
	case *ssa.FreeVar:
		return x.Name()
	case *ssa.Alloc:
		if x.Comment != "" && x.Comment != "complit" && x.Comment != "new" {
			return x.Comment
		}
	case *ssa.Phi:
		if x.Comment != "" {
			return x.Comment
		}
	}
	idx := 0
	pos := v.Pos()
	if ex, ok := v.(*ssa.Extract); ok {
		idx = ex.Index
		pos = ex.Tuple.Pos()
	}
	if !pos.IsValid() || v.Parent() == nil {
		return v.Name()
	}
	file := p.fileOf(pos)
	if file == nil {
		return v.Name()
	}
	path, _ := astutil.PathEnclosingInterval(file, pos, pos)
	for _, n := range path {
		switch s := n.(type) {
		case *ast.AssignStmt:
			if len(s.Rhs) == 1 && idx < len(s.Lhs) {
				if id, ok := s.Lhs[idx].(*ast.Ident); ok && id.Name != "_" {
					return id.Name
				}
			}
			for i, r := range s.Rhs {
				if r.Pos() <= pos && pos <= r.End() && i < len(s.Lhs) {
					if id, ok := s.Lhs[i].(*ast.Ident); ok && id.Name != "_" {
						return id.Name
					}
				}
			}
			return v.Name()
		case *ast.ValueSpec:
			if len(s.Values) == 1 && idx < len(s.Names) {
				return s.Names[idx].Name
			}
			return v.Name()
		case *ast.FuncLit, *ast.FuncDecl, *ast.BlockStmt:
			return v.Name()
		}
	}
	return v.Name()
}

func (p *Prog) fileOf(pos token.Pos) *ast.File {
	for _, pk := range p.Pkgs {
		for _, f := range pk.Syntax {
			if f.FileStart <= pos && pos <= f.FileEnd {
				return f
			}
		}
	}
	return nil
}

// Package core loads and type-checks the goja working tree, builds SSA for it and
// offers the small shared vocabulary (obligations, anchors, helpers) used by the rules.
package core

import (
	"fmt"
	"go/ast"
	"go/token"
	"go/types"
	"os"
	"path/filepath"
	"sort"
	"strings"

	"golang.org/x/tools/go/packages"
	"golang.org/x/tools/go/ssa"
)

const GojaPath = "github.com/dop251/goja"

// Prog is the resolved program: every package of the module in /repo, type-checked
// from the current working tree, with SSA bodies for all of them.
type Prog struct {
	Repo    string
	Fset    *token.FileSet
	Pkgs    []*packages.Package // module packages only, sorted by path
	ByPath  map[string]*packages.Package
	Goja    *packages.Package
	SSA     *ssa.Program
	SSAPkgs map[string]*ssa.Package
	GojaSSA *ssa.Package
	// Funcs are all functions with bodies that belong to module packages:
	// package-level functions, methods, anonymous functions, synthetic wrappers excluded.
	Funcs []*ssa.Function
	// decl → ssa function (for declared functions and function literals)
	FuncOfDecl map[ast.Node]*ssa.Function
	GOARCH     string

	facts *Facts
}

// LoadOptions configures a load.
type LoadOptions struct {
	Repo    string
	GOARCH  string            // "" = host
	Overlay map[string][]byte // absolute path → contents (in-memory mutants)
}

func goEnv(goarch string) []string {
	env := os.Environ()
	out := env[:0:0]
	for _, e := range env {
		k := e
		if i := strings.IndexByte(e, '='); i >= 0 {
			k = e[:i]
		}
		if k == "PATH" {
			if _, err := os.Stat("/opt/veriftools/go1.26.8/bin/go"); err == nil && !strings.HasPrefix(e, "PATH=/opt/veriftools/go1.26.8/bin:") {
				e = "PATH=/opt/veriftools/go1.26.8/bin:" + strings.TrimPrefix(e, "PATH=")
			}
		}
		switch k {
		case "GOFLAGS", "GOPROXY", "GOSUMDB", "GOWORK", "GOTOOLCHAIN", "GOARCH", "GOOS", "CGO_ENABLED":
			continue
		}
		out = append(out, e)
	}
	out = append(out, "GOFLAGS=-mod=mod", "GOPROXY=off", "GOSUMDB=off", "GOWORK=off", "GOTOOLCHAIN=local", "CGO_ENABLED=0")
	if goarch != "" {
		out = append(out, "GOARCH="+goarch)
	}
	return out
}

// Load type-checks ./... in opts.Repo. Any error (list error, type error, fewer than
// 9 module packages) is returned: an unanalysable tree never yields a verdict.
func Load(opts LoadOptions) (*Prog, error) {
	// go/packages resolves "go" through this process's PATH: the default go (1.23.5) cannot
	// list a go 1.25 module under GOTOOLCHAIN=local, the pre-installed 1.26.8 can.
	if _, err := os.Stat("/opt/veriftools/go1.26.8/bin/go"); err == nil && !strings.HasPrefix(os.Getenv("PATH"), "/opt/veriftools/go1.26.8/bin:") {
		os.Setenv("PATH", "/opt/veriftools/go1.26.8/bin:"+os.Getenv("PATH"))
	}
	repo, err := filepath.Abs(opts.Repo)
	if err != nil {
		return nil, err
	}
	fset := token.NewFileSet()
	cfg := &packages.Config{
		Mode: packages.NeedName | packages.NeedFiles | packages.NeedCompiledGoFiles | packages.NeedImports |
			packages.NeedTypes | packages.NeedSyntax | packages.NeedTypesInfo |
			packages.NeedTypesSizes | packages.NeedModule,
		Dir:     repo,
		Fset:    fset,
		Env:     goEnv(opts.GOARCH),
		Tests:   false,
		Overlay: opts.Overlay,
	}
	initial, err := packages.Load(cfg, "./...")
	if err != nil {
		return nil, fmt.Errorf("packages.Load: %w", err)
	}
	var errs []string
	packages.Visit(initial, nil, func(p *packages.Package) {
		for _, e := range p.Errors {
			errs = append(errs, p.PkgPath+": "+e.Error())
		}
	})
	if len(errs) > 0 {
		sort.Strings(errs)
		if len(errs) > 10 {
			errs = errs[:10]
		}
		return nil, fmt.Errorf("tree does not type-check:\n  %s", strings.Join(errs, "\n  "))
	}
	p := &Prog{Repo: repo, Fset: fset, ByPath: map[string]*packages.Package{}, SSAPkgs: map[string]*ssa.Package{},
		FuncOfDecl: map[ast.Node]*ssa.Function{}, GOARCH: opts.GOARCH}
	for _, pk := range initial {
		if pk.PkgPath == GojaPath || strings.HasPrefix(pk.PkgPath, GojaPath+"/") {
			p.Pkgs = append(p.Pkgs, pk)
			p.ByPath[pk.PkgPath] = pk
		}
	}
	sort.Slice(p.Pkgs, func(i, j int) bool { return p.Pkgs[i].PkgPath < p.Pkgs[j].PkgPath })
	if len(p.Pkgs) < 9 {
		return nil, fmt.Errorf("only %d module packages loaded from %s (expected >= 9)", len(p.Pkgs), repo)
	}
	p.Goja = p.ByPath[GojaPath]
	if p.Goja == nil {
		return nil, fmt.Errorf("package %s not found", GojaPath)
	}
	// Module packages get SSA bodies from their syntax; every dependency (stdlib, regexp2,
	// x/text, ...) is created from export data: declarations only, no bodies.
	prog := ssa.NewProgram(fset, ssa.InstantiateGenerics)
	isInitial := map[*types.Package]bool{}
	for _, pk := range initial {
		if pk.Types == nil || pk.TypesInfo == nil || len(pk.Syntax) == 0 {
			return nil, fmt.Errorf("package %s has no syntax/types", pk.PkgPath)
		}
		isInitial[pk.Types] = true
	}
	created := map[*types.Package]bool{}
	var createDeps func(tps []*types.Package)
	createDeps = func(tps []*types.Package) {
		for _, tp := range tps {
			if created[tp] || isInitial[tp] {
				continue
			}
			created[tp] = true
			prog.CreatePackage(tp, nil, nil, true)
			createDeps(tp.Imports())
		}
	}
	for _, pk := range initial {
		prog.CreatePackage(pk.Types, pk.Syntax, pk.TypesInfo, true)
	}
	for _, pk := range initial {
		createDeps(pk.Types.Imports())
	}
	prog.Build()
	p.SSA = prog
	for _, pk := range p.Pkgs {
		sp := prog.Package(pk.Types)
		if sp == nil {
			return nil, fmt.Errorf("no SSA for %s", pk.PkgPath)
		}
		p.SSAPkgs[pk.PkgPath] = sp
	}
	p.GojaSSA = p.SSAPkgs[GojaPath]
	// collect functions
	seen := map[*ssa.Function]bool{}
	var add func(f *ssa.Function)
	add = func(f *ssa.Function) {
		if f == nil || seen[f] || f.Blocks == nil {
			return
		}
		seen[f] = true
		p.Funcs = append(p.Funcs, f)
		if syn := f.Syntax(); syn != nil {
			p.FuncOfDecl[syn] = f
		}
		for _, a := range f.AnonFuncs {
			add(a)
		}
	}
	for _, pk := range p.Pkgs {
		sp := p.SSAPkgs[pk.PkgPath]
		for _, m := range sp.Members {
			switch m := m.(type) {
			case *ssa.Function:
				add(m)
			case *ssa.Type:
				for _, T := range []types.Type{m.Type(), types.NewPointer(m.Type())} {
					ms := prog.MethodSets.MethodSet(T)
					for i := 0; i < ms.Len(); i++ {
						fn := prog.MethodValue(ms.At(i))
						if fn != nil && fn.Synthetic == "" {
							add(fn)
						}
					}
				}
			}
		}
	}
	sort.Slice(p.Funcs, func(i, j int) bool {
		a, b := p.Funcs[i], p.Funcs[j]
		if a.Pos() != b.Pos() {
			return a.Pos() < b.Pos()
		}
		return a.String() < b.String()
	})
	return p, nil
}

// Pos renders a position relative to the repo root.
func (p *Prog) Pos(pos token.Pos) string {
	if !pos.IsValid() {
		return "-"
	}
	ps := p.Fset.Position(pos)
	rel, err := filepath.Rel(p.Repo, ps.Filename)
	if err != nil || strings.HasPrefix(rel, "..") {
		rel = ps.Filename
	}
	return fmt.Sprintf("%s:%d", rel, ps.Line)
}

// InModule reports whether the function belongs to a module package.
func (p *Prog) InModule(f *ssa.Function) bool {
	if f == nil {
		return false
	}
	pk := f.Package()
	if pk == nil {
		if f.Parent() != nil {
			return p.InModule(f.Parent())
		}
		if o := f.Origin(); o != nil && o != f {
			return p.InModule(o)
		}
		return false
	}
	_, ok := p.SSAPkgs[pk.Pkg.Path()]
	return ok
}

// FuncName is a stable human key for a function: "(*vm).run", "floatToValue",
// "(*Runtime).initX$1".
func FuncName(f *ssa.Function) string {
	if f == nil {
		return "<nil>"
	}
	if f.Parent() != nil {
		return FuncName(f.Parent()) + "$" + strings.TrimPrefix(f.Name(), f.Parent().Name()+"$")
	}
	if recv := f.Signature.Recv(); recv != nil {
		return "(" + typeShort(recv.Type()) + ")." + f.Name()
	}
	pk := ""
	if f.Pkg != nil && f.Pkg.Pkg.Path() != GojaPath {
		pk = f.Pkg.Pkg.Name() + "."
	}
	return pk + f.Name()
}

func typeShort(t types.Type) string {
	return types.TypeString(t, func(p *types.Package) string {
		if p.Path() == GojaPath {
			return ""
		}
		return p.Name()
	})
}

// TypeShort renders a type with goja-local names unqualified.
func TypeShort(t types.Type) string { return typeShort(t) }

// ---- anchors -------------------------------------------------------------

// AnchorError marks a rule whose anchor could not be resolved: never a pass.
type AnchorError struct{ What string }

func (e *AnchorError) Error() string { return "unresolved anchor: " + e.What }

// LookupType returns the named type `name` in package path.
func (p *Prog) LookupType(pkgPath, name string) (*types.Named, error) {
	pk := p.ByPath[pkgPath]
	if pk == nil {
		return nil, &AnchorError{pkgPath}
	}
	o := pk.Types.Scope().Lookup(name)
	tn, ok := o.(*types.TypeName)
	if !ok {
		return nil, &AnchorError{"type " + pkgPath + "." + name}
	}
	n, ok := types.Unalias(tn.Type()).(*types.Named)
	if !ok {
		return nil, &AnchorError{"named type " + pkgPath + "." + name}
	}
	return n, nil
}

// GojaType is LookupType in the main package.
func (p *Prog) GojaType(name string) (*types.Named, error) { return p.LookupType(GojaPath, name) }

// LookupFunc returns a package-level function's SSA body.
func (p *Prog) LookupFunc(pkgPath, name string) (*ssa.Function, error) {
	sp := p.SSAPkgs[pkgPath]
	if sp == nil {
		return nil, &AnchorError{pkgPath}
	}
	f := sp.Func(name)
	if f == nil || f.Blocks == nil {
		return nil, &AnchorError{"func " + pkgPath + "." + name}
	}
	return f, nil
}

func (p *Prog) GojaFunc(name string) (*ssa.Function, error) { return p.LookupFunc(GojaPath, name) }

// LookupMethod resolves method `name` on type `typ` (pointer receiver tried first).
func (p *Prog) LookupMethod(pkgPath, typ, name string) (*ssa.Function, error) {
	n, err := p.LookupType(pkgPath, typ)
	if err != nil {
		return nil, err
	}
	var fallback *ssa.Function
	for _, T := range []types.Type{types.NewPointer(n), n} {
		sel := p.SSA.MethodSets.MethodSet(T).Lookup(n.Obj().Pkg(), name)
		if sel != nil {
			f := p.SSA.MethodValue(sel)
			if f != nil {
				if f.Synthetic == "" {
					return f, nil // the declared method, not a pointer-receiver/promotion wrapper
				}
				if fallback == nil {
					fallback = f
				}
			}
		}
	}
	if fallback != nil {
		return fallback, nil
	}
	return nil, &AnchorError{fmt.Sprintf("method (%s.%s).%s", pkgPath, typ, name)}
}

func (p *Prog) GojaMethod(typ, name string) (*ssa.Function, error) {
	return p.LookupMethod(GojaPath, typ, name)
}

// Field returns the *types.Var of a struct field of a named type.
func (p *Prog) Field(pkgPath, typ, field string) (*types.Var, error) {
	n, err := p.LookupType(pkgPath, typ)
	if err != nil {
		return nil, err
	}
	st, ok := n.Underlying().(*types.Struct)
	if !ok {
		return nil, &AnchorError{typ + " is not a struct"}
	}
	for i := 0; i < st.NumFields(); i++ {
		if st.Field(i).Name() == field {
			return st.Field(i), nil
		}
	}
	return nil, &AnchorError{"field " + typ + "." + field}
}

// DeclaredMethodObj returns the *types.Func for a method declared directly on typ.
func (p *Prog) DeclaredMethodObj(n *types.Named, name string) *types.Func {
	for i := 0; i < n.NumMethods(); i++ {
		if n.Method(i).Name() == name {
			return n.Method(i)
		}
	}
	return nil
}

// NamedOf strips pointers and returns the named type, if any.
func NamedOf(t types.Type) *types.Named {
	t = types.Unalias(t)
	if pt, ok := t.(*types.Pointer); ok {
		t = types.Unalias(pt.Elem())
	}
	n, _ := t.(*types.Named)
	return n
}

// IsNamed reports whether t (or *t) is the named type pkgPath.name.
func IsNamed(t types.Type, pkgPath, name string) bool {
	n := NamedOf(t)
	if n == nil || n.Obj().Pkg() == nil {
		return false
	}
	return n.Obj().Pkg().Path() == pkgPath && n.Obj().Name() == name
}

// IsGojaNamed is IsNamed in the main package.
func IsGojaNamed(t types.Type, name string) bool { return IsNamed(t, GojaPath, name) }

// ExactNamed: t is exactly the named type (no pointer stripping).
func ExactNamed(t types.Type, pkgPath, name string) bool {
	n, ok := types.Unalias(t).(*types.Named)
	if !ok || n.Obj().Pkg() == nil {
		return false
	}
	return n.Obj().Pkg().Path() == pkgPath && n.Obj().Name() == name
}

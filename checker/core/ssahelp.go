package core

import (
	"go/constant"
	"go/token"
	"go/types"

	"golang.org/x/tools/go/ssa"
)

// StaticCallee returns the statically known callee of a call instruction (function,
// method or immediately-invoked closure), or nil.
func StaticCallee(c ssa.CallInstruction) *ssa.Function {
	if c == nil {
		return nil
	}
	return c.Common().StaticCallee()
}

// CallTo reports whether instr is a call (call/go/defer) whose static callee is fn.
func CallTo(instr ssa.Instruction, fn *ssa.Function) (ssa.CallInstruction, bool) {
	c, ok := instr.(ssa.CallInstruction)
	if !ok || fn == nil {
		return nil, false
	}
	if sc := StaticCallee(c); sc != nil && (sc == fn || sc.Origin() == fn) {
		return c, true
	}
	return nil, false
}

// InstrIndex returns the index of instr in its block.
func InstrIndex(instr ssa.Instruction) int {
	for i, in := range instr.Block().Instrs {
		if in == instr {
			return i
		}
	}
	return -1
}

// InstrDominates: a executes before b on every path reaching b (same function).
func InstrDominates(a, b ssa.Instruction) bool {
	ba, bb := a.Block(), b.Block()
	if ba == bb {
		return InstrIndex(a) < InstrIndex(b)
	}
	return ba.Dominates(bb)
}

// EdgeDominates reports whether every path to block b goes through the edge from→succ.
func EdgeDominates(from, succ, b *ssa.BasicBlock) bool {
	if !succ.Dominates(b) {
		return false
	}
	for _, p := range succ.Preds {
		if p == from {
			continue
		}
		// other predecessors are fine only if they are themselves dominated by succ (back edges)
		if !succ.Dominates(p) {
			return false
		}
	}
	return true
}

// Unwrap strips conversions that do not change the underlying value identity.
func Unwrap(v ssa.Value) ssa.Value {
	for {
		switch x := v.(type) {
		case *ssa.ChangeType:
			v = x.X
		case *ssa.MakeInterface:
			v = x.X
		case *ssa.ChangeInterface:
			v = x.X
		default:
			return v
		}
	}
}

// ConstOf returns the constant value of v, if v is an *ssa.Const.
func ConstOf(v ssa.Value) (constant.Value, bool) {
	c, ok := v.(*ssa.Const)
	if !ok || c.Value == nil {
		return nil, false
	}
	return c.Value, true
}

// ConstString returns the string constant held by v (through conversions).
func ConstString(v ssa.Value) (string, bool) {
	for {
		switch x := v.(type) {
		case *ssa.ChangeType:
			v = x.X
			continue
		case *ssa.Convert:
			v = x.X
			continue
		case *ssa.MakeInterface:
			v = x.X
			continue
		}
		break
	}
	c, ok := v.(*ssa.Const)
	if !ok || c.Value == nil || c.Value.Kind() != constant.String {
		return "", false
	}
	return constant.StringVal(c.Value), true
}

// FieldOf: if v is a FieldAddr or Field, return the struct field var.
func FieldOf(v ssa.Value) *types.Var {
	switch x := v.(type) {
	case *ssa.FieldAddr:
		st := derefStruct(x.X.Type())
		if st != nil {
			return st.Field(x.Field)
		}
	case *ssa.Field:
		st, _ := x.X.Type().Underlying().(*types.Struct)
		if st != nil {
			return st.Field(x.Field)
		}
	}
	return nil
}

func derefStruct(t types.Type) *types.Struct {
	if pt, ok := t.Underlying().(*types.Pointer); ok {
		st, _ := pt.Elem().Underlying().(*types.Struct)
		return st
	}
	st, _ := t.Underlying().(*types.Struct)
	return st
}

// Referrers returns v's referrers or nil.
func Referrers(v ssa.Value) []ssa.Instruction {
	r := v.Referrers()
	if r == nil {
		return nil
	}
	return *r
}

// IfOn finds If instructions whose condition is (possibly negated) cond.
// For each it returns the block reached when cond is true and when cond is false.
type CondEdge struct {
	From        *ssa.BasicBlock
	True, False *ssa.BasicBlock
}

// CondEdges returns the branch edges controlled by boolean value cond, looking through
// unary negation.
func CondEdges(cond ssa.Value) []CondEdge {
	var out []CondEdge
	var walk func(v ssa.Value, neg bool, depth int)
	walk = func(v ssa.Value, neg bool, depth int) {
		if depth > 4 {
			return
		}
		for _, r := range Referrers(v) {
			switch r := r.(type) {
			case *ssa.If:
				if r.Cond != v {
					continue
				}
				b := r.Block()
				t, f := b.Succs[0], b.Succs[1]
				if neg {
					t, f = f, t
				}
				out = append(out, CondEdge{b, t, f})
			case *ssa.UnOp:
				if r.Op == token.NOT {
					walk(r, !neg, depth+1)
				}
			}
		}
	}
	walk(cond, false, 0)
	return out
}

// DominatedByTrueEdge: block b is only reachable when cond evaluated to `want`.
func DominatedByCond(cond ssa.Value, want bool, b *ssa.BasicBlock) bool {
	for _, e := range CondEdges(cond) {
		succ := e.True
		if !want {
			succ = e.False
		}
		if EdgeDominates(e.From, succ, b) {
			return true
		}
	}
	return false
}

// EnclosingTop returns the outermost enclosing function.
func EnclosingTop(f *ssa.Function) *ssa.Function {
	for f.Parent() != nil {
		f = f.Parent()
	}
	return f
}

// AllInstrs calls fn for every instruction of f (not nested closures).
func AllInstrs(f *ssa.Function, fn func(ssa.Instruction)) {
	for _, b := range f.Blocks {
		for _, in := range b.Instrs {
			fn(in)
		}
	}
}

// WithAnon calls fn for f and all closures nested in it.
func WithAnon(f *ssa.Function, fn func(*ssa.Function)) {
	fn(f)
	for _, a := range f.AnonFuncs {
		WithAnon(a, fn)
	}
}

// CondPol is a branch condition together with the polarity under which a block is reached.
type CondPol struct {
	Cond ssa.Value
	Pol  bool
	If   *ssa.If
}

// ControllingConds returns every (condition, polarity) whose branch edge dominates block b:
// b executes only if each of them evaluated that way.
func ControllingConds(b *ssa.BasicBlock) []CondPol {
	var out []CondPol
	for d := b.Idom(); d != nil; d = d.Idom() {
		if len(d.Instrs) == 0 {
			continue
		}
		ifi, ok := d.Instrs[len(d.Instrs)-1].(*ssa.If)
		if !ok {
			continue
		}
		t, f := d.Succs[0], d.Succs[1]
		if t == f {
			continue
		}
		if EdgeDominates(d, t, b) {
			out = append(out, normCond(ifi.Cond, true, ifi))
		} else if EdgeDominates(d, f, b) {
			out = append(out, normCond(ifi.Cond, false, ifi))
		}
	}
	return out
}

// normCond strips logical negations.
func normCond(c ssa.Value, pol bool, ifi *ssa.If) CondPol {
	for {
		u, ok := c.(*ssa.UnOp)
		if !ok || u.Op != token.NOT {
			break
		}
		c = u.X
		pol = !pol
	}
	return CondPol{c, pol, ifi}
}

// IsNilCompare: c is `x == nil` / `x != nil`; returns x and whether "true" means non-nil.
func IsNilCompare(c ssa.Value) (x ssa.Value, trueMeansNonNil bool, ok bool) {
	b, isb := c.(*ssa.BinOp)
	if !isb || (b.Op != token.EQL && b.Op != token.NEQ) {
		return nil, false, false
	}
	isNil := func(v ssa.Value) bool {
		k, ok := v.(*ssa.Const)
		return ok && k.Value == nil
	}
	switch {
	case isNil(b.Y):
		x = b.X
	case isNil(b.X):
		x = b.Y
	default:
		return nil, false, false
	}
	return x, b.Op == token.NEQ, true
}

// IntConst returns the int64 value of a constant operand.
func IntConst(v ssa.Value) (int64, bool) {
	for {
		switch x := v.(type) {
		case *ssa.Convert:
			v = x.X
			continue
		case *ssa.ChangeType:
			v = x.X
			continue
		}
		break
	}
	c, ok := v.(*ssa.Const)
	if !ok || c.Value == nil || c.Value.Kind() != constant.Int {
		return 0, false
	}
	return c.Int64(), true
}

// Reaches reports whether block `to` is reachable from block `from` (inclusive).
func Reaches(from, to *ssa.BasicBlock) bool {
	seen := map[*ssa.BasicBlock]bool{}
	var walk func(b *ssa.BasicBlock) bool
	walk = func(b *ssa.BasicBlock) bool {
		if b == to {
			return true
		}
		if seen[b] {
			return false
		}
		seen[b] = true
		for _, s := range b.Succs {
			if walk(s) {
				return true
			}
		}
		return false
	}
	return walk(from)
}

// CallsIn lists the call instructions (call, defer, go) of f whose static callee is fn.
func CallsIn(f *ssa.Function, fn *ssa.Function) []ssa.CallInstruction {
	var out []ssa.CallInstruction
	AllInstrs(f, func(in ssa.Instruction) {
		if c, ok := CallTo(in, fn); ok {
			out = append(out, c)
		}
	})
	return out
}

// Origin looks through interface/type conversions and through loads of a local cell that is
// assigned exactly once (a parameter or local captured by a closure is spilled to such a cell).
func Origin(v ssa.Value) ssa.Value {
	for i := 0; i < 8; i++ {
		v = Unwrap(v)
		ld, ok := v.(*ssa.UnOp)
		if !ok || ld.Op != token.MUL {
			return v
		}
		a, ok := ld.X.(*ssa.Alloc)
		if !ok {
			return v
		}
		var only ssa.Value
		n := 0
		for _, r := range Referrers(a) {
			if st, ok := r.(*ssa.Store); ok && st.Addr == a {
				n++
				only = st.Val
			}
		}
		if n != 1 {
			return v
		}
		// closures may also write the cell
		escapesWritable := false
		for _, r := range Referrers(a) {
			if mc, ok := r.(*ssa.MakeClosure); ok {
				fn := mc.Fn.(*ssa.Function)
				for bi, b := range mc.Bindings {
					if b != a {
						continue
					}
					fv := fn.FreeVars[bi]
					for _, fr := range Referrers(fv) {
						if st, ok := fr.(*ssa.Store); ok && st.Addr == fv {
							escapesWritable = true
						}
					}
				}
			}
		}
		if escapesWritable {
			return v
		}
		v = only
	}
	return v
}

func isBool(t types.Type) bool {
	b, ok := t.Underlying().(*types.Basic)
	return ok && b.Kind() == types.Bool
}

package core

import (
	"go/token"
	"go/types"
	"sync"

	"golang.org/x/tools/go/callgraph"
	"golang.org/x/tools/go/callgraph/cha"
	"golang.org/x/tools/go/callgraph/vta"
	"golang.org/x/tools/go/ssa"
	"golang.org/x/tools/go/ssa/ssautil"
)

// Facts holds lazily computed inter-procedural summaries shared by rules.
type Facts struct {
	cgOnce sync.Once
	cg     *callgraph.Graph

	nrOnce   sync.Once
	noReturn map[*ssa.Function]bool
	// noReturnIfTrue[f][i]: f never returns when its bool parameter i is true
	noReturnIfTrue map[*ssa.Function]map[int]bool

	fwOnce       sync.Once
	fieldStores  map[*types.Var][]*FieldWrite
	fieldLoads   map[*types.Var][]ssa.Instruction
	fieldAddrAll map[*types.Var][]*ssa.FieldAddr

	script *scriptFacts
	wt     *wtFacts
}

func (p *Prog) f() *Facts {
	if p.facts == nil {
		p.facts = &Facts{}
	}
	return p.facts
}

// CallGraph returns the VTA-refined CHA call graph of the whole program.
func (p *Prog) CallGraph() *callgraph.Graph {
	f := p.f()
	f.cgOnce.Do(func() {
		all := ssautil.AllFunctions(p.SSA)
		f.cg = vta.CallGraph(all, cha.CallGraph(p.SSA))
	})
	return f.cg
}

// Callees returns the possible callees of a call site (static callee, or VTA targets).
func (p *Prog) Callees(site ssa.CallInstruction) []*ssa.Function {
	if sc := StaticCallee(site); sc != nil {
		return []*ssa.Function{sc}
	}
	cg := p.CallGraph()
	n := cg.Nodes[site.Parent()]
	if n == nil {
		return nil
	}
	var out []*ssa.Function
	for _, e := range n.Out {
		if e.Site == site {
			out = append(out, e.Callee.Func)
		}
	}
	return out
}

// NoReturn: every path of f ends in panic or in a call to a NoReturn function
// (least fixed point, seeds: panic, os.Exit, runtime.Goexit). Functions with a defer
// are conservatively treated as returning (a deferred recover may resume).
func (p *Prog) NoReturn(fn *ssa.Function) bool {
	f := p.f()
	f.nrOnce.Do(func() {
		nr := map[*ssa.Function]bool{}
		nrt := map[*ssa.Function]map[int]bool{}
		changed := true
		for changed {
			changed = false
			for _, fn := range p.Funcs {
				if !nr[fn] && !p.mayReturn(fn, nr, nrt, -1) {
					nr[fn] = true
					changed = true
				}
				if nr[fn] {
					continue
				}
				for i, prm := range fn.Params {
					if !isBool(prm.Type()) || nrt[fn][i] {
						continue
					}
					if !p.mayReturn(fn, nr, nrt, i) {
						if nrt[fn] == nil {
							nrt[fn] = map[int]bool{}
						}
						nrt[fn][i] = true
						changed = true
					}
				}
			}
		}
		f.noReturn, f.noReturnIfTrue = nr, nrt
	})
	if fn == nil {
		return false
	}
	if f.noReturn[fn] {
		return true
	}
	return externalNoReturn(fn)
}

// CallNeverReturns: the call is to a no-return function, or passes a constant true for a
// bool parameter under which the callee never returns (typeErrorResult(true, ...)).
func (p *Prog) CallNeverReturns(c *ssa.Call) bool {
	sc := c.Call.StaticCallee()
	if sc == nil {
		return false
	}
	if p.NoReturn(sc) {
		return true
	}
	return callNeverReturns(c, p.f().noReturn, p.f().noReturnIfTrue)
}

func callNeverReturns(c *ssa.Call, nr map[*ssa.Function]bool, nrt map[*ssa.Function]map[int]bool) bool {
	sc := c.Call.StaticCallee()
	if sc == nil {
		return false
	}
	if nr[sc] || externalNoReturn(sc) {
		return true
	}
	for i := range nrt[sc] {
		if i < len(c.Call.Args) {
			if k, ok := c.Call.Args[i].(*ssa.Const); ok && k.Value != nil && k.Value.String() == "true" {
				return true
			}
		}
	}
	return false
}

func externalNoReturn(fn *ssa.Function) bool {
	if fn.Pkg == nil {
		return false
	}
	switch fn.Pkg.Pkg.Path() + "." + fn.Name() {
	case "os.Exit", "runtime.Goexit", "log.Fatal", "log.Fatalf", "log.Fatalln", "log.Panic", "log.Panicf":
		return true
	}
	return false
}

// mayReturn: some Return is reachable from the entry. If assumeTrue >= 0, branches on that
// bool parameter are followed only along the edge taken when it is true.
func (p *Prog) mayReturn(fn *ssa.Function, nr map[*ssa.Function]bool, nrt map[*ssa.Function]map[int]bool, assumeTrue int) bool {
	if len(fn.Blocks) == 0 {
		return true
	}
	for _, b := range fn.Blocks {
		for _, in := range b.Instrs {
			if _, ok := in.(*ssa.Defer); ok {
				return true
			}
		}
	}
	var prm ssa.Value
	if assumeTrue >= 0 {
		prm = fn.Params[assumeTrue]
	}
	seen := map[*ssa.BasicBlock]bool{}
	var visit func(b *ssa.BasicBlock) bool
	visit = func(b *ssa.BasicBlock) bool {
		if seen[b] {
			return false
		}
		seen[b] = true
		for _, in := range b.Instrs {
			switch x := in.(type) {
			case *ssa.Return:
				return true
			case *ssa.Panic:
				return false
			case *ssa.Call:
				if callNeverReturns(x, nr, nrt) {
					return false
				}
			case *ssa.If:
				if prm != nil {
					c, pol := x.Cond, true
					for {
						u, ok := c.(*ssa.UnOp)
						if !ok || u.Op != token.NOT {
							break
						}
						c, pol = u.X, !pol
					}
					if c == prm {
						if pol {
							return visit(b.Succs[0])
						}
						return visit(b.Succs[1])
					}
				}
			}
		}
		for _, s := range b.Succs {
			if visit(s) {
				return true
			}
		}
		return false
	}
	return visit(fn.Blocks[0])
}

// BlockEndsNoReturn: index of the first instruction in b after which control never
// continues (a call to a NoReturn function or a panic), or -1.
func (p *Prog) FirstNoReturn(b *ssa.BasicBlock) int {
	for i, in := range b.Instrs {
		switch x := in.(type) {
		case *ssa.Panic:
			return i
		case *ssa.Call:
			if p.CallNeverReturns(x) {
				return i
			}
		}
	}
	return -1
}

// ---- field writers -----------------------------------------------------------

// FieldWrite is a write to a struct field, or to the contents reachable through it.
type FieldWrite struct {
	Field *types.Var
	Instr ssa.Instruction
	Fn    *ssa.Function
	// Kind: "store" (field itself assigned), "elem" (element of slice/array/map held in the field
	// written), "sub" (a sub-field of a struct-typed field written)
	Kind string
	Base ssa.Value // the struct pointer the FieldAddr was taken from
	Val  ssa.Value // stored value for Kind=="store"
}

func (p *Prog) buildFieldIndex() {
	f := p.f()
	f.fwOnce.Do(func() {
		f.fieldStores = map[*types.Var][]*FieldWrite{}
		f.fieldLoads = map[*types.Var][]ssa.Instruction{}
		f.fieldAddrAll = map[*types.Var][]*ssa.FieldAddr{}
		for _, fn := range p.Funcs {
			AllInstrs(fn, func(in ssa.Instruction) {
				fa, ok := in.(*ssa.FieldAddr)
				if !ok {
					return
				}
				fv := FieldOf(fa)
				if fv == nil {
					return
				}
				f.fieldAddrAll[fv] = append(f.fieldAddrAll[fv], fa)
				p.classifyAddrUses(fn, fv, fa, fa, "store", 0)
			})
		}
	})
}

// classifyAddrUses follows an address derived from a field.
func (p *Prog) classifyAddrUses(fn *ssa.Function, fv *types.Var, fa *ssa.FieldAddr, addr ssa.Value, kind string, depth int) {
	f := p.f()
	if depth > 4 {
		return
	}
	for _, r := range Referrers(addr) {
		switch x := r.(type) {
		case *ssa.Store:
			if x.Addr == addr {
				f.fieldStores[fv] = append(f.fieldStores[fv], &FieldWrite{Field: fv, Instr: x, Fn: fn, Kind: kind, Base: fa.X, Val: x.Val})
			}
		case *ssa.UnOp:
			if x.Op == token.MUL && x.X == addr {
				if kind == "store" {
					f.fieldLoads[fv] = append(f.fieldLoads[fv], x)
				}
				// loaded slice/map/pointer: writes through it are content writes
				p.classifyLoadedUses(fn, fv, fa, x, depth+1)
			}
		case *ssa.IndexAddr:
			if x.X == addr { // array field indexed in place
				p.classifyAddrUses(fn, fv, fa, x, "elem", depth+1)
			}
		case *ssa.FieldAddr:
			if x.X == addr {
				p.classifyAddrUses(fn, fv, fa, x, "sub", depth+1)
			}
		}
	}
}

func (p *Prog) classifyLoadedUses(fn *ssa.Function, fv *types.Var, fa *ssa.FieldAddr, v ssa.Value, depth int) {
	f := p.f()
	if depth > 4 {
		return
	}
	for _, r := range Referrers(v) {
		switch x := r.(type) {
		case *ssa.MapUpdate:
			if x.Map == v {
				f.fieldStores[fv] = append(f.fieldStores[fv], &FieldWrite{Field: fv, Instr: x, Fn: fn, Kind: "elem", Base: fa.X})
			}
		case *ssa.IndexAddr:
			if x.X == v {
				for _, rr := range Referrers(x) {
					if st, ok := rr.(*ssa.Store); ok && st.Addr == x {
						f.fieldStores[fv] = append(f.fieldStores[fv], &FieldWrite{Field: fv, Instr: st, Fn: fn, Kind: "elem", Base: fa.X})
					}
				}
			}
		case *ssa.Call:
			// delete(m, k) / clear(m) / copy(dst, ..) builtins
			if b, ok := x.Call.Value.(*ssa.Builtin); ok {
				switch b.Name() {
				case "delete", "clear":
					if len(x.Call.Args) > 0 && x.Call.Args[0] == v {
						f.fieldStores[fv] = append(f.fieldStores[fv], &FieldWrite{Field: fv, Instr: x, Fn: fn, Kind: "elem", Base: fa.X})
					}
				case "copy":
					if len(x.Call.Args) > 0 && x.Call.Args[0] == v {
						f.fieldStores[fv] = append(f.fieldStores[fv], &FieldWrite{Field: fv, Instr: x, Fn: fn, Kind: "elem", Base: fa.X})
					}
				}
			}
		case *ssa.Slice:
			if x.X == v {
				p.classifyLoadedUses(fn, fv, fa, x, depth+1)
			}
		}
	}
}

// FieldWrites returns every write to the field (or its contents) in the module.
func (p *Prog) FieldWrites(fv *types.Var) []*FieldWrite {
	p.buildFieldIndex()
	return p.f().fieldStores[fv]
}

// FieldLoads returns every direct load of the field.
func (p *Prog) FieldLoads(fv *types.Var) []ssa.Instruction {
	p.buildFieldIndex()
	return p.f().fieldLoads[fv]
}

// FieldAddrs returns every FieldAddr instruction of the field.
func (p *Prog) FieldAddrs(fv *types.Var) []*ssa.FieldAddr {
	p.buildFieldIndex()
	return p.f().fieldAddrAll[fv]
}

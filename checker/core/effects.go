package core

import (
	"go/token"
	"go/types"
	"sync"

	"golang.org/x/tools/go/ssa"
)

// AccessRoot walks an address/value back to where it comes from. It reports the parameter
// (or free variable) the memory is reached from and whether the path goes through a pointer,
// slice or map load (i.e. the memory is shared with whoever else holds the root), as opposed
// to being part of a by-value copy of the root.
type AccessRoot struct {
	Param  *ssa.Parameter
	Free   *ssa.FreeVar
	Global *ssa.Global
	Shared bool   // reached through a pointer/slice/map: visible to other holders
	Path   string // field path for diagnostics
	Local  bool   // rooted at a local allocation that never came from outside
}

func RootOf(v ssa.Value) AccessRoot {
	var r AccessRoot
	for i := 0; i < 24; i++ {
		switch x := v.(type) {
		case *ssa.FieldAddr:
			if fv := FieldOf(x); fv != nil {
				r.Path = "." + fv.Name() + r.Path
			}
			if _, isPtrParam := x.X.(*ssa.Parameter); isPtrParam {
				r.Shared = true // field of *T reached through a pointer parameter
			}
			v = x.X
		case *ssa.Field:
			v = x.X
		case *ssa.IndexAddr:
			r.Path = "[i]" + r.Path
			if _, isArr := x.X.Type().Underlying().(*types.Pointer); !isArr {
				r.Shared = true // slice element
			}
			v = x.X
		case *ssa.Index:
			v = x.X
		case *ssa.Lookup:
			r.Shared = true
			v = x.X
		case *ssa.Slice:
			v = x.X
		case *ssa.UnOp:
			if x.Op != token.MUL {
				return r
			}
			// a load: if it loads a reference, everything beyond is shared
			switch x.Type().Underlying().(type) {
			case *types.Pointer, *types.Slice, *types.Map, *types.Chan, *types.Interface, *types.Signature:
				r.Shared = true
			}
			v = x.X
		case *ssa.ChangeType:
			v = x.X
		case *ssa.Convert:
			v = x.X
		case *ssa.MakeInterface:
			v = x.X
		case *ssa.TypeAssert:
			v = x.X
		case *ssa.Extract:
			v = x.Tuple
		case *ssa.Phi:
			// follow the first non-self edge (approximation for diagnostics)
			var next ssa.Value
			for _, e := range x.Edges {
				if e != x {
					next = e
					break
				}
			}
			if next == nil {
				return r
			}
			v = next
		case *ssa.Alloc:
			// a spilled parameter (value receivers, captured params): the cell holds the parameter
			var src ssa.Value
			n := 0
			for _, ref := range Referrers(x) {
				if st, ok := ref.(*ssa.Store); ok && st.Addr == x {
					n++
					src = st.Val
				}
			}
			if n == 1 {
				if p, ok := src.(*ssa.Parameter); ok {
					r.Param = p
					return r
				}
			}
			r.Local = true
			return r
		case *ssa.Parameter:
			r.Param = x
			if _, isPtr := x.Type().Underlying().(*types.Pointer); isPtr && r.Path != "" {
				r.Shared = true
			}
			return r
		case *ssa.FreeVar:
			r.Free = x
			r.Shared = true
			return r
		case *ssa.Global:
			r.Global = x
			r.Shared = true
			return r
		default:
			return r
		}
	}
	return r
}

// Write is a store-like effect.
type Write struct {
	Instr ssa.Instruction
	Root  AccessRoot
}

// WritesOf lists the memory writes of f (Store, MapUpdate, delete/clear/copy/append-in-place are
// approximated by Store/MapUpdate and the delete/clear/copy builtins).
func WritesOf(f *ssa.Function) []Write {
	var out []Write
	AllInstrs(f, func(in ssa.Instruction) {
		switch x := in.(type) {
		case *ssa.Store:
			out = append(out, Write{in, RootOf(x.Addr)})
		case *ssa.MapUpdate:
			r := RootOf(x.Map)
			r.Shared = true
			out = append(out, Write{in, r})
		case *ssa.Call:
			if b, ok := x.Call.Value.(*ssa.Builtin); ok {
				switch b.Name() {
				case "delete", "clear", "copy":
					if len(x.Call.Args) > 0 {
						r := RootOf(x.Call.Args[0])
						r.Shared = true
						out = append(out, Write{in, r})
					}
				}
			}
		}
	})
	return out
}

type wtFacts struct {
	once sync.Once
	m    map[*ssa.Function]map[int]string // param index → description of a write through it
}

// WritesThrough: f (transitively, through static calls) writes to memory shared through its
// parameter i. Least fixed point over the module's functions; dynamic calls are ignored
// (rules that need them treat reference arguments to dynamic calls separately).
func (p *Prog) WritesThrough(f *ssa.Function, i int) (string, bool) {
	fc := p.f()
	if fc.wt == nil {
		fc.wt = &wtFacts{}
	}
	fc.wt.once.Do(func() {
		m := map[*ssa.Function]map[int]string{}
		set := func(fn *ssa.Function, idx int, why string) bool {
			if m[fn] == nil {
				m[fn] = map[int]string{}
			}
			if _, ok := m[fn][idx]; ok {
				return false
			}
			m[fn][idx] = why
			return true
		}
		pidx := func(fn *ssa.Function, prm *ssa.Parameter) int {
			for k, q := range fn.Params {
				if q == prm {
					return k
				}
			}
			return -1
		}
		for _, fn := range p.Funcs {
			for _, w := range WritesOf(fn) {
				if w.Root.Param != nil && w.Root.Shared {
					set(fn, pidx(fn, w.Root.Param), "writes "+w.Root.Param.Name()+w.Root.Path+" at "+p.Pos(w.Instr.Pos()))
				}
			}
		}
		for changed := true; changed; {
			changed = false
			for _, fn := range p.Funcs {
				AllInstrs(fn, func(in ssa.Instruction) {
					c, ok := in.(ssa.CallInstruction)
					if !ok {
						return
					}
					sc := StaticCallee(c)
					if sc == nil || m[sc] == nil {
						return
					}
					for ai, a := range c.Common().Args {
						why, ok := m[sc][ai]
						if !ok {
							continue
						}
						r := RootOf(a)
						if r.Param != nil {
							// passing the parameter itself (a reference) or memory reached through it
							if _, isRef := a.Type().Underlying().(*types.Pointer); isRef || r.Shared {
								if set(fn, pidx(fn, r.Param), "passes "+r.Param.Name()+r.Path+" to "+FuncName(sc)+", which "+why) {
									changed = true
								}
							}
						}
					}
				})
			}
		}
		fc.wt.m = m
	})
	why, ok := fc.wt.m[f][i]
	return why, ok
}

package rules

import (
	"fmt"
	"go/token"
	"go/types"

	"gojaverif/core"

	"golang.org/x/tools/go/ssa"
)

// baseObject keeps own string keys in insertion order and moves array-index keys to the front
// lazily (fixPropOrder). Two counters describe the processed prefix of propNames:
// lastSortedPropLen (names looked at) and idxPropCount (index keys at the very front),
// idxPropCount <= lastSortedPropLen. They are only up to date after ensurePropOrder().

// stripEmbedded follows &x.embedded chains back to the outermost object.
func stripEmbedded(v ssa.Value) ssa.Value {
	for i := 0; i < 8; i++ {
		fa, ok := v.(*ssa.FieldAddr)
		if !ok {
			break
		}
		st, _ := fa.X.Type().Underlying().(*types.Pointer)
		if st == nil {
			break
		}
		s, _ := st.Elem().Underlying().(*types.Struct)
		if s == nil || !s.Field(fa.Field).Embedded() {
			break
		}
		v = fa.X
	}
	return core.Origin(v)
}

// R-LAZYORDER: a reader of idxPropCount outside the bookkeeping itself must bring it up to date first.
var LazyOrder = &core.Rule{Name: "R-LAZYORDER", Run: runLazyOrder,
	Doc: "every load of baseObject.idxPropCount outside fixPropOrder/ensurePropOrder/_delete is dominated by a call of ensurePropOrder()/fixPropOrder() on the same object"}

func runLazyOrder(p *core.Prog) *core.Result {
	res := core.NewResult("R-LAZYORDER", 3)
	fIdx, err := p.Field(core.GojaPath, "baseObject", "idxPropCount")
	if err != nil {
		return res.Fail(err)
	}
	owners := map[*ssa.Function]bool{}
	refresh := map[*ssa.Function]bool{}
	for _, n := range []string{"fixPropOrder", "ensurePropOrder", "_delete"} {
		f, err := p.GojaMethod("baseObject", n)
		if err != nil {
			return res.Fail(err)
		}
		owners[f] = true
		if n != "_delete" {
			refresh[f] = true
		}
	}
	seq := map[string]int{}
	for _, ld := range p.FieldLoads(fIdx) {
		fn := ld.Parent()
		if owners[core.EnclosingTop(fn)] {
			continue
		}
		un, ok := ld.(*ssa.UnOp)
		if !ok {
			continue
		}
		fa, ok := un.X.(*ssa.FieldAddr)
		if !ok {
			continue
		}
		obj := stripEmbedded(fa.X)
		base := core.FuncName(fn) + ":reads idxPropCount"
		seq[base]++
		key := base
		if seq[base] > 1 {
			key = fmt.Sprintf("%s#%d", base, seq[base])
		}
		found := ""
		// closures (sort.Search callbacks) read the counter of the object refreshed by the parent
		search := []*ssa.Function{fn}
		if fn.Parent() != nil {
			search = append(search, fn.Parent())
		}
		for _, sf := range search {
			core.AllInstrs(sf, func(in ssa.Instruction) {
				c, ok := in.(*ssa.Call)
				if !ok || found != "" || !refresh[c.Call.StaticCallee()] || len(c.Call.Args) == 0 {
					return
				}
				recv := stripEmbedded(c.Call.Args[0])
				same := recv == obj
				if sf != fn {
					// the closure sees the parent's object through a free variable
					same = true
				}
				if !same {
					return
				}
				if sf != fn || core.InstrDominates(c, ld) {
					found = core.FuncName(c.Call.StaticCallee()) + " at " + p.Pos(c.Pos())
				}
			})
		}
		if found != "" {
			res.OK(key, p.Pos(ld.Pos()), "preceded by "+found)
		} else {
			res.Bad(key, p.Pos(ld.Pos()), "idxPropCount is read without bringing the lazily maintained key order up to date first (no dominating ensurePropOrder()/fixPropOrder() on the same object): index-named keys added since the last enumeration are not counted yet, so 'this object has no index keys' shortcuts skip existing properties (e.g. a setter or read-only index property on a prototype)")
		}
	}
	return res
}

// R-PROPCOUNTERS: when _delete removes the name at position i, each counter shrinks exactly when i
// lies inside the prefix it describes.
var PropCounters = &core.Rule{Name: "R-PROPCOUNTERS", Run: runPropCounters,
	Doc: "in baseObject._delete each decrement of lastSortedPropLen / idxPropCount is control-dependent on `i < <that counter>` and on no comparison with a smaller counter (idxPropCount <= lastSortedPropLen)"}

func runPropCounters(p *core.Prog) *core.Result {
	res := core.NewResult("R-PROPCOUNTERS", 2)
	fn, err := p.GojaMethod("baseObject", "_delete")
	if err != nil {
		return res.Fail(err)
	}
	fIdx, err := p.Field(core.GojaPath, "baseObject", "idxPropCount")
	if err != nil {
		return res.Fail(err)
	}
	fLast, err := p.Field(core.GojaPath, "baseObject", "lastSortedPropLen")
	if err != nil {
		return res.Fail(err)
	}
	counterOf := func(v ssa.Value) *types.Var {
		if un, ok := v.(*ssa.UnOp); ok && un.Op == token.MUL {
			if fa, ok := un.X.(*ssa.FieldAddr); ok {
				if f := core.FieldOf(fa); f == fIdx || f == fLast {
					return f
				}
			}
		}
		return nil
	}
	done := map[*types.Var]bool{}
	core.AllInstrs(fn, func(in ssa.Instruction) {
		st, ok := in.(*ssa.Store)
		if !ok {
			return
		}
		fa, ok := st.Addr.(*ssa.FieldAddr)
		if !ok {
			return
		}
		f := core.FieldOf(fa)
		if f != fIdx && f != fLast {
			return
		}
		key := "(*baseObject)._delete:" + f.Name() + "--"
		bo, ok := st.Val.(*ssa.BinOp)
		if !ok || bo.Op != token.SUB || counterOf(bo.X) != f {
			res.Unknown(key, p.Pos(st.Pos()), "store to the counter that is not a decrement")
			return
		}
		done[f] = true
		// which counters is the position compared with (as `pos < counter`) on the way here
		cmp := map[*types.Var]bool{}
		for _, cp := range core.ControllingConds(st.Block()) {
			b, ok := cp.Cond.(*ssa.BinOp)
			if !ok {
				continue
			}
			var c *types.Var
			less := false
			switch {
			case counterOf(b.Y) != nil && (b.Op == token.LSS || b.Op == token.GEQ):
				c = counterOf(b.Y)
				less = (b.Op == token.LSS) == cp.Pol
			case counterOf(b.X) != nil && (b.Op == token.GTR || b.Op == token.LEQ):
				c = counterOf(b.X)
				less = (b.Op == token.GTR) == cp.Pol
			}
			if c != nil && less {
				cmp[c] = true
			}
		}
		switch {
		case !cmp[f]:
			res.Bad(key, p.Pos(st.Pos()), fmt.Sprintf("%s is decremented on a path that never tested `i < %s`: it must shrink exactly when the removed name lies inside the prefix it counts", f.Name(), f.Name()))
		case f == fLast && cmp[fIdx]:
			res.Bad(key, p.Pos(st.Pos()), "lastSortedPropLen is decremented only when i < idxPropCount (the smaller counter): deleting a processed non-index name leaves lastSortedPropLen too large, so fixPropOrder() skips a name added later and an index key stays out of order / uncounted")
		default:
			res.OK(key, p.Pos(st.Pos()), "decrement guarded by the comparison with its own counter")
		}
	})
	// every path that shortens propNames reaches the comparison with lastSortedPropLen
	if fNames, err := p.Field(core.GojaPath, "baseObject", "propNames"); err == nil {
		cmpBlocks := map[*ssa.BasicBlock]bool{}
		core.AllInstrs(fn, func(in ssa.Instruction) {
			if b, ok := in.(*ssa.BinOp); ok && (counterOf(b.X) == fLast || counterOf(b.Y) == fLast) {
				cmpBlocks[in.Block()] = true
			}
		})
		k := 0
		core.AllInstrs(fn, func(in ssa.Instruction) {
			st, ok := in.(*ssa.Store)
			if !ok {
				return
			}
			fa, ok := st.Addr.(*ssa.FieldAddr)
			if !ok || core.FieldOf(fa) != fNames {
				return
			}
			k++
			key := fmt.Sprintf("(*baseObject)._delete:propNames store#%d reaches the counter update", k)
			// a return reachable from here without passing a comparison block?
			seen := map[*ssa.BasicBlock]bool{}
			var bad bool
			var walk func(b *ssa.BasicBlock)
			walk = func(b *ssa.BasicBlock) {
				if seen[b] || bad || cmpBlocks[b] {
					return
				}
				seen[b] = true
				if len(b.Instrs) > 0 {
					if _, isRet := b.Instrs[len(b.Instrs)-1].(*ssa.Return); isRet {
						bad = true
						return
					}
				}
				for _, s := range b.Succs {
					walk(s)
				}
			}
			if !cmpBlocks[st.Block()] {
				for _, s := range st.Block().Succs {
					walk(s)
				}
				if len(st.Block().Succs) == 0 {
					bad = true
				}
			}
			if bad {
				res.Bad(key, p.Pos(st.Pos()), "a name is removed from propNames on a path that returns without comparing its position with lastSortedPropLen: the sorted-prefix counters stay too large, so a key added next is never sorted in (wrong own-key order) and idxPropCount-based shortcuts misfire")
			} else {
				res.OK(key, p.Pos(st.Pos()), "followed by the comparison with lastSortedPropLen on every path")
			}
		})
	}
	for _, f := range []*types.Var{fIdx, fLast} {
		if !done[f] {
			res.Bad("(*baseObject)._delete:"+f.Name()+"--", p.Pos(fn.Pos()), f.Name()+" is never decremented when a name is removed from propNames")
		}
	}
	return res
}

package rules

import (
	"fmt"
	"go/token"
	"strings"

	"gojaverif/core"

	"golang.org/x/tools/go/ssa"
)

// R-DEFNOVALUE (C13, C04).
//
// [[DefineOwnProperty]] with a descriptor that has no [[Value]] (Object.seal, Object.freeze,
// defineProperty(o, k, {enumerable: true})) leaves the value of an existing property alone. The
// Go-backed object kinds implement defineOwnProperty by hand, per kind; the map-backed ones test
// `descr.Value != nil`, the slice/array-backed ones replaced a missing value by undefined and wrote
// it - Object.seal() on a wrapped []int zeroed the Go slice.
//
// Rule: in the defineOwnProperty* methods of the objectGo* kinds, a value that is `descr.Value` or
// else a default (a phi merging the loaded descr.Value with something else) reaches a write only
// if the default edge is taken under a further test (the element does not exist yet); the
// edge that is controlled by nothing but `descr.Value == nil` means "no value given, existing
// element" and must not lead to the write.
var DefNoValue = &core.Rule{Name: "R-DEFNOVALUE", Run: runDefNoValue,
	Doc: "in the Go-backed kinds' defineOwnProperty*, a missing descr.Value is replaced by a default only under a test that the element does not exist"}

func runDefNoValue(p *core.Prog) *core.Result {
	res := core.NewResult("R-DEFNOVALUE", 4)
	valueF, err := p.Field(core.GojaPath, "PropertyDescriptor", "Value")
	if err != nil {
		return res.Fail(err)
	}
	isDescrValue := func(v ssa.Value) bool {
		switch x := v.(type) {
		case *ssa.UnOp:
			return x.Op == token.MUL && core.FieldOf(x.X) == valueF
		case *ssa.Field:
			return core.FieldOf(x) == valueF
		}
		return false
	}
	nPer := map[string]int{}
	for _, f := range p.Funcs {
		if !p.InModule(f) || f.Parent() != nil || !strings.HasPrefix(f.Name(), "defineOwnProperty") {
			continue
		}
		recv := f.Signature.Recv()
		if recv == nil {
			continue
		}
		rn := core.NamedOf(recv.Type())
		if rn == nil || !strings.HasPrefix(rn.Obj().Name(), "objectGo") {
			continue
		}
		name := core.FuncName(f)
		core.AllInstrs(f, func(in ssa.Instruction) {
			ph, ok := in.(*ssa.Phi)
			if !ok {
				return
			}
			hasVal := false
			for _, e := range ph.Edges {
				if isDescrValue(e) {
					hasVal = true
				}
			}
			if !hasVal {
				return
			}
			var valLoad ssa.Instruction
			for _, e := range ph.Edges {
				if isDescrValue(e) {
					valLoad, _ = e.(ssa.Instruction)
				}
			}
			for i, e := range ph.Edges {
				if isDescrValue(e) {
					continue
				}
				nPer[name]++
				key := fmt.Sprintf("%s:default for a missing descr.Value only for a new element", name)
				if nPer[name] > 1 {
					key = fmt.Sprintf("%s#%d", key, nPer[name])
				}
				pred := ph.Block().Preds[i]
				extra := 0
				for _, cp := range core.ControllingConds(pred) {
					if x, _, isNil := core.IsNilCompare(cp.Cond); isNil && isDescrValue(x) {
						continue
					}
					// tests made before descr.Value was even read (index valid, descriptor acceptable) say nothing
					// about the element
					if valLoad != nil && cp.If.Block() != valLoad.Block() && cp.If.Block().Dominates(valLoad.Block()) {
						continue
					}
					extra++
				}
				if extra > 0 {
					res.OK(key, p.Pos(ph.Pos()), "the default is taken under a further test (element absent)")
				} else {
					res.Bad(key, p.Pos(ph.Pos()), "a descriptor without [[Value]] is turned into a write of a default value whether or not the element exists: Object.seal / Object.freeze / defineProperty(o, i, {enumerable:true}) on a wrapped Go slice or array overwrite its elements with zero values")
				}
			}
		})
	}
	return res
}

package rules

import (
	"fmt"
	"go/types"
	"sort"
	"strings"

	"go/token"

	"gojaverif/core"

	"golang.org/x/tools/go/ssa"
)

// R-OVERRIDECLOSURE: ~50 object kinds implement the 60-method objectImpl, most by embedding
// baseObject and overriding a subset. Go embedding makes a missing override fall back
// silently to baseObject, which answers from baseObject.values/symValues. If a kind answers
// [[GetOwnProperty]] for key kind K from custom storage, the other internal methods for K
// must not come from baseObject either, or they disagree with the descriptor.
var OverrideClosure = &core.Rule{Name: "R-OVERRIDECLOSURE", Run: runOverrideClosure,
	Doc: "method-set matrix closure: a kind that overrides getOwnProp<K> also overrides get/hasOwnProperty/delete/defineOwnProperty/setOwn/setForeign <K> and the matching enumerators"}

var keyKinds = []string{"Str", "Idx", "Sym"}

// the core group per key kind
func coreGroup(k string) []string {
	g := []string{"get" + k, "hasOwnProperty" + k, "delete" + k, "defineOwnProperty" + k, "setOwn" + k, "setForeign" + k, "hasProperty" + k}
	if k == "Sym" {
		g = append(g, "symbols", "iterateSymbols")
	} else {
		g = append(g, "stringKeys", "iterateStringKeys")
	}
	return g
}

// objectKinds returns every named struct type T of package goja with *T implementing objectImpl.
func objectKinds(p *core.Prog) ([]*types.Named, *types.Interface, error) {
	oi, err := p.GojaType("objectImpl")
	if err != nil {
		return nil, nil, err
	}
	iface := oi.Underlying().(*types.Interface)
	var kinds []*types.Named
	scope := p.Goja.Types.Scope()
	for _, name := range scope.Names() {
		tn, ok := scope.Lookup(name).(*types.TypeName)
		if !ok || tn.IsAlias() {
			continue
		}
		n, ok := tn.Type().(*types.Named)
		if !ok {
			continue
		}
		if _, isStruct := n.Underlying().(*types.Struct); !isStruct {
			continue
		}
		if types.Implements(types.NewPointer(n), iface) {
			kinds = append(kinds, n)
		}
	}
	return kinds, iface, nil
}

// declaringType returns the named type on which method `name` of *T is declared.
func declaringType(T *types.Named, name string) *types.Named {
	obj, _, _ := types.LookupFieldOrMethod(types.NewPointer(T), true, T.Obj().Pkg(), name)
	fn, ok := obj.(*types.Func)
	if !ok {
		return nil
	}
	recv := fn.Type().(*types.Signature).Recv()
	if recv == nil {
		return nil
	}
	return core.NamedOf(recv.Type())
}

// overrideExceptions: (kind, method) pairs where falling back to baseObject is correct, with the reason.
var overrideExceptions = map[string]string{
	"argumentsObject.hasOwnPropertyStr": "mapped elements stay keyed in baseObject.values (as *mappedProperty); only the value is indirected, so key presence is answered correctly by baseObject",
}

// virtualOnly computes, for a baseObject method, the objectImpl methods it invokes through
// o.val.self (dynamic dispatch back to the concrete kind), provided the method does not touch
// baseObject's own property storage or call a baseObject method statically on the receiver.
func virtualOnly(p *core.Prog, base *types.Named, name string) ([]string, bool) {
	fn, err := p.GojaMethod("baseObject", name)
	if err != nil || fn == nil || len(fn.Params) == 0 {
		return nil, false
	}
	recv := fn.Params[0]
	storage := map[string]bool{"values": true, "propNames": true, "symValues": true, "idxPropCount": true, "lastSortedPropLen": true}
	ok := true
	var invoked []string
	core.AllInstrs(fn, func(in ssa.Instruction) {
		switch x := in.(type) {
		case *ssa.FieldAddr:
			if x.X == recv {
				if fv := core.FieldOf(x); fv != nil && storage[fv.Name()] {
					ok = false
				}
			}
		case ssa.CallInstruction:
			c := x.Common()
			if c.IsInvoke() {
				// receiver must be o.val.self
				if ld, isld := c.Value.(*ssa.UnOp); isld && ld.Op == token.MUL {
					if fa, isfa := ld.X.(*ssa.FieldAddr); isfa && core.FieldOf(fa) != nil && core.FieldOf(fa).Name() == "self" {
						if ld2, ok2 := fa.X.(*ssa.UnOp); ok2 && ld2.Op == token.MUL {
							if fa2, ok3 := ld2.X.(*ssa.FieldAddr); ok3 && fa2.X == recv && core.FieldOf(fa2).Name() == "val" {
								invoked = append(invoked, c.Method.Name())
							}
						}
					}
				}
				return
			}
			if sc := c.StaticCallee(); sc != nil && len(c.Args) > 0 && c.Args[0] == recv && sc.Signature.Recv() != nil {
				ok = false // static call of another baseObject method on the same receiver
			}
		}
	})
	return invoked, ok && len(invoked) > 0
}

// dispatchesBack: baseObject.m is virtual-only and everything it invokes on o.val.self is
// resolved outside baseObject for T (directly, by exception, or recursively).
func dispatchesBack(p *core.Prog, base, T *types.Named, m string, depth int) (string, bool) {
	if depth > 3 {
		return "", false
	}
	inv, ok := virtualOnly(p, base, m)
	if !ok {
		return "", false
	}
	var via []string
	for _, m2 := range inv {
		d := declaringType(T, m2)
		switch {
		case d != nil && d != base:
			via = append(via, m2)
		case overrideExceptions[T.Obj().Name()+"."+m2] != "":
			via = append(via, m2+" (exception)")
		default:
			v2, ok := dispatchesBack(p, base, T, m2, depth+1)
			if !ok {
				return "", false
			}
			via = append(via, m2+"->"+v2)
		}
	}
	return strings.Join(via, ","), true
}

func runOverrideClosure(p *core.Prog) *core.Result {
	res := core.NewResult("R-OVERRIDECLOSURE", 60)
	kinds, _, err := objectKinds(p)
	if err != nil {
		return res.Fail(err)
	}
	base, err := p.GojaType("baseObject")
	if err != nil {
		return res.Fail(err)
	}
	sort.Slice(kinds, func(i, j int) bool { return kinds[i].Obj().Name() < kinds[j].Obj().Name() })
	triggered := 0
	for _, T := range kinds {
		if T == base {
			continue
		}
		for _, k := range keyKinds {
			d := declaringType(T, "getOwnProp"+k)
			if d == nil || d == base {
				continue
			}
			triggered++
			var missing []string
			for _, m := range coreGroup(k) {
				dm := declaringType(T, m)
				key := fmt.Sprintf("%s:%s", T.Obj().Name(), m)
				pos := p.Pos(T.Obj().Pos())
				if dm != nil && dm != base {
					res.OK(key, pos, "resolved on "+dm.Obj().Name())
					continue
				}
				if why, ok := overrideExceptions[T.Obj().Name()+"."+m]; ok {
					res.OK(key, pos, "table exception: "+why)
					continue
				}
				if via, ok := dispatchesBack(p, base, T, m, 0); ok {
					res.OK(key, pos, "baseObject."+m+" only dispatches through o.val.self to "+via+", which this kind overrides")
					continue
				}
				missing = append(missing, m)
				res.Bad(key, pos, fmt.Sprintf("%s answers getOwnProp%s from its own storage (declared on %s) but %s falls back to baseObject, which answers from baseObject.values/symValues: the two disagree for this kind", T.Obj().Name(), k, d.Obj().Name(), m))
			}
			if len(missing) > 0 {
				res.Note("%s/%s missing: %s", T.Obj().Name(), k, strings.Join(missing, ","))
			}
		}
	}
	res.Count("object_kinds", len(kinds))
	res.Count("kind_keykind_pairs_with_custom_getOwnProp", triggered)
	return res
}

package rules

import (
	"fmt"
	"go/token"

	"gojaverif/core"

	"golang.org/x/tools/go/ssa"
)

// R-WRAPPERTXN: element/field wrappers handed out by a reflect-backed object alias the Go memory
// they came from and are cached per slot. Overwriting a slot is a small transaction: the cached
// wrapper is detached (copyReflectValueWrapper gives it a private copy of the old value), the new
// value is converted into the slot (toReflectValue, may fail), and then either the wrapper is
// dropped from the cache (success) or re-attached to the slot (failure: nothing changed, so the
// wrapper must keep aliasing it).
var WrapperTxn = &core.Rule{Name: "R-WRAPPERTXN", Run: runWrapperTxn,
	Doc: "in every function that calls copyReflectValueWrapper(w) and then toReflectValue: on the err != nil edge w.setReflectValue(slot) is called, and every removal of w from the value cache (nil store / delete) is control-dependent on err == nil"}

func runWrapperTxn(p *core.Prog) *core.Result {
	res := core.NewResult("R-WRAPPERTXN", 4)
	detach, err := p.GojaFunc("copyReflectValueWrapper")
	if err != nil {
		return res.Fail(err)
	}
	conv, err := p.GojaMethod("Runtime", "toReflectValue")
	if err != nil {
		return res.Fail(err)
	}
	n := 0
	for _, fn := range p.Funcs {
		if !p.InModule(fn) || fn.Blocks == nil {
			continue
		}
		ds := core.CallsIn(fn, detach)
		cs := core.CallsIn(fn, conv)
		if len(ds) == 0 || len(cs) == 0 {
			continue
		}
		n++
		name := core.FuncName(fn)
		w := core.Origin(ds[0].Common().Args[0])
		convCall, _ := cs[0].(*ssa.Call)
		if convCall == nil {
			res.Unknown(name+":conversion", p.Pos(cs[0].Pos()), "toReflectValue is not called as a plain call")
			continue
		}
		// classify a block: on the error edge / on the success edge of `err != nil`
		edge := func(b *ssa.BasicBlock) (onErr, onOK bool) {
			for _, cp := range core.ControllingConds(b) {
				x, nonNil, ok := core.IsNilCompare(cp.Cond)
				if !ok || core.Origin(x) != ssa.Value(convCall) {
					continue
				}
				if cp.Pol == nonNil {
					onErr = true
				} else {
					onOK = true
				}
			}
			return
		}
		reattached := false
		var drops []ssa.Instruction
		core.AllInstrs(fn, func(in ssa.Instruction) {
			switch x := in.(type) {
			case *ssa.Call:
				if x.Call.IsInvoke() && x.Call.Method.Name() == "setReflectValue" && core.Origin(x.Call.Value) == w {
					if onErr, _ := edge(x.Block()); onErr {
						reattached = true
					}
				}
				if b, ok := x.Call.Value.(*ssa.Builtin); ok && b.Name() == "delete" && len(x.Call.Args) == 2 && isValueCache(x.Call.Args[0]) {
					drops = append(drops, in)
				}
			case *ssa.Store:
				if c, ok := x.Val.(*ssa.Const); ok && c.IsNil() {
					if ia, ok := x.Addr.(*ssa.IndexAddr); ok && isValueCache(ia.X) {
						drops = append(drops, in)
					}
				}
			case *ssa.MapUpdate:
				if c, ok := x.Value.(*ssa.Const); ok && c.IsNil() && isValueCache(x.Map) {
					drops = append(drops, in)
				}
			}
		})
		if reattached {
			res.OK(name+":re-attach on failure", p.Pos(convCall.Pos()), "setReflectValue on the detached wrapper on the err != nil edge")
		} else {
			res.Bad(name+":re-attach on failure", p.Pos(convCall.Pos()), "after copyReflectValueWrapper(w) a failed toReflectValue leaves the slot unchanged but w is not re-attached (w.setReflectValue(slot) on the err != nil edge): a wrapper handed out earlier silently stops aliasing the Go value although the assignment threw")
		}
		for i, d := range drops {
			key := fmt.Sprintf("%s:cache drop#%d only on success", name, i+1)
			if _, onOK := edge(d.Block()); onOK {
				res.OK(key, p.Pos(d.Pos()), "control-dependent on err == nil")
			} else {
				res.Bad(key, p.Pos(d.Pos()), "the cached wrapper is dropped before it is known that the assignment succeeded: on failure the next access creates a second wrapper for the same slot and the old one (still referenced by script) is detached from the Go value")
			}
		}
		if len(drops) == 0 {
			res.Bad(name+":cache drop", p.Pos(fn.Pos()), "the detached wrapper is never removed from the cache after a successful overwrite: the cache keeps handing out a wrapper that no longer aliases the slot")
		}
	}
	if n < 2 {
		res.Unknown("floor:transaction sites", "", fmt.Sprintf("only %d detach+convert sites found (confirmed by hand: objectGoArrayReflect._putIdx, objectGoReflect._put)", n))
	}
	return res
}

// isValueCache: v is (a load of) a field named valueCache.
func isValueCache(v ssa.Value) bool {
	v = core.Origin(v)
	if ld, ok := v.(*ssa.UnOp); ok && ld.Op == token.MUL {
		if fa, ok := ld.X.(*ssa.FieldAddr); ok {
			if f := core.FieldOf(fa); f != nil && f.Name() == "valueCache" {
				return true
			}
		}
	}
	if fa, ok := v.(*ssa.FieldAddr); ok {
		if f := core.FieldOf(fa); f != nil && f.Name() == "valueCache" {
			return true
		}
	}
	return false
}

package rules

import (
	"fmt"

	"gojaverif/core"

	"golang.org/x/tools/go/ssa"
)

// R-SCRATCHOBJ (C06 "strings ... are indistinguishable", C02).
//
// Value.baseObject(r) gives property access on a primitive an object to look the property up on.
// For strings it is a per-Runtime *scratch* String object that is re-pointed at the string on every
// call (no allocation per `s.length`). The object is therefore only valid until the next
// baseObject() call on a string - and any call that may run script can make one. A use of the
// object after such a call reads the properties of whatever string the script touched last:
// `"abc"[{toString(){ "xyz".length; return "0" }}]` gave "x".
// Rule: between a call of Value.baseObject and each use of its result there is no call that may
// run script (path search that stops at a fresh baseObject call of the same site).
var ScratchObj = &core.Rule{Name: "R-SCRATCHOBJ", Run: runScratchObj,
	Doc: "no call that may run script lies on a path between Value.baseObject(r) and a use of the (possibly shared scratch) object it returned"}

func runScratchObj(p *core.Prog) *core.Result {
	res := core.NewResult("R-SCRATCHOBJ", 8)
	valT, err := p.GojaType("Value")
	if err != nil {
		return res.Fail(err)
	}
	n := map[string]int{}
	for _, f := range p.Funcs {
		core.AllInstrs(f, func(in ssa.Instruction) {
			d, ok := in.(*ssa.Call)
			if !ok || !d.Call.IsInvoke() || d.Call.Method.Name() != "baseObject" || core.NamedOf(d.Call.Value.Type()) != valT {
				return
			}
			k := core.FuncName(f) + ":object from Value.baseObject used before any script can run"
			n[k]++
			key := k
			if n[k] > 1 {
				key = fmt.Sprintf("%s#%d", k, n[k])
			}
			// uses: every instruction referring to the result (through phis)
			uses := map[ssa.Instruction]bool{}
			seenV := map[ssa.Value]bool{}
			var collect func(v ssa.Value)
			collect = func(v ssa.Value) {
				if seenV[v] {
					return
				}
				seenV[v] = true
				for _, r := range core.Referrers(v) {
					if ph, ok := r.(*ssa.Phi); ok {
						collect(ph)
						continue
					}
					if bo, ok := r.(*ssa.BinOp); ok {
						_ = bo // nil comparison: not a use of the object's contents
						continue
					}
					uses[r] = true
				}
			}
			collect(d)
			// search from just after d: is a use reachable after passing a may-run-script call?
			type st struct {
				b      *ssa.BasicBlock
				killed bool
			}
			seen := map[st]bool{}
			var bad, killer ssa.Instruction
			var walk func(b *ssa.BasicBlock, from int, killed bool, by ssa.Instruction)
			walk = func(b *ssa.BasicBlock, from int, killed bool, by ssa.Instruction) {
				if bad != nil {
					return
				}
				for j := from; j < len(b.Instrs); j++ {
					x := b.Instrs[j]
					if x == ssa.Instruction(d) {
						return // refreshed
					}
					if killed && uses[x] {
						bad, killer = x, by
						return
					}
					if c, ok := x.(ssa.CallInstruction); ok {
						if _, isB := c.Common().Value.(*ssa.Builtin); !isB {
							if cc, isCall := x.(*ssa.Call); isCall && p.CallNeverReturns(cc) {
								return
							}
							if why := p.MayRunScript(c); why != "" && !killed {
								// a call that consumes the object (receiver/argument) uses it before script runs
								killed, by = true, x
							}
						}
					}
					if _, ok := x.(*ssa.Panic); ok {
						return
					}
				}
				for _, s := range b.Succs {
					k := st{s, killed}
					if !seen[k] {
						seen[k] = true
						walk(s, 0, killed, by)
					}
				}
			}
			walk(d.Block(), core.InstrIndex(d)+1, false, nil)
			if bad == nil {
				res.OK(key, p.Pos(d.Pos()), fmt.Sprintf("%d uses, none after a call that may run script", len(uses)))
			} else {
				res.Bad(key, p.Pos(bad.Pos()), fmt.Sprintf("the object obtained at %s is used here after %s, which may run script (%s): for a string primitive it is the Runtime's shared scratch String object, which that script can have re-pointed at another string", p.Pos(d.Pos()), p.Pos(killer.Pos()), p.MayRunScript(killer.(ssa.CallInstruction))))
			}
		})
	}
	return res
}

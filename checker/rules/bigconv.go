package rules

import (
	"fmt"
	"go/types"

	"gojaverif/core"

	"golang.org/x/tools/go/ssa"
)

// R-BIGCONV (C05, C17).
//
// (*big.Int).Int64() and Uint64() are truncations with an undefined result when the value does
// not fit ("If x cannot be represented in an int64, the result is undefined" - in practice the low
// 64 bits of |x|, sign applied). A BigInt of any size reaches them from script.
//
// Rule: the receiver of every Int64()/Uint64() call is in range by construction or by test:
//   - it is the result of toBigInt64() (reduced into [-2^63, 2^63): Int64 is exact; Uint64 is not,
//     the value may be negative) or of toBigUint64() (reduced into [0, 2^64): Uint64 is exact),
//   - or the call is controlled by IsInt64() / IsUint64() of the same value, or Uint64() of an
//     Abs() result by IsUint64() of the operand or its negation,
//   - or it is a parameter and every static caller passes such a value.
var BigConv = &core.Rule{Name: "R-BIGCONV", Run: runBigConv,
	Doc: "every (*big.Int).Int64()/Uint64() call has a receiver reduced into range (toBigInt64/toBigUint64) or tested with IsInt64()/IsUint64()"}

var bigConvNotDecided = map[string]string{
	"ftoa.ftoa":       "port of dtoa: the receiver is a digit, the quotient of two big integers whose ratio the algorithm keeps below 10 (value-level)",
	"ftoa.FToBaseStr": "a digit below the radix, the integer part of a fraction multiplied by the radix (value-level)",
}

func runBigConv(p *core.Prog) *core.Result {
	res := core.NewResult("R-BIGCONV", 8)
	toB64, err := p.GojaFunc("toBigInt64")
	if err != nil {
		return res.Fail(err)
	}
	toBU64, err := p.GojaFunc("toBigUint64")
	if err != nil {
		return res.Fail(err)
	}
	bigMethod := func(c ssa.CallInstruction) string {
		f := c.Common().StaticCallee()
		if f == nil || f.Pkg == nil || f.Pkg.Pkg.Path() != "math/big" {
			return ""
		}
		r := f.Signature.Recv()
		if r == nil || types.TypeString(r.Type(), nil) != "*math/big.Int" {
			return ""
		}
		return f.Name()
	}
	strip := func(v ssa.Value) ssa.Value {
		for i := 0; i < 4; i++ {
			switch x := v.(type) {
			case *ssa.ChangeType:
				v = x.X
				continue
			case *ssa.Convert:
				v = x.X
				continue
			}
			break
		}
		return core.Origin(v)
	}
	var inRange func(v ssa.Value, want string, at *ssa.BasicBlock, f *ssa.Function, depth int) string
	inRange = func(v ssa.Value, want string, at *ssa.BasicBlock, f *ssa.Function, depth int) string {
		v = strip(v)
		if c, ok := v.(*ssa.Call); ok {
			switch c.Call.StaticCallee() {
			case toB64:
				if want == "Int64" {
					return "reduced by toBigInt64"
				}
				return ""
			case toBU64:
				if want == "Uint64" {
					return "reduced by toBigUint64"
				}
				return ""
			}
		}
		// a controlling IsInt64()/IsUint64() on the same value
		for _, cp := range core.ControllingConds(at) {
			c, ok := cp.Cond.(*ssa.Call)
			if !ok || !cp.Pol {
				continue
			}
			m := bigMethod(c)
			if (m == "IsInt64" && want == "Int64" || m == "IsUint64" && want == "Uint64") && strip(c.Call.Args[0]) == v {
				return "under " + m + "()"
			}
		}
		// Abs(x).Uint64() under x.IsUint64() || Neg(x).IsUint64() (either polarity chain): accept when any
		// controlling condition involves IsUint64 and the receiver is an Abs result
		if c, ok := v.(*ssa.Call); ok && bigMethod(c) == "Abs" && want == "Uint64" {
			found := false
			core.AllInstrs(f, func(in ssa.Instruction) {
				if c2, ok := in.(*ssa.Call); ok && bigMethod(c2) == "IsUint64" && core.InstrDominates(c2, c) {
					found = true
				}
			})
			if found {
				return "Abs() of a value tested with IsUint64() (both signs)"
			}
		}
		// a parameter: every static caller
		if prm, ok := v.(*ssa.Parameter); ok && depth < 2 {
			idx := -1
			for i, q := range f.Params {
				if q == prm {
					idx = i
				}
			}
			n, okAll := 0, true
			for _, g := range p.Funcs {
				for _, c := range core.CallsIn(g, f) {
					n++
					if inRange(c.Common().Args[idx], want, c.Block(), g, depth+1) == "" {
						okAll = false
					}
				}
			}
			if n > 0 && okAll && idx >= 0 {
				return fmt.Sprintf("parameter: all %d static callers pass a value in range", n)
			}
		}
		return ""
	}
	n := map[string]int{}
	for _, f := range p.Funcs {
		if !p.InModule(f) {
			continue
		}
		core.AllInstrs(f, func(in ssa.Instruction) {
			c, ok := in.(*ssa.Call)
			if !ok {
				return
			}
			m := bigMethod(c)
			if m != "Int64" && m != "Uint64" {
				return
			}
			k := fmt.Sprintf("%s:big.Int.%s() on a value in range", core.FuncName(f), m)
			n[k]++
			key := k
			if n[k] > 1 {
				key = fmt.Sprintf("%s#%d", k, n[k])
			}
			if why := inRange(c.Call.Args[0], m, c.Block(), f, 0); why != "" {
				res.OK(key, p.Pos(c.Pos()), why)
			} else if why, ok := bigConvNotDecided[core.FuncName(f)]; ok {
				res.Inform(key, p.Pos(c.Pos()), "not decided: "+why)
			} else {
				res.Bad(key, p.Pos(c.Pos()), fmt.Sprintf("(*big.Int).%s() truncates: its result is undefined when the value does not fit, and nothing here reduces the value into range or tests Is%s(): a BigInt of any size reaches this call from script", m, m))
			}
		})
	}
	return res
}

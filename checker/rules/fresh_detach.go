package rules

import (
	"fmt"
	"go/token"
	"go/types"
	"strings"

	"gojaverif/core"

	"golang.org/x/tools/go/ssa"
)

// R-FRESH(detach): element access of typed arrays is unsafe.Add(SliceData(buf), idx) with no
// bounds check, and ArrayBuffer contents are only ever invalidated by detach. So every raw
// access must happen while a detach check on that array/buffer is still fresh, i.e. with no
// call that may run script (and return) since the check.
var FreshDetach = &core.Rule{Name: "R-FRESH-DETACH", Run: runFreshDetach,
	Doc: "guard-freshness dataflow: every typedArray.{get,set,getRaw,setRaw,less,swap,export} call and every slicing/indexing of arrayBufferObject.data is reached only by paths on which the buffer was checked not-detached (or freshly allocated) after the last call that may run script"}

type detachAnchors struct {
	taT, abT, dvT, sortT                                         *types.Named
	typedArrayIface                                              *types.Named
	ensure                                                       *ssa.Function
	fViewedTA, fViewedDV, fData, fDetached, fTypedArray, fSortTA *types.Var
	fDefaultCtor, fVal, fSortDetached, fNeedValidate             *types.Var
	typedArrayCreate, toConstructor, checkDetached               *ssa.Function
	sp                                                           *core.FreshSpec
	prog                                                         *core.Prog
	stable                                                       map[*types.Var]bool
	elemTypes                                                    map[*types.Named]bool
	useMethods                                                   map[string]bool
}

func resolveDetachAnchors(p *core.Prog) (*detachAnchors, error) {
	a := &detachAnchors{stable: map[*types.Var]bool{}, elemTypes: map[*types.Named]bool{}}
	var err error
	get := func(n string) *types.Named {
		t, e := p.GojaType(n)
		if e != nil && err == nil {
			err = e
		}
		return t
	}
	fld := func(t, f string) *types.Var {
		v, e := p.Field(core.GojaPath, t, f)
		if e != nil && err == nil {
			err = e
		}
		return v
	}
	a.taT, a.abT, a.dvT, a.sortT = get("typedArrayObject"), get("arrayBufferObject"), get("dataViewObject"), get("typedArraySortCtx")
	a.typedArrayIface = get("typedArray")
	a.fViewedTA, a.fViewedDV = fld("typedArrayObject", "viewedArrayBuf"), fld("dataViewObject", "viewedArrayBuf")
	a.fData, a.fDetached = fld("arrayBufferObject", "data"), fld("arrayBufferObject", "detached")
	a.fTypedArray = fld("typedArrayObject", "typedArray")
	a.fSortTA = fld("typedArraySortCtx", "ta")
	a.fDefaultCtor = fld("typedArrayObject", "defaultCtor")
	a.fVal = fld("baseObject", "val")
	a.fSortDetached, a.fNeedValidate = fld("typedArraySortCtx", "detached"), fld("typedArraySortCtx", "needValidate")
	if err != nil {
		return nil, err
	}
	if a.typedArrayCreate, err = p.GojaMethod("Runtime", "typedArrayCreate"); err != nil {
		return nil, err
	}
	if a.toConstructor, err = p.GojaMethod("Runtime", "toConstructor"); err != nil {
		return nil, err
	}
	if a.checkDetached, err = p.GojaMethod("typedArraySortCtx", "checkDetached"); err != nil {
		return nil, err
	}
	a.prog = p
	if a.ensure, err = p.GojaMethod("arrayBufferObject", "ensureNotDetached"); err != nil {
		return nil, err
	}
	a.stable[a.fViewedTA], a.stable[a.fViewedDV], a.stable[a.fSortTA] = true, true, true
	// element array types: named types in package goja whose pointer implements typedArray
	iface := a.typedArrayIface.Underlying().(*types.Interface)
	scope := p.Goja.Types.Scope()
	for _, n := range scope.Names() {
		if tn, ok := scope.Lookup(n).(*types.TypeName); ok && !tn.IsAlias() {
			if nt, ok := tn.Type().(*types.Named); ok && nt != a.typedArrayIface && types.Implements(types.NewPointer(nt), iface) {
				a.elemTypes[nt] = true
			}
		}
	}
	if len(a.elemTypes) < 11 {
		return nil, &core.AnchorError{What: fmt.Sprintf("element array types implementing typedArray: found %d, want >= 11", len(a.elemTypes))}
	}
	a.useMethods = map[string]bool{"get": true, "set": true, "getRaw": true, "setRaw": true, "less": true, "swap": true, "export": true}
	return a, nil
}

func (a *detachAnchors) tracked(t types.Type) bool {
	n := core.NamedOf(t)
	if n == nil {
		return false
	}
	if _, isPtr := types.Unalias(t).(*types.Pointer); !isPtr {
		return false
	}
	return n == a.taT || n == a.abT || n == a.dvT
}

// canon renders a stable access path for v within one function.
func (a *detachAnchors) canon(v ssa.Value) string {
	v = core.Origin(v)
	if ld, ok := v.(*ssa.UnOp); ok && ld.Op == token.MUL {
		if fa, ok := ld.X.(*ssa.FieldAddr); ok {
			if fv := core.FieldOf(fa); fv != nil && a.stable[fv] {
				return a.canon(fa.X) + "." + fv.Name()
			}
		}
	}
	if fa, ok := v.(*ssa.FieldAddr); ok { // address of an embedded struct: same object
		if fv := core.FieldOf(fa); fv != nil && fv.Embedded() {
			return a.canon(fa.X)
		}
	}
	return a.prog.SourceName(v)
}

// ownerOfVal: v is X.val (the *Object handle of a guarded object X).
func (a *detachAnchors) ownerOfVal(v ssa.Value) ssa.Value {
	v = core.Origin(v)
	ld, ok := v.(*ssa.UnOp)
	if !ok || ld.Op != token.MUL {
		return nil
	}
	fa, ok := ld.X.(*ssa.FieldAddr)
	if !ok || core.FieldOf(fa) != a.fVal {
		return nil
	}
	var base ssa.Value = fa.X
	for {
		if x, ok := base.(*ssa.FieldAddr); ok && core.FieldOf(x) != nil && core.FieldOf(x).Embedded() {
			base = x.X
			continue
		}
		break
	}
	return base
}

// isDefaultCtor: v is X.defaultCtor (an intrinsic %TypedArray% constructor, see R-TAFIELDS obligations).
func (a *detachAnchors) isDefaultCtor(v ssa.Value) bool {
	v = core.Origin(v)
	ld, ok := v.(*ssa.UnOp)
	if !ok || ld.Op != token.MUL {
		return false
	}
	fa, ok := ld.X.(*ssa.FieldAddr)
	return ok && core.FieldOf(fa) == a.fDefaultCtor
}

// variadicElems returns the elements stored into a variadic/literal slice built in place.
func variadicElems(v ssa.Value) ([]ssa.Value, bool) {
	sl, ok := v.(*ssa.Slice)
	if !ok {
		if c, isConst := v.(*ssa.Const); isConst && c.Value == nil {
			return nil, true // nil slice
		}
		return nil, false
	}
	al, ok := sl.X.(*ssa.Alloc)
	if !ok {
		return nil, false
	}
	var out []ssa.Value
	for _, r := range core.Referrers(al) {
		ia, ok := r.(*ssa.IndexAddr)
		if !ok {
			continue
		}
		for _, rr := range core.Referrers(ia) {
			if st, ok := rr.(*ssa.Store); ok && st.Addr == ia {
				out = append(out, st.Val)
			}
		}
	}
	return out, true
}

// intrinsicCtorCall: the call constructs through X.defaultCtor with primitive arguments only:
// r.typedArrayCreate(X.defaultCtor, prims...) or r.toConstructor(X.defaultCtor)(args, X.defaultCtor).
func (a *detachAnchors) intrinsicCtorCall(c ssa.CallInstruction) (viaDynamic bool, ok bool) {
	cc := c.Common()
	if cc.StaticCallee() == a.typedArrayCreate && len(cc.Args) >= 3 && a.isDefaultCtor(cc.Args[1]) {
		elems, known := variadicElems(cc.Args[2])
		if !known {
			return false, false
		}
		for _, e := range elems {
			if !a.isPrimitive(e, 0) {
				return false, false
			}
		}
		return false, true
	}
	if inner, isCall := cc.Value.(*ssa.Call); isCall && inner.Call.StaticCallee() == a.toConstructor && len(inner.Call.Args) == 2 && a.isDefaultCtor(inner.Call.Args[1]) {
		if len(cc.Args) == 2 && a.isDefaultCtor(cc.Args[1]) {
			return true, true
		}
	}
	return false, false
}

// typeMatchGuarded: the instruction only runs when typedArray.typeMatch(v) returned true for the same v.
func (a *detachAnchors) typeMatchGuarded(in ssa.Instruction, v ssa.Value) bool {
	v = core.Origin(v)
	for _, cp := range core.ControllingConds(in.Block()) {
		if !cp.Pol {
			continue
		}
		c, ok := cp.Cond.(*ssa.Call)
		if !ok || !c.Call.IsInvoke() || c.Call.Method.Name() != "typeMatch" || core.NamedOf(c.Call.Value.Type()) != a.typedArrayIface {
			continue
		}
		if len(c.Call.Args) == 1 && core.Origin(c.Call.Args[0]) == v {
			return true
		}
	}
	return false
}

// root: the key of the guarded object v belongs to ("" if untracked).
func (a *detachAnchors) root(v ssa.Value) string {
	v = core.Origin(v)
	t := v.Type()
	// a view returned by a constructor function is guarded by its buffer argument
	if c, ok := v.(*ssa.Call); ok && a.sp != nil && a.sp.RetAlias != nil {
		if arg := a.sp.RetAlias(c); arg != nil {
			return a.root(arg)
		}
	}
	// a view under construction: keyed by the buffer stored into it
	if al, ok := v.(*ssa.Alloc); ok {
		if n := core.NamedOf(al.Type()); n == a.taT || n == a.dvT {
			for _, r := range core.Referrers(al) {
				if fa, ok := r.(*ssa.FieldAddr); ok && (core.FieldOf(fa) == a.fViewedTA || core.FieldOf(fa) == a.fViewedDV) {
					for _, rr := range core.Referrers(fa) {
						if st, ok := rr.(*ssa.Store); ok && st.Addr == fa {
							if k := a.root(st.Val); k != "" {
								return k
							}
						}
					}
				}
			}
		}
	}
	// X.self.(*typedArrayObject) of an object built by an intrinsic constructor
	if ex, ok := v.(*ssa.Extract); ok {
		if ta, ok := ex.Tuple.(*ssa.TypeAssert); ok && ex.Index == 0 {
			if ld, ok := ta.X.(*ssa.UnOp); ok && ld.Op == token.MUL && a.tracked(ta.AssertedType) {
				if fa, ok := ld.X.(*ssa.FieldAddr); ok && core.FieldOf(fa) != nil && core.FieldOf(fa).Name() == "self" {
					if call, isCall := core.Origin(fa.X).(*ssa.Call); isCall {
						if dyn, ok := a.intrinsicCtorCall(call); ok && dyn {
							return a.canon(fa.X) + ".self"
						}
					}
				}
			}
		}
	}
	if ta, ok := v.(*ssa.TypeAssert); ok && a.tracked(ta.AssertedType) {
		if ld, ok := ta.X.(*ssa.UnOp); ok && ld.Op == token.MUL {
			if fa, ok := ld.X.(*ssa.FieldAddr); ok && core.FieldOf(fa) != nil && core.FieldOf(fa).Name() == "self" {
				if call, isCall := core.Origin(fa.X).(*ssa.Call); isCall {
					if dyn, ok := a.intrinsicCtorCall(call); ok && dyn {
						return a.canon(fa.X) + ".self"
					}
				}
			}
		}
	}
	// []byte loaded from B.data
	if ld, ok := v.(*ssa.UnOp); ok && ld.Op == token.MUL {
		if fa, ok := ld.X.(*ssa.FieldAddr); ok {
			fv := core.FieldOf(fa)
			if fv == a.fData {
				return a.root(fa.X)
			}
			if fv == a.fViewedTA || fv == a.fViewedDV {
				// the buffer of X: keyed by its owner
				return a.root(fa.X)
			}
		}
	}
	if !a.tracked(t) {
		return ""
	}
	return a.canon(v)
}

func isConstBool(v ssa.Value, want bool) bool {
	c, ok := v.(*ssa.Const)
	if !ok || c.Value == nil {
		return false
	}
	return c.Value.String() == fmt.Sprint(want)
}

// primitive-valued expressions: converting them cannot run script.
func (a *detachAnchors) isPrimitive(v ssa.Value, depth int) bool {
	if depth > 4 {
		return false
	}
	v = core.Origin(v)
	t := v.Type()
	if _, isIface := t.Underlying().(*types.Interface); !isIface {
		// concrete: anything but *Object is a primitive representation
		return !core.IsGojaNamed(t, "Object")
	}
	switch x := v.(type) {
	case *ssa.Const:
		return true
	case *ssa.Call:
		cc := x.Common()
		if cc.IsInvoke() {
			switch cc.Method.Name() {
			case "ToNumber", "ToString", "toString", "get": // Value.ToNumber/ToString, typedArray.get
				return true
			}
			return false
		}
		if sc := cc.StaticCallee(); sc != nil {
			switch core.FuncName(sc) {
			case "intToValue", "floatToValue", "toBigInt", "toNumeric", "(*Runtime).toBoolean":
				return true
			}
		}
	case *ssa.Phi:
		for _, e := range x.Edges {
			if e != v && !a.isPrimitive(e, depth+1) {
				return false
			}
		}
		return true
	case *ssa.Global:
		return false
	case *ssa.UnOp:
		if x.Op == token.MUL {
			if g, ok := x.X.(*ssa.Global); ok {
				switch g.Name() {
				case "_undefined", "_null", "_NaN", "_positiveZero", "_negativeZero", "_positiveInf", "_negativeInf", "valueTrue", "valueFalse":
					return true
				}
			}
		}
	}
	return false
}

func (a *detachAnchors) spec(p *core.Prog) *core.FreshSpec {
	a.sp = &core.FreshSpec{
		Name:    "detach",
		Root:    a.root,
		Tracked: a.tracked,
		Skip: func(f *ssa.Function) bool {
			if recv := f.Signature.Recv(); recv != nil {
				if n := core.NamedOf(recv.Type()); n != nil && a.elemTypes[n] {
					return true // the raw element accessors themselves
				}
			}
			return false
		},
		Uses: func(in ssa.Instruction) []core.FreshUse {
			switch x := in.(type) {
			case ssa.CallInstruction:
				cc := x.Common()
				if cc.IsInvoke() && a.useMethods[cc.Method.Name()] && core.NamedOf(cc.Value.Type()) == a.typedArrayIface {
					recv := core.Origin(cc.Value)
					key := "?" + recv.Name()
					if ld, ok := recv.(*ssa.UnOp); ok && ld.Op == token.MUL {
						if fa, ok := ld.X.(*ssa.FieldAddr); ok && core.FieldOf(fa) == a.fTypedArray {
							key = a.root(fa.X)
						}
					}
					return []core.FreshUse{{Key: key, What: "typedArray." + cc.Method.Name()}}
				}
				// copy(dst, src) with a bare B.data operand
				if b, ok := cc.Value.(*ssa.Builtin); ok && b.Name() == "copy" {
					var us []core.FreshUse
					for _, arg := range cc.Args {
						if k := a.dataKey(arg); k != "" {
							us = append(us, core.FreshUse{Key: k, What: "copy(.., buffer.data)"})
						}
					}
					return us
				}
			case *ssa.IndexAddr:
				if k := a.dataKey(x.X); k != "" {
					return []core.FreshUse{{Key: k, What: "&buffer.data[i]"}}
				}
			case *ssa.Slice:
				if k := a.dataKey(x.X); k != "" {
					return []core.FreshUse{{Key: k, What: "buffer.data[i:j]"}}
				}
			}
			return nil
		},
		GenAfter: func(in ssa.Instruction, fresh func(string) bool) []string {
			switch x := in.(type) {
			case *ssa.Call:
				if x.Call.StaticCallee() == a.ensure && len(x.Call.Args) == 2 && isConstBool(x.Call.Args[1], true) {
					if k := a.root(x.Call.Args[0]); k != "" {
						return []string{k}
					}
				}
				// taCtor(buf, ...) : a typedArrayObjectCtor builds a view over buf
				if core.IsGojaNamed(x.Call.Value.Type(), "typedArrayObjectCtor") && len(x.Call.Args) > 0 {
					if k := a.root(x.Call.Args[0]); k != "" && fresh(k) {
						return []string{a.canon(x)}
					}
				}
			}
			return nil
		},
		NewObject: func(in ssa.Instruction) (string, bool) {
			switch x := in.(type) {
			case *ssa.Alloc:
				if n := core.NamedOf(x.Type()); n == a.abT && x.Heap {
					return a.canon(x), true
				}
			case *ssa.Call:
				if dyn, ok := a.intrinsicCtorCall(x); ok && dyn {
					return a.canon(x) + ".self", true
				}
			}
			return "", false
		},
		Escapes: func(in ssa.Instruction) []string {
			var ops []ssa.Value
			switch x := in.(type) {
			case ssa.CallInstruction:
				if _, isB := x.Common().Value.(*ssa.Builtin); !isB {
					ops = x.Common().Args
				}
			case *ssa.Store:
				ops = []ssa.Value{x.Val}
			case *ssa.Return:
				ops = x.Results
			case *ssa.MakeInterface:
				ops = []ssa.Value{x.X}
			case *ssa.MakeClosure:
				ops = x.Bindings
			}
			var out []string
			for _, op := range ops {
				if owner := a.ownerOfVal(op); owner != nil {
					if k := a.root(owner); k != "" {
						out = append(out, k)
					}
				}
			}
			return out
		},
		GenOnBool: func(in ssa.Instruction) ([]string, bool, bool) {
			switch x := in.(type) {
			case *ssa.Call:
				if x.Call.StaticCallee() == a.ensure && len(x.Call.Args) == 2 && !isConstBool(x.Call.Args[1], true) {
					if k := a.root(x.Call.Args[0]); k != "" {
						return []string{k}, true, true
					}
				}
			case *ssa.UnOp:
				if x.Op == token.MUL {
					if fa, ok := x.X.(*ssa.FieldAddr); ok && core.FieldOf(fa) == a.fDetached {
						if k := a.root(fa.X); k != "" {
							return []string{k}, false, true
						}
					}
					// sort context protocol: after ctx.checkDetached(), !ctx.detached means the array was
					// validated since the last call that ran script (needValidate discipline, checked separately)
					if fa, ok := x.X.(*ssa.FieldAddr); ok && core.FieldOf(fa) == a.fSortDetached {
						for _, c := range core.CallsIn(x.Parent(), a.checkDetached) {
							if core.InstrDominates(c, x) && len(c.Common().Args) == 1 && c.Common().Args[0] == fa.X {
								return []string{a.canon(fa.X) + ".ta"}, false, true
							}
						}
					}
				}
			}
			return nil, false, false
		},
		Kills: func(c ssa.CallInstruction) string {
			cc := c.Common()
			if cc.IsInvoke() && core.IsGojaNamed(cc.Value.Type(), "Value") && a.isPrimitive(cc.Value, 0) {
				return "" // a method of a primitive value (result of ToNumber etc.) cannot reach user code
			}
			if cc.IsInvoke() && core.NamedOf(cc.Value.Type()) == a.typedArrayIface {
				switch cc.Method.Name() {
				case "set":
					if len(cc.Args) == 2 && (a.isPrimitive(cc.Args[1], 0) || a.typeMatchGuarded(c, cc.Args[1])) {
						return ""
					}
					return "typedArray.set converts a value that may be an object (valueOf/toString run script after the element pointer was computed)"
				case "typeMatch":
					return "" // type switch on the representation, verified call-free (typeMatch obligations)
				case "toRaw":
					if len(cc.Args) == 1 && (a.isPrimitive(cc.Args[0], 0) || a.typeMatchGuarded(c, cc.Args[0])) {
						return ""
					}
				default:
					return ""
				}
			}
			if _, ok := a.intrinsicCtorCall(c); ok {
				return "" // constructs through an intrinsic %TypedArray% constructor with primitive arguments
			}
			if why := p.MayRunScript(c); why != "" {
				name := "dynamic call"
				if sc := cc.StaticCallee(); sc != nil {
					name = core.FuncName(sc)
				} else if cc.IsInvoke() {
					name = "invoke " + cc.Method.Name()
				}
				return name + " may run script (" + why + ")"
			}
			return ""
		},
	}
	return a.sp
}

// dataKey: v is (a slice of) B.data.
func (a *detachAnchors) dataKey(v ssa.Value) string {
	v = core.Origin(v)
	for i := 0; i < 4; i++ {
		if sl, ok := v.(*ssa.Slice); ok {
			v = core.Origin(sl.X)
			continue
		}
		break
	}
	if ld, ok := v.(*ssa.UnOp); ok && ld.Op == token.MUL {
		if fa, ok := ld.X.(*ssa.FieldAddr); ok && core.FieldOf(fa) == a.fData {
			return a.root(fa.X)
		}
	}
	return ""
}

func runFreshDetach(p *core.Prog) *core.Result {
	res := core.NewResult("R-FRESH-DETACH", 60)
	a, err := resolveDetachAnchors(p)
	if err != nil {
		return res.Fail(err)
	}
	fr := p.RunFresh(a.spec(p))
	for _, s := range fr.Sites {
		res.OK(fmt.Sprintf("%s:%s(%s)", core.FuncName(s.Fn), s.Use.What, s.Use.Key), p.Pos(s.Instr.Pos()), "fresh: "+trimHow(s.How))
	}
	for _, f := range fr.Findings {
		res.Bad(fmt.Sprintf("%s:%s(%s)", core.FuncName(f.Fn), f.Use.What, f.Use.Key), p.Pos(f.Instr.Pos()),
			fmt.Sprintf("raw buffer access %s on %s is reached without a fresh not-detached check: %s. If user code detaches the buffer there, the access goes through a nil/stale base (memory outside the current backing buffer)", f.Use.What, f.Use.Key, f.LastKill))
	}
	a.sideObligations(p, res)
	res.Count("functions", fr.Funcs)
	res.Count("summary_rounds", fr.Rounds)
	n, t := p.ScriptFreeCount()
	res.Count("script_free_functions", n)
	res.Count("module_functions", t)
	return res
}

func trimHow(s string) string {
	if i := strings.Index(s, " at "); i > 0 && strings.HasPrefix(s, "check") {
		return "explicit check"
	}
	return s
}

// sideObligations: the anchors and idioms the dataflow relies on, verified on every run.
func (a *detachAnchors) sideObligations(p *core.Prog, res *core.Result) {
	// (1) the value handed to typedArray.set is already primitive (conversion happens before the
	// element pointer is computed), or guarded by typeMatch
	for _, f := range p.Funcs {
		if a.sp.Skip(f) {
			continue
		}
		core.AllInstrs(f, func(in ssa.Instruction) {
			c, ok := in.(ssa.CallInstruction)
			if !ok || !c.Common().IsInvoke() || c.Common().Method.Name() != "set" || core.NamedOf(c.Common().Value.Type()) != a.typedArrayIface {
				return
			}
			key := core.FuncName(f) + ":set-value-primitive"
			v := c.Common().Args[1]
			if a.isPrimitive(v, 0) || a.typeMatchGuarded(c, v) {
				res.OK(key, p.Pos(c.Pos()), "value is a primitive (converted before the store)")
			} else {
				res.Bad(key, p.Pos(c.Pos()), "typedArray.set receives a value that may be an object: the element pointer is computed before valueOf/toString run, so user code can detach the buffer and the store lands in the detached buffer's former memory (or a nil base); convert first (as _putIdx does)")
			}
		})
	}
	// (2) typeMatch implementations are pure representation tests
	for nt := range a.elemTypes {
		fn, err := p.GojaMethod(nt.Obj().Name(), "typeMatch")
		key := nt.Obj().Name() + ".typeMatch:pure"
		if err != nil {
			res.Bad(key, "-", "typeMatch not found")
			continue
		}
		pure := true
		core.AllInstrs(fn, func(in ssa.Instruction) {
			switch x := in.(type) {
			case ssa.CallInstruction:
				pure = false
			case *ssa.TypeAssert:
				if core.IsGojaNamed(x.AssertedType, "Object") {
					pure = false
				}
				if _, isIface := x.AssertedType.Underlying().(*types.Interface); isIface {
					pure = false
				}
			}
		})
		if pure {
			res.OK(key, p.Pos(fn.Pos()), "no calls, only assertions to primitive representations")
		} else {
			res.Bad(key, p.Pos(fn.Pos()), "typeMatch must be a call-free test of the primitive representation: the dataflow treats values accepted by it as primitives")
		}
	}
	// (3) audited interface methods: implementations never invoke a function value
	for _, T := range mustKinds(p) {
		for _, m := range []string{"assertCallable", "assertConstructor"} {
			d := declaringType(T, m)
			if d != T {
				continue
			}
			fn, err := p.GojaMethod(T.Obj().Name(), m)
			if err != nil {
				continue
			}
			key := T.Obj().Name() + "." + m + ":does-not-invoke"
			bad := ""
			core.AllInstrs(fn, func(in ssa.Instruction) {
				c, ok := in.(ssa.CallInstruction)
				if !ok {
					return
				}
				cc := c.Common()
				if _, isB := cc.Value.(*ssa.Builtin); isB {
					return
				}
				if cc.IsInvoke() {
					if cc.Method.Name() == m || cc.Method.Name() == "ToObject" {
						return // delegation to another object's same method / primitive wrapper
					}
					bad = "invokes " + cc.Method.Name()
					return
				}
				if cc.StaticCallee() == nil {
					bad = "calls a function value"
					return
				}
				if w := p.MayRunScript(c); w != "" && cc.StaticCallee().Name() != "w" {
					bad = "calls " + core.FuncName(cc.StaticCallee()) + " (" + w + ")"
				}
			})
			if bad == "" {
				res.OK(key, p.Pos(fn.Pos()), "returns the callable without invoking it")
			} else {
				res.Bad(key, p.Pos(fn.Pos()), "audited as script-free but "+bad)
			}
		}
	}
	// (4) sort context protocol: every call that may run script inside a typedArraySortCtx method is
	// followed by ctx.needValidate = true before the method continues
	for _, m := range []string{"Less", "Swap", "Len", "checkDetached"} {
		fn, err := p.GojaMethod("typedArraySortCtx", m)
		if err != nil {
			res.Bad("typedArraySortCtx."+m, "-", "method not found")
			continue
		}
		core.AllInstrs(fn, func(in ssa.Instruction) {
			c, ok := in.(ssa.CallInstruction)
			if !ok || a.sp.Kills(c) == "" {
				return
			}
			key := "typedArraySortCtx." + m + ":needValidate-after-script"
			okSet := false
			b := c.Block()
			for _, later := range b.Instrs[core.InstrIndex(c)+1:] {
				if st, ok := later.(*ssa.Store); ok {
					if fa, ok := st.Addr.(*ssa.FieldAddr); ok && core.FieldOf(fa) == a.fNeedValidate && isConstBool(st.Val, true) {
						okSet = true
					}
				}
				if lc, ok := later.(ssa.CallInstruction); ok && a.sp.Kills(lc) != "" {
					continue
				}
			}
			if okSet {
				res.OK(key, p.Pos(c.Pos()), "needValidate = true stored after the call in the same block")
			} else {
				res.Bad(key, p.Pos(c.Pos()), "a call that may run script is not followed by ctx.needValidate = true: the next Less/Swap trusts a stale detach check")
			}
		})
	}
	// (5) field stability (R-TAFIELDS): the fields the access paths and idioms rely on are only
	// written on objects under construction
	for _, fv := range []*types.Var{a.fViewedTA, a.fViewedDV, a.fSortTA, a.fTypedArray, a.fDefaultCtor} {
		for _, w := range p.FieldWrites(fv) {
			if w.Kind != "store" {
				continue
			}
			key := core.FuncName(w.Fn) + ":" + fv.Name() + "-written-at-construction"
			if _, isAlloc := core.Origin(w.Base).(*ssa.Alloc); isAlloc {
				res.OK(key, p.Pos(w.Instr.Pos()), "stored into an object allocated in the same function")
			} else {
				res.Bad(key, p.Pos(w.Instr.Pos()), "field "+fv.Name()+" is reassigned on an existing object: access paths through it are not stable, and a check on the old buffer says nothing about the new one")
			}
		}
	}
	// defaultCtor only ever holds an intrinsic constructor (r.global.<Name>)
	if newTA, err := p.GojaMethod("Runtime", "_newTypedArrayObject"); err == nil {
		for _, f := range p.Funcs {
			for _, c := range core.CallsIn(f, newTA) {
				key := core.FuncName(f) + ":defaultCtor-intrinsic"
				args := c.Common().Args
				okc := false
				if len(args) >= 6 {
					if ld, ok := core.Origin(args[5]).(*ssa.UnOp); ok && ld.Op == token.MUL {
						if fa, ok := ld.X.(*ssa.FieldAddr); ok && core.IsGojaNamed(fa.X.Type(), "global") {
							okc = true
						}
					}
				}
				if okc {
					res.OK(key, p.Pos(c.Pos()), "defaultCtor argument is r.global.<TypedArray>")
				} else {
					res.Bad(key, p.Pos(c.Pos()), "defaultCtor is not loaded from r.global: constructing through it may run user code")
				}
			}
		}
	} else {
		res.Bad("_newTypedArrayObject", "-", err.Error())
	}
	// (6) the data slice of a live buffer is only replaced by detach() or on a brand-new buffer
	detach, _ := p.GojaMethod("arrayBufferObject", "detach")
	for _, w := range p.FieldWrites(a.fData) {
		if w.Kind != "store" {
			continue
		}
		key := core.FuncName(w.Fn) + ":data-assigned"
		switch {
		case w.Fn == detach:
			res.OK(key, p.Pos(w.Instr.Pos()), "detach()")
		default:
			// the buffer must be brand-new in this function
			base := core.Origin(w.Base)
			newBuf := false
			switch b := base.(type) {
			case *ssa.Alloc:
				newBuf = true
			case *ssa.Call:
				newBuf = a.sp.RetNew(b)
			case *ssa.UnOp:
				// X.viewedArrayBuf.data = ... where X is a brand-new view
				if fa, ok := b.X.(*ssa.FieldAddr); ok && (core.FieldOf(fa) == a.fViewedTA || core.FieldOf(fa) == a.fViewedDV) {
					if c, ok := core.Origin(fa.X).(*ssa.Call); ok && a.sp.RetNew(c) {
						newBuf = true
					}
				}
			}
			if newBuf {
				res.OK(key, p.Pos(w.Instr.Pos()), "assigned on a brand-new buffer")
			} else {
				res.Bad(key, p.Pos(w.Instr.Pos()), "the data slice of an existing ArrayBuffer is replaced outside detach(): raw pointers and slices taken under an earlier check refer to the old storage")
			}
		}
	}
	// (7) anchor semantics of ensureNotDetached: `true` is returned only on the !detached edge
	okAnchor := true
	core.AllInstrs(a.ensure, func(in ssa.Instruction) {
		r, ok := in.(*ssa.Return)
		if !ok || len(r.Results) != 1 {
			return
		}
		if isConstBool(r.Results[0], true) {
			found := false
			for _, cp := range core.ControllingConds(r.Block()) {
				if ld, ok := cp.Cond.(*ssa.UnOp); ok && ld.Op == token.MUL && core.FieldOf(ld.X) == a.fDetached && !cp.Pol {
					found = true
				}
			}
			if !found {
				okAnchor = false
			}
		} else if !isConstBool(r.Results[0], false) {
			okAnchor = false
		}
	})
	if okAnchor {
		res.OK("ensureNotDetached:anchor", p.Pos(a.ensure.Pos()), "returns true only on the !o.detached edge")
	} else {
		res.Bad("ensureNotDetached:anchor", p.Pos(a.ensure.Pos()), "ensureNotDetached can return true without having observed !o.detached: every guard in the typed array code is void")
	}
}

func mustKinds(p *core.Prog) []*types.Named {
	k, _, _ := objectKinds(p)
	return k
}

package rules

import (
	"fmt"
	"go/constant"
	"go/token"
	"go/types"
	"math"

	"gojaverif/core"

	"golang.org/x/tools/go/ssa"
)

// R-SCOPEDSTATE: vm fields that describe the activation currently running and are set for the
// duration of one Go call (table below, confirmed by reading) must be reset by a deferred function:
// interrupts, stack overflows and Go panics from host functions unwind through these frames as Go
// panics, and a reset that is a plain statement is skipped by them, leaving the idle Runtime
// pointing at the aborted activation.
var ScopedState = &core.Rule{Name: "R-SCOPEDSTATE", Run: runScopedState,
	Doc: "for every vm field in the scoped-state table, each function that stores a non-nil value into it registers, before any call that could panic, a deferred closure that stores nil into the same field"}

// scopedVMFields: field of `vm` -> why it is activation state
var scopedVMFields = map[string]string{
	"curAsyncRunner": "the async function being resumed; consulted by captureStack for async stack traces",
}

func runScopedState(p *core.Prog) *core.Result {
	res := core.NewResult("R-SCOPEDSTATE", 2)
	for name := range scopedVMFields {
		fv, err := p.Field(core.GojaPath, "vm", name)
		if err != nil {
			return res.Fail(err)
		}
		for _, w := range p.FieldWrites(fv) {
			if w.Kind != "store" || w.Val == nil {
				continue
			}
			if c, ok := w.Val.(*ssa.Const); ok && c.IsNil() {
				continue
			}
			st, ok := w.Instr.(*ssa.Store)
			if !ok {
				continue
			}
			key := fmt.Sprintf("%s:vm.%s set", core.FuncName(w.Fn), name)
			// a deferred closure resetting the field
			var def *ssa.Defer
			core.AllInstrs(w.Fn, func(in ssa.Instruction) {
				d, ok := in.(*ssa.Defer)
				if !ok || def != nil {
					return
				}
				var fn *ssa.Function
				switch x := d.Call.Value.(type) {
				case *ssa.MakeClosure:
					fn, _ = x.Fn.(*ssa.Function)
				case *ssa.Function:
					fn = x
				}
				if fn == nil {
					return
				}
				core.AllInstrs(fn, func(in2 ssa.Instruction) {
					s2, ok := in2.(*ssa.Store)
					if !ok {
						return
					}
					fa, ok := s2.Addr.(*ssa.FieldAddr)
					if !ok || core.FieldOf(fa) != fv {
						return
					}
					if c, ok := s2.Val.(*ssa.Const); ok && c.IsNil() {
						def = d
					}
				})
			})
			if def == nil {
				res.Bad(key, p.Pos(st.Pos()), fmt.Sprintf("vm.%s (%s) is set here but no deferred function of %s resets it: an interrupt, stack overflow or host-function panic unwinding through this frame leaves it set on the idle Runtime", name, scopedVMFields[name], core.FuncName(w.Fn)))
				continue
			}
			// no call between the store and the defer
			ok2 := core.InstrDominates(def, st)
			if !ok2 && def.Block() == st.Block() {
				ok2 = true
				after := false
				for _, in := range st.Block().Instrs {
					if in == ssa.Instruction(st) {
						after = true
						continue
					}
					if in == ssa.Instruction(def) {
						break
					}
					if _, isCall := in.(*ssa.Call); isCall && after {
						ok2 = false
					}
				}
			}
			if ok2 {
				res.OK(key, p.Pos(st.Pos()), "reset by the deferred closure registered at "+p.Pos(def.Pos()))
			} else {
				res.Bad(key, p.Pos(st.Pos()), "the deferred reset is registered only after further calls: a panic in between skips it")
			}
		}
	}
	return res
}

// R-NUMRANGE: the two canonicalisers must agree on which integers are represented as valueInt:
// intToValue (int side) and floatToInt (float side) both use the closed range [-2^53, 2^53]. If one
// becomes exclusive, 2^53 computed as a float stays a valueFloat while the same number computed as
// an int is a valueInt, and ===/SameValue/Map keys compare representations.
var NumRange = &core.Rule{Name: "R-NUMRANGE", Run: runNumRange,
	Doc: "sibling agreement: the comparisons with +-2^53 that control the valueInt result of intToValue and the ok=true result of floatToInt admit the boundary value itself in both functions"}

func runNumRange(p *core.Prog) *core.Result {
	res := core.NewResult("R-NUMRANGE", 4)
	const lim = float64(1 << 53)
	boundOf := func(v ssa.Value) (float64, bool) {
		c, ok := v.(*ssa.Const)
		if !ok || c.Value == nil {
			return 0, false
		}
		switch c.Value.Kind() {
		case constant.Int, constant.Float:
			f, _ := constant.Float64Val(constant.ToFloat(c.Value))
			if math.Abs(f) == lim {
				return f, true
			}
		}
		return 0, false
	}
	// inclusive[side]: does the condition (under polarity) hold for x == bound
	type verdict struct {
		seen      bool
		inclusive bool
		pos       string
	}
	analyse := func(fn *ssa.Function, target *ssa.BasicBlock) (lo, hi verdict) {
		for _, cp := range core.ControllingConds(target) {
			b, ok := cp.Cond.(*ssa.BinOp)
			if !ok {
				continue
			}
			var bound float64
			var okb bool
			if bound, okb = boundOf(b.Y); !okb {
				if bound, okb = boundOf(b.X); !okb {
					continue
				}
			}
			holdsAtBound := false
			switch b.Op {
			case token.LEQ, token.GEQ, token.EQL:
				holdsAtBound = true
			}
			v := verdict{seen: true, inclusive: holdsAtBound == cp.Pol, pos: p.Pos(b.Pos())}
			if bound < 0 {
				lo = v
			} else {
				hi = v
			}
		}
		return
	}
	intToValue, err := p.GojaFunc("intToValue")
	if err != nil {
		return res.Fail(err)
	}
	floatToInt, err := p.GojaFunc("floatToInt")
	if err != nil {
		return res.Fail(err)
	}
	// intToValue: the block that builds a valueInt from the parameter (not the small-int cache)
	var tInt *ssa.BasicBlock
	core.AllInstrs(intToValue, func(in ssa.Instruction) {
		if mi, ok := in.(*ssa.MakeInterface); ok && core.IsGojaNamed(mi.X.Type(), "valueInt") {
			tInt = mi.Block()
		}
	})
	if tInt == nil {
		return res.Failf("unresolved anchor: no valueInt birth in intToValue")
	}
	// floatToInt: the return with ok == true
	var tFloat *ssa.BasicBlock
	core.AllInstrs(floatToInt, func(in ssa.Instruction) {
		if r, ok := in.(*ssa.Return); ok && len(r.Results) == 2 {
			if c, ok := r.Results[1].(*ssa.Const); ok && c.Value != nil && c.Value.Kind() == constant.Bool && constant.BoolVal(c.Value) {
				tFloat = r.Block()
			}
		}
	})
	if tFloat == nil {
		return res.Failf("unresolved anchor: no `return _, true` in floatToInt")
	}
	iLo, iHi := analyse(intToValue, tInt)
	fLo, fHi := analyse(floatToInt, tFloat)
	check := func(side string, a, b verdict) {
		key := "intToValue~floatToInt:" + side + " bound"
		switch {
		case !a.seen || !b.seen:
			res.Unknown(key, "", fmt.Sprintf("the comparison with the %s bound +-2^53 controlling the integer result was not found in intToValue (%v) / floatToInt (%v)", side, a.seen, b.seen))
		case a.inclusive != b.inclusive:
			res.Bad(key, b.pos, fmt.Sprintf("intToValue treats the %s bound as inclusive=%v (%s) but floatToInt as inclusive=%v (%s): the boundary value gets a different representation depending on whether it was computed as an int or as a float (Object.is / === / Map keys then disagree)", side, a.inclusive, a.pos, b.inclusive, b.pos))
		default:
			res.OK(key, b.pos, fmt.Sprintf("both admit the bound (inclusive=%v)", a.inclusive))
		}
	}
	check("lower", iLo, fLo)
	check("upper", iHi, fHi)
	res.OK("anchors:intToValue", p.Pos(intToValue.Pos()), "valueInt birth block found")
	res.OK("anchors:floatToInt", p.Pos(floatToInt.Pos()), "ok=true return found")
	return res
}

// R-JSWHITESPACE: Go's notion of white space (strings.TrimSpace, strings.Fields, unicode.IsSpace)
// differs from ECMAScript's WhiteSpace+LineTerminator set (U+FEFF is JS white space, U+0085 is not).
// For pure-ASCII text the two agree, so the Go functions are allowed on asciiString content only.
var JSWhitespace = &core.Rule{Name: "R-JSWHITESPACE", Run: runJSWhitespace,
	Doc: "who-may-call with argument typing: in package goja, strings.TrimSpace/TrimLeftFunc-with-IsSpace/Fields are applied only to a string converted from an asciiString; everything else trims with parser.WhitespaceChars"}

func runJSWhitespace(p *core.Prog) *core.Result {
	res := core.NewResult("R-JSWHITESPACE", 3)
	banned := map[string]bool{"strings.TrimSpace": true, "strings.Fields": true, "bytes.TrimSpace": true, "bytes.Fields": true}
	n := map[string]int{}
	for _, fn := range p.Funcs {
		if !p.InModule(fn) || fn.Pkg == nil || fn.Pkg.Pkg.Path() != core.GojaPath {
			continue
		}
		core.AllInstrs(fn, func(in ssa.Instruction) {
			c, ok := in.(ssa.CallInstruction)
			if !ok {
				return
			}
			sc := c.Common().StaticCallee()
			if sc == nil || sc.Pkg == nil {
				return
			}
			name := sc.Pkg.Pkg.Name() + "." + sc.Name()
			if !banned[name] || len(c.Common().Args) == 0 {
				return
			}
			base := core.FuncName(fn) + ":" + name
			n[base]++
			key := base
			if n[base] > 1 {
				key = fmt.Sprintf("%s#%d", base, n[base])
			}
			arg := c.Common().Args[0]
			if fromASCII(arg, 0) {
				res.OK(key, p.Pos(c.Pos()), "argument is the content of an asciiString (Go and ECMAScript white space agree below 0x80)")
			} else {
				res.Bad(key, p.Pos(c.Pos()), name+" is applied to text that is not known to be ASCII: Go trims U+0085 and does not trim U+FEFF, ECMAScript's StringToNumber / trim do the opposite (Number('\\uFEFF1') must be 1, Number('\\u00851') must be NaN)")
			}
		})
	}
	return res
}

func fromASCII(v ssa.Value, depth int) bool {
	if depth > 6 {
		return false
	}
	switch x := v.(type) {
	case *ssa.Convert:
		return core.IsGojaNamed(x.X.Type(), "asciiString") || fromASCII(x.X, depth+1)
	case *ssa.ChangeType:
		return core.IsGojaNamed(x.X.Type(), "asciiString") || fromASCII(x.X, depth+1)
	case *ssa.Phi:
		for _, e := range x.Edges {
			if !fromASCII(e, depth+1) {
				return false
			}
		}
		return len(x.Edges) > 0
	case *ssa.Slice:
		return fromASCII(x.X, depth+1)
	case *ssa.Call:
		// strings.TrimSpace(strings.ToLower(ascii)) etc. keep ASCII
		if sc := x.Call.StaticCallee(); sc != nil && sc.Pkg != nil && sc.Pkg.Pkg.Path() == "strings" && len(x.Call.Args) > 0 {
			return fromASCII(x.Call.Args[0], depth+1)
		}
	}
	if _, ok := v.Type().Underlying().(*types.Basic); ok && core.IsGojaNamed(v.Type(), "asciiString") {
		return true
	}
	return false
}

// R-PAIRDEFER: acquire/release pairs on runtime-level state whose release has to survive a
// panic-borne unwind (table confirmed by reading). The release must be registered with defer
// directly after the acquire (no call in between), in the same function.
var PairDefer = &core.Rule{Name: "R-PAIRDEFER", Run: runPairDefer,
	Doc: "for each (acquire, release) pair of the table, every function that calls the acquire registers a deferred call of the release before any other call; additionally a deferred vm.popCtx() in a recovering boundary function runs only if the matching pushCtx() completed (registered after it, or guarded by a flag set after it)"}

type pairSpec struct {
	acquire, release string // method names (static callee or interface method)
	why              string
}

var deferPairs = []pairSpec{
	{"pushToStringStack", "popFromStringStack", "cycle detection of Array.prototype.join/toLocaleString: an array left on the stack by a throwing element is treated as 'being joined' for the rest of the Runtime's life (join() returns \"\")"},
	{"Resumed", "Exited", "AsyncContextTracker: the host is promised exactly one Exited per Resumed; an interrupted job must not leave the context active"},
}

func runPairDefer(p *core.Prog) *core.Result {
	res := core.NewResult("R-PAIRDEFER", 4)
	nameOf := func(c *ssa.CallCommon) string {
		if c.IsInvoke() {
			return c.Method.Name()
		}
		if sc := c.StaticCallee(); sc != nil {
			return sc.Name()
		}
		return ""
	}
	for _, spec := range deferPairs {
		n := 0
		for _, fn := range p.Funcs {
			if !p.InModule(fn) || fn.Blocks == nil || fn.Name() == spec.acquire || fn.Name() == spec.release {
				continue
			}
			var acq *ssa.Call
			core.AllInstrs(fn, func(in ssa.Instruction) {
				if c, ok := in.(*ssa.Call); ok && acq == nil && nameOf(&c.Call) == spec.acquire {
					if spec.acquire == "Resumed" && !c.Call.IsInvoke() {
						return
					}
					acq = c
				}
			})
			if acq == nil {
				continue
			}
			n++
			key := fmt.Sprintf("%s:%s/%s", core.FuncName(fn), spec.acquire, spec.release)
			var def *ssa.Defer
			core.AllInstrs(fn, func(in ssa.Instruction) {
				if d, ok := in.(*ssa.Defer); ok && def == nil && nameOf(&d.Call) == spec.release {
					def = d
				}
			})
			if def == nil {
				res.Bad(key, p.Pos(acq.Pos()), fmt.Sprintf("%s() is not released by a deferred %s(): a throw, interrupt or stack overflow raised by the code in between (a Go panic here) skips the release. %s", spec.acquire, spec.release, spec.why))
				continue
			}
			// no call between acquire and the defer on the way (same block order or dominance)
			bad := false
			if def.Block() == acq.Block() {
				after := false
				for _, in := range acq.Block().Instrs {
					if in == ssa.Instruction(acq) {
						after = true
						continue
					}
					if in == ssa.Instruction(def) {
						break
					}
					if _, isCall := in.(*ssa.Call); isCall && after {
						bad = true
					}
				}
				if !core.InstrDominates(acq, def) {
					bad = true
				}
			} else if !core.InstrDominates(acq, def) {
				bad = true
			} else {
				// blocks strictly between: allow only the branch on the acquire's result
				for _, in := range def.Block().Instrs {
					if in == ssa.Instruction(def) {
						break
					}
					if _, isCall := in.(*ssa.Call); isCall {
						bad = true
					}
				}
			}
			if bad {
				res.Bad(key, p.Pos(def.Pos()), fmt.Sprintf("the deferred %s() is registered only after further calls following %s(): a panic in between skips it", spec.release, spec.acquire))
			} else {
				res.OK(key, p.Pos(acq.Pos()), "released by a defer registered at "+p.Pos(def.Pos()))
			}
		}
		if n == 0 {
			res.Unknown("floor:"+spec.acquire, "", "no caller of "+spec.acquire+" found")
		}
	}
	// deferred popCtx in boundary functions
	popCtx, err := p.GojaMethod("vm", "popCtx")
	if err != nil {
		return res.Fail(err)
	}
	pushCtx, err := p.GojaMethod("vm", "pushCtx")
	if err != nil {
		return res.Fail(err)
	}
	for _, fn := range p.Funcs {
		if !p.InModule(fn) || fn.Blocks == nil {
			continue
		}
		core.AllInstrs(fn, func(in ssa.Instruction) {
			d, ok := in.(*ssa.Defer)
			if !ok {
				return
			}
			mc, ok := d.Call.Value.(*ssa.MakeClosure)
			if !ok {
				return
			}
			cl := mc.Fn.(*ssa.Function)
			pops := core.CallsIn(cl, popCtx)
			if len(pops) == 0 {
				return
			}
			key := core.FuncName(fn) + ":deferred popCtx matches a completed pushCtx"
			pushes := core.CallsIn(fn, pushCtx)
			if len(pushes) == 0 {
				res.Inform(key, p.Pos(d.Pos()), "the context is pushed by the caller")
				return
			}
			allAfter := true
			for _, pc := range pushes {
				if !core.InstrDominates(pc.(ssa.Instruction), d) {
					allAfter = false
				}
			}
			if allAfter {
				res.OK(key, p.Pos(d.Pos()), "the defer is registered after pushCtx() returned")
				return
			}
			// guarded by a captured flag that is set only after a pushCtx
			guarded := true
			for _, pc := range pops {
				g := false
				for _, cp := range core.ControllingConds(pc.Block()) {
					ld, ok := cp.Cond.(*ssa.UnOp)
					if !ok || !cp.Pol {
						continue
					}
					fv, ok := ld.X.(*ssa.FreeVar)
					if !ok {
						continue
					}
					// the bound cell in the parent
					var cell ssa.Value
					for i, f := range cl.FreeVars {
						if f == fv {
							cell = mc.Bindings[i]
						}
					}
					if cell == nil {
						continue
					}
					// every store of true into the cell is dominated by a pushCtx call
					okStores, nTrue := true, 0
					for _, r := range core.Referrers(cell) {
						st, ok := r.(*ssa.Store)
						if !ok || st.Addr != cell {
							continue
						}
						c, isC := st.Val.(*ssa.Const)
						if isC && c.Value != nil && c.Value.Kind() == constant.Bool && !constant.BoolVal(c.Value) {
							continue
						}
						nTrue++
						dom := false
						for _, pu := range pushes {
							if core.InstrDominates(pu.(ssa.Instruction), st) {
								dom = true
							}
						}
						if !dom {
							okStores = false
						}
					}
					if okStores && nTrue > 0 {
						g = true
					}
				}
				if !g {
					guarded = false
				}
			}
			if guarded {
				res.OK(key, p.Pos(d.Pos()), "popCtx() in the deferred function is guarded by a flag that is set only after pushCtx() returned")
			} else {
				res.Bad(key, p.Pos(d.Pos()), "the deferred function pops a context unconditionally although it is registered before pushCtx(), which throws StackOverflowError at the call-depth limit: the frame of the calling native function is popped instead, control falls out of the calling script function and the stack pointer is left off by two")
			}
		})
	}
	callStackPushDeferred(p, res)
	return res
}

// R-EXITAGREE: leaving the Runtime at the outermost boundary after an uncatchable condition must
// reset at least the vm/Runtime state that the normal exit path resets (sibling agreement of the two
// exits of RunProgram: tail + leave() versus leaveAbrupt()).
var ExitAgree = &core.Rule{Name: "R-EXITAGREE", Run: runExitAgree,
	Doc: "field-set agreement: every vm/Runtime field that the normal outermost exit of RunProgram (its non-recursive tail and leave()) resets to a constant is also written by leaveAbrupt() or its static callees"}

func runExitAgree(p *core.Prog) *core.Result {
	res := core.NewResult("R-EXITAGREE", 3)
	runProgram, err := p.GojaMethod("Runtime", "RunProgram")
	if err != nil {
		return res.Fail(err)
	}
	leave, err := p.GojaMethod("Runtime", "leave")
	if err != nil {
		return res.Fail(err)
	}
	leaveAbrupt, err := p.GojaMethod("Runtime", "leaveAbrupt")
	if err != nil {
		return res.Fail(err)
	}
	vmT, err := p.GojaType("vm")
	if err != nil {
		return res.Fail(err)
	}
	rtT, err := p.GojaType("Runtime")
	if err != nil {
		return res.Fail(err)
	}
	ownerOK := func(fa *ssa.FieldAddr) bool {
		n := core.NamedOf(fa.X.Type())
		return n == vmT || n == rtT
	}
	type fw struct {
		f   *types.Var
		pos string
	}
	constStores := func(fn *ssa.Function, only func(*ssa.BasicBlock) bool, anyValue bool, depth int) []fw {
		var out []fw
		var visit func(f *ssa.Function, d int, filter func(*ssa.BasicBlock) bool)
		visit = func(f *ssa.Function, d int, filter func(*ssa.BasicBlock) bool) {
			core.AllInstrs(f, func(in ssa.Instruction) {
				if filter != nil && !filter(in.Block()) {
					return
				}
				switch x := in.(type) {
				case *ssa.Store:
					fa, ok := x.Addr.(*ssa.FieldAddr)
					if !ok || !ownerOK(fa) {
						return
					}
					if _, isConst := x.Val.(*ssa.Const); isConst || anyValue {
						out = append(out, fw{core.FieldOf(fa), p.Pos(x.Pos())})
					}
				case *ssa.Call:
					if d < depth {
						if sc := x.Call.StaticCallee(); sc != nil && p.InModule(sc) && sc.Signature.Recv() != nil {
							if n := core.NamedOf(sc.Signature.Recv().Type()); n == vmT || n == rtT {
								visit(sc, d+1, nil)
							}
						}
					}
					// atomic stores on a field address
					if sc := x.Call.StaticCallee(); sc != nil && sc.Pkg != nil && sc.Pkg.Pkg.Path() == "sync/atomic" && len(x.Call.Args) > 0 {
						if fa, ok := x.Call.Args[0].(*ssa.FieldAddr); ok && ownerOK(fa) {
							out = append(out, fw{core.FieldOf(fa), p.Pos(x.Pos())})
						}
					}
				}
			})
		}
		visit(fn, 0, only)
		return out
	}
	// the non-recursive tail of RunProgram: blocks that contain / are dominated by the call of leave()
	var leaveCall *ssa.Call
	for _, c := range core.CallsIn(runProgram, leave) {
		leaveCall, _ = c.(*ssa.Call)
	}
	if leaveCall == nil {
		return res.Failf("unresolved anchor: RunProgram does not call leave()")
	}
	normal := constStores(runProgram, func(b *ssa.BasicBlock) bool { return b == leaveCall.Block() }, false, 0)
	normal = append(normal, constStores(leave, nil, false, 0)...)
	abrupt := map[*types.Var]bool{}
	for _, w := range constStores(leaveAbrupt, nil, true, 2) {
		abrupt[w.f] = true
	}
	seen := map[*types.Var]bool{}
	for _, w := range normal {
		if seen[w.f] {
			continue
		}
		seen[w.f] = true
		key := "leaveAbrupt:resets " + w.f.Name()
		if abrupt[w.f] {
			res.OK(key, w.pos, "also reset on the abrupt exit")
		} else {
			res.Bad(key, w.pos, fmt.Sprintf("the normal outermost exit resets %s (%s) but leaveAbrupt() does not: after an interrupt or stack overflow ends a top-level run the idle Runtime keeps the value (e.g. a stale vm.prg shows up as a phantom frame in every later stack trace taken from a Go-called function)", w.f.Name(), w.pos))
		}
	}
	return res
}

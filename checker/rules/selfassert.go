package rules

import (
	"fmt"
	"go/token"
	"go/types"

	"gojaverif/core"

	"golang.org/x/tools/go/ssa"
)

// R-SELFASSERT: a non-comma-ok type assertion on X.self (objectImpl → a concrete object kind)
// is a Go runtime panic in the host if script can make X be of another kind.
var SelfAssert = &core.Rule{Name: "R-SELFASSERT", Run: runSelfAssert,
	Doc: "every unchecked type assertion X.self.(*Kind) is justified: X was built by a constructor of that kind in the same function, or the same X.self was already successfully asserted/switched to that kind on a dominating edge, or the site is in the audited table"}

var selfAssertExceptions = map[string]string{
	"(*Runtime).getStringSingleton:*stringObject":          "builtin_new of the intrinsic String constructor without arguments always builds a stringObject; the value never comes from script",
	"(*Runtime).getUint8Array:*nativeFuncObject":           "ret.self was installed by createTypedArrayCtor a line above (a native constructor function)",
	"(*Runtime).typedArrayProto_filter:*typedArrayObject":  "kept is built by the intrinsic default constructor (X.defaultCtor, always r.global.<TypedArray>, see R-FRESH-DETACH) over a local buffer",
	"(*arrayObject)._setOwnIdx:*sparseArrayObject":         "a.expand(idx) just returned false, which means it replaced a.val.self by a sparseArrayObject (dense->sparse switch)",
	"(*arrayObject)._defineIdxProperty:*sparseArrayObject": "a.expand(idx) just returned false, which means it replaced a.val.self by a sparseArrayObject (dense->sparse switch)",
	"(*sparseArrayObject)._setOwnIdx:*arrayObject":         "a.expand(idx) just switched the storage back: a.val.self is the new arrayObject (sparse->dense switch)",
	"(*sparseArrayObject)._defineIdxProperty:*arrayObject": "a.expand(idx) just switched the storage back: a.val.self is the new arrayObject (sparse->dense switch)",
	"(*definePrivateProp).exec:*classFuncObject":           "bytecode invariant: the compiler emits definePrivateProp only inside class bodies, where stack[sb-1] is the class constructor",
	"(_pushArrayItem).exec:*arrayObject":                   "bytecode invariant: emitted only after newArray pushed a fresh array literal at sp-2",
	"(_pushArraySpread).exec:*arrayObject":                 "bytecode invariant: emitted only after newArray pushed a fresh array literal at sp-2",
}

func runSelfAssert(p *core.Prog) *core.Result {
	res := core.NewResult("R-SELFASSERT", 5)
	fSelf, err := p.Field(core.GojaPath, "Object", "self")
	if err != nil {
		return res.Fail(err)
	}
	n := 0
	for _, f := range p.Funcs {
		core.AllInstrs(f, func(in ssa.Instruction) {
			ta, ok := in.(*ssa.TypeAssert)
			if !ok || ta.CommaOk {
				return
			}
			ld, ok := ta.X.(*ssa.UnOp)
			if !ok || ld.Op != token.MUL {
				return
			}
			fa, ok := ld.X.(*ssa.FieldAddr)
			if !ok || core.FieldOf(fa) != fSelf {
				return
			}
			if _, isIface := ta.AssertedType.Underlying().(*types.Interface); isIface {
				return
			}
			n++
			X := core.Origin(fa.X)
			kind := core.TypeShort(ta.AssertedType)
			key := fmt.Sprintf("%s:self.(%s)", core.FuncName(f), kind)
			pos := p.Pos(ta.Pos())
			if why, ok := selfAssertExceptions[core.FuncName(f)+":"+kind]; ok {
				res.OK(key, pos, "table exception: "+why)
				return
			}
			// promiseResolve(%Promise%, x): verified to return only real promises
			if how, ok := viaPromiseResolve(p, X, ta.AssertedType); ok {
				res.OK(key, pos, how)
				return
			}
			// (a) X comes from a constructor whose result's .self is stored as that kind
			if how, ok := builtAs(p, X, ta.AssertedType, 0); ok {
				res.OK(key, pos, how)
				return
			}
			// (b) a dominating successful comma-ok assertion of the same object's self to the same type
			for _, cp := range core.ControllingConds(ta.Block()) {
				if ex, ok := cp.Cond.(*ssa.Extract); ok && ex.Index == 1 && cp.Pol {
					if t2, ok := ex.Tuple.(*ssa.TypeAssert); ok && types.Identical(t2.AssertedType, ta.AssertedType) {
						if l2, ok := t2.X.(*ssa.UnOp); ok && l2.Op == token.MUL {
							if fa2, ok := l2.X.(*ssa.FieldAddr); ok && core.FieldOf(fa2) == fSelf && core.Origin(fa2.X) == X {
								res.OK(key, pos, "same object already asserted to "+kind+" on a dominating edge")
								return
							}
						}
					}
				}
			}
			res.Bad(key, pos, fmt.Sprintf("unchecked assertion of %s.self to %s: if script can supply an object of another kind here the host gets a Go runtime panic (interface conversion) instead of a TypeError", describe(fa.X), kind))
		})
	}
	res.Count("unchecked_self_assertions", n)
	return res
}

// builtAs: the *Object value was produced by code that stores a value of type `kind` in its self.
func builtAs(p *core.Prog, X ssa.Value, kind types.Type, depth int) (string, bool) {
	if depth > 3 {
		return "", false
	}
	switch x := X.(type) {
	case *ssa.Alloc:
		// o := &Object{}; o.self = <kind>
		for _, r := range core.Referrers(x) {
			if fa, ok := r.(*ssa.FieldAddr); ok && core.FieldOf(fa) != nil && core.FieldOf(fa).Name() == "self" {
				for _, rr := range core.Referrers(fa) {
					if st, ok := rr.(*ssa.Store); ok && types.Identical(core.Unwrap(st.Val).Type(), kind) {
						return "object allocated here with self of that kind", true
					}
				}
			}
		}
	case *ssa.Call:
		sc := x.Call.StaticCallee()
		if sc == nil || sc.Blocks == nil {
			return "", false
		}
		// every return of the callee is an object built as that kind
		n, all := 0, true
		core.AllInstrs(sc, func(in ssa.Instruction) {
			if r, ok := in.(*ssa.Return); ok && len(r.Results) >= 1 {
				n++
				v := core.Origin(r.Results[0])
				// `return o` / `return x.val` where x is of that kind
				if ld, ok := v.(*ssa.UnOp); ok && ld.Op == token.MUL {
					if fa, ok := ld.X.(*ssa.FieldAddr); ok && core.FieldOf(fa) != nil && core.FieldOf(fa).Name() == "val" {
						base := fa.X
						for {
							if e, ok := base.(*ssa.FieldAddr); ok && core.FieldOf(e) != nil && core.FieldOf(e).Embedded() {
								base = e.X
								continue
							}
							break
						}
						if types.Identical(core.Origin(base).Type(), kind) {
							return
						}
					}
				}
				if _, ok := builtAs(p, v, kind, depth+1); ok {
					return
				}
				all = false
			}
		})
		if n > 0 && all {
			return "returned by " + core.FuncName(sc) + ", which always builds that kind", true
		}
	case *ssa.UnOp:
		// X = cap.promise / y.val where y is of that kind
		if x.Op == token.MUL {
			if fa, ok := x.X.(*ssa.FieldAddr); ok && core.FieldOf(fa) != nil && core.FieldOf(fa).Name() == "val" {
				base := fa.X
				for {
					if e, ok := base.(*ssa.FieldAddr); ok && core.FieldOf(e) != nil && core.FieldOf(e).Embedded() {
						base = e.X
						continue
					}
					break
				}
				if types.Identical(core.Origin(base).Type(), kind) {
					return "the object is the .val of a value of that kind", true
				}
			}
		}
	}
	return "", false
}

// viaPromiseResolve: X = r.promiseResolve(r.getPromise(), v), and promiseResolve returns its argument
// only after a successful assertion to *Promise, otherwise the promise of a new capability.
func viaPromiseResolve(p *core.Prog, X ssa.Value, kind types.Type) (string, bool) {
	c, ok := X.(*ssa.Call)
	if !ok {
		// `var x *Object; ex := vm.try(func() { x = r.promiseResolve(..) })`: a local written exactly once, by
		// the closure handed to try
		c, ok = soleClosureStore(X)
	}
	if !ok {
		return "", false
	}
	pr, err := p.GojaMethod("Runtime", "promiseResolve")
	if err != nil || c.Call.StaticCallee() != pr || !core.IsGojaNamed(kind, "Promise") {
		return "", false
	}
	// first argument is the intrinsic constructor
	if gc, ok := core.Origin(c.Call.Args[1]).(*ssa.Call); !ok || gc.Call.StaticCallee() == nil || gc.Call.StaticCallee().Name() != "getPromise" {
		return "", false
	}
	fSelf, _ := p.Field(core.GojaPath, "Object", "self")
	allOK := true
	core.AllInstrs(pr, func(in ssa.Instruction) {
		r, ok := in.(*ssa.Return)
		if !ok {
			return
		}
		v := core.Origin(r.Results[0])
		// (i) the argument itself, under obj.self.(*Promise) ok
		guarded := false
		for _, cp := range core.ControllingConds(r.Block()) {
			if ex, ok := cp.Cond.(*ssa.Extract); ok && ex.Index == 1 && cp.Pol {
				if t2, ok := ex.Tuple.(*ssa.TypeAssert); ok && core.IsGojaNamed(t2.AssertedType, "Promise") {
					if l2, ok := t2.X.(*ssa.UnOp); ok && l2.Op == token.MUL {
						if fa2, ok := l2.X.(*ssa.FieldAddr); ok && core.FieldOf(fa2) == fSelf && core.Origin(fa2.X) == v {
							guarded = true
						}
					}
				}
			}
		}
		// (ii) pcap.promise of a new capability
		if ld, ok := v.(*ssa.UnOp); ok && ld.Op == token.MUL {
			if fa, ok := ld.X.(*ssa.FieldAddr); ok && core.FieldOf(fa) != nil && core.FieldOf(fa).Name() == "promise" {
				if nc, ok := core.Origin(fa.X).(*ssa.Call); ok && nc.Call.StaticCallee() != nil && nc.Call.StaticCallee().Name() == "newPromiseCapability" {
					guarded = true
				}
			}
		}
		if !guarded {
			allOK = false
		}
	})
	if allOK {
		return "result of promiseResolve(%Promise%, x): returns x only after x.self.(*Promise) succeeded, otherwise the promise of a new capability", true
	}
	return "", false
}

// soleClosureStore: X is a load of a local cell that is assigned exactly once in the function and
// the closures it creates, and that assignment stores the result of a call; returns the call.
func soleClosureStore(X ssa.Value) (*ssa.Call, bool) {
	ld, ok := X.(*ssa.UnOp)
	if !ok || ld.Op != token.MUL {
		return nil, false
	}
	cell, ok := ld.X.(*ssa.Alloc)
	if !ok {
		return nil, false
	}
	var stores []*ssa.Store
	for _, r := range core.Referrers(cell) {
		switch x := r.(type) {
		case *ssa.Store:
			if x.Addr == cell {
				stores = append(stores, x)
			}
		case *ssa.MakeClosure:
			fn, _ := x.Fn.(*ssa.Function)
			if fn == nil {
				return nil, false
			}
			for bi, b := range x.Bindings {
				if b != cell {
					continue
				}
				for _, fr := range core.Referrers(fn.FreeVars[bi]) {
					if st, ok := fr.(*ssa.Store); ok && st.Addr == fn.FreeVars[bi] {
						stores = append(stores, st)
					}
				}
			}
		}
	}
	// the zero value written by the declaration does not count when it is the nil constant
	var real []*ssa.Store
	for _, st := range stores {
		if k, ok := st.Val.(*ssa.Const); ok && k.IsNil() {
			continue
		}
		real = append(real, st)
	}
	if len(real) != 1 {
		return nil, false
	}
	c, ok := real[0].Val.(*ssa.Call)
	return c, ok
}

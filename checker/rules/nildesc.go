package rules

import (
	"fmt"
	"go/token"
	"go/types"

	"gojaverif/core"

	"golang.org/x/tools/go/ssa"
)

// R-NILDESC: the Value, Getter and Setter fields of a PropertyDescriptor are optional (nil = the
// descriptor has no such field). Calling a method on such a value, or handing it to a function
// that does, without a nil test is a nil-interface call: a Go runtime panic in the host.
var NilDesc = &core.Rule{Name: "R-NILDESC", Run: runNilDesc,
	Doc: "every method call on (or hand-over to a dereferencing function of) a Value loaded from PropertyDescriptor.Value/Getter/Setter is control-dependent on a non-nil test of that field"}

func runNilDesc(p *core.Prog) *core.Result {
	res := core.NewResult("R-NILDESC", 10)
	pd, err := p.GojaType("PropertyDescriptor")
	if err != nil {
		return res.Fail(err)
	}
	optional := map[*types.Var]bool{}
	for _, fv := range structFields(pd) {
		switch fv.Name() {
		case "Value", "Getter", "Setter":
			optional[fv] = true
		}
	}
	if len(optional) != 3 {
		return res.Failf("PropertyDescriptor.Value/Getter/Setter")
	}
	// summary: f dereferences its interface parameter i unconditionally
	derefs := map[*ssa.Function]map[int]bool{}
	paramIdx := func(f *ssa.Function, v ssa.Value) int {
		for i, q := range f.Params {
			if q == v {
				return i
			}
		}
		return -1
	}
	nilGuarded := func(in ssa.Instruction, same func(ssa.Value) bool) bool {
		for _, cp := range core.ControllingConds(in.Block()) {
			if x, nonNil, ok := core.IsNilCompare(cp.Cond); ok && cp.Pol == nonNil && same(x) {
				return true
			}
			// a successful type assertion / type switch case on the value also proves non-nil
			if ex, ok := cp.Cond.(*ssa.Extract); ok && ex.Index == 1 && cp.Pol {
				if ta, ok := ex.Tuple.(*ssa.TypeAssert); ok && same(ta.X) {
					return true
				}
			}
		}
		return false
	}
	for changed := true; changed; {
		changed = false
		for _, f := range p.Funcs {
			core.AllInstrs(f, func(in ssa.Instruction) {
				c, ok := in.(ssa.CallInstruction)
				if !ok {
					return
				}
				cc := c.Common()
				mark := func(v ssa.Value) {
					i := paramIdx(f, core.Origin(v))
					if i < 0 {
						return
					}
					prm := f.Params[i]
					if _, isIface := prm.Type().Underlying().(*types.Interface); !isIface {
						return
					}
					if nilGuarded(in, func(x ssa.Value) bool { return core.Origin(x) == prm }) {
						return
					}
					// must be executed on every path: the call's block dominates all returns? use: block dominates... keep simple: entry-dominated
					if derefs[f] == nil {
						derefs[f] = map[int]bool{}
					}
					if !derefs[f][i] {
						derefs[f][i] = true
						changed = true
					}
				}
				if cc.IsInvoke() {
					mark(cc.Value)
					return
				}
				if sc := cc.StaticCallee(); sc != nil && derefs[sc] != nil {
					for ai, a := range cc.Args {
						if derefs[sc][ai] {
							mark(a)
						}
					}
				}
			})
		}
	}
	n := 0
	for _, f := range p.Funcs {
		core.AllInstrs(f, func(in ssa.Instruction) {
			c, ok := in.(ssa.CallInstruction)
			if !ok {
				return
			}
			cc := c.Common()
			var check func(v ssa.Value, what string)
			check = func(v ssa.Value, what string) {
				o := core.Origin(v)
				// v := desc.Value; if v == nil { v = <default> }: judge each incoming value on its own edge
				if phi, ok := o.(*ssa.Phi); ok {
					for i, e := range phi.Edges {
						eo := core.Origin(e)
						l2, ok := eo.(*ssa.UnOp)
						if !ok || l2.Op != token.MUL {
							continue
						}
						fa2, ok := l2.X.(*ssa.FieldAddr)
						if !ok || !optional[core.FieldOf(fa2)] {
							continue
						}
						n++
						key := fmt.Sprintf("%s:%s.%s", core.FuncName(f), describe(fa2.X), core.FieldOf(fa2).Name())
						pred := phi.Block().Preds[i]
						guarded := false
						conds := core.ControllingConds(pred)
						if ifi, ok := pred.Instrs[len(pred.Instrs)-1].(*ssa.If); ok {
							pol := pred.Succs[0] == phi.Block()
							conds = append(conds, core.CondPol{Cond: ifi.Cond, Pol: pol, If: ifi})
						}
						for _, cp := range conds {
							c2, pol := cp.Cond, cp.Pol
							for {
								u, ok := c2.(*ssa.UnOp)
								if !ok || u.Op != token.NOT {
									break
								}
								c2, pol = u.X, !pol
							}
							if x, nonNil, ok := core.IsNilCompare(c2); ok && pol == nonNil && core.Origin(x) == eo {
								guarded = true
							}
						}
						if guarded {
							res.OK(key, p.Pos(in.Pos()), "the descriptor field reaches the call only on the edge where it was tested non-nil (a default is substituted otherwise)")
						} else {
							res.Bad(key, p.Pos(in.Pos()), fmt.Sprintf("the optional descriptor field %s is %s without a nil test", core.FieldOf(fa2).Name(), what))
						}
					}
					return
				}
				ld, ok := o.(*ssa.UnOp)
				if !ok || ld.Op != token.MUL {
					return
				}
				var fv *types.Var
				var base ssa.Value
				switch a := ld.X.(type) {
				case *ssa.FieldAddr:
					fv, base = core.FieldOf(a), a.X
				default:
					return
				}
				if !optional[fv] {
					return
				}
				n++
				key := fmt.Sprintf("%s:%s.%s", core.FuncName(f), describe(base), fv.Name())
				same := func(x ssa.Value) bool {
					xo := core.Origin(x)
					if xo == o {
						return true
					}
					if l2, ok := xo.(*ssa.UnOp); ok && l2.Op == token.MUL {
						if fa2, ok := l2.X.(*ssa.FieldAddr); ok && core.FieldOf(fa2) == fv && core.Origin(fa2.X) == core.Origin(base) {
							return true
						}
					}
					return false
				}
				if nilGuarded(in, same) {
					res.OK(key, p.Pos(in.Pos()), "under a non-nil test of the descriptor field")
					return
				}
				// IsData()/IsAccessor()-style guards are value-level: accept an explicit table only
				res.Bad(key, p.Pos(in.Pos()), fmt.Sprintf("the optional descriptor field %s is %s without a nil test: a descriptor that lacks the field (e.g. Reflect.defineProperty(o, k, {enumerable: true})) makes this a nil-interface call, i.e. a Go runtime panic in the host", fv.Name(), what))
			}
			if cc.IsInvoke() {
				check(cc.Value, "used as a method receiver ("+cc.Method.Name()+")")
				return
			}
			if sc := cc.StaticCallee(); sc != nil && derefs[sc] != nil {
				for ai, a := range cc.Args {
					if derefs[sc][ai] {
						check(a, "passed to "+core.FuncName(sc)+", which calls a method on it unconditionally")
					}
				}
			}
		})
	}
	res.Count("optional_field_dereferences", n)
	return res
}

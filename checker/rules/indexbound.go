package rules

import (
	"go/constant"
	"go/token"

	"gojaverif/core"

	"golang.org/x/tools/go/ssa"
)

// R-INDEXBOUND (C06 "ASCII and UTF-16 representations are indistinguishable", C01).
//
// String.index(substr, start) has one implementation per string representation. The ASCII one
// answers -1 when start lies beyond the end of the string; the UTF-16 one clamped the slice bound
// instead and "found" the empty string at `start` for ever: `"éb".replaceAll("", "-")` never
// terminated and allocated until the process died (while `"ab".replaceAll("", "-")` is "-a-b-").
//
// Rule: every implementation of index(substr String, start int) int that slices its receiver by
// `start` first compares start with a length (len of the receiver or of a string derived from it) and
// returns the constant -1 on the "beyond" edge.
var IndexBound = &core.Rule{Name: "R-INDEXBOUND", Run: runIndexBound,
	Doc: "each String.index implementation that slices by start returns -1 when start is past the end, like its siblings"}

func runIndexBound(p *core.Prog) *core.Result {
	res := core.NewResult("R-INDEXBOUND", 2)
	n := 0
	for _, f := range p.Funcs {
		if !p.InModule(f) || f.Parent() != nil || f.Name() != "index" || f.Signature.Recv() == nil {
			continue
		}
		if f.Signature.Params().Len() != 2 || f.Signature.Results().Len() != 1 || len(f.Params) != 3 {
			continue
		}
		start := f.Params[2]
		// does it slice (or index) something by start?
		slices := false
		core.AllInstrs(f, func(in ssa.Instruction) {
			if sl, ok := in.(*ssa.Slice); ok && sl.Low != nil && derivesFromParam(sl.Low, start, 0) {
				slices = true
			}
		})
		if !slices {
			continue
		}
		n++
		key := core.FuncName(f) + ":start past the end answers -1"
		ok := false
		core.AllInstrs(f, func(in ssa.Instruction) {
			ifi, isIf := in.(*ssa.If)
			if !isIf {
				return
			}
			bo, isBo := ifi.Cond.(*ssa.BinOp)
			if !isBo {
				return
			}
			var beyondOnTrue bool
			switch {
			case derivesFromParam(bo.X, start, 0) && (bo.Op == token.GTR || bo.Op == token.GEQ):
				beyondOnTrue = true
			case derivesFromParam(bo.Y, start, 0) && (bo.Op == token.LSS || bo.Op == token.LEQ):
				beyondOnTrue = true
			default:
				return
			}
			succ := ifi.Block().Succs[0]
			if !beyondOnTrue {
				succ = ifi.Block().Succs[1]
			}
			if ret, isRet := succ.Instrs[len(succ.Instrs)-1].(*ssa.Return); isRet && len(ret.Results) == 1 {
				if c, isC := ret.Results[0].(*ssa.Const); isC && c.Value != nil && c.Value.Kind() == constant.Int {
					if v, _ := constant.Int64Val(c.Value); v == -1 {
						ok = true
					}
				}
			}
		})
		if ok {
			res.OK(key, p.Pos(f.Pos()), "start compared with a length, -1 on the beyond edge")
		} else {
			res.Bad(key, p.Pos(f.Pos()), "the receiver is sliced by start without answering -1 for a start past the end (a clamped bound finds the empty string at `start` for ever): the sibling implementations return -1 there; String.prototype.replaceAll(\"\", ..) relies on it to terminate")
		}
	}
	res.Count("index implementations slicing by start", n)
	return res
}

func derivesFromParam(v ssa.Value, prm *ssa.Parameter, depth int) bool {
	if depth > 4 {
		return false
	}
	if v == ssa.Value(prm) {
		return true
	}
	switch x := v.(type) {
	case *ssa.BinOp:
		return derivesFromParam(x.X, prm, depth+1) || derivesFromParam(x.Y, prm, depth+1)
	case *ssa.Convert:
		return derivesFromParam(x.X, prm, depth+1)
	case *ssa.Call:
		if b, ok := x.Call.Value.(*ssa.Builtin); ok && (b.Name() == "min" || b.Name() == "max") {
			for _, a := range x.Call.Args {
				if derivesFromParam(a, prm, depth+1) {
					return true
				}
			}
		}
	case *ssa.Phi:
		for _, e := range x.Edges {
			if derivesFromParam(e, prm, depth+1) {
				return true
			}
		}
	}
	return false
}

package rules

import (
	"fmt"
	"go/constant"
	"go/token"
	"go/types"
	"sort"
	"strings"

	"gojaverif/core"

	"golang.org/x/tools/go/ssa"
)

// R-REVOKED: revoke() nils p.handler and p.target. Every objectImpl method of proxyObject must
// consult checkHandler() (which throws TypeError when revoked) before it touches the target.
var Revoked = &core.Rule{Name: "R-REVOKED", Run: runRevoked,
	Doc: "in every method of *proxyObject that implements an objectImpl method, each dereference of p.target (target.self.…) and each call receiving it is dominated by a call to p.checkHandler(), by an explicit p.target/p.handler nil test, or the method is in the audited table"}

var revokedExceptions = map[string]string{
	"className":  "tests p.target == nil itself and answers without touching the target when revoked",
	"typeOf":     "typeof of a revoked callable proxy is still \"function\": answers from p.call without touching the target",
	"exportType": "Go-side export of the wrapper, not an ES operation on the proxy",
	"export":     "Go-side export of the wrapper (returns the Proxy handle), not an ES operation on the proxy",
}

func runRevoked(p *core.Prog) *core.Result {
	res := core.NewResult("R-REVOKED", 40)
	pt, err := p.GojaType("proxyObject")
	if err != nil {
		return res.Fail(err)
	}
	oi, err := p.GojaType("objectImpl")
	if err != nil {
		return res.Fail(err)
	}
	checkHandler, err := p.GojaMethod("proxyObject", "checkHandler")
	if err != nil {
		return res.Fail(err)
	}
	fTarget, err := p.Field(core.GojaPath, "proxyObject", "target")
	if err != nil {
		return res.Fail(err)
	}
	fHandler, err := p.Field(core.GojaPath, "proxyObject", "handler")
	if err != nil {
		return res.Fail(err)
	}
	iface := oi.Underlying().(*types.Interface)
	isImplMethod := map[string]bool{}
	for i := 0; i < iface.NumMethods(); i++ {
		isImplMethod[iface.Method(i).Name()] = true
	}
	// summary: helper methods of proxyObject that call checkHandler before any use of the target
	var methods []*ssa.Function
	for _, f := range p.Funcs {
		if f.Parent() == nil && f.Signature.Recv() != nil && core.NamedOf(f.Signature.Recv().Type()) == pt {
			methods = append(methods, f)
		}
	}
	sort.Slice(methods, func(i, j int) bool { return methods[i].Name() < methods[j].Name() })
	// helper methods that always consult checkHandler() before returning (e.g. proxyOwnKeys)
	mustCheck := map[*ssa.Function]bool{}
	for _, m := range methods {
		var chk []ssa.Instruction
		core.AllInstrs(m, func(in ssa.Instruction) {
			if c, ok := in.(ssa.CallInstruction); ok && core.StaticCallee(c) == checkHandler {
				chk = append(chk, in)
			}
		})
		if len(chk) == 0 {
			continue
		}
		all := true
		for _, b := range m.Blocks {
			if r, ok := b.Instrs[len(b.Instrs)-1].(*ssa.Return); ok {
				dom := false
				for _, c := range chk {
					if core.InstrDominates(c, r) {
						dom = true
					}
				}
				if !dom {
					all = false
				}
			}
		}
		mustCheck[m] = all
	}
	guards := func(f *ssa.Function) []ssa.Instruction {
		var out []ssa.Instruction
		core.AllInstrs(f, func(in ssa.Instruction) {
			if c, ok := in.(ssa.CallInstruction); ok {
				if sc := core.StaticCallee(c); sc == checkHandler || (sc != nil && mustCheck[sc] && len(c.Common().Args) > 0 && core.Origin(c.Common().Args[0]) == f.Params[0]) {
					out = append(out, in)
				}
			}
		})
		return out
	}
	n := 0
	for _, f := range methods {
		if !isImplMethod[f.Name()] {
			continue
		}
		n++
		key := "(*proxyObject)." + f.Name() + ":checks-revocation"
		if why, ok := revokedExceptions[f.Name()]; ok {
			res.OK(key, p.Pos(f.Pos()), "table exception: "+why)
			continue
		}
		recv := f.Params[0]
		gs := guards(f)
		bad := ""
		uses := 0
		core.WithAnon(f, func(g *ssa.Function) {
			core.AllInstrs(g, func(in ssa.Instruction) {
				// a use of the target: FieldAddr(targetValue, ...) or a call with targetValue as argument
				isTarget := func(v ssa.Value) bool {
					o := core.Origin(v)
					ld, ok := o.(*ssa.UnOp)
					if !ok || ld.Op != token.MUL {
						return false
					}
					fa, ok := ld.X.(*ssa.FieldAddr)
					if !ok || core.FieldOf(fa) != fTarget {
						return false
					}
					base := core.Origin(fa.X)
					if base == recv {
						return true
					}
					if fv, isFree := base.(*ssa.FreeVar); isFree {
						_ = fv
						return true
					}
					return false
				}
				used := false
				switch x := in.(type) {
				case *ssa.FieldAddr:
					used = isTarget(x.X)
				case ssa.CallInstruction:
					if core.StaticCallee(x) == checkHandler {
						return
					}
					for _, a := range x.Common().Args {
						if isTarget(a) {
							// handing the target to the trap of the handler returned by checkHandler is the guarded use itself
							used = true
						}
					}
				}
				if !used {
					return
				}
				uses++
				if g != f {
					// inside a closure: the closure must be created after a guard in f
					for _, gd := range gs {
						var mk ssa.Instruction
						core.AllInstrs(f, func(i2 ssa.Instruction) {
							if mc, ok := i2.(*ssa.MakeClosure); ok && mc.Fn == g {
								mk = i2
							}
						})
						if mk != nil && core.InstrDominates(gd, mk) {
							return
						}
					}
					bad = p.Pos(in.Pos()) + " (inside a closure created before any revocation check)"
					return
				}
				for _, gd := range gs {
					if core.InstrDominates(gd, in) {
						return
					}
				}
				// explicit nil test of target/handler
				for _, cp := range core.ControllingConds(in.Block()) {
					if x, nonNil, ok := core.IsNilCompare(cp.Cond); ok && cp.Pol == nonNil {
						if ld, ok := core.Origin(x).(*ssa.UnOp); ok && ld.Op == token.MUL {
							if fv := core.FieldOf(ld.X); fv == fTarget || fv == fHandler {
								return
							}
						}
					}
				}
				// delegation to another method of the proxy that performs the check first is fine: handled via calls
				bad = p.Pos(in.Pos())
			})
		})
		// methods that only delegate to other proxy methods (no direct target use) are trivially fine
		if bad == "" {
			res.OK(key, p.Pos(f.Pos()), fmt.Sprintf("%d target uses, each after checkHandler() / an explicit revocation test", uses))
		} else {
			res.Bad(key, p.Pos(f.Pos()), "the proxy target is used at "+bad+" without a preceding revocation check: on a revoked proxy (target == nil) this is a nil dereference in the host instead of a TypeError")
		}
	}
	res.Count("objectImpl_methods_of_proxyObject", n)
	// the target is read before the trap runs: a trap can revoke its own proxy, so a read of
	// p.target / p.handler that is reachable from a trap call without a fresh checkHandler() in
	// between may see nil (seed C11/j: isExtensible re-read p.target after the trap)
	ph, err := p.GojaType("proxyHandler")
	if err != nil {
		return res.Fail(err)
	}
	after := func(a, b ssa.Instruction) bool { // b can execute after a
		if a.Block() == b.Block() {
			if core.InstrIndex(a) < core.InstrIndex(b) {
				return true
			}
			for _, s := range a.Block().Succs {
				if s == a.Block() || core.Reaches(s, a.Block()) {
					return true // the block is part of a loop
				}
			}
			return false
		}
		return core.Reaches(a.Block(), b.Block())
	}
	nStale := 0
	for _, f := range methods {
		var traps, checks, loads []ssa.Instruction
		core.AllInstrs(f, func(in ssa.Instruction) {
			switch x := in.(type) {
			case *ssa.Call:
				if x.Call.IsInvoke() && core.NamedOf(x.Call.Value.Type()) == ph {
					traps = append(traps, in)
				}
				if x.Call.StaticCallee() == checkHandler {
					checks = append(checks, in)
				}
			case *ssa.UnOp:
				if x.Op == token.MUL {
					if fv := core.FieldOf(x.X); fv == fTarget || fv == fHandler {
						if fa, ok := x.X.(*ssa.FieldAddr); ok && len(f.Params) > 0 && fa.X == f.Params[0] {
							// only reads that are used for more than a nil comparison
							used := false
							for _, r := range core.Referrers(x) {
								if _, isCmp := r.(*ssa.BinOp); !isCmp {
									used = true
								}
							}
							if used {
								loads = append(loads, in)
							}
						}
					}
				}
			}
		})
		for _, l := range loads {
			for _, k := range traps {
				if !after(k, l) {
					continue
				}
				fresh := false
				for _, c := range checks {
					if after(k, c) && core.InstrDominates(c, l) {
						fresh = true
					}
				}
				nStale++
				key := fmt.Sprintf("(*proxyObject).%s:target read after a trap ran#%d", f.Name(), nStale)
				if fresh {
					res.OK(key, p.Pos(l.Pos()), "re-validated by checkHandler() after the trap")
				} else {
					res.Bad(key, p.Pos(l.Pos()), "p.target / p.handler is read after the handler's trap was called ("+p.Pos(k.Pos())+") without a new checkHandler(): a trap that revokes its own proxy leaves nil here and the dereference is a Go nil-pointer panic; read the target into a local before calling the trap")
				}
				break
			}
		}
	}
	res.Count("target reads reachable from a trap call", nStale)
	// ... and the target's property that a post-check validates the trap's answer against is read
	// AFTER the trap ran: the trap may have changed the target (an honest forwarding deleteProperty
	// trap deletes the property). A getOwnProp* result obtained before the trap call and used after
	// it is stale (seed C11/h).
	nOrder := 0
	for _, f := range methods {
		var traps []ssa.Instruction
		core.AllInstrs(f, func(in ssa.Instruction) {
			if c, ok := in.(*ssa.Call); ok && c.Call.IsInvoke() && core.NamedOf(c.Call.Value.Type()) == ph {
				traps = append(traps, in)
			}
		})
		if len(traps) == 0 {
			continue
		}
		core.AllInstrs(f, func(in ssa.Instruction) {
			g, ok := in.(*ssa.Call)
			if !ok || !g.Call.IsInvoke() || !strings.HasPrefix(g.Call.Method.Name(), "getOwnProp") {
				return
			}
			// uses of the result, through phis
			var users []ssa.Instruction
			seen := map[ssa.Value]bool{}
			var collect func(v ssa.Value)
			collect = func(v ssa.Value) {
				if seen[v] {
					return
				}
				seen[v] = true
				for _, r := range core.Referrers(v) {
					if ph2, ok := r.(*ssa.Phi); ok {
						collect(ph2)
						continue
					}
					if v2, ok := r.(ssa.Value); ok {
						switch r.(type) {
						case *ssa.TypeAssert, *ssa.Extract, *ssa.ChangeInterface, *ssa.MakeInterface:
							collect(v2)
							continue
						}
					}
					users = append(users, r)
				}
			}
			collect(g)
			for _, k := range traps {
				if !after(in, k) || core.InstrDominates(k, in) {
					continue // the read is not before this trap call
				}
				for _, u := range users {
					if after(k, u) {
						nOrder++
						res.Bad(fmt.Sprintf("(*proxyObject).%s:target property read after the trap#%d", f.Name(), nOrder), p.Pos(g.Pos()), "the target's own property is read before the handler's trap is called ("+p.Pos(k.Pos())+") and used after it ("+p.Pos(u.Pos())+"): a trap that changes the target (an honest forwarding deleteProperty) is validated against the stale property and rejected with a TypeError")
						return
					}
				}
			}
		})
	}
	if nOrder == 0 {
		res.OK("(*proxyObject):target property read after the trap", "", "no getOwnProp* result obtained before a trap call is used after it")
	}

	// override completeness: every key-kinded / structural internal method is overridden (no silent fallback to baseObject)
	base, _ := p.GojaType("baseObject")
	must := []string{"proto", "setProto", "isExtensible", "preventExtensions", "keys", "stringKeys", "symbols", "iterateKeys", "iterateStringKeys", "iterateSymbols", "assertCallable", "assertConstructor"}
	for i := 0; i < iface.NumMethods(); i++ {
		m := iface.Method(i).Name()
		if strings.HasSuffix(m, "Str") || strings.HasSuffix(m, "Idx") || strings.HasSuffix(m, "Sym") {
			if m == "_putSym" {
				continue
			}
			must = append(must, m)
		}
	}
	for _, m := range must {
		d := declaringType(pt, m)
		key := "(*proxyObject)." + m + ":overridden"
		if d != nil && d != base {
			res.OK(key, p.Pos(pt.Obj().Pos()), "declared on "+d.Obj().Name())
		} else {
			res.Bad(key, p.Pos(pt.Obj().Pos()), "proxyObject does not override "+m+": the operation silently falls back to baseObject and bypasses the handler and the target")
		}
	}
	return res
}

// R-TRAPPOST: the Str/Idx/Sym siblings of each trap method must perform the same pre/post
// checks and feed them with the target's own property of the same key kind.
var TrapPost = &core.Rule{Name: "R-TRAPPOST", Run: runTrapPost,
	Doc: "sibling agreement: for each key-kinded trap method of proxyObject the Str, Idx and Sym variants call the same proxy check helpers on the handled path and look the property up on the target with the getOwnProp of their own key kind"}

func runTrapPost(p *core.Prog) *core.Result {
	res := core.NewResult("R-TRAPPOST", 14)
	pt, err := p.GojaType("proxyObject")
	if err != nil {
		return res.Fail(err)
	}
	fTarget, err := p.Field(core.GojaPath, "proxyObject", "target")
	if err != nil {
		return res.Fail(err)
	}
	families := []string{"defineOwnProperty", "hasProperty", "hasOwnProperty", "getOwnProp", "get", "setOwn", "setForeign", "delete"}
	kinds := []string{"Str", "Idx", "Sym"}
	norm := func(name, k string) string {
		return strings.ReplaceAll(name, k, "*")
	}
	for _, fam := range families {
		sets := map[string]map[string]bool{}
		var pos string
		for _, k := range kinds {
			f, err := p.GojaMethod("proxyObject", fam+k)
			if err != nil || core.NamedOf(f.Signature.Recv().Type()) != pt {
				res.Bad("(*proxyObject)."+fam+k+":exists", "-", "method not declared on proxyObject")
				continue
			}
			pos = p.Pos(f.Pos())
			set := map[string]bool{}
			core.AllInstrs(f, func(in ssa.Instruction) {
				c, ok := in.(ssa.CallInstruction)
				if !ok {
					return
				}
				cc := c.Common()
				if sc := cc.StaticCallee(); sc != nil {
					if sc.Signature.Recv() != nil && core.NamedOf(sc.Signature.Recv().Type()) == pt {
						set["p."+norm(sc.Name(), k)] = true
					}
					return
				}
				if cc.IsInvoke() {
					// on the target (target.self.X) or on the handler
					recvDesc := "?"
					if ld, ok := cc.Value.(*ssa.UnOp); ok && ld.Op == token.MUL {
						if fa, ok := ld.X.(*ssa.FieldAddr); ok && core.FieldOf(fa) != nil && core.FieldOf(fa).Name() == "self" {
							if tl, ok := core.Origin(fa.X).(*ssa.UnOp); ok && tl.Op == token.MUL && core.FieldOf(tl.X) == fTarget {
								recvDesc = "target"
							} else {
								recvDesc = "obj"
							}
						}
					}
					if _, isCall := cc.Value.(*ssa.Call); isCall {
						recvDesc = "handler"
					}
					set[recvDesc+"."+norm(cc.Method.Name(), k)] = true
					// key-kind agreement: a getOwnProp on the target must be of this method's own kind
					if recvDesc == "target" && strings.HasPrefix(cc.Method.Name(), "getOwnProp") && !strings.HasSuffix(cc.Method.Name(), k) {
						res.Bad("(*proxyObject)."+fam+k+":own-kind-lookup", p.Pos(c.Pos()), fmt.Sprintf("%s%s validates the trap result against target.self.%s: a different key kind than the operation (index and string keys live in different storage for arrays, strings, typed arrays)", fam, k, cc.Method.Name()))
					}
				}
			})
			sets[k] = set
		}
		if len(sets) != 3 {
			continue
		}
		ref := sets["Str"]
		for _, k := range []string{"Idx", "Sym"} {
			key := "(*proxyObject)." + fam + k + ":agrees-with-Str"
			var missing, extra []string
			for n := range ref {
				if !sets[k][n] {
					missing = append(missing, n)
				}
			}
			for n := range sets[k] {
				if !ref[n] {
					extra = append(extra, n)
				}
			}
			sort.Strings(missing)
			sort.Strings(extra)
			if len(missing) == 0 && len(extra) == 0 {
				res.OK(key, pos, fmt.Sprintf("same %d callees modulo key kind", len(ref)))
			} else {
				res.Bad(key, pos, fmt.Sprintf("%s%s and %sStr disagree: missing %v, extra %v — an invariant check (or the delegation to the target) performed for string keys is not performed for this key kind", fam, k, fam, missing, extra))
			}
		}
	}
	return res
}

// R-TRAPINVARIANT: two proxy invariant checks whose shape is decidable.
//   - deleteProperty (spec 10.5.10 steps 11-14): when the trap answered true and the target has the
//     property, *both* tests apply - the property must be configurable and the target extensible.
//     In proxyDeleteCheck every normally returning path on which trapResult is true and targetProp
//     is non-nil therefore passes the target.self.isExtensible() call.
//   - ownKeys (10.5.11 step 16-17): a target key missing from the trap result must be tested for
//     configurability on the *target's* property: the value type-asserted to *valueProperty must be
//     able to come from target.getOwnProp (key iterators of most object kinds carry no value).
var TrapInvariant = &core.Rule{Name: "R-TRAPINVARIANT", Run: runTrapInvariant,
	Doc: "must-pass-through with excusing edges in (*proxyObject).proxyDeleteCheck; value-origin check of the configurability test in (*proxyObject).proxyOwnKeys"}

func runTrapInvariant(p *core.Prog) *core.Result {
	res := core.NewResult("R-TRAPINVARIANT", 2)
	fn, err := p.GojaMethod("proxyObject", "proxyDeleteCheck")
	if err != nil {
		return res.Fail(err)
	}
	var trapResult, targetProp *ssa.Parameter
	for _, prm := range fn.Params {
		switch prm.Name() {
		case "trapResult":
			trapResult = prm
		case "targetProp":
			targetProp = prm
		}
	}
	if trapResult == nil || targetProp == nil {
		return res.Failf("unresolved anchor: parameters trapResult/targetProp of proxyDeleteCheck")
	}
	hasExt := func(b *ssa.BasicBlock) bool {
		for _, in := range b.Instrs {
			if c, ok := in.(*ssa.Call); ok && c.Call.IsInvoke() && c.Call.Method.Name() == "isExtensible" {
				return true
			}
		}
		return false
	}
	anyExt := false
	for _, b := range fn.Blocks {
		anyExt = anyExt || hasExt(b)
	}
	type state struct {
		b       *ssa.BasicBlock
		excused bool
	}
	seen := map[state]bool{}
	var bad *ssa.BasicBlock
	var walk func(b *ssa.BasicBlock, excused bool)
	walk = func(b *ssa.BasicBlock, excused bool) {
		st := state{b, excused}
		if seen[st] || bad != nil {
			return
		}
		seen[st] = true
		if hasExt(b) || p.FirstNoReturn(b) >= 0 {
			return
		}
		if len(b.Instrs) == 0 {
			return
		}
		switch last := b.Instrs[len(b.Instrs)-1].(type) {
		case *ssa.Return:
			if !excused {
				bad = b
			}
			return
		case *ssa.If:
			t, f := excused, excused
			if core.Origin(last.Cond) == ssa.Value(trapResult) {
				f = true // trap answered false
			}
			if x, nonNil, ok := core.IsNilCompare(last.Cond); ok && core.Origin(x) == ssa.Value(targetProp) {
				if nonNil {
					f = true
				} else {
					t = true
				}
			}
			walk(b.Succs[0], t)
			walk(b.Succs[1], f)
			return
		}
		for _, s := range b.Succs {
			walk(s, excused)
		}
	}
	walk(fn.Blocks[0], false)
	key := "(*proxyObject).proxyDeleteCheck:extensibility test on every has-property path"
	switch {
	case !anyExt:
		res.Bad(key, p.Pos(fn.Pos()), "proxyDeleteCheck never consults target.self.isExtensible()")
	case bad != nil:
		res.Bad(key, p.Pos(bad.Instrs[len(bad.Instrs)-1].Pos()), "a path with trapResult == true and targetProp != nil returns without testing target.self.isExtensible(): a proxy may then report an existing (plain data) property of a non-extensible target as deleted")
	default:
		res.OK(key, p.Pos(fn.Pos()), "only the trapResult==false and targetProp==nil paths skip the test")
	}

	ok2, err := p.GojaMethod("proxyObject", "proxyOwnKeys")
	if err != nil {
		return res.Fail(err)
	}
	vp, err := p.GojaType("valueProperty")
	if err != nil {
		return res.Fail(err)
	}
	n := 0
	core.AllInstrs(ok2, func(in ssa.Instruction) {
		ta, ok := in.(*ssa.TypeAssert)
		if !ok || core.NamedOf(ta.AssertedType) != vp {
			return
		}
		n++
		key := fmt.Sprintf("(*proxyObject).proxyOwnKeys:configurability test #%d reads the target's property", n)
		fromTarget := false
		seen := map[ssa.Value]bool{}
		var visit func(v ssa.Value)
		visit = func(v ssa.Value) {
			v = core.Origin(v)
			if seen[v] {
				return
			}
			seen[v] = true
			switch x := v.(type) {
			case *ssa.Phi:
				for _, e := range x.Edges {
					visit(e)
				}
			case *ssa.Call:
				name := ""
				if x.Call.IsInvoke() {
					name = x.Call.Method.Name()
				} else if sc := x.Call.StaticCallee(); sc != nil {
					name = sc.Name()
				}
				if strings.HasPrefix(name, "getOwnProp") {
					fromTarget = true
				}
			}
		}
		visit(ta.X)
		if fromTarget {
			res.OK(key, p.Pos(ta.Pos()), "the tested value can come from target.getOwnProp(name)")
		} else {
			res.Bad(key, p.Pos(ta.Pos()), "the non-configurable test for a key the trap omitted looks only at the key iterator's cached value, which most object kinds leave nil: an ownKeys trap can then hide a non-configurable own property of the target")
		}
	})
	if n == 0 {
		res.Bad("(*proxyObject).proxyOwnKeys:configurability test", p.Pos(ok2.Pos()), "no *valueProperty test left in proxyOwnKeys: omitted non-configurable keys are not detected")
	}
	return res
}

// R-TRAPTHROW: a proxy operation has two kinds of failure. A trap that answers "false" fails the
// way the ordinary operation would (TypeError only in strict/throwing contexts:
// typeErrorResult(throw, ...)). A trap whose answer contradicts an invariant of the target is
// rejected unconditionally (panic with a TypeError), also for Reflect.* callers that pass throw=false.
// So a conditional throw in a proxyObject method is admissible only under a falsish trap result.
var TrapThrow = &core.Rule{Name: "R-TRAPTHROW", Run: runTrapThrow,
	Doc: "in every method of *proxyObject each typeErrorResult(throw, ...) call whose first argument is not the constant true is control-dependent on a falsish trap result (the bool returned by the handler, or a bool parameter carrying it)"}

func runTrapThrow(p *core.Prog) *core.Result {
	res := core.NewResult("R-TRAPTHROW", 4)
	pt, err := p.GojaType("proxyObject")
	if err != nil {
		return res.Fail(err)
	}
	ter, err := p.GojaMethod("Runtime", "typeErrorResult")
	if err != nil {
		return res.Fail(err)
	}
	isTrapResult := func(fn *ssa.Function, v ssa.Value) bool {
		v = core.Origin(v)
		if prm, ok := v.(*ssa.Parameter); ok {
			if b, ok := prm.Type().Underlying().(*types.Basic); ok && b.Kind() == types.Bool && prm.Name() != "throw" {
				return true
			}
		}
		if ex, ok := v.(*ssa.Extract); ok && ex.Index == 0 {
			if c, ok := ex.Tuple.(*ssa.Call); ok && c.Call.IsInvoke() {
				// invoked on the handler returned by checkHandler()
				if hc, ok := core.Origin(c.Call.Value).(*ssa.Call); ok {
					if sc := hc.Call.StaticCallee(); sc != nil && sc.Name() == "checkHandler" {
						return true
					}
				}
			}
		}
		return false
	}
	n := 0
	for _, fn := range p.Funcs {
		if fn.Parent() != nil || fn.Signature.Recv() == nil || core.NamedOf(fn.Signature.Recv().Type()) != pt {
			continue
		}
		k := 0
		for _, c := range core.CallsIn(fn, ter) {
			args := c.Common().Args
			if len(args) < 2 {
				continue
			}
			if kc, ok := args[1].(*ssa.Const); ok && kc.Value != nil && kc.Value.Kind() == constant.Bool && constant.BoolVal(kc.Value) {
				continue // unconditional
			}
			n++
			k++
			key := fmt.Sprintf("%s:conditional throw#%d", core.FuncName(fn), k)
			ok := false
			for _, cp := range core.ControllingConds(c.Block()) {
				if !cp.Pol && isTrapResult(fn, cp.Cond) {
					ok = true
				}
			}
			if ok {
				res.OK(key, p.Pos(c.Pos()), "under a falsish trap result")
			} else {
				res.Bad(key, p.Pos(c.Pos()), "a failure that is not 'the trap answered false' is reported with typeErrorResult(throw, ...): with throw == false (Reflect.setPrototypeOf, Reflect.defineProperty, Reflect.set ...) a trap result that violates an invariant of the target is answered with `false` instead of being rejected with a TypeError")
			}
		}
	}
	return res
}

// R-COMPATPOLARITY (C11 "lying handlers rejected" / "forwarding proxy equals target"): the proxy's
// descriptor compatibility predicate (IsCompatiblePropertyDescriptor for the defineProperty and
// getOwnPropertyDescriptor invariants) rejects a descriptor because a field it specifies DIFFERS
// from the target's property - never because it is the same. Every `return false` of
// __isCompatibleDescriptor that is controlled by a sameness test (SameAs / identity of the accessor
// functions) lies on the not-same edge. The reference implementation of the same table,
// baseObject._defineOwnProperty, rejects on `!descr.Value.SameAs(existing.value)` and
// `existing.getterFunc != getterObj`.
// (On the pinned tree the accessor branch was inverted: an honest forwarding
// getOwnPropertyDescriptor / defineProperty trap on a non-configurable accessor threw TypeError and
// a lying one with a different getter was accepted - reported by three independent agents.)
var CompatPolarity = &core.Rule{Name: "R-COMPATPOLARITY", Run: runCompatPolarity,
	Doc: "every `return false` of proxyObject.__isCompatibleDescriptor that is controlled by a sameness test of a descriptor field lies on its not-same edge"}

func runCompatPolarity(p *core.Prog) *core.Result {
	res := core.NewResult("R-COMPATPOLARITY", 2)
	fn, err := p.GojaMethod("proxyObject", "__isCompatibleDescriptor")
	if err != nil {
		return res.Fail(err)
	}
	isSameness := func(v ssa.Value) (string, bool) {
		c, ok := v.(*ssa.Call)
		if !ok {
			return "", false
		}
		nm := ""
		if c.Call.IsInvoke() {
			nm = c.Call.Method.Name()
		} else if sc := c.Call.StaticCallee(); sc != nil {
			nm = sc.Name()
		}
		switch nm {
		case "SameAs", "StrictEquals", "sameAccessor", "sameValue":
			return nm, true
		}
		return "", false
	}
	n := 0
	core.AllInstrs(fn, func(in ssa.Instruction) {
		r, ok := in.(*ssa.Return)
		if !ok || len(r.Results) != 1 {
			return
		}
		k, ok := r.Results[0].(*ssa.Const)
		if !ok || k.Value == nil || k.Value.String() != "false" {
			return
		}
		for _, cp := range core.ControllingConds(in.Block()) {
			nm, ok := isSameness(cp.Cond)
			if !ok {
				continue
			}
			n++
			key := fmt.Sprintf("(*proxyObject).__isCompatibleDescriptor:rejects on difference#%d", n)
			if !cp.Pol {
				res.OK(key, p.Pos(r.Pos()), "return false on the not-"+nm+" edge")
			} else {
				res.Bad(key, p.Pos(r.Pos()), "the descriptor is rejected because a field "+nm+" the target's: an honest forwarding trap on such a property throws TypeError and a lying one is accepted")
			}
		}
	})
	// the invariants compare with SameValue: no StrictEquals / Equals in the proxy's checks
	// (NaN must equal NaN, +0 must differ from -0; seed C11/g)
	pt, err := p.GojaType("proxyObject")
	if err != nil {
		return res.Fail(err)
	}
	nEq := 0
	for _, f := range p.Funcs {
		top := core.EnclosingTop(f)
		if top.Signature.Recv() == nil || core.NamedOf(top.Signature.Recv().Type()) != pt {
			continue
		}
		core.AllInstrs(f, func(in ssa.Instruction) {
			c, ok := in.(ssa.CallInstruction)
			if !ok {
				return
			}
			nm := ""
			if c.Common().IsInvoke() {
				nm = c.Common().Method.Name()
			} else if sc := c.Common().StaticCallee(); sc != nil {
				nm = sc.Name()
			}
			if nm == "StrictEquals" || nm == "Equals" {
				nEq++
				res.Bad(fmt.Sprintf("(*proxyObject).%s:invariant compared with SameValue#%d", top.Name(), nEq), p.Pos(c.Pos()), "a proxy invariant compares values with "+nm+" instead of SameAs (SameValue): an honest trap returning NaN for a frozen NaN property is rejected, and a +0/-0 lie is accepted")
			}
		})
	}
	if nEq == 0 {
		res.OK("(*proxyObject):invariants compared with SameValue", p.Pos(fn.Pos()), "no StrictEquals / Equals in the methods of proxyObject")
	}
	// a phi-returned false: `return a && b` shapes are not used here; require at least the value test
	if n == 0 {
		res.Bad("(*proxyObject).__isCompatibleDescriptor:rejects on difference", p.Pos(fn.Pos()), "no sameness test controls a rejection any more: the value / getter / setter clauses of the invariant are gone")
	}
	return res
}

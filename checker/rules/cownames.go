package rules

import (
	"fmt"
	"go/token"
	"go/types"

	"gojaverif/core"

	"golang.org/x/tools/go/ssa"
)

// R-COWNAMES (C04 "key order"; live enumeration): a for-in / Object.keys enumeration in progress holds
// a snapshot of baseObject.propNames - the same backing array, marked "copy before you write"
// (prepareNamesForCopy / namesMarkedForCopy). Appending behind the snapshot's length is invisible to
// it; overwriting or shifting elements in place is not. Every in-place element write into a slice
// obtained from o.propNames (an indexed store, or copy() with such a destination) is control-dependent
// on !namesMarkedForCopy(names), or the slice went through copyNamesIfNeeded / was freshly made.
// (Seeded twice: C04/f copied one append too late, C04/h dropped the copy branch of fixPropOrder - a
// running for-in then skips keys.)
var CowNames = &core.Rule{Name: "R-COWNAMES", Run: runCowNames,
	Doc: "every in-place element write into a slice loaded from baseObject.propNames is control-dependent on !namesMarkedForCopy (or works on a copy)"}

// cowNamesAudited: in-place writes that cannot meet a snapshot.
var cowNamesAudited = map[string]string{
	"(*errorObject).addStackProp": "moves the lazily added `stack` name to the front; every enumerator of an errorObject (iterateStringKeys, stringKeys) calls addStackProp() before it takes its snapshot, and stackPropAdded makes the move happen once",
}

func runCowNames(p *core.Prog) *core.Result {
	res := core.NewResult("R-COWNAMES", 2)
	fNames, err := p.Field(core.GojaPath, "baseObject", "propNames")
	if err != nil {
		return res.Fail(err)
	}
	marked, err := p.GojaFunc("namesMarkedForCopy")
	if err != nil {
		return res.Fail(err)
	}
	// does v derive from a load of propNames without passing a copying function / make?
	var fromNames func(v ssa.Value, seen map[ssa.Value]bool) bool
	fromNames = func(v ssa.Value, seen map[ssa.Value]bool) bool {
		if seen[v] {
			return false
		}
		seen[v] = true
		switch x := v.(type) {
		case *ssa.UnOp:
			if x.Op != token.MUL {
				return false
			}
			if core.FieldOf(x.X) == fNames {
				return true
			}
			// a local captured by a closure lives in a cell: look at what is stored there
			if a, ok := x.X.(*ssa.Alloc); ok {
				for _, r := range core.Referrers(a) {
					if st, ok := r.(*ssa.Store); ok && st.Addr == a && fromNames(st.Val, seen) {
						return true
					}
				}
			}
			return false
		case *ssa.Slice:
			return fromNames(x.X, seen)
		case *ssa.Phi:
			for _, e := range x.Edges {
				if fromNames(e, seen) {
					return true
				}
			}
		}
		return false
	}
	n := map[string]int{}
	for _, f := range p.Funcs {
		if f.Pkg == nil || f.Pkg.Pkg.Path() != core.GojaPath {
			continue
		}
		core.AllInstrs(f, func(in ssa.Instruction) {
			var dst ssa.Value
			what := ""
			switch x := in.(type) {
			case *ssa.Store:
				if ia, ok := x.Addr.(*ssa.IndexAddr); ok {
					dst, what = ia.X, "indexed store"
				}
			case *ssa.Call:
				if b, ok := x.Call.Value.(*ssa.Builtin); ok && b.Name() == "copy" && len(x.Call.Args) == 2 {
					dst, what = x.Call.Args[0], "copy()"
				}
			}
			if dst == nil || !fromNames(dst, map[ssa.Value]bool{}) {
				return
			}
			k := core.FuncName(f) + ":in-place write into propNames"
			n[k]++
			key := k
			if n[k] > 1 {
				key = fmt.Sprintf("%s#%d", k, n[k])
			}
			if why, ok := cowNamesAudited[core.FuncName(f)]; ok {
				res.OK(key, p.Pos(in.Pos()), "audited: "+why)
				return
			}
			for _, cp := range core.ControllingConds(in.Block()) {
				if c, ok := cp.Cond.(*ssa.Call); ok && c.Call.StaticCallee() == marked && !cp.Pol {
					res.OK(key, p.Pos(in.Pos()), what+" only when the names are not marked for copy")
					return
				}
			}
			// after the merge of a copy-on-write branch: the marker was tested on the way here and the
			// marked edge switched to a fresh array (make) that was stored back into propNames
			tested := false
			for _, c := range core.CallsIn(f, marked) {
				if core.InstrDominates(c.(ssa.Instruction), in) {
					tested = true
				}
			}
			freshStored := false
			hasMake := false
			core.AllInstrs(f, func(x ssa.Instruction) {
				if mk, ok := x.(*ssa.MakeSlice); ok && types.Identical(mk.Type(), fNames.Type()) {
					hasMake = true
				}
			})
			for _, w := range p.FieldWrites(fNames) {
				if w.Fn == f && w.Kind == "store" && hasMake {
					freshStored = true
				}
			}
			if tested && freshStored {
				res.OK(key, p.Pos(in.Pos()), what+" after a copy-on-write branch (marker tested, a fresh array installed on the marked edge)")
				return
			}
			res.Bad(key, p.Pos(in.Pos()), what+" into the backing array of o.propNames without a test of namesMarkedForCopy(): an enumeration in progress shares that array and sees its keys shift (keys are skipped or visited twice)")
		})
	}
	return res
}

package rules

import (
	"fmt"
	"go/token"
	"sort"
	"strings"

	"gojaverif/core"

	"golang.org/x/tools/go/ssa"
)

// R-KEYKINDAGREE (C04 "for every key kind"): the methods of *Object that exist once per key kind
// (setStr / setIdx / setSym, ...) implement one specification algorithm three times. They must agree
// on what they consult: the same callees modulo the key-kind suffix, the same interface methods, the
// same fields of the property record. A sibling that tests less (seed C04/g: setSym lost the
// accessor and writable tests on the receiver's own property) or calls something else is reported
// with the difference.
var KeyKindAgree = &core.Rule{Name: "R-KEYKINDAGREE", Run: runKeyKindAgree,
	Doc: "the Str / Idx / Sym siblings of a method of *Object call the same functions modulo key kind, invoke the same interface methods and read the same fields of valueProperty"}

// keyKindAudited: differences that are intended.
var keyKindAudited = map[string]string{}

func runKeyKindAgree(p *core.Prog) *core.Result {
	res := core.NewResult("R-KEYKINDAGREE", 2)
	objT, err := p.GojaType("Object")
	if err != nil {
		return res.Fail(err)
	}
	vpT, err := p.GojaType("valueProperty")
	if err != nil {
		return res.Fail(err)
	}
	norm := func(s string) string {
		for _, k := range []string{"Str", "Idx", "Sym"} {
			if strings.HasSuffix(s, k) {
				return strings.TrimSuffix(s, k) + "K"
			}
		}
		return s
	}
	fams := map[string]map[string]*ssa.Function{}
	for _, f := range p.Funcs {
		// *Object only: on the object kinds the Idx variants legitimately delegate to the Str ones
		// (108 of 161 sibling pairs differ there), on *Object the three are written out in full
		if f.Parent() != nil || f.Signature.Recv() == nil || core.NamedOf(f.Signature.Recv().Type()) != objT {
			continue
		}
		recvName := core.TypeShort(f.Signature.Recv().Type())
		for _, k := range []string{"Str", "Idx", "Sym"} {
			if strings.HasSuffix(f.Name(), k) {
				base := recvName + "." + strings.TrimSuffix(f.Name(), k)
				if fams[base] == nil {
					fams[base] = map[string]*ssa.Function{}
				}
				fams[base][k] = f
			}
		}
	}
	sig := func(f *ssa.Function) map[string]bool {
		out := map[string]bool{}
		core.AllInstrs(f, func(in ssa.Instruction) {
			switch x := in.(type) {
			case ssa.CallInstruction:
				c := x.Common()
				if c.IsInvoke() {
					out["invoke "+norm(c.Method.Name())] = true
				} else if sc := c.StaticCallee(); sc != nil && p.InModule(sc) {
					out["call "+norm(sc.Name())] = true
				}
			case *ssa.FieldAddr:
				if core.NamedOf(x.X.Type()) == vpT {
					out["valueProperty."+core.FieldOf(x).Name()] = true
				}
			case *ssa.UnOp:
				_ = token.MUL
			}
		})
		return out
	}
	var bases []string
	for b, m := range fams {
		if len(m) >= 2 && m["Str"] != nil {
			bases = append(bases, b)
		}
	}
	sort.Strings(bases)
	for _, b := range bases {
		m := fams[b]
		ref := sig(m["Str"])
		for _, k := range []string{"Idx", "Sym"} {
			if m[k] == nil {
				continue
			}
			s := sig(m[k])
			var missing, extra []string
			for x := range ref {
				if !s[x] {
					missing = append(missing, x)
				}
			}
			for x := range s {
				if !ref[x] {
					extra = append(extra, x)
				}
			}
			sort.Strings(missing)
			sort.Strings(extra)
			key := fmt.Sprintf("%s%s~Str", b, k)
			pos := p.Pos(m[k].Pos())
			diff := fmt.Sprintf("missing %v, extra %v", missing, extra)
			switch {
			case len(missing) == 0 && len(extra) == 0:
				res.OK(key, pos, fmt.Sprintf("same %d callees / invokes / property fields modulo key kind", len(ref)))
			case keyKindAudited[key] != "":
				res.OK(key, pos, "audited: "+keyKindAudited[key]+" ("+diff+")")
			default:
				res.Bad(key, pos, "this key-kind sibling consults something else than the Str version ("+diff+"): the internal method behaves differently for this kind of key")
			}
		}
	}
	res.Count("key-kind families on *Object", len(bases))
	return res
}

package rules

import (
	"fmt"
	"go/token"
	"go/types"

	"gojaverif/core"

	"golang.org/x/tools/go/ssa"
)

// R-MAPENCAPS / R-KEYNORM: Map and Set are an insertion-ordered hash map whose linked-list
// invariants live in ~150 lines of map.go. Encapsulation keeps them local; key normalisation
// (-0 → +0) must reach both the hash and the stored key.
var MapEncaps = &core.Rule{Name: "R-MAPENCAPS", Run: runMapEncaps,
	Doc: "every write of a field of mapEntry/orderedMap/orderedMapIter and every read of their link fields happens in methods of those types; size is only incremented in set, decremented in remove, zeroed in clear"}

func runMapEncaps(p *core.Prog) *core.Result {
	res := core.NewResult("R-MAPENCAPS", 15)
	owners := map[string]bool{"orderedMap": true, "orderedMapIter": true}
	isOwner := func(f *ssa.Function) bool {
		f = core.EnclosingTop(f)
		if f.Name() == "newOrderedMap" {
			return true
		}
		if r := f.Signature.Recv(); r != nil {
			if n := core.NamedOf(r.Type()); n != nil && owners[n.Obj().Name()] {
				return true
			}
		}
		return false
	}
	linkFields := map[string]bool{"iterPrev": true, "iterNext": true, "hNext": true, "hashTable": true, "iterFirst": true, "iterLast": true, "hash": true}
	for _, tn := range []string{"mapEntry", "orderedMap", "orderedMapIter"} {
		nt, err := p.GojaType(tn)
		if err != nil {
			return res.Fail(err)
		}
		for _, fv := range structFields(nt) {
			for _, w := range p.FieldWrites(fv) {
				key := fmt.Sprintf("%s.%s:writer(%s)", tn, fv.Name(), core.FuncName(w.Fn))
				if isOwner(w.Fn) {
					res.OK(key, p.Pos(w.Instr.Pos()), "written inside the map implementation")
				} else {
					res.Bad(key, p.Pos(w.Instr.Pos()), fmt.Sprintf("%s.%s is written outside orderedMap/orderedMapIter: the linked-list / size / tombstone invariants that live iterators rely on can no longer be established locally", tn, fv.Name()))
				}
			}
			if linkFields[fv.Name()] {
				for _, fa := range p.FieldAddrs(fv) {
					if !isOwner(fa.Parent()) {
						res.Bad(fmt.Sprintf("%s.%s:reader(%s)", tn, fv.Name(), core.FuncName(fa.Parent())), p.Pos(fa.Pos()), "link field accessed outside the map implementation (iteration must go through orderedMapIter.next, which skips tombstones)")
					}
				}
			}
		}
	}
	// size discipline
	fSize, err := p.Field(core.GojaPath, "orderedMap", "size")
	if err != nil {
		return res.Fail(err)
	}
	want := map[string]string{"set": "+1", "remove": "-1", "clear": "=0"}
	for _, w := range p.FieldWrites(fSize) {
		st, ok := w.Instr.(*ssa.Store)
		if !ok {
			continue
		}
		fn := core.EnclosingTop(w.Fn).Name()
		how := "?"
		if b, ok := st.Val.(*ssa.BinOp); ok {
			if k, okk := core.IntConst(b.Y); okk && k == 1 {
				if b.Op == token.ADD {
					how = "+1"
				} else if b.Op == token.SUB {
					how = "-1"
				}
			}
		} else if k, okk := core.IntConst(st.Val); okk && k == 0 {
			how = "=0"
		}
		key := "orderedMap.size:" + fn
		if want[fn] == how {
			res.OK(key, p.Pos(st.Pos()), "size "+how+" in "+fn)
		} else {
			res.Bad(key, p.Pos(st.Pos()), fmt.Sprintf("size is updated with %s in %s (expected set:+1, remove:-1, clear:=0): size no longer equals the number of live entries", how, fn))
		}
		// +1 only on the insertion edge, -1 only on the found edge
		if fn == "set" || fn == "remove" {
			onEdge := false
			for _, cp := range core.ControllingConds(st.Block()) {
				if x, nonNil, ok := core.IsNilCompare(cp.Cond); ok {
					if ex, isEx := x.(*ssa.Extract); isEx && ex.Index == 1 {
						found := cp.Pol == nonNil
						if (fn == "set" && !found) || (fn == "remove" && found) {
							onEdge = true
						}
					}
				}
			}
			key2 := "orderedMap.size:" + fn + "-edge"
			if onEdge {
				res.OK(key2, p.Pos(st.Pos()), "only when lookup "+map[string]string{"set": "missed", "remove": "found the entry"}[fn])
			} else {
				res.Bad(key2, p.Pos(st.Pos()), "size is changed without regard to whether lookup found the key")
			}
		}
	}
	bucketDelete(p, res)
	return res
}

var KeyNorm = &core.Rule{Name: "R-KEYNORM", Run: runKeyNorm,
	Doc: "in orderedMap.lookup the hashed and compared key, and in orderedMap.set the stored key, is the value after the -0 → +0 replacement (a phi of the parameter and intToValue(0) under key == _negativeZero)"}

func runKeyNorm(p *core.Prog) *core.Result {
	res := core.NewResult("R-KEYNORM", 3)
	intToValue, err := p.GojaFunc("intToValue")
	if err != nil {
		return res.Fail(err)
	}
	fKey, err := p.Field(core.GojaPath, "mapEntry", "key")
	if err != nil {
		return res.Fail(err)
	}
	normalised := func(f *ssa.Function, v ssa.Value) bool {
		phi, ok := v.(*ssa.Phi)
		if !ok {
			return false
		}
		hasParam, hasZero := false, false
		for _, e := range phi.Edges {
			if prm, ok := e.(*ssa.Parameter); ok && prm.Name() == "key" {
				hasParam = true
			}
			if c, ok := e.(*ssa.Call); ok && c.Call.StaticCallee() == intToValue {
				if k, okk := core.IntConst(c.Call.Args[0]); okk && k == 0 {
					// the replacement must be on the edge of key == _negativeZero
					for _, cp := range core.ControllingConds(c.Block()) {
						if b, ok := cp.Cond.(*ssa.BinOp); ok && b.Op == token.EQL && cp.Pol {
							if ld, ok := b.Y.(*ssa.UnOp); ok && ld.Op == token.MUL {
								if g, ok := ld.X.(*ssa.Global); ok && g.Name() == "_negativeZero" {
									hasZero = true
								}
							}
						}
					}
				}
			}
		}
		return hasParam && hasZero
	}
	lookup, err := p.GojaMethod("orderedMap", "lookup")
	if err != nil {
		return res.Fail(err)
	}
	set, err := p.GojaMethod("orderedMap", "set")
	if err != nil {
		return res.Fail(err)
	}
	// lookup: receiver of hash() and argument of SameAs()
	core.AllInstrs(lookup, func(in ssa.Instruction) {
		c, ok := in.(*ssa.Call)
		if !ok || !c.Call.IsInvoke() {
			return
		}
		var v ssa.Value
		switch c.Call.Method.Name() {
		case "hash":
			v = c.Call.Value
		case "SameAs":
			v = c.Call.Args[0]
		default:
			return
		}
		key := "lookup:" + c.Call.Method.Name() + "-uses-normalised-key"
		if normalised(lookup, v) {
			res.OK(key, p.Pos(c.Pos()), "operates on φ(key, intToValue(0)) under key == _negativeZero")
		} else {
			res.Bad(key, p.Pos(c.Pos()), "the key is hashed/compared before -0 is replaced by +0: new Map().set(-0, 1).get(0) and Set membership of ±0 disagree")
		}
	})
	// set: the stored key
	n := 0
	core.AllInstrs(set, func(in ssa.Instruction) {
		st, ok := in.(*ssa.Store)
		if !ok {
			return
		}
		fa, ok := st.Addr.(*ssa.FieldAddr)
		if !ok || core.FieldOf(fa) != fKey {
			return
		}
		n++
		if normalised(set, st.Val) {
			res.OK("set:stored-key-normalised", p.Pos(st.Pos()), "stores φ(key, intToValue(0))")
		} else {
			res.Bad("set:stored-key-normalised", p.Pos(st.Pos()), "the key stored in a new entry is not the -0-normalised one: iteration yields -0 where the specification says +0")
		}
	})
	if n == 0 {
		res.Bad("set:stored-key-normalised", p.Pos(set.Pos()), "no store of mapEntry.key found in set")
	}
	return res
}

var _ = types.Typ

// R-TOMBSTONE: live iteration under deletion. A removed entry stays reachable from iterators parked
// on it: it is marked by key == nil and keeps its iterPrev link, and next() walks back over *all*
// consecutive tombstones to the nearest live predecessor.
var Tombstone = &core.Rule{Name: "R-TOMBSTONE", Run: runTombstone,
	Doc: "(a) in orderedMapIter.next the iterPrev step is inside a loop controlled by a key == nil test; (b) orderedMap.remove marks the found entry with key = nil and never overwrites that entry's own iterPrev; (c) orderedMap.clear marks every entry with key = nil inside its loop"}

func runTombstone(p *core.Prog) *core.Result {
	res := core.NewResult("R-TOMBSTONE", 4)
	fKey, err := p.Field(core.GojaPath, "mapEntry", "key")
	if err != nil {
		return res.Fail(err)
	}
	fPrev, err := p.Field(core.GojaPath, "mapEntry", "iterPrev")
	if err != nil {
		return res.Fail(err)
	}
	next, err := p.GojaMethod("orderedMapIter", "next")
	if err != nil {
		return res.Fail(err)
	}
	remove, err := p.GojaMethod("orderedMap", "remove")
	if err != nil {
		return res.Fail(err)
	}
	clear, err := p.GojaMethod("orderedMap", "clear")
	if err != nil {
		return res.Fail(err)
	}
	inCycle := func(b *ssa.BasicBlock) bool {
		for _, s := range b.Succs {
			if core.Reaches(s, b) {
				return true
			}
		}
		return false
	}
	// (a)
	{
		var step ssa.Instruction
		looped, keyed := false, false
		core.AllInstrs(next, func(in ssa.Instruction) {
			ld, ok := in.(*ssa.UnOp)
			if !ok || ld.Op != token.MUL {
				return
			}
			fa, ok := ld.X.(*ssa.FieldAddr)
			if !ok || core.FieldOf(fa) != fPrev {
				return
			}
			step = in
			if inCycle(ld.Block()) {
				looped = true
				for _, cp := range core.ControllingConds(ld.Block()) {
					if x, _, ok := core.IsNilCompare(cp.Cond); ok {
						if kl, ok := x.(*ssa.UnOp); ok {
							if kfa, ok := kl.X.(*ssa.FieldAddr); ok && core.FieldOf(kfa) == fKey {
								keyed = true
							}
						}
					}
				}
			}
		})
		key := "(*orderedMapIter).next:walks back over all tombstones"
		switch {
		case step == nil:
			res.Bad(key, p.Pos(next.Pos()), "next() never follows iterPrev: an iterator parked on a removed entry cannot find its way back into the list")
		case !looped || !keyed:
			res.Bad(key, p.Pos(step.Pos()), "the iterPrev step is not inside a loop controlled by `key == nil`: after two adjacent entries were removed (the earlier one last) the iterator lands on a tombstone, follows its stale iterNext and yields entries twice or skips live ones")
		default:
			res.OK(key, p.Pos(step.Pos()), "iterPrev step in a loop controlled by key == nil")
		}
	}
	// (b)
	{
		var entry ssa.Value
		core.AllInstrs(remove, func(in ssa.Instruction) {
			if ex, ok := in.(*ssa.Extract); ok && ex.Index == 1 {
				if c, ok := ex.Tuple.(*ssa.Call); ok && c.Call.StaticCallee() != nil && c.Call.StaticCallee().Name() == "lookup" {
					entry = ex
				}
			}
		})
		if entry == nil {
			return res.Failf("unresolved anchor: entry returned by lookup in orderedMap.remove")
		}
		marked := false
		var clobber ssa.Instruction
		core.AllInstrs(remove, func(in ssa.Instruction) {
			st, ok := in.(*ssa.Store)
			if !ok {
				return
			}
			fa, ok := st.Addr.(*ssa.FieldAddr)
			if !ok || core.Origin(fa.X) != entry {
				return
			}
			switch core.FieldOf(fa) {
			case fKey:
				if c, ok := st.Val.(*ssa.Const); ok && c.IsNil() {
					marked = true
				}
			case fPrev:
				clobber = in
			}
		})
		if marked {
			res.OK("(*orderedMap).remove:tombstone mark", p.Pos(remove.Pos()), "entry.key = nil")
		} else {
			res.Bad("(*orderedMap).remove:tombstone mark", p.Pos(remove.Pos()), "the removed entry is not marked with key = nil: an iterator parked on it continues from a detached entry")
		}
		if clobber == nil {
			res.OK("(*orderedMap).remove:keeps iterPrev", p.Pos(remove.Pos()), "the removed entry's own iterPrev is left intact")
		} else {
			res.Bad("(*orderedMap).remove:keeps iterPrev", p.Pos(clobber.Pos()), "the removed entry's iterPrev is overwritten: iterators parked on it cannot walk back to a live predecessor")
		}
	}
	// (c)
	{
		ok := false
		core.AllInstrs(clear, func(in ssa.Instruction) {
			st, isSt := in.(*ssa.Store)
			if !isSt {
				return
			}
			if fa, isFa := st.Addr.(*ssa.FieldAddr); isFa && core.FieldOf(fa) == fKey {
				if c, isC := st.Val.(*ssa.Const); isC && c.IsNil() && inCycle(st.Block()) {
					ok = true
				}
			}
		})
		// the loop advances through item.iterNext: it must not clear that link of the current item
		// before reading it (only the predecessor's link is cut)
		fNext, errN := p.Field(core.GojaPath, "mapEntry", "iterNext")
		if errN != nil {
			return res.Fail(errN)
		}
		var cut ssa.Instruction
		core.AllInstrs(clear, func(in ssa.Instruction) {
			st, isSt := in.(*ssa.Store)
			if !isSt {
				return
			}
			fa, isFa := st.Addr.(*ssa.FieldAddr)
			if !isFa || core.FieldOf(fa) != fNext {
				return
			}
			// base is the loop variable itself (a phi that is advanced by loading its own iterNext)
			if ph, isPhi := core.Origin(fa.X).(*ssa.Phi); isPhi {
				for _, e := range ph.Edges {
					if ld, isLd := core.Origin(e).(*ssa.UnOp); isLd {
						if nfa, isN := ld.X.(*ssa.FieldAddr); isN && core.FieldOf(nfa) == fNext && core.Origin(nfa.X) == ssa.Value(ph) {
							cut = in
						}
					}
				}
			}
		})
		if cut != nil {
			ok = false
			res.Bad("(*orderedMap).clear:walks the whole list", p.Pos(cut.Pos()), "the loop clears the iterNext link of the entry it is standing on before advancing through it: only the first entry is tombstoned, and an iterator parked further down keeps yielding entries of the cleared map")
		} else {
			res.OK("(*orderedMap).clear:walks the whole list", p.Pos(clear.Pos()), "the advancing link of the current entry is not cut inside the loop")
		}
		if ok {
			res.OK("(*orderedMap).clear:tombstones every entry", p.Pos(clear.Pos()), "key = nil inside the loop over the entries")
		} else {
			res.Bad("(*orderedMap).clear:tombstones every entry", p.Pos(clear.Pos()), "clear() does not mark every entry with key = nil: a live iterator keeps yielding entries of the cleared map")
		}
	}
	return res
}

package rules

import (
	"fmt"

	"gojaverif/core"

	"golang.org/x/tools/go/ssa"
)

// R-NILMAP (C13 "no script operation on a wrapper panics the host").
//
// A Go map handed to script through reflection may be nil (a struct field that was never
// initialised, a `var m map[string]int` passed to Set). Reading a nil map is fine, deleting from
// it too; reflect.Value.SetMapIndex with a value panics with "assignment to entry in nil map".
//
// Rule: every SetMapIndex call that stores a value (the element argument is not the zero
// reflect.Value, which means delete) has a receiver that is known to be a non-nil map: the
// function has put a reflect.MakeMap(..) result into it (dst.Set(reflect.MakeMap(typ)) dominating
// the call), or the call is dominated by a test of receiver.IsNil().
var NilMap = &core.Rule{Name: "R-NILMAP", Run: runNilMap,
	Doc: "every reflect SetMapIndex that stores a value is dominated by MakeMap into the same value or by an IsNil() test of it"}

func runNilMap(p *core.Prog) *core.Result {
	res := core.NewResult("R-NILMAP", 4)
	isReflect := func(c *ssa.CallCommon, name string) bool {
		sc := c.StaticCallee()
		if sc == nil || sc.Name() != name {
			return false
		}
		if sc.Signature.Recv() == nil {
			return sc.Pkg != nil && sc.Pkg.Pkg.Path() == "reflect"
		}
		n := core.NamedOf(sc.Signature.Recv().Type())
		return n != nil && n.Obj().Pkg() != nil && n.Obj().Pkg().Path() == "reflect" && n.Obj().Name() == "Value"
	}
	// two reflect.Value expressions denote the same variable: same SSA value, or loads of the same address path
	same := func(a, b ssa.Value) bool {
		if a == b {
			return true
		}
		return condKey(a, 0) == condKey(b, 0) && condKey(a, 0)[0] != '0'
	}
	n := map[string]int{}
	for _, f := range p.Funcs {
		if !p.InModule(f) {
			continue
		}
		core.AllInstrs(f, func(in ssa.Instruction) {
			c, ok := in.(*ssa.Call)
			if !ok || !isReflect(&c.Call, "SetMapIndex") || len(c.Call.Args) != 3 {
				return
			}
			// the zero reflect.Value as element = delete
			if al, ok := c.Call.Args[2].(*ssa.Const); ok && al.Value == nil {
				return
			}
			if ld, ok := c.Call.Args[2].(*ssa.UnOp); ok {
				if a, ok := ld.X.(*ssa.Alloc); ok {
					stored := false
					for _, r := range core.Referrers(a) {
						if st, ok := r.(*ssa.Store); ok && st.Addr == a {
							stored = true
						}
					}
					if !stored {
						return // reflect.Value{} literal
					}
				}
			}
			recv := c.Call.Args[0]
			k := core.FuncName(f) + ":SetMapIndex on a non-nil map"
			n[k]++
			key := k
			if n[k] > 1 {
				key = fmt.Sprintf("%s#%d", k, n[k])
			}
			why := ""
			core.AllInstrs(f, func(in2 ssa.Instruction) {
				c2, ok := in2.(*ssa.Call)
				if !ok || why != "" || !core.InstrDominates(c2, c) {
					return
				}
				if isReflect(&c2.Call, "Set") && len(c2.Call.Args) == 2 && same(c2.Call.Args[0], recv) {
					if mk, ok := c2.Call.Args[1].(*ssa.Call); ok && isReflect(&mk.Call, "MakeMap") || isMakeMapSized(c2.Call.Args[1], isReflect) {
						why = "the map was made here (reflect.MakeMap) at " + p.Pos(c2.Pos())
					}
				}
				if isReflect(&c2.Call, "IsNil") && len(c2.Call.Args) == 1 && same(c2.Call.Args[0], recv) {
					why = "IsNil() of the same value tested at " + p.Pos(c2.Pos())
				}
			})
			if why != "" {
				res.OK(key, p.Pos(c.Pos()), why)
			} else {
				res.Bad(key, p.Pos(c.Pos()), "a value is stored into a map that may be nil (an uninitialised map field of a wrapped Go struct, a nil map passed to Set): reflect panics with \"assignment to entry in nil map\" and the panic escapes to the host")
			}
		})
	}
	return res
}

func isMakeMapSized(v ssa.Value, isReflect func(*ssa.CallCommon, string) bool) bool {
	c, ok := v.(*ssa.Call)
	return ok && isReflect(&c.Call, "MakeMapWithSize")
}

package rules

import (
	"fmt"

	"gojaverif/core"

	"golang.org/x/tools/go/ssa"
)

// R-JOBTRY (C10, C14).
//
// A promise job runs from Runtime.leave() with no script frame and no try frame below it. Its
// abrupt completion has nowhere to go: the specification reports it (HostReportErrors) and carries on
// with the next job. In goja a JS exception that leaves a job function is a Go panic of *Exception
// passing leave(): RunProgram takes it for a foreign panic, drops the rest of the queue and
// re-panics into the host. NewPromiseReactionJob ends with Call(capability.[[Resolve]]), the
// resolving function of a *subclass* promise is whatever the subclass executor stored, i.e. user code.
//
// Rule: in every function that is enqueued with enqueuePromiseJob (a closure, or the closure
// returned by the function called in the argument), each call that may run script is made inside a
// closure handed to (*vm).try; closures the job invokes on the spot are part of the job.
var JobTry = &core.Rule{Name: "R-JOBTRY", Run: runJobTry,
	Doc: "inside a promise job function every call that may run script is made under vm.try"}

func runJobTry(p *core.Prog) *core.Result {
	res := core.NewResult("R-JOBTRY", 2)
	enqueue, err := p.GojaMethod("Runtime", "enqueuePromiseJob")
	if err != nil {
		return res.Fail(err)
	}
	try, err := p.GojaMethod("vm", "try")
	if err != nil {
		return res.Fail(err)
	}
	// the closure a value stands for
	var closureOf func(v ssa.Value, depth int) []*ssa.Function
	closureOf = func(v ssa.Value, depth int) []*ssa.Function {
		if depth > 3 {
			return nil
		}
		switch x := v.(type) {
		case *ssa.MakeClosure:
			if fn, ok := x.Fn.(*ssa.Function); ok {
				return []*ssa.Function{fn}
			}
		case *ssa.Function:
			return []*ssa.Function{x}
		case *ssa.Call:
			callee := x.Call.StaticCallee()
			if callee == nil {
				return nil
			}
			var out []*ssa.Function
			core.AllInstrs(callee, func(in ssa.Instruction) {
				if ret, ok := in.(*ssa.Return); ok && len(ret.Results) == 1 {
					out = append(out, closureOf(ret.Results[0], depth+1)...)
				}
			})
			return out
		case *ssa.Phi:
			var out []*ssa.Function
			for _, e := range x.Edges {
				out = append(out, closureOf(e, depth+1)...)
			}
			return out
		}
		return nil
	}
	jobs := map[*ssa.Function]bool{}
	nEnq, nUnres := 0, 0
	for _, f := range p.Funcs {
		for _, c := range core.CallsIn(f, enqueue) {
			nEnq++
			fns := closureOf(c.Common().Args[1], 0)
			if len(fns) == 0 {
				nUnres++
				res.Unknown(fmt.Sprintf("%s:enqueued job#%d resolved", core.FuncName(f), nEnq), p.Pos(c.Pos()), "cannot tell which function is enqueued")
			}
			for _, j := range fns {
				jobs[j] = true
			}
		}
	}
	res.Count("enqueue sites", nEnq)
	res.Count("job functions", len(jobs))
	for j := range jobs {
		name := core.FuncName(j)
		n := 0
		var scan func(fn *ssa.Function, depth int)
		scan = func(fn *ssa.Function, depth int) {
			if depth > 3 {
				return
			}
			core.AllInstrs(fn, func(in ssa.Instruction) {
				c, ok := in.(ssa.CallInstruction)
				if !ok {
					return
				}
				if _, isB := c.Common().Value.(*ssa.Builtin); isB {
					return
				}
				if c.Common().StaticCallee() == try {
					n++
					res.OK(fmt.Sprintf("%s:script call#%d under vm.try", name, n), p.Pos(c.Pos()), "vm.try")
					return
				}
				// a closure invoked on the spot is part of the job
				if mc, ok := c.Common().Value.(*ssa.MakeClosure); ok {
					if inner, ok := mc.Fn.(*ssa.Function); ok {
						scan(inner, depth+1)
						return
					}
				}
				if ownResolvingFunction(p, c) {
					n++
					res.OK(fmt.Sprintf("%s:script call#%d under vm.try", name, n), p.Pos(c.Pos()), "the promise's own resolving function (createResolvingFunctions): built-in, settles the promise and enqueues reactions")
					return
				}
				if why := p.MayRunScript(c); why != "" {
					n++
					res.Bad(fmt.Sprintf("%s:script call#%d under vm.try", name, n), p.Pos(c.Pos()), "this call may run script ("+why+") directly in a promise job, outside vm.try: a JS exception thrown there leaves the job as a Go panic of *Exception through leave(); the remaining jobs are dropped and the panic reaches the host")
				}
			})
		}
		scan(j, 0)
	}
	return res
}

// ownResolvingFunction: the call invokes a function value obtained by assertCallable() from an
// object that createResolvingFunctions() returned in the same function.
func ownResolvingFunction(p *core.Prog, c ssa.CallInstruction) bool {
	v := c.Common().Value
	ex, ok := v.(*ssa.Extract)
	if !ok {
		return false
	}
	call, ok := ex.Tuple.(*ssa.Call)
	if !ok || !call.Call.IsInvoke() || call.Call.Method.Name() != "assertCallable" {
		return false
	}
	// receiver: load of X.self where X is an Extract of createResolvingFunctions()
	ld, ok := call.Call.Value.(*ssa.UnOp)
	if !ok {
		return false
	}
	fa, ok := ld.X.(*ssa.FieldAddr)
	if !ok {
		return false
	}
	ex2, ok := core.Origin(fa.X).(*ssa.Extract)
	if !ok {
		return false
	}
	mk, ok := ex2.Tuple.(*ssa.Call)
	if !ok {
		return false
	}
	callee := mk.Call.StaticCallee()
	return callee != nil && callee.Name() == "createResolvingFunctions" && p.InModule(callee)
}

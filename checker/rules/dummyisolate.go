package rules

import (
	"fmt"
	"go/token"
	"go/types"

	"gojaverif/core"

	"golang.org/x/tools/go/ssa"
)

// R-DUMMYISOLATE (C02 "unreachable code added", C01).
//
// Dead branches (`if (false) {..}`, `while (false) {..}`) are still compiled, into a throw-away
// Program, so that they report syntax errors. While the compiler's Program is swapped, nothing that
// the dead code records may land in state of the real compilation: in particular the chain of open
// blocks (compiler.block ... .outer), into which break/continue statements append the positions of
// jumps to patch (block.breaks / block.conts). A break to an outer label compiled in dummy mode
// otherwise registers a position *of the throw-away program* in a block of the real program, and
// leaving that block overwrites an unrelated instruction (observed: ReferenceError for a declared
// variable, an endless loop, or a Go index-out-of-range panic out of Compile).
//
// Rule: in every function that installs a fresh Program in compiler.p and returns with it
// installed (a region entry, as opposed to save/compile/restore inside one function), the block
// chain installed in compiler.block consists of blocks allocated in that function: no `.outer`
// (or `.breaking`) link of a fresh block points into the chain that was current before.
var DummyIsolate = &core.Rule{Name: "R-DUMMYISOLATE", Run: runDummyIsolate,
	Doc: "a function that leaves a fresh throw-away Program installed in compiler.p also installs a block chain made only of blocks it allocated: no link of a fresh block leads into the real chain"}

func runDummyIsolate(p *core.Prog) *core.Result {
	res := core.NewResult("R-DUMMYISOLATE", 2)
	fp, err := p.Field(core.GojaPath, "compiler", "p")
	if err != nil {
		return res.Fail(err)
	}
	fblock, err := p.Field(core.GojaPath, "compiler", "block")
	if err != nil {
		return res.Fail(err)
	}
	blockT, err := p.GojaType("block")
	if err != nil {
		return res.Fail(err)
	}
	progT, err := p.GojaType("Program")
	if err != nil {
		return res.Fail(err)
	}
	isFresh := func(v ssa.Value, t types.Type) bool {
		a, ok := v.(*ssa.Alloc)
		return ok && a.Heap && types.Identical(a.Type(), types.NewPointer(t))
	}
	var freshOrNilV func(v ssa.Value, depth int, seen map[ssa.Value]bool) bool
	freshOrNil := func(v ssa.Value, depth int) bool { return freshOrNilV(v, depth, map[ssa.Value]bool{}) }
	freshOrNilV = func(v ssa.Value, depth int, seen map[ssa.Value]bool) bool {
		if depth > 12 {
			return false
		}
		if seen[v] {
			return true // a cycle of phis adds nothing
		}
		seen[v] = true
		freshOrNil := func(v ssa.Value, depth int) bool { return freshOrNilV(v, depth, seen) }
		switch x := v.(type) {
		case *ssa.Const:
			return x.IsNil()
		case *ssa.Alloc:
			return isFresh(x, blockT)
		case *ssa.Phi:
			for _, e := range x.Edges {
				if !freshOrNil(e, depth+1) {
					return false
				}
			}
			return true
		case *ssa.UnOp:
			// a load of a local cell (captured variable) holding only fresh blocks
			if x.Op == token.MUL {
				if cell, ok := x.X.(*ssa.Alloc); ok && !types.Identical(cell.Type(), types.NewPointer(blockT)) {
					all := true
					n := 0
					for _, r := range core.Referrers(cell) {
						if st, ok := r.(*ssa.Store); ok && st.Addr == cell {
							n++
							if !freshOrNil(st.Val, depth+1) {
								all = false
							}
						}
					}
					return all && n > 0
				}
			}
		case *ssa.Lookup:
			// clones[b]: a map whose values are all fresh
			if m, ok := x.X.(*ssa.MakeMap); ok {
				all := true
				for _, r := range core.Referrers(m) {
					if mu, ok := r.(*ssa.MapUpdate); ok && mu.Map == m && !freshOrNil(mu.Value, depth+1) {
						all = false
					}
				}
				return all
			}
		case *ssa.Extract:
			if lk, ok := x.Tuple.(*ssa.Lookup); ok && x.Index == 0 {
				return freshOrNil(lk, depth+1)
			}
		}
		return false
	}
	nEntry := 0
	for _, f := range p.Funcs {
		if f.Parent() != nil {
			continue
		}
		// stores of a fresh Program into compiler.p, and of anything else (a restore)
		var freshP []*ssa.Store
		restores := 0
		for _, b := range f.Blocks {
			for _, in := range b.Instrs {
				st, ok := in.(*ssa.Store)
				if !ok || core.FieldOf(st.Addr) != fp {
					continue
				}
				if isFresh(st.Val, progT) {
					freshP = append(freshP, st)
				} else {
					restores++
				}
			}
		}
		if len(freshP) > 0 {
			if fa, ok := freshP[0].Addr.(*ssa.FieldAddr); ok {
				if _, isNew := fa.X.(*ssa.Alloc); isNew {
					continue // a new compiler, not a swap
				}
			}
		}
		if len(freshP) == 0 || restores > 0 {
			continue // not a swap, or a save/compile/restore confined to this function (function literals: their block chain starts afresh and is checked below too)
		}
		nEntry++
		name := core.FuncName(f)
		// the block installed
		var blockStores []*ssa.Store
		core.AllInstrs(f, func(in ssa.Instruction) {
			if st, ok := in.(*ssa.Store); ok && core.FieldOf(st.Addr) == fblock {
				blockStores = append(blockStores, st)
			}
		})
		key := name + ":block chain installed with the throw-away Program"
		if len(blockStores) == 0 {
			res.Bad(key, p.Pos(freshP[0].Pos()), "a fresh Program is installed and left in place but compiler.block keeps pointing at the real chain: break/continue compiled from here on record their patch positions in real blocks")
			continue
		}
		bad := false
		for i, st := range blockStores {
			if !freshOrNil(st.Val, 0) {
				bad = true
				res.Bad(fmt.Sprintf("%s#%d", key, i+1), p.Pos(st.Pos()), "the block installed in compiler.block is not one allocated here")
			}
		}
		// links of fresh blocks
		for _, b := range f.Blocks {
			for _, in := range b.Instrs {
				st, ok := in.(*ssa.Store)
				if !ok {
					continue
				}
				fa, ok := st.Addr.(*ssa.FieldAddr)
				if !ok {
					continue
				}
				fv := core.FieldOf(fa)
				if fv == nil || !types.Identical(fv.Type(), types.NewPointer(blockT)) {
					continue
				}
				if !freshOrNil(fa.X, 0) {
					continue
				}
				k2 := fmt.Sprintf("%s:link %s of a fresh block", name, fv.Name())
				if freshOrNil(st.Val, 0) {
					res.OK(k2, p.Pos(st.Pos()), "fresh or nil")
					continue
				}
				if fv.Name() == "outer" {
					bad = true
					res.Bad(k2, p.Pos(st.Pos()), "the clone's .outer leads into the real block chain: a break/continue from dead code to an outer label appends the position of its jump in the throw-away program to a real block's patch list, and leaving that block overwrites an unrelated instruction of the real program")
				} else {
					// .breaking may start as a copy as long as it is remapped; require a later remapping store to the same field
					remapped := false
					core.AllInstrs(f, func(in2 ssa.Instruction) {
						if st2, ok := in2.(*ssa.Store); ok && st2 != st && core.FieldOf(st2.Addr) == fv && freshOrNil(st2.Val, 0) {
							remapped = true
						}
					})
					if remapped {
						res.OK(k2, p.Pos(st.Pos()), "copied, then re-pointed at the clone of its target")
					} else {
						bad = true
						res.Bad(k2, p.Pos(st.Pos()), "the clone's ."+fv.Name()+" keeps pointing at a real block")
					}
				}
			}
		}
		if !bad {
			res.OK(key, p.Pos(freshP[0].Pos()), "every block reachable from the installed chain is allocated here")
		}
	}
	res.Count("region entries that leave a fresh Program installed", nEntry)
	return res
}

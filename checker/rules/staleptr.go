package rules

import (
	"fmt"
	"go/token"
	"go/types"
	"sort"

	"gojaverif/core"

	"golang.org/x/tools/go/ssa"
)

// R-STALEPTR (C03, C08, C09).
//
// The VM keeps its bookkeeping in slices of records that live in struct fields (vm.tryStack,
// vm.callStack, vm.iterStack, the sparse array's items, ...) and pushes with append. A pointer
// to an element, `tf := &vm.tryStack[i]`, is valid only as long as the slice is not grown: append
// beyond the capacity moves the records to a new backing array, after which a write through the
// old pointer is lost (and a read sees a stale copy). Anything that may push onto the same
// slice invalidates the pointer - for the VM's stacks that is any call that can run script.
//
// Rule: no path leads from taking `&X.F[i]` (F a slice-typed struct field) to a use of that
// pointer through a call that may grow F, i.e. a call from which a function is reachable
// (call graph) that assigns F anything other than a shorter slice of itself. A call that the
// script-free summary proves unable to run script counts only if a grower is reachable from it
// over static call edges (the VTA graph merges every interface method of the object kinds, and a
// script-free callee cannot get to the code that pushes).
var StalePtr = &core.Rule{Name: "R-STALEPTR", Run: runStalePtr,
	Doc: "a pointer to an element of a slice held in a struct field is not used after a call that may grow (reallocate) that slice"}

func runStalePtr(p *core.Prog) *core.Result {
	res := core.NewResult("R-STALEPTR", 20)
	// 1. candidate fields: slice-of-struct fields with an element pointer taken somewhere
	type site struct {
		f  *ssa.Function
		ia *ssa.IndexAddr
		fv *types.Var
	}
	var sites []site
	fields := map[*types.Var]bool{}
	for _, f := range p.Funcs {
		if !p.InModule(f) {
			continue
		}
		core.AllInstrs(f, func(in ssa.Instruction) {
			ia, ok := in.(*ssa.IndexAddr)
			if !ok {
				return
			}
			ld, ok := ia.X.(*ssa.UnOp)
			if !ok || ld.Op != token.MUL {
				return
			}
			fv := core.FieldOf(ld.X)
			if fv == nil {
				return
			}
			sl, ok := fv.Type().Underlying().(*types.Slice)
			if !ok {
				return
			}
			if _, isStruct := sl.Elem().Underlying().(*types.Struct); !isStruct {
				return
			}
			sites = append(sites, site{f, ia, fv})
			fields[fv] = true
		})
	}
	// 2. growers: functions that assign the field something that may be a new backing array
	growers := map[*types.Var]map[*ssa.Function]bool{}
	for fv := range fields {
		growers[fv] = map[*ssa.Function]bool{}
	}
	for _, f := range p.Funcs {
		core.AllInstrs(f, func(in ssa.Instruction) {
			st, ok := in.(*ssa.Store)
			if !ok {
				return
			}
			fv := core.FieldOf(st.Addr)
			if fv == nil || !fields[fv] {
				return
			}
			if _, isFA := st.Addr.(*ssa.FieldAddr); !isFA {
				return
			}
			if sl, ok := st.Val.(*ssa.Slice); ok {
				// F = F[:n] / F[a:b] of itself: same backing array
				if ld, ok := sl.X.(*ssa.UnOp); ok && ld.Op == token.MUL && core.FieldOf(ld.X) == fv {
					return
				}
			}
			growers[fv][f] = true
		})
	}
	// closure over callers
	cg := p.CallGraph()
	reach := map[*types.Var]map[*ssa.Function]bool{}
	for fv, direct := range growers {
		r := map[*ssa.Function]bool{}
		var work []*ssa.Function
		for f := range direct {
			r[f] = true
			work = append(work, f)
		}
		for len(work) > 0 {
			f := work[len(work)-1]
			work = work[:len(work)-1]
			n := cg.Nodes[f]
			if n == nil {
				continue
			}
			for _, e := range n.In {
				c := e.Caller.Func
				if !r[c] {
					r[c] = true
					work = append(work, c)
				}
			}
		}
		reach[fv] = r
	}
	// the same closure over static call edges only
	reachStatic := map[*types.Var]map[*ssa.Function]bool{}
	staticCallers := map[*ssa.Function][]*ssa.Function{}
	for _, f := range p.Funcs {
		core.AllInstrs(f, func(in ssa.Instruction) {
			if c, ok := in.(ssa.CallInstruction); ok {
				if callee := c.Common().StaticCallee(); callee != nil {
					staticCallers[callee] = append(staticCallers[callee], f)
				}
			}
			// a closure created here runs, at the latest, under whoever this function hands it to
			if mc, ok := in.(*ssa.MakeClosure); ok {
				staticCallers[mc.Fn.(*ssa.Function)] = append(staticCallers[mc.Fn.(*ssa.Function)], f)
			}
		})
	}
	for fv, direct := range growers {
		r := map[*ssa.Function]bool{}
		var work []*ssa.Function
		for f := range direct {
			r[f] = true
			work = append(work, f)
		}
		for len(work) > 0 {
			f := work[len(work)-1]
			work = work[:len(work)-1]
			for _, c := range staticCallers[f] {
				if !r[c] {
					r[c] = true
					work = append(work, c)
				}
			}
		}
		reachStatic[fv] = r
	}
	mayGrow := func(c ssa.CallInstruction, fv *types.Var) *ssa.Function {
		if _, isB := c.Common().Value.(*ssa.Builtin); isB {
			return nil
		}
		if _, isGo := c.(*ssa.Go); isGo {
			return nil
		}
		if _, isDefer := c.(*ssa.Defer); isDefer {
			return nil
		}
		script := p.MayRunScript(c) != ""
		for _, callee := range p.Callees(c) {
			if reachStatic[fv][callee] || script && reach[fv][callee] {
				return callee
			}
		}
		return nil
	}
	sort.Slice(sites, func(i, j int) bool {
		a, b := sites[i], sites[j]
		if core.FuncName(a.f) != core.FuncName(b.f) {
			return core.FuncName(a.f) < core.FuncName(b.f)
		}
		return a.ia.Pos() < b.ia.Pos()
	})
	n := map[string]int{}
	nHeld := 0
	for _, s := range sites {
		// uses of the pointer, attributed to the SSA value (the IndexAddr itself or a phi merging
		// it with other pointers) through which they go
		type use struct {
			kind  string
			alias int
		}
		uses := map[ssa.Instruction]use{}
		aliases := []ssa.Value{s.ia}
		aliasIdx := map[ssa.Value]int{s.ia: 0}
		var collect func(v ssa.Value, root int, depth int)
		collect = func(v ssa.Value, root int, depth int) {
			if depth > 4 {
				return
			}
			for _, r := range core.Referrers(v) {
				switch x := r.(type) {
				case *ssa.FieldAddr:
					collect(x, root, depth+1)
				case *ssa.Phi:
					if v != aliases[root] {
						continue // a phi of field addresses: not tracked
					}
					if _, ok := aliasIdx[x]; !ok && len(aliases) < 30 {
						aliasIdx[x] = len(aliases)
						aliases = append(aliases, x)
						collect(x, aliasIdx[x], depth+1)
					}
				case *ssa.Store:
					if x.Addr == v {
						uses[x] = use{"write", root}
					} else {
						uses[x] = use{"escape", root}
					}
				case *ssa.UnOp:
					uses[x] = use{"read", root}
				case ssa.CallInstruction:
					uses[x.(ssa.Instruction)] = use{"passed to a call", root}
				default:
					uses[r] = use{"use", root}
				}
			}
		}
		collect(s.ia, 0, 0)
		if len(uses) == 0 {
			continue
		}
		type st struct {
			b      *ssa.BasicBlock
			killed bool
			mask   uint32
		}
		seen := map[st]bool{}
		var bad, killer ssa.Instruction
		var via *ssa.Function
		var walk func(b *ssa.BasicBlock, from int, killed bool, mask uint32, by ssa.Instruction, g *ssa.Function)
		walk = func(b *ssa.BasicBlock, from int, killed bool, mask uint32, by ssa.Instruction, g *ssa.Function) {
			if bad != nil {
				return
			}
			for j := from; j < len(b.Instrs); j++ {
				x := b.Instrs[j]
				if x == ssa.Instruction(s.ia) {
					return // recomputed
				}
				if killed {
					if u, ok := uses[x]; ok && mask&(1<<uint(u.alias)) != 0 {
						bad, killer, via = x, by, g
						return
					}
				}
				if c, ok := x.(ssa.CallInstruction); ok && !killed {
					if cc, isCall := x.(*ssa.Call); isCall && p.CallNeverReturns(cc) {
						return
					}
					if callee := mayGrow(c, s.fv); callee != nil {
						killed, by, g = true, x, callee
					}
				}
				if _, ok := x.(*ssa.Panic); ok {
					return
				}
			}
			for _, su := range b.Succs {
				// which phis of su carry the old pointer when entered from b?
				m := mask
				pi := -1
				for i, pr := range su.Preds {
					if pr == b {
						pi = i
					}
				}
				for _, in := range su.Instrs {
					ph, ok := in.(*ssa.Phi)
					if !ok {
						break
					}
					ai, tracked := aliasIdx[ph]
					if !tracked || pi < 0 {
						continue
					}
					if ei, ok := aliasIdx[ph.Edges[pi]]; ok && mask&(1<<uint(ei)) != 0 {
						m |= 1 << uint(ai)
					} else {
						m &^= 1 << uint(ai)
					}
				}
				k := st{su, killed, m}
				if !seen[k] {
					seen[k] = true
					walk(su, 0, killed, m, by, g)
				}
			}
		}
		walk(s.ia.Block(), core.InstrIndex(s.ia)+1, false, 1, nil, nil)
		k := fmt.Sprintf("%s:&%s[i] not used after the slice may have grown", core.FuncName(s.f), s.fv.Name())
		n[k]++
		key := k
		if n[k] > 1 {
			key = fmt.Sprintf("%s#%d", k, n[k])
		}
		nHeld++
		if bad == nil {
			res.OK(key, p.Pos(s.ia.Pos()), fmt.Sprintf("%d uses, none after a call that can reassign .%s", len(uses), s.fv.Name()))
			continue
		}
		res.Bad(key, p.Pos(bad.Pos()), fmt.Sprintf("the element pointer taken at %s is used here (%s) after the call at %s, from which %s is reachable, which may move .%s to a new backing array: a write through the old pointer is lost and a read sees a stale record", p.Pos(s.ia.Pos()), uses[bad].kind, p.Pos(killer.Pos()), core.FuncName(via), s.fv.Name()))
	}
	res.Count("element pointers into slice fields", nHeld)
	res.Count("slice fields", len(fields))
	return res
}

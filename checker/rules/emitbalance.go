package rules

import (
	"fmt"
	"go/token"
	"go/types"
	"os"
	"sort"
	"strings"

	"gojaverif/core"

	"golang.org/x/tools/go/ssa"
)

// ---------------------------------------------------------------------------------------------
// R-PVARIANT (C02): the "P" sibling of an instruction (storeStackP, setPropStrictP, ...) is chosen
// by the compiler when the value is not wanted; it must behave as its base instruction followed by
// one pop. With the operand-stack effects derived from the exec methods (speffect.go) this is a
// table agreement: effect(TP) = effect(T) - 1 for every non-jump pair.
// ---------------------------------------------------------------------------------------------

var PVariant = &core.Rule{Name: "R-PVARIANT", Run: runPVariant,
	Doc: "for every instruction pair T / TP the operand-stack effect derived from TP.exec equals the effect of T.exec minus one"}

func runPVariant(p *core.Prog) *core.Result {
	res := core.NewResult("R-PVARIANT", 15)
	a, err := newSpAnalysis(p)
	if err != nil {
		return res.Fail(err)
	}
	pc, err := newVMCounterAnalysis(p, "pc")
	if err != nil {
		return res.Fail(err)
	}
	execs := map[string]*ssa.Function{}
	for _, f := range p.Funcs {
		if f.Name() != "exec" || f.Signature.Recv() == nil || f.Parent() != nil {
			continue
		}
		execs[strings.TrimPrefix(core.TypeShort(f.Signature.Recv().Type()), "*")] = f
	}
	res.Count("instruction types", len(execs))
	var names []string
	for n := range execs {
		names = append(names, n)
	}
	sort.Strings(names)
	for _, n := range names {
		if !strings.HasSuffix(n, "P") {
			continue
		}
		base, ok := execs[strings.TrimSuffix(n, "P")]
		if !ok {
			continue
		}
		fp := execs[n]
		key := fmt.Sprintf("%s~%s:effect differs by one pop", strings.TrimSuffix(n, "P"), n)
		pos := p.Pos(fp.Pos())
		eb, ep := a.of(base), a.of(fp)
		if v, ok := pc.of(base).Const(); !ok || v != 1 {
			res.Inform(key, pos, "jump-like pair (pc not simply incremented): the P form pops on both outcomes by design; not compared")
			continue
		}
		if !eb.Known || !ep.Known {
			res.Unknown(key, pos, fmt.Sprintf("operand-stack effect not derivable: %s %s, %s %s", strings.TrimSuffix(n, "P"), eb, n, ep))
			continue
		}
		okAll := len(eb.Vals) == len(ep.Vals)
		if okAll {
			for i := range eb.Vals {
				if ep.Vals[i] != eb.Vals[i]-1 {
					okAll = false
				}
			}
		}
		if okAll {
			res.OK(key, pos, fmt.Sprintf("%s vs %s", eb, ep))
		} else {
			res.Bad(key, pos, fmt.Sprintf("%s.exec moves vm.sp by %s but its base form by %s: the compiler selects the P form when the value is discarded and relies on exactly one extra pop, otherwise every such statement leaks or eats an operand-stack slot", n, ep, eb))
		}
	}
	return res
}

// ---------------------------------------------------------------------------------------------
// R-PATCHEFFECT (C02 "variables captured by a closure / visible to eval / plain locals"): when
// the late allocation pass rewrites an access point (switch on the placeholder instruction's
// type, then overwrite the same slot), the replacement has the same operand-stack effect as the
// placeholder it replaces: the surrounding code was emitted against the placeholder.
// ---------------------------------------------------------------------------------------------

var PatchEffect = &core.Rule{Name: "R-PATCHEFFECT", Run: runPatchEffect,
	Doc: "an instruction stored over a slot under a successful type test of that slot's current instruction has the same derived operand-stack effect as the instruction it replaces"}

func runPatchEffect(p *core.Prog) *core.Result {
	res := core.NewResult("R-PATCHEFFECT", 30)
	a, err := newSpAnalysis(p)
	if err != nil {
		return res.Fail(err)
	}
	instrT, err := p.GojaType("instruction")
	if err != nil {
		return res.Fail(err)
	}
	iface := instrT.Underlying().(*types.Interface)
	isInstr := func(t types.Type) bool { return types.Implements(t, iface) }
	n := map[string]int{}
	for _, f := range p.Funcs {
		core.AllInstrs(f, func(in ssa.Instruction) {
			st, ok := in.(*ssa.Store)
			if !ok {
				return
			}
			mi, ok := st.Val.(*ssa.MakeInterface)
			if !ok || !isInstr(mi.X.Type()) || !types.Identical(mi.Type(), instrT) {
				return
			}
			// find a dominating successful type test of a load of the same address
			for _, cp := range core.ControllingConds(in.Block()) {
				if !cp.Pol {
					continue
				}
				ex, ok := cp.Cond.(*ssa.Extract)
				if !ok || ex.Index != 1 {
					continue
				}
				ta, ok := ex.Tuple.(*ssa.TypeAssert)
				if !ok || !ta.CommaOk || !isInstr(ta.AssertedType) {
					continue
				}
				ld, ok := ta.X.(*ssa.UnOp)
				if !ok || ld.Op != token.MUL || ld.X != st.Addr {
					continue
				}
				from, to := ta.AssertedType, mi.X.Type()
				fn, tn := core.TypeShort(from), core.TypeShort(to)
				k := fmt.Sprintf("%s:%s->%s", core.FuncName(f), fn, tn)
				n[k]++
				key := fmt.Sprintf("%s#%d", k, n[k])
				pos := p.Pos(st.Pos())
				ef, et := a.of(execOf(p, from)), a.of(execOf(p, to))
				cf, okf := ef.Const()
				ct, okt := et.Const()
				switch {
				case okf && okt && cf == ct:
					res.OK(key, pos, fmt.Sprintf("both %+d", cf))
				case okf && okt:
					res.Bad(key, pos, fmt.Sprintf("placeholder %s moves vm.sp by %+d, its replacement %s by %+d: code emitted around the access point was balanced against the placeholder", fn, cf, tn, ct))
				case ef.Known && et.Known && subset(et.Vals, ef.Vals):
					res.OK(key, pos, fmt.Sprintf("replacement %s within placeholder %s", et, ef))
				case ef.Known && et.Known:
					res.Bad(key, pos, fmt.Sprintf("placeholder %s has effects %s, its replacement %s has %s", fn, ef, tn, et))
				default:
					res.Inform(key, pos, fmt.Sprintf("effect not derivable (%s %s, %s %s)", fn, ef, tn, et))
				}
				return
			}
		})
	}
	return res
}

func subset(a, b []int) bool {
	m := map[int]bool{}
	for _, x := range b {
		m[x] = true
	}
	for _, x := range a {
		if !m[x] {
			return false
		}
	}
	return true
}

// ---------------------------------------------------------------------------------------------
// R-EMITBALANCE (C02 "expression vs statement position", C01 operand-stack balance).
//
// Symbolic execution of the compiler's expression emitters over the abstract domain "net
// operand-stack effect of the bytecode emitted so far". For every function that carries the
// `putOnStack` flag and for both values of the flag, every path whose emissions are all
// *decidable* must sum to 1 (flag true) or 0 (flag false):
//   - c.emit(T{...}) adds the constant effect of T derived from T.exec (sequential instructions
//     only: pc advanced by exactly one on every path); emitting an always-throwing instruction
//     ends the path (the rest is unobservable);
//   - X.emitGetter(b) / emitSetter(_, b) / emitUnary(.., b) / emitDelete(b) and the helpers the
//     flag is handed to add 1 when b is true and 0 when false (b constant or derived from the flag);
//   - calls to module functions that can emit are summarised recursively; functions that cannot
//     reach an emission add 0;
//   - anything else (placeholders patched later, jumps, calls/returns, loops that emit,
//     emission into a swapped Program) makes the path undecidable: it is counted and skipped.
// A decidable path with the wrong sum is reported with the sum and the emitted sequence.
// ---------------------------------------------------------------------------------------------

var EmitBalance = &core.Rule{Name: "R-EMITBALANCE", Run: runEmitBalance,
	Doc: "for both values of putOnStack, every fully decidable emission path of an expression emitter has net operand-stack effect 1 (value wanted) or 0 (discarded), with instruction effects derived from the exec methods"}

// emitAuditedContracts: flag-carrying functions whose contract is not "leave the value iff wanted".
var emitAuditedContracts = map[string]struct {
	base int // effect with the flag false
	span int // effect with the flag true minus base (1 everywhere else)
	why  string
}{
	"(*compiledSequenceExpr).emitGetter":       {0, 1, "contract as usual; see emitAuditedPaths for the empty-sequence path"},
	"(*compiledSpreadCallArgument).emitGetter": {0, 0, "a spread argument is only emitted between startVariadic and endVariadic: pushSpread moves the iterated values into the open variadic area, so the wanted form nets 0 and is never emitted with putOnStack=false by compiledCallExpr"},
}

// emitAuditedPaths: one named path result that is wrong on paper and unreachable in fact.
var emitAuditedPaths = map[string]struct {
	flag bool
	val  int
	why  string
}{
	"(*compiledSequenceExpr).emitGetter": {true, 0, "the empty-sequence path emits nothing; the parser never builds an empty SequenceExpression (parseParenthesisedExpression answers `()` with a BadExpression, parseExpression starts from one operand)"},
}

// emitAuditedSummaries: functions whose net emission is known by reading and cannot be derived.
var emitAuditedSummaries = map[string]struct {
	eff int
	why string
}{
	"(*compiler).compileExpression": {0, "builds the compiledExpr tree for a syntax node; bytecode is emitted later by the emit* methods of the result (nested function bodies are compiled into their own Program)"},
	"(*compiler).evalConst":         {0, "runs the expression in a scratch VM: emits into a throw-away Program, or truncates c.p.code back to savedPc before returning"},
}

type effSet struct {
	vals    map[int]bool
	unknown int  // number of undecidable paths
	throws  bool // some path ends in an unconditional run-time throw
	sample  map[int]string
	whys    map[string]int
	joinBad []string // jump targets reached with two different depths
}

func (e *effSet) unk(why string) {
	e.unknown++
	if e.whys == nil {
		e.whys = map[string]int{}
	}
	e.whys[why]++
}

func (e *effSet) whyStr() string {
	var s []string
	for k, n := range e.whys {
		s = append(s, fmt.Sprintf("%s x%d", k, n))
	}
	sort.Strings(s)
	return strings.Join(s, "; ")
}

type emitEval struct {
	p         *core.Prog
	sp, pc    *spAnalysis
	emit      *ssa.Function
	instrT    types.Type
	instrI    *types.Interface
	flagM     map[string]int // compiledExpr method name -> index of the flag among the call's Args (invoke: receiver excluded)
	ceI       *types.Interface
	flagged   map[*ssa.Function]int  // function -> index into Params of the flag
	seed      map[*ssa.Function]bool // implementations of the compiledExpr flag methods (incl. promoted base methods)
	mayEmit   map[*ssa.Function]bool
	switcher  map[*ssa.Function]bool // assigns compiler.p or Program.code wholesale
	memo      map[string]*effSet
	prev      map[string]*effSet // results of the previous fixed-point round, read by recursive calls
	cycleHit  bool
	busy      map[string]bool
	throwers  map[*ssa.Function]bool
	pathLimit int
}

func (ev *emitEval) key(f *ssa.Function, F int) string { return fmt.Sprintf("%p/%d", f, F) }

// instrEffect: (delta, kind) kind: 0 const sequential, 1 thrower, 2 undecidable
func (ev *emitEval) instrEffect(t types.Type) (int, int, string) {
	ex := execOf(ev.p, t)
	if ex == nil {
		return 0, 2, "no exec"
	}
	if ev.throwers[ex] {
		return 0, 1, ""
	}
	e := ev.sp.of(ex)
	if e.Known && len(e.Vals) == 0 {
		return 0, 1, ""
	}
	if v, ok := ev.pc.of(ex).Const(); !ok || v != 1 {
		return 0, 2, "not sequential"
	}
	d, ok := e.Const()
	if !ok {
		return 0, 2, "effect " + e.String()
	}
	return d, 0, ""
}

const (
	flagNone  = 0
	flagTrue  = 1
	flagFalse = 2
)

func (ev *emitEval) eval(f *ssa.Function, F int) *effSet {
	k := ev.key(f, F)
	if r, ok := ev.memo[k]; ok {
		return r
	}
	out := &effSet{vals: map[int]bool{}, sample: map[int]string{}}
	if a, ok := emitAuditedSummaries[core.FuncName(f)]; ok {
		out.vals[a.eff] = true
		ev.memo[k] = out
		return out
	}
	if ev.busy[k] {
		// recursion: answer with the previous round's approximation (least fixed point, see solve)
		ev.cycleHit = true
		if pr, ok := ev.prev[k]; ok {
			return pr
		}
		return out // nothing known to complete yet
	}
	if len(f.Blocks) == 0 || ev.switcher[f] {
		out.unk("emits into a swapped Program")
		ev.memo[k] = out
		return out
	}
	ev.busy[k] = true
	defer delete(ev.busy, k)

	var d map[ssa.Value]bool
	fi, hasFlag := ev.flagged[f]
	if hasFlag && F != flagNone {
		d = flagDerived(f, fi)
	}
	// value of a flag-derived boolean under F: 1 true, 0 false, -1 unknown
	var boolVal func(v ssa.Value, depth int) int
	boolVal = func(v ssa.Value, depth int) int {
		if c, ok := v.(*ssa.Const); ok && c.Value != nil && isBoolT(c.Type()) {
			if c.Value.String() == "true" {
				return 1
			}
			return 0
		}
		if d == nil || !d[v] || depth > 6 {
			return -1
		}
		switch x := v.(type) {
		case *ssa.Parameter:
			if x == f.Params[fi] {
				if F == flagTrue {
					return 1
				}
				return 0
			}
			return -1
		case *ssa.UnOp:
			if x.Op == token.NOT {
				r := boolVal(x.X, depth+1)
				if r < 0 {
					return r
				}
				return 1 - r
			}
			if x.Op == token.MUL { // load of the spill cell
				if F == flagTrue {
					return 1
				}
				return 0
			}
		case *ssa.FreeVar:
			return -1
		}
		return -1
	}

	holes, patches := ev.placeholders(f)
	pend := map[ssa.Value]int{} // placeholder index value -> depth at its target when the jump is taken
	dead := false               // the straight line is unreachable (after an unconditional jump)
	budget := ev.pathLimit
	onPath := map[*ssa.BasicBlock]int{}
	decided := map[string]bool{}
	var trace []string
	var walk func(b *ssa.BasicBlock, delta int)
	walk = func(b *ssa.BasicBlock, delta int) {
		savedPend, savedDead := pend, dead
		pend = make(map[ssa.Value]int, len(savedPend))
		for k, v := range savedPend {
			pend[k] = v
		}
		defer func() { pend, dead = savedPend, savedDead }()
		budget--
		if budget < 0 {
			out.unk("path budget")
			return
		}
		if d0, ok := onPath[b]; ok {
			if d0 != delta {
				out.unk("loop that emits")
			}
			return
		}
		onPath[b] = delta
		tl := len(trace)
		defer func() { delete(onPath, b); trace = trace[:tl] }()
		deltas := []int{delta}
		addAll := func(n int) {
			for i := range deltas {
				deltas[i] += n
			}
		}
		for _, in := range b.Instrs {
			switch x := in.(type) {
			case *ssa.Panic:
				return
			case *ssa.Return:
				if b == f.Recover {
					return
				}
				if dead || len(pend) > 0 {
					out.unk("a jump emitted here is patched elsewhere")
					return
				}
				for _, dl := range deltas {
					out.vals[dl] = true
					if _, ok := out.sample[dl]; !ok {
						out.sample[dl] = strings.Join(trace, " ")
					}
				}
				return
			case *ssa.Store:
				pj, ok := patches[x]
				if !ok {
					continue
				}
				tj, ok := pend[pj]
				if !ok || len(deltas) != 1 {
					out.unk("patch of a placeholder that was not emitted on this path")
					return
				}
				delete(pend, pj)
				if dead {
					deltas[0], dead = tj, false
					trace = append(trace, fmt.Sprintf("<-target(depth %+d)", tj))
				} else if deltas[0] != tj {
					out.joinBad = append(out.joinBad, fmt.Sprintf("jump target reached with depth %+d by the jump and %+d by falling through: [%s]", tj, deltas[0], strings.Join(trace, " ")))
					return
				} else {
					trace = append(trace, "<-target")
				}
			case *ssa.Go, *ssa.Defer:
				out.unk("go/defer")
				return
			case *ssa.Call:
				if ev.p.CallNeverReturns(x) {
					return
				}
				com := x.Common()
				if _, isBuiltin := com.Value.(*ssa.Builtin); isBuiltin {
					continue
				}
				callee := com.StaticCallee()
				switch {
				case callee == ev.emit:
					if len(com.Args) < 2 {
						out.unk("emit without arguments")
						return
					}
					if dead {
						out.unk("code emitted after an unconditional jump")
						return
					}
					if h, ok := holes[x]; ok {
						if len(deltas) != 1 {
							out.unk("placeholder after a multi-valued callee")
							return
						}
						pend[h.idx] = deltas[0] + h.taken
						if h.hasFall {
							deltas[0] += h.fall
							trace = append(trace, fmt.Sprintf("%s(fall %+d|taken %+d)", h.name, h.fall, h.taken))
						} else {
							dead = true
							trace = append(trace, fmt.Sprintf("%s(taken %+d)", h.name, h.taken))
						}
						continue
					}
					elems := sliceElems(com.Args[1])
					if len(elems) == 0 {
						out.unk("emit of a non-literal slice")
						return
					}
					// keep emission order: elements are stored at increasing indexes in source order
					for _, el := range elems {
						mi, ok := el.(*ssa.MakeInterface)
						if !ok {
							out.unk("emit of a non-constructed instruction")
							return
						}
						dl, kind, why := ev.instrEffect(mi.X.Type())
						switch kind {
						case 1:
							out.throws = true
							return
						case 2:
							out.unk(core.TypeShort(mi.X.Type()) + ": " + why)
							return
						}
						addAll(dl)
						trace = append(trace, fmt.Sprintf("%s(%+d)", core.TypeShort(mi.X.Type()), dl))
					}
				case callee != nil && !com.IsInvoke():
					if !ev.p.InModule(callee) || !ev.mayEmit[callee] {
						continue
					}
					if ev.throwers[callee] {
						out.throws = true
						return
					}
					if dead {
						out.unk("code emitted after an unconditional jump")
						return
					}
					F2 := flagNone
					if gi, ok := ev.flagged[callee]; ok {
						if gi >= len(com.Args) {
							out.unk("flag argument missing")
							return
						}
						switch boolVal(com.Args[gi], 0) {
						case 1:
							F2 = flagTrue
						case 0:
							F2 = flagFalse
						default:
							out.unk("flag argument not decidable")
							return
						}
					}
					sub := ev.eval(callee, F2)
					if sub.unknown > 0 {
						// which of the callee's paths runs here may be correlated with this path: no verdict
						out.unk("callee undecidable: " + callee.Name())
						return
					}
					if len(sub.joinBad) > 0 {
						out.unk("callee with a join mismatch: " + callee.Name())
						return
					}
					if len(sub.vals) == 0 {
						if sub.throws {
							out.throws = true
						}
						return
					}
					deltas = cross(deltas, sub.vals)
					trace = append(trace, fmt.Sprintf("%s%s", callee.Name(), setStr(sub.vals)))
				case com.IsInvoke():
					name := com.Method.Name()
					if idx, ok := ev.flagM[name]; ok && ev.isCompiledExprRecv(com.Value.Type()) {
						if dead {
							out.unk("code emitted after an unconditional jump")
							return
						}
						switch boolVal(com.Args[idx], 0) {
						case 1:
							addAll(1)
							trace = append(trace, name+"(true)(+1)")
						case 0:
							trace = append(trace, name+"(false)(+0)")
						default:
							out.unk("flag argument of interface call not decidable")
							return
						}
						continue
					}
					fallthrough
				default:
					// dynamic call or other interface method: all possible callees must agree
					cs := ev.p.Callees(x)
					sort.Slice(cs, func(i, j int) bool { return core.FuncName(cs[i]) < core.FuncName(cs[j]) })
					if len(cs) == 0 {
						out.unk("dynamic call without resolved callees")
						return
					}
					any := false
					for _, c := range cs {
						if ev.mayEmit[c] {
							any = true
						}
					}
					if !any {
						continue
					}
					if dead {
						out.unk("code emitted after an unconditional jump")
						return
					}
					agreed, first := 0, true
					okAll := true
					for _, c := range cs {
						if !ev.mayEmit[c] {
							if first {
								agreed, first = 0, false
							} else if agreed != 0 {
								okAll = false
							}
							continue
						}
						if _, hasF := ev.flagged[c]; hasF {
							continue // cannot know the flag it receives here
						}
						sub := ev.eval(c, flagNone)
						if sub.unknown > 0 {
							okAll = false
							break
						}
						for v := range sub.vals {
							if first {
								agreed, first = v, false
							} else if agreed != v {
								okAll = false
							}
						}
					}
					if !okAll || first {
						out.unk("callees disagree or undecidable")
						return
					}
					addAll(agreed)
					nm := "dyn"
					if com.IsInvoke() {
						nm = com.Method.Name()
					}
					trace = append(trace, fmt.Sprintf("%s(%+d)", nm, agreed))
				}
			case *ssa.If:
				v := boolVal(x.Cond, 0)
				ck := condKey(x.Cond, 0)
				if v < 0 {
					if dv, ok := decided[ck]; ok {
						if dv {
							v = 1
						} else {
							v = 0
						}
					}
				}
				for _, dl := range deltas {
					switch v {
					case 1:
						walk(b.Succs[0], dl)
					case 0:
						walk(b.Succs[1], dl)
					default:
						decided[ck] = true
						walk(b.Succs[0], dl)
						decided[ck] = false
						walk(b.Succs[1], dl)
						delete(decided, ck)
					}
				}
				return
			}
		}
		for _, s := range b.Succs {
			for _, dl := range deltas {
				walk(s, dl)
			}
		}
	}
	walk(f.Blocks[0], 0)
	ev.memo[k] = out
	return out
}

type hole struct {
	idx         ssa.Value // the value of len(code) taken just before the placeholder
	name        string
	fall, taken int
	hasFall     bool
}

// placeholders finds the forward-jump idiom of the compiler:
//
//	j := len(c.p.code); c.emit(nil); ...; c.p.code[j] = jne(len(c.p.code) - j)
//
// holes: the emit(nil) calls whose slot index j is later assigned exactly one jump type in the
// same function; patches: those assignments. Jump effects come from the exec methods.
func (ev *emitEval) placeholders(f *ssa.Function) (map[*ssa.Call]hole, map[*ssa.Store]ssa.Value) {
	holes := map[*ssa.Call]hole{}
	patches := map[*ssa.Store]ssa.Value{}
	codeF, err := ev.p.Field(core.GojaPath, "Program", "code")
	if err != nil {
		return holes, patches
	}
	isCodeLen := func(v ssa.Value) bool {
		c, ok := v.(*ssa.Call)
		if !ok {
			return false
		}
		b, ok := c.Call.Value.(*ssa.Builtin)
		if !ok || b.Name() != "len" || len(c.Call.Args) != 1 {
			return false
		}
		ld, ok := c.Call.Args[0].(*ssa.UnOp)
		return ok && ld.Op == token.MUL && core.FieldOf(ld.X) == codeF
	}
	// patch stores by index value
	byIdx := map[ssa.Value][]*ssa.Store{}
	for _, b := range f.Blocks {
		for _, in := range b.Instrs {
			st, ok := in.(*ssa.Store)
			if !ok {
				continue
			}
			ia, ok := st.Addr.(*ssa.IndexAddr)
			if !ok || !isCodeLen(ia.Index) {
				continue
			}
			if ld, ok := ia.X.(*ssa.UnOp); !ok || ld.Op != token.MUL || core.FieldOf(ld.X) != codeF {
				continue
			}
			byIdx[ia.Index] = append(byIdx[ia.Index], st)
		}
	}
	for _, b := range f.Blocks {
		var lastLen ssa.Value
		for _, in := range b.Instrs {
			c, ok := in.(*ssa.Call)
			if !ok {
				continue
			}
			if isCodeLen(c) {
				lastLen = c
				continue
			}
			callee := c.Call.StaticCallee()
			if callee == nil {
				if _, isB := c.Call.Value.(*ssa.Builtin); !isB {
					cs := ev.p.Callees(c)
					for _, g := range cs {
						if ev.mayEmit[g] {
							lastLen = nil
						}
					}
				}
				continue
			}
			if callee != ev.emit {
				if ev.mayEmit[callee] {
					lastLen = nil // something was emitted between len() and the placeholder
				}
				continue
			}
			elems := sliceElems(c.Call.Args[1])
			if len(elems) != 1 || lastLen == nil {
				lastLen = nil
				continue
			}
			k, ok := elems[0].(*ssa.Const)
			if !ok || !k.IsNil() {
				lastLen = nil
				continue
			}
			sts := byIdx[lastLen]
			idx := lastLen
			lastLen = nil
			if len(sts) == 0 {
				continue
			}
			var typ types.Type
			same := true
			for _, st := range sts {
				mi, ok := st.Val.(*ssa.MakeInterface)
				if !ok {
					same = false
					break
				}
				if typ == nil {
					typ = mi.X.Type()
				} else if !types.Identical(typ, mi.X.Type()) {
					same = false
				}
			}
			if !same || typ == nil {
				continue
			}
			be := branches(ev.sp, ev.pc, execOf(ev.p, typ))
			if !be.OK || len(be.Taken) != 1 || len(be.Fall) > 1 {
				continue
			}
			h := hole{idx: idx, name: core.TypeShort(typ), taken: be.Taken[0]}
			if len(be.Fall) == 1 {
				h.hasFall, h.fall = true, be.Fall[0]
			}
			holes[c] = h
			for _, st := range sts {
				patches[st] = idx
			}
		}
	}
	return holes, patches
}

// condKey gives two evaluations of the same side-effect-free test (a comparison of loads through
// the same field path from the same parameter, e.g. `pattern.Rest != nil` written twice) the same
// key, so that a path does not take contradictory branches on them. The compile functions read
// the syntax tree and compiler options, which do not change while one emitter runs.
func condKey(v ssa.Value, depth int) string {
	if depth > 8 {
		return fmt.Sprintf("%p", v)
	}
	switch x := v.(type) {
	case *ssa.Const:
		return "c:" + x.String()
	case *ssa.Parameter:
		return "p:" + x.Name()
	case *ssa.FreeVar:
		return "fv:" + x.Name()
	case *ssa.FieldAddr:
		return condKey(x.X, depth+1) + fmt.Sprintf(".&%d", x.Field)
	case *ssa.Field:
		return condKey(x.X, depth+1) + fmt.Sprintf(".%d", x.Field)
	case *ssa.UnOp:
		if x.Op == token.MUL || x.Op == token.NOT {
			return x.Op.String() + condKey(x.X, depth+1)
		}
	case *ssa.BinOp:
		return "(" + condKey(x.X, depth+1) + x.Op.String() + condKey(x.Y, depth+1) + ")"
	case *ssa.ChangeType:
		return condKey(x.X, depth+1)
	case *ssa.MakeInterface:
		return condKey(x.X, depth+1)
	}
	return fmt.Sprintf("%p", v)
}

func cross(ds []int, vals map[int]bool) []int {
	seen := map[int]bool{}
	var out []int
	for _, d := range ds {
		for v := range vals {
			if !seen[d+v] {
				seen[d+v] = true
				out = append(out, d+v)
			}
		}
	}
	sort.Ints(out)
	return out
}

func setStr(m map[int]bool) string {
	var v []int
	for x := range m {
		v = append(v, x)
	}
	sort.Ints(v)
	var s []string
	for _, x := range v {
		s = append(s, fmt.Sprintf("%+d", x))
	}
	return "{" + strings.Join(s, ",") + "}"
}

func isBoolT(t types.Type) bool {
	b, ok := t.Underlying().(*types.Basic)
	return ok && b.Info()&types.IsBoolean != 0
}

func (ev *emitEval) isCompiledExprRecv(t types.Type) bool {
	if i, ok := t.Underlying().(*types.Interface); ok {
		// the interface must include compiledExpr's methods
		return types.Implements(t, ev.ceI) || i == ev.ceI
	}
	return false
}

func newEmitEval(p *core.Prog) (*emitEval, error) {
	sp, err := newSpAnalysis(p)
	if err != nil {
		return nil, err
	}
	pc, err := newVMCounterAnalysis(p, "pc")
	if err != nil {
		return nil, err
	}
	emit, err := p.GojaMethod("compiler", "emit")
	if err != nil {
		return nil, err
	}
	instrT, err := p.GojaType("instruction")
	if err != nil {
		return nil, err
	}
	ce, err := p.GojaType("compiledExpr")
	if err != nil {
		return nil, err
	}
	ev := &emitEval{p: p, sp: sp, pc: pc, emit: emit, instrT: instrT, instrI: instrT.Underlying().(*types.Interface),
		ceI: ce.Underlying().(*types.Interface), flagM: map[string]int{}, flagged: map[*ssa.Function]int{},
		mayEmit: map[*ssa.Function]bool{}, switcher: map[*ssa.Function]bool{}, memo: map[string]*effSet{}, prev: map[string]*effSet{}, busy: map[string]bool{}, pathLimit: 20000}
	for i := 0; i < ev.ceI.NumMethods(); i++ {
		m := ev.ceI.Method(i)
		sig := m.Type().(*types.Signature)
		n := sig.Params().Len()
		if n > 0 && sig.Params().At(n-1).Name() == "putOnStack" && isBoolT(sig.Params().At(n-1).Type()) {
			ev.flagM[m.Name()] = n - 1
		}
	}
	fl, _ := flaggedFuncs(p, ev.ceI)
	ev.seed = map[*ssa.Function]bool{}
	for _, f := range p.Funcs {
		if _, ok := ev.flagM[f.Name()]; ok && f.Signature.Recv() != nil && f.Parent() == nil && fl[f] != nil {
			ev.seed[f] = true
		}
	}
	for f, idxs := range fl {
		if len(idxs) == 1 {
			for i := range idxs {
				ev.flagged[f] = i
			}
		}
	}
	ev.throwers = throwEmitters(p, emit)
	// switchers: assign compiler.p, or Program.code other than through emit's append
	if fp, err := p.Field(core.GojaPath, "compiler", "p"); err == nil {
		for _, w := range p.FieldWrites(fp) {
			if w.Kind == "store" {
				ev.switcher[core.EnclosingTop(w.Fn)] = true
			}
		}
	}
	codeF, err := p.Field(core.GojaPath, "Program", "code")
	if err != nil {
		return nil, err
	}
	writesCode := map[*ssa.Function]bool{}
	for _, w := range p.FieldWrites(codeF) {
		top := core.EnclosingTop(w.Fn)
		if w.Kind == "store" && top != emit {
			ev.switcher[top] = true
		}
		writesCode[top] = true
	}
	// mayEmit: reaches emit or a write of Program.code (static + VTA edges), closures included with their parent
	ev.mayEmit[emit] = true
	for f := range writesCode {
		ev.mayEmit[f] = true
	}
	cg := p.CallGraph()
	changed := true
	for changed {
		changed = false
		for _, f := range p.Funcs {
			if ev.mayEmit[f] {
				continue
			}
			n := cg.Nodes[f]
			if n == nil {
				continue
			}
			for _, e := range n.Out {
				if ev.mayEmit[e.Callee.Func] {
					ev.mayEmit[f] = true
					changed = true
					break
				}
			}
			if !ev.mayEmit[f] {
				for _, a := range f.AnonFuncs {
					if ev.mayEmit[a] {
						// a closure that emits makes its creator a potential emitter only if it is called; calls are edges already
						_ = a
					}
				}
			}
		}
	}
	return ev, nil
}

// solve evaluates every emitting function to a fixed point: a recursive call reads the result of
// the previous round (initially "no path completes"), rounds repeat until no summary changes.
func (ev *emitEval) solve() int {
	var fns []*ssa.Function
	for _, f := range ev.p.Funcs {
		if ev.mayEmit[f] && f != ev.emit && f.Name() != "exec" {
			fns = append(fns, f)
		}
	}
	sort.Slice(fns, func(i, j int) bool { return core.FuncName(fns[i]) < core.FuncName(fns[j]) })
	sig := func(e *effSet) string {
		return fmt.Sprintf("%s/%d/%d/%v", setStr(e.vals), e.unknown, len(e.joinBad), e.throws)
	}
	rounds := 0
	for rounds < 8 {
		rounds++
		ev.memo = map[string]*effSet{}
		ev.cycleHit = false
		for _, f := range fns {
			if _, fl := ev.flagged[f]; fl {
				ev.eval(f, flagTrue)
				ev.eval(f, flagFalse)
			}
			ev.eval(f, flagNone)
		}
		stable := true
		if ev.cycleHit {
			for k, e := range ev.memo {
				if pr, ok := ev.prev[k]; !ok || sig(pr) != sig(e) {
					stable = false
					break
				}
			}
		}
		ev.prev = ev.memo
		if stable {
			break
		}
	}
	return rounds
}

func runEmitBalance(p *core.Prog) *core.Result {
	res := core.NewResult("R-EMITBALANCE", 150)
	ev, err := newEmitEval(p)
	if err != nil {
		return res.Fail(err)
	}
	res.Count("fixed-point rounds", ev.solve())
	var fns []*ssa.Function
	for f := range ev.flagged {
		fns = append(fns, f)
	}
	sort.Slice(fns, func(i, j int) bool { return core.FuncName(fns[i]) < core.FuncName(fns[j]) })
	decidedPaths, undecided := 0, 0
	for _, f := range fns {
		// contract: implementations of the compiledExpr methods leave exactly the wanted value;
		// helpers the flag is handed to may also consume operands (emitObjectPattern consumes the
		// source value): for them the two flag values must differ by exactly one slot.
		isImpl := false
		if _, ok := ev.flagM[f.Name()]; ok && f.Signature.Recv() != nil && f.Parent() == nil && strings.HasPrefix(core.TypeShort(f.Signature.Recv().Type()), "*") && ev.seed[f] {
			isImpl = true
		}
		base, span := 0, 1
		if au, ok := emitAuditedContracts[core.FuncName(f)]; ok {
			base, span = au.base, au.span
		} else if !isImpl {
			rf := ev.eval(f, flagFalse)
			if len(rf.vals) == 0 {
				rt := ev.eval(f, flagTrue)
				for v := range rt.vals {
					base = v - 1
				}
			} else {
				m := 1 << 30
				cnt := map[int]int{}
				for v := range rf.vals {
					cnt[v]++
					if v < m {
						m = v
					}
				}
				// the most plausible base is the value reached by the false variant; with several
				// values there is a disagreement anyway, which is reported below against the smallest
				base = m
			}
		}
		for _, F := range []int{flagTrue, flagFalse} {
			want := base
			fs := "false"
			if F == flagTrue {
				want, fs = base+span, "true"
			}
			r := ev.eval(f, F)
			key := fmt.Sprintf("%s:%s=%s", core.FuncName(f), f.Params[ev.flagged[f]].Name(), fs)
			pos := p.Pos(f.Pos())
			undecided += r.unknown
			bad := false
			for i, jb := range r.joinBad {
				bad = true
				k2 := key + ":join"
				if i > 0 {
					k2 = fmt.Sprintf("%s:join#%d", key, i+1)
				}
				res.Bad(k2, pos, jb)
			}
			for v := range r.vals {
				decidedPaths++
				if ap, ok := emitAuditedPaths[core.FuncName(f)]; ok && ap.flag == (F == flagTrue) && ap.val == v && v != want {
					res.OK(key+":audited path", pos, "audited: "+ap.why)
					continue
				}
				if v != want {
					bad = true
					res.Bad(key, pos, fmt.Sprintf("a path emits bytecode with net operand-stack effect %+d, want %+d: [%s]", v, want, r.sample[v]))
				}
			}
			if bad {
				continue
			}
			if len(r.vals) == 0 {
				if r.unknown == 0 {
					res.OK(key, pos, "every path ends in a compile-time error or an unconditional run-time throw")
				} else {
					res.Inform(key, pos, fmt.Sprintf("no fully decidable path (%d undecidable: %s)", r.unknown, r.whyStr()))
				}
				continue
			}
			res.OK(key, pos, fmt.Sprintf("decidable paths all %+d (%d undecidable skipped) e.g. [%s]", want, r.unknown, r.sample[want]))
		}
	}
	// statements: whatever compileStatement dispatches to leaves the operand stack as it found it
	if cs, err := p.GojaMethod("compiler", "compileStatement"); err == nil {
		seen := map[*ssa.Function]bool{}
		var stmts []*ssa.Function
		core.AllInstrs(cs, func(in ssa.Instruction) {
			c, ok := in.(*ssa.Call)
			if !ok {
				return
			}
			g := c.Call.StaticCallee()
			if g == nil || !p.InModule(g) || !ev.mayEmit[g] || seen[g] || g == ev.emit {
				return
			}
			if _, fl := ev.flagged[g]; fl {
				return
			}
			seen[g] = true
			stmts = append(stmts, g)
		})
		sort.Slice(stmts, func(i, j int) bool { return core.FuncName(stmts[i]) < core.FuncName(stmts[j]) })
		res.Count("statement compilers", len(stmts))
		for _, g := range stmts {
			r := ev.eval(g, flagNone)
			key := fmt.Sprintf("%s:statement leaves the stack balanced", core.FuncName(g))
			pos := p.Pos(g.Pos())
			undecided += r.unknown
			bad := false
			for i, jb := range r.joinBad {
				bad = true
				res.Bad(fmt.Sprintf("%s:join#%d", key, i+1), pos, jb)
			}
			for v := range r.vals {
				decidedPaths++
				if v != 0 {
					bad = true
					res.Bad(key, pos, fmt.Sprintf("a path emits bytecode with net operand-stack effect %+d, want 0: [%s]", v, r.sample[v]))
				}
			}
			if bad {
				continue
			}
			if len(r.vals) == 0 {
				if r.unknown == 0 {
					res.OK(key, pos, "every path ends in a compile-time error or an unconditional run-time throw")
				} else {
					res.Inform(key, pos, fmt.Sprintf("no fully decidable path (%d undecidable: %s)", r.unknown, r.whyStr()))
				}
				continue
			}
			res.OK(key, pos, fmt.Sprintf("decidable paths all 0 (%d undecidable skipped) e.g. [%s]", r.unknown, r.sample[0]))
		}
	}
	// helpers without the flag: when every path is decidable, all paths agree on one net effect
	nHelpers := 0
	for _, g := range p.Funcs {
		if _, fl := ev.flagged[g]; fl || !ev.mayEmit[g] || g == ev.emit || g.Name() == "exec" {
			continue
		}
		if _, ok := emitAuditedSummaries[core.FuncName(g)]; ok {
			continue
		}
		r := ev.eval(g, flagNone)
		if r.unknown > 0 || len(r.vals) == 0 {
			continue
		}
		nHelpers++
		key := fmt.Sprintf("%s:all paths agree", core.FuncName(g))
		pos := p.Pos(g.Pos())
		if len(r.joinBad) > 0 {
			res.Bad(key+":join", pos, r.joinBad[0])
			continue
		}
		if len(r.vals) == 1 {
			for v := range r.vals {
				res.OK(key, pos, fmt.Sprintf("%+d on every path e.g. [%s]", v, r.sample[v]))
			}
			continue
		}
		var parts []string
		for v := range r.vals {
			parts = append(parts, fmt.Sprintf("%+d via [%s]", v, r.sample[v]))
		}
		sort.Strings(parts)
		res.Bad(key, pos, "paths of this emitter disagree on the net operand-stack effect of what they emit, so one of them unbalances the caller's sequence: "+strings.Join(parts, "; "))
	}
	res.Count("fully decidable helpers", nHelpers)
	if dbg := os.Getenv("DEBUG_FUNCS"); dbg != "" {
		for _, f := range p.Funcs {
			for _, w := range strings.Split(dbg, ",") {
				if w != "" && strings.Contains(core.FuncName(f), w) {
					for _, F := range []int{flagNone, flagTrue, flagFalse} {
						r := ev.eval(f, F)
						res.Note("%s F=%d vals=%s unknown=%d throws=%v whys=[%s] mayEmit=%v switcher=%v", core.FuncName(f), F, setStr(r.vals), r.unknown, r.throws, r.whyStr(), ev.mayEmit[f], ev.switcher[f])
					}
				}
			}
		}
	}
	res.Count("flag-carrying functions", len(fns))
	res.Count("decidable path results", decidedPaths)
	res.Count("undecidable paths skipped", undecided)
	return res
}

package rules

import (
	"fmt"
	"os"
	"go/token"
	"go/types"
	"sort"
	"strings"

	"gojaverif/core"

	"golang.org/x/tools/go/ssa"
)

// ---------------------------------------------------------------------------------------------
// R-PVARIANT (C02): the "P" sibling of an instruction (storeStackP, setPropStrictP, ...) is chosen
// by the compiler when the value is not wanted; it must behave as its base instruction followed by
// one pop. With the operand-stack effects derived from the exec methods (speffect.go) this is a
// table agreement: effect(TP) = effect(T) - 1 for every non-jump pair.
// ---------------------------------------------------------------------------------------------

var PVariant = &core.Rule{Name: "R-PVARIANT", Run: runPVariant,
	Doc: "for every instruction pair T / TP the operand-stack effect derived from TP.exec equals the effect of T.exec minus one"}

func runPVariant(p *core.Prog) *core.Result {
	res := core.NewResult("R-PVARIANT", 15)
	a, err := newSpAnalysis(p)
	if err != nil {
		return res.Fail(err)
	}
	pc, err := newVMCounterAnalysis(p, "pc")
	if err != nil {
		return res.Fail(err)
	}
	execs := map[string]*ssa.Function{}
	for _, f := range p.Funcs {
		if f.Name() != "exec" || f.Signature.Recv() == nil || f.Parent() != nil {
			continue
		}
		execs[strings.TrimPrefix(core.TypeShort(f.Signature.Recv().Type()), "*")] = f
	}
	res.Count("instruction types", len(execs))
	var names []string
	for n := range execs {
		names = append(names, n)
	}
	sort.Strings(names)
	for _, n := range names {
		if !strings.HasSuffix(n, "P") {
			continue
		}
		base, ok := execs[strings.TrimSuffix(n, "P")]
		if !ok {
			continue
		}
		fp := execs[n]
		key := fmt.Sprintf("%s~%s:effect differs by one pop", strings.TrimSuffix(n, "P"), n)
		pos := p.Pos(fp.Pos())
		eb, ep := a.of(base), a.of(fp)
		if v, ok := pc.of(base).Const(); !ok || v != 1 {
			res.Inform(key, pos, "jump-like pair (pc not simply incremented): the P form pops on both outcomes by design; not compared")
			continue
		}
		if !eb.Known || !ep.Known {
			res.Unknown(key, pos, fmt.Sprintf("operand-stack effect not derivable: %s %s, %s %s", strings.TrimSuffix(n, "P"), eb, n, ep))
			continue
		}
		okAll := len(eb.Vals) == len(ep.Vals)
		if okAll {
			for i := range eb.Vals {
				if ep.Vals[i] != eb.Vals[i]-1 {
					okAll = false
				}
			}
		}
		if okAll {
			res.OK(key, pos, fmt.Sprintf("%s vs %s", eb, ep))
		} else {
			res.Bad(key, pos, fmt.Sprintf("%s.exec moves vm.sp by %s but its base form by %s: the compiler selects the P form when the value is discarded and relies on exactly one extra pop, otherwise every such statement leaks or eats an operand-stack slot", n, ep, eb))
		}
	}
	return res
}

// ---------------------------------------------------------------------------------------------
// R-PATCHEFFECT (C02 "variables captured by a closure / visible to eval / plain locals"): when
// the late allocation pass rewrites an access point (switch on the placeholder instruction's
// type, then overwrite the same slot), the replacement has the same operand-stack effect as the
// placeholder it replaces: the surrounding code was emitted against the placeholder.
// ---------------------------------------------------------------------------------------------

var PatchEffect = &core.Rule{Name: "R-PATCHEFFECT", Run: runPatchEffect,
	Doc: "an instruction stored over a slot under a successful type test of that slot's current instruction has the same derived operand-stack effect as the instruction it replaces"}

func runPatchEffect(p *core.Prog) *core.Result {
	res := core.NewResult("R-PATCHEFFECT", 30)
	a, err := newSpAnalysis(p)
	if err != nil {
		return res.Fail(err)
	}
	instrT, err := p.GojaType("instruction")
	if err != nil {
		return res.Fail(err)
	}
	iface := instrT.Underlying().(*types.Interface)
	isInstr := func(t types.Type) bool { return types.Implements(t, iface) }
	n := map[string]int{}
	for _, f := range p.Funcs {
		core.AllInstrs(f, func(in ssa.Instruction) {
			st, ok := in.(*ssa.Store)
			if !ok {
				return
			}
			mi, ok := st.Val.(*ssa.MakeInterface)
			if !ok || !isInstr(mi.X.Type()) || !types.Identical(mi.Type(), instrT) {
				return
			}
			// find a dominating successful type test of a load of the same address
			for _, cp := range core.ControllingConds(in.Block()) {
				if !cp.Pol {
					continue
				}
				ex, ok := cp.Cond.(*ssa.Extract)
				if !ok || ex.Index != 1 {
					continue
				}
				ta, ok := ex.Tuple.(*ssa.TypeAssert)
				if !ok || !ta.CommaOk || !isInstr(ta.AssertedType) {
					continue
				}
				ld, ok := ta.X.(*ssa.UnOp)
				if !ok || ld.Op != token.MUL || ld.X != st.Addr {
					continue
				}
				from, to := ta.AssertedType, mi.X.Type()
				fn, tn := core.TypeShort(from), core.TypeShort(to)
				k := fmt.Sprintf("%s:%s->%s", core.FuncName(f), fn, tn)
				n[k]++
				key := fmt.Sprintf("%s#%d", k, n[k])
				pos := p.Pos(st.Pos())
				ef, et := a.of(execOf(p, from)), a.of(execOf(p, to))
				cf, okf := ef.Const()
				ct, okt := et.Const()
				switch {
				case okf && okt && cf == ct:
					res.OK(key, pos, fmt.Sprintf("both %+d", cf))
				case okf && okt:
					res.Bad(key, pos, fmt.Sprintf("placeholder %s moves vm.sp by %+d, its replacement %s by %+d: code emitted around the access point was balanced against the placeholder", fn, cf, tn, ct))
				case ef.Known && et.Known && subset(et.Vals, ef.Vals):
					res.OK(key, pos, fmt.Sprintf("replacement %s within placeholder %s", et, ef))
				case ef.Known && et.Known:
					res.Bad(key, pos, fmt.Sprintf("placeholder %s has effects %s, its replacement %s has %s", fn, ef, tn, et))
				default:
					res.Inform(key, pos, fmt.Sprintf("effect not derivable (%s %s, %s %s)", fn, ef, tn, et))
				}
				return
			}
		})
	}
	return res
}

func subset(a, b []int) bool {
	m := map[int]bool{}
	for _, x := range b {
		m[x] = true
	}
	for _, x := range a {
		if !m[x] {
			return false
		}
	}
	return true
}

// ---------------------------------------------------------------------------------------------
// R-EMITBALANCE (C02 "expression vs statement position", C01 operand-stack balance).
//
// Symbolic execution of the compiler's expression emitters over the abstract domain "net
// operand-stack effect of the bytecode emitted so far". For every function that carries the
// `putOnStack` flag and for both values of the flag, every path whose emissions are all
// *decidable* must sum to 1 (flag true) or 0 (flag false):
//   - c.emit(T{...}) adds the constant effect of T derived from T.exec (sequential instructions
//     only: pc advanced by exactly one on every path); emitting an always-throwing instruction
//     ends the path (the rest is unobservable);
//   - X.emitGetter(b) / emitSetter(_, b) / emitUnary(.., b) / emitDelete(b) and the helpers the
//     flag is handed to add 1 when b is true and 0 when false (b constant or derived from the flag);
//   - calls to module functions that can emit are summarised recursively; functions that cannot
//     reach an emission add 0;
//   - anything else (placeholders patched later, jumps, calls/returns, loops that emit,
//     emission into a swapped Program) makes the path undecidable: it is counted and skipped.
// A decidable path with the wrong sum is reported with the sum and the emitted sequence.
// ---------------------------------------------------------------------------------------------

var EmitBalance = &core.Rule{Name: "R-EMITBALANCE", Run: runEmitBalance,
	Doc: "for both values of putOnStack, every fully decidable emission path of an expression emitter has net operand-stack effect 1 (value wanted) or 0 (discarded), with instruction effects derived from the exec methods"}

// emitAuditedContracts: flag-carrying functions whose contract is not "leave the value iff wanted".
var emitAuditedContracts = map[string]struct {
	base int // effect with the flag false
	span int // effect with the flag true minus base (1 everywhere else)
	why  string
}{
	"(*compiledSpreadCallArgument).emitGetter": {0, 0, "a spread argument is only emitted between startVariadic and endVariadic: pushSpread moves the iterated values into the open variadic area, so the wanted form nets 0 and is never emitted with putOnStack=false by compiledCallExpr"},
}

// emitAuditedSummaries: functions whose net emission is known by reading and cannot be derived.
var emitAuditedSummaries = map[string]struct {
	eff int
	why string
}{
	"(*compiler).evalConst": {0, "runs the expression in a scratch VM: emits into a throw-away Program, or truncates c.p.code back to savedPc before returning"},
}

type effSet struct {
	vals    map[int]bool
	unknown int  // number of undecidable paths
	throws  bool // some path ends in an unconditional run-time throw
	sample  map[int]string
	whys    map[string]int
}

func (e *effSet) unk(why string) {
	e.unknown++
	if e.whys == nil {
		e.whys = map[string]int{}
	}
	e.whys[why]++
}

func (e *effSet) whyStr() string {
	var s []string
	for k, n := range e.whys {
		s = append(s, fmt.Sprintf("%s x%d", k, n))
	}
	sort.Strings(s)
	return strings.Join(s, "; ")
}

type emitEval struct {
	p         *core.Prog
	sp, pc    *spAnalysis
	emit      *ssa.Function
	instrT    types.Type
	instrI    *types.Interface
	flagM     map[string]int // compiledExpr method name -> index of the flag among the call's Args (invoke: receiver excluded)
	ceI       *types.Interface
	flagged   map[*ssa.Function]int // function -> index into Params of the flag
	mayEmit   map[*ssa.Function]bool
	switcher  map[*ssa.Function]bool // assigns compiler.p or Program.code wholesale
	memo      map[string]*effSet
	busy      map[string]bool
	throwers  map[*ssa.Function]bool
	pathLimit int
}

func (ev *emitEval) key(f *ssa.Function, F int) string { return fmt.Sprintf("%p/%d", f, F) }

// instrEffect: (delta, kind) kind: 0 const sequential, 1 thrower, 2 undecidable
func (ev *emitEval) instrEffect(t types.Type) (int, int, string) {
	ex := execOf(ev.p, t)
	if ex == nil {
		return 0, 2, "no exec"
	}
	if ev.throwers[ex] {
		return 0, 1, ""
	}
	e := ev.sp.of(ex)
	if e.Known && len(e.Vals) == 0 {
		return 0, 1, ""
	}
	if v, ok := ev.pc.of(ex).Const(); !ok || v != 1 {
		return 0, 2, "not sequential"
	}
	d, ok := e.Const()
	if !ok {
		return 0, 2, "effect " + e.String()
	}
	return d, 0, ""
}

const (
	flagNone  = 0
	flagTrue  = 1
	flagFalse = 2
)

func (ev *emitEval) eval(f *ssa.Function, F int) *effSet {
	k := ev.key(f, F)
	if r, ok := ev.memo[k]; ok {
		return r
	}
	out := &effSet{vals: map[int]bool{}, sample: map[int]string{}}
	if a, ok := emitAuditedSummaries[core.FuncName(f)]; ok {
		out.vals[a.eff] = true
		ev.memo[k] = out
		return out
	}
	if ev.busy[k] || len(f.Blocks) == 0 || ev.switcher[f] {
		out.unknown = 1
		if !ev.busy[k] {
			ev.memo[k] = out
		}
		return out
	}
	ev.busy[k] = true
	defer delete(ev.busy, k)

	var d map[ssa.Value]bool
	fi, hasFlag := ev.flagged[f]
	if hasFlag && F != flagNone {
		d = flagDerived(f, fi)
	}
	// value of a flag-derived boolean under F: 1 true, 0 false, -1 unknown
	var boolVal func(v ssa.Value, depth int) int
	boolVal = func(v ssa.Value, depth int) int {
		if c, ok := v.(*ssa.Const); ok && c.Value != nil && isBoolT(c.Type()) {
			if c.Value.String() == "true" {
				return 1
			}
			return 0
		}
		if d == nil || !d[v] || depth > 6 {
			return -1
		}
		switch x := v.(type) {
		case *ssa.Parameter:
			if x == f.Params[fi] {
				if F == flagTrue {
					return 1
				}
				return 0
			}
			return -1
		case *ssa.UnOp:
			if x.Op == token.NOT {
				r := boolVal(x.X, depth+1)
				if r < 0 {
					return r
				}
				return 1 - r
			}
			if x.Op == token.MUL { // load of the spill cell
				if F == flagTrue {
					return 1
				}
				return 0
			}
		case *ssa.FreeVar:
			return -1
		}
		return -1
	}

	budget := ev.pathLimit
	onPath := map[*ssa.BasicBlock]int{}
	decided := map[string]bool{}
	var trace []string
	var walk func(b *ssa.BasicBlock, delta int)
	walk = func(b *ssa.BasicBlock, delta int) {
		budget--
		if budget < 0 {
			out.unk("path budget")
			return
		}
		if d0, ok := onPath[b]; ok {
			if d0 != delta {
				out.unk("loop that emits")
			}
			return
		}
		onPath[b] = delta
		tl := len(trace)
		defer func() { delete(onPath, b); trace = trace[:tl] }()
		deltas := []int{delta}
		addAll := func(n int) {
			for i := range deltas {
				deltas[i] += n
			}
		}
		for _, in := range b.Instrs {
			switch x := in.(type) {
			case *ssa.Panic:
				return
			case *ssa.Return:
				if b == f.Recover {
					return
				}
				for _, dl := range deltas {
					out.vals[dl] = true
					if _, ok := out.sample[dl]; !ok {
						out.sample[dl] = strings.Join(trace, " ")
					}
				}
				return
			case *ssa.Go, *ssa.Defer:
				out.unk("go/defer")
				return
			case *ssa.Call:
				if ev.p.CallNeverReturns(x) {
					return
				}
				com := x.Common()
				if _, isBuiltin := com.Value.(*ssa.Builtin); isBuiltin {
					continue
				}
				callee := com.StaticCallee()
				switch {
				case callee == ev.emit:
					if len(com.Args) < 2 {
						out.unk("emit without arguments")
						return
					}
					elems := sliceElems(com.Args[1])
					if len(elems) == 0 {
						out.unk("emit of a non-literal slice")
						return
					}
					// keep emission order: elements are stored at increasing indexes in source order
					for _, el := range elems {
						mi, ok := el.(*ssa.MakeInterface)
						if !ok {
							out.unk("emit of a non-constructed instruction")
							return
						}
						dl, kind, why := ev.instrEffect(mi.X.Type())
						switch kind {
						case 1:
							out.throws = true
							return
						case 2:
							out.unk(core.TypeShort(mi.X.Type()) + ": " + why)
							return
						}
						addAll(dl)
						trace = append(trace, fmt.Sprintf("%s(%+d)", core.TypeShort(mi.X.Type()), dl))
					}
				case callee != nil && !com.IsInvoke():
					if !ev.p.InModule(callee) || !ev.mayEmit[callee] {
						continue
					}
					F2 := flagNone
					if gi, ok := ev.flagged[callee]; ok {
						if gi >= len(com.Args) {
							out.unk("flag argument missing")
							return
						}
						switch boolVal(com.Args[gi], 0) {
						case 1:
							F2 = flagTrue
						case 0:
							F2 = flagFalse
						default:
							out.unk("flag argument not decidable")
							return
						}
					}
					sub := ev.eval(callee, F2)
					if len(sub.vals) == 0 {
						if sub.unknown > 0 {
							out.unk("callee undecidable: "+callee.Name()+"")
						} else if sub.throws {
							out.throws = true
						}
						return
					}
					deltas = cross(deltas, sub.vals)
					trace = append(trace, fmt.Sprintf("%s%s", callee.Name(), setStr(sub.vals)))
				case com.IsInvoke():
					name := com.Method.Name()
					if idx, ok := ev.flagM[name]; ok && ev.isCompiledExprRecv(com.Value.Type()) {
						switch boolVal(com.Args[idx], 0) {
						case 1:
							addAll(1)
							trace = append(trace, name+"(true)(+1)")
						case 0:
							trace = append(trace, name+"(false)(+0)")
						default:
							out.unk("flag argument of interface call not decidable")
							return
						}
						continue
					}
					fallthrough
				default:
					// dynamic call or other interface method: all possible callees must agree
					cs := ev.p.Callees(x)
					if len(cs) == 0 {
						out.unk("dynamic call without resolved callees")
						return
					}
					any := false
					for _, c := range cs {
						if ev.mayEmit[c] {
							any = true
						}
					}
					if !any {
						continue
					}
					agreed, first := 0, true
					okAll := true
					for _, c := range cs {
						if !ev.mayEmit[c] {
							if first {
								agreed, first = 0, false
							} else if agreed != 0 {
								okAll = false
							}
							continue
						}
						if _, hasF := ev.flagged[c]; hasF {
							continue // cannot know the flag it receives here
						}
						sub := ev.eval(c, flagNone)
						// use what is decidable about this callee; its undecidable paths are skipped like any other
						for v := range sub.vals {
							if first {
								agreed, first = v, false
							} else if agreed != v {
								okAll = false
							}
						}
					}
					if !okAll || first {
						out.unk("callees disagree or undecidable")
						return
					}
					addAll(agreed)
					nm := "dyn"
					if com.IsInvoke() {
						nm = com.Method.Name()
					}
					trace = append(trace, fmt.Sprintf("%s(%+d)", nm, agreed))
				}
			case *ssa.If:
				v := boolVal(x.Cond, 0)
				ck := condKey(x.Cond, 0)
				if v < 0 {
					if dv, ok := decided[ck]; ok {
						if dv {
							v = 1
						} else {
							v = 0
						}
					}
				}
				for _, dl := range deltas {
					switch v {
					case 1:
						walk(b.Succs[0], dl)
					case 0:
						walk(b.Succs[1], dl)
					default:
						decided[ck] = true
						walk(b.Succs[0], dl)
						decided[ck] = false
						walk(b.Succs[1], dl)
						delete(decided, ck)
					}
				}
				return
			}
		}
		for _, s := range b.Succs {
			for _, dl := range deltas {
				walk(s, dl)
			}
		}
	}
	walk(f.Blocks[0], 0)
	ev.memo[k] = out
	return out
}

// condKey gives two evaluations of the same side-effect-free test (a comparison of loads through
// the same field path from the same parameter, e.g. `pattern.Rest != nil` written twice) the same
// key, so that a path does not take contradictory branches on them. The compile functions read
// the syntax tree and compiler options, which do not change while one emitter runs.
func condKey(v ssa.Value, depth int) string {
	if depth > 8 {
		return fmt.Sprintf("%p", v)
	}
	switch x := v.(type) {
	case *ssa.Const:
		return "c:" + x.String()
	case *ssa.Parameter:
		return "p:" + x.Name()
	case *ssa.FreeVar:
		return "fv:" + x.Name()
	case *ssa.FieldAddr:
		return condKey(x.X, depth+1) + fmt.Sprintf(".&%d", x.Field)
	case *ssa.Field:
		return condKey(x.X, depth+1) + fmt.Sprintf(".%d", x.Field)
	case *ssa.UnOp:
		if x.Op == token.MUL || x.Op == token.NOT {
			return x.Op.String() + condKey(x.X, depth+1)
		}
	case *ssa.BinOp:
		return "(" + condKey(x.X, depth+1) + x.Op.String() + condKey(x.Y, depth+1) + ")"
	case *ssa.ChangeType:
		return condKey(x.X, depth+1)
	case *ssa.MakeInterface:
		return condKey(x.X, depth+1)
	}
	return fmt.Sprintf("%p", v)
}

func cross(ds []int, vals map[int]bool) []int {
	seen := map[int]bool{}
	var out []int
	for _, d := range ds {
		for v := range vals {
			if !seen[d+v] {
				seen[d+v] = true
				out = append(out, d+v)
			}
		}
	}
	sort.Ints(out)
	return out
}

func setStr(m map[int]bool) string {
	var v []int
	for x := range m {
		v = append(v, x)
	}
	sort.Ints(v)
	var s []string
	for _, x := range v {
		s = append(s, fmt.Sprintf("%+d", x))
	}
	return "{" + strings.Join(s, ",") + "}"
}

func isBoolT(t types.Type) bool {
	b, ok := t.Underlying().(*types.Basic)
	return ok && b.Info()&types.IsBoolean != 0
}

func (ev *emitEval) isCompiledExprRecv(t types.Type) bool {
	if i, ok := t.Underlying().(*types.Interface); ok {
		// the interface must include compiledExpr's methods
		return types.Implements(t, ev.ceI) || i == ev.ceI
	}
	return false
}

func newEmitEval(p *core.Prog) (*emitEval, error) {
	sp, err := newSpAnalysis(p)
	if err != nil {
		return nil, err
	}
	pc, err := newVMCounterAnalysis(p, "pc")
	if err != nil {
		return nil, err
	}
	emit, err := p.GojaMethod("compiler", "emit")
	if err != nil {
		return nil, err
	}
	instrT, err := p.GojaType("instruction")
	if err != nil {
		return nil, err
	}
	ce, err := p.GojaType("compiledExpr")
	if err != nil {
		return nil, err
	}
	ev := &emitEval{p: p, sp: sp, pc: pc, emit: emit, instrT: instrT, instrI: instrT.Underlying().(*types.Interface),
		ceI: ce.Underlying().(*types.Interface), flagM: map[string]int{}, flagged: map[*ssa.Function]int{},
		mayEmit: map[*ssa.Function]bool{}, switcher: map[*ssa.Function]bool{}, memo: map[string]*effSet{}, busy: map[string]bool{}, pathLimit: 20000}
	for i := 0; i < ev.ceI.NumMethods(); i++ {
		m := ev.ceI.Method(i)
		sig := m.Type().(*types.Signature)
		n := sig.Params().Len()
		if n > 0 && sig.Params().At(n-1).Name() == "putOnStack" && isBoolT(sig.Params().At(n-1).Type()) {
			ev.flagM[m.Name()] = n - 1
		}
	}
	fl, _ := flaggedFuncs(p, ev.ceI)
	for f, idxs := range fl {
		if len(idxs) == 1 {
			for i := range idxs {
				ev.flagged[f] = i
			}
		}
	}
	ev.throwers = throwEmitters(p, emit)
	// switchers: assign compiler.p, or Program.code other than through emit's append
	if fp, err := p.Field(core.GojaPath, "compiler", "p"); err == nil {
		for _, w := range p.FieldWrites(fp) {
			if w.Kind == "store" {
				ev.switcher[core.EnclosingTop(w.Fn)] = true
			}
		}
	}
	codeF, err := p.Field(core.GojaPath, "Program", "code")
	if err != nil {
		return nil, err
	}
	writesCode := map[*ssa.Function]bool{}
	for _, w := range p.FieldWrites(codeF) {
		top := core.EnclosingTop(w.Fn)
		if w.Kind == "store" && top != emit {
			ev.switcher[top] = true
		}
		writesCode[top] = true
	}
	// mayEmit: reaches emit or a write of Program.code (static + VTA edges), closures included with their parent
	ev.mayEmit[emit] = true
	for f := range writesCode {
		ev.mayEmit[f] = true
	}
	cg := p.CallGraph()
	changed := true
	for changed {
		changed = false
		for _, f := range p.Funcs {
			if ev.mayEmit[f] {
				continue
			}
			n := cg.Nodes[f]
			if n == nil {
				continue
			}
			for _, e := range n.Out {
				if ev.mayEmit[e.Callee.Func] {
					ev.mayEmit[f] = true
					changed = true
					break
				}
			}
			if !ev.mayEmit[f] {
				for _, a := range f.AnonFuncs {
					if ev.mayEmit[a] {
						// a closure that emits makes its creator a potential emitter only if it is called; calls are edges already
						_ = a
					}
				}
			}
		}
	}
	return ev, nil
}

func runEmitBalance(p *core.Prog) *core.Result {
	res := core.NewResult("R-EMITBALANCE", 40)
	ev, err := newEmitEval(p)
	if err != nil {
		return res.Fail(err)
	}
	var fns []*ssa.Function
	for f := range ev.flagged {
		fns = append(fns, f)
	}
	sort.Slice(fns, func(i, j int) bool { return core.FuncName(fns[i]) < core.FuncName(fns[j]) })
	decidedPaths, undecided := 0, 0
	for _, f := range fns {
		// contract: implementations of the compiledExpr methods leave exactly the wanted value;
		// helpers the flag is handed to may also consume operands (emitObjectPattern consumes the
		// source value): for them the two flag values must differ by exactly one slot.
		isImpl := false
		if _, ok := ev.flagM[f.Name()]; ok && f.Signature.Recv() != nil && types.Implements(f.Signature.Recv().Type(), ev.ceI) {
			isImpl = true
		}
		base, span := 0, 1
		if au, ok := emitAuditedContracts[core.FuncName(f)]; ok {
			base, span = au.base, au.span
		} else if !isImpl {
			rf := ev.eval(f, flagFalse)
			if len(rf.vals) == 0 {
				rt := ev.eval(f, flagTrue)
				for v := range rt.vals {
					base = v - 1
				}
			} else {
				m := 1 << 30
				cnt := map[int]int{}
				for v := range rf.vals {
					cnt[v]++
					if v < m {
						m = v
					}
				}
				// the most plausible base is the value reached by the false variant; with several
				// values there is a disagreement anyway, which is reported below against the smallest
				base = m
			}
		}
		for _, F := range []int{flagTrue, flagFalse} {
			want := base
			fs := "false"
			if F == flagTrue {
				want, fs = base+span, "true"
			}
			r := ev.eval(f, F)
			key := fmt.Sprintf("%s:%s=%s", core.FuncName(f), f.Params[ev.flagged[f]].Name(), fs)
			pos := p.Pos(f.Pos())
			undecided += r.unknown
			bad := false
			for v := range r.vals {
				decidedPaths++
				if v != want {
					bad = true
					res.Bad(key, pos, fmt.Sprintf("a path emits bytecode with net operand-stack effect %+d, want %+d: [%s]", v, want, r.sample[v]))
				}
			}
			if bad {
				continue
			}
			if len(r.vals) == 0 {
				if r.unknown == 0 {
					res.OK(key, pos, "every path ends in a compile-time error or an unconditional run-time throw")
				} else {
					res.Inform(key, pos, fmt.Sprintf("no fully decidable path (%d undecidable: %s)", r.unknown, r.whyStr()))
				}
				continue
			}
			res.OK(key, pos, fmt.Sprintf("decidable paths all %+d (%d undecidable skipped) e.g. [%s]", want, r.unknown, r.sample[want]))
		}
	}
	if dbg := os.Getenv("DEBUG_FUNCS"); dbg != "" {
		for _, f := range p.Funcs {
			for _, w := range strings.Split(dbg, ",") {
				if w != "" && strings.Contains(core.FuncName(f), w) {
					for _, F := range []int{flagNone, flagTrue, flagFalse} {
						r := ev.eval(f, F)
						res.Note("%s F=%d vals=%s unknown=%d throws=%v whys=[%s] mayEmit=%v switcher=%v", core.FuncName(f), F, setStr(r.vals), r.unknown, r.throws, r.whyStr(), ev.mayEmit[f], ev.switcher[f])
					}
				}
			}
		}
	}
	res.Count("flag-carrying functions", len(fns))
	res.Count("decidable path results", decidedPaths)
	res.Count("undecidable paths skipped", undecided)
	return res
}

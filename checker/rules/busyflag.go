package rules

import (
	"fmt"
	"go/constant"
	"go/types"

	"gojaverif/core"

	"golang.org/x/tools/go/ssa"
)

// R-BUSYFLAG (C03, C10, C15).
//
// A boolean field of a long-lived engine object (Runtime, vm, an object implementation) that a
// function sets to true, and back to false before it returns, is a "busy" / re-entrancy flag that
// brackets the calls in between. goja unwinds by Go panic (interrupts, stack overflows, exceptions
// thrown through native frames, host panics): a reset written as a plain statement after a call
// that can panic is skipped, and the flag stays set on the idle object for ever - with a guard
// like `if r.runningJobs { return }` at the top, the bracketed operation never runs again.
//
// Rule: if a function stores constant true into X.F, stores constant false into the same X.F
// later on some path, and a call that may run script lies between the two, the function also
// resets the flag in a deferred function (or the reset itself is in one).
var BusyFlag = &core.Rule{Name: "R-BUSYFLAG", Run: runBusyFlag,
	Doc: "a bool field set to true and reset to false around calls that may run script is reset by a deferred function"}

func runBusyFlag(p *core.Prog) *core.Result {
	res := core.NewResult("R-BUSYFLAG", 0)
	isConstBool := func(v ssa.Value, want bool) bool {
		c, ok := v.(*ssa.Const)
		if !ok || c.Value == nil || c.Value.Kind() != constant.Bool {
			return false
		}
		return constant.BoolVal(c.Value) == want
	}
	nBr := 0
	for _, f := range p.Funcs {
		if !p.InModule(f) || len(f.Blocks) == 0 {
			continue
		}
		type set struct {
			st *ssa.Store
			fv *types.Var
			x  ssa.Value
		}
		var sets, resets []set
		core.AllInstrs(f, func(in ssa.Instruction) {
			st, ok := in.(*ssa.Store)
			if !ok {
				return
			}
			fa, ok := st.Addr.(*ssa.FieldAddr)
			if !ok {
				return
			}
			fv := core.FieldOf(fa)
			if fv == nil {
				return
			}
			if _, isAlloc := fa.X.(*ssa.Alloc); isAlloc {
				return // a local struct
			}
			switch {
			case isConstBool(st.Val, true):
				sets = append(sets, set{st, fv, fa.X})
			case isConstBool(st.Val, false):
				resets = append(resets, set{st, fv, fa.X})
			}
		})
		for _, s := range sets {
			for _, r := range resets {
				if r.fv != s.fv || core.Origin(r.x) != core.Origin(s.x) {
					continue
				}
				// a path set -> (call that may run script) -> reset
				var via ssa.Instruction
				type stt struct {
					b *ssa.BasicBlock
					k bool
				}
				seen := map[stt]bool{}
				found := false
				var walk func(b *ssa.BasicBlock, from int, killed bool, by ssa.Instruction)
				walk = func(b *ssa.BasicBlock, from int, killed bool, by ssa.Instruction) {
					if found {
						return
					}
					for j := from; j < len(b.Instrs); j++ {
						x := b.Instrs[j]
						if x == ssa.Instruction(r.st) {
							if killed {
								found, via = true, by
							}
							return
						}
						if x == ssa.Instruction(s.st) && j != from-1 {
							return
						}
						if c, ok := x.(ssa.CallInstruction); ok && !killed {
							if _, isDefer := x.(*ssa.Defer); isDefer {
								continue
							}
							if p.MayRunScript(c) != "" {
								killed, by = true, x
							}
						}
					}
					for _, su := range b.Succs {
						k := stt{su, killed}
						if !seen[k] {
							seen[k] = true
							walk(su, 0, killed, by)
						}
					}
				}
				walk(s.st.Block(), core.InstrIndex(s.st)+1, false, nil)
				if !found {
					continue
				}
				nBr++
				key := fmt.Sprintf("%s:.%s set around calls that may run script is reset by a defer", core.FuncName(f), s.fv.Name())
				// a deferred function of the enclosing function that stores false into the same field
				top := f
				deferred := false
				core.AllInstrs(top, func(in ssa.Instruction) {
					d, ok := in.(*ssa.Defer)
					if !ok {
						return
					}
					var fn *ssa.Function
					switch x := d.Call.Value.(type) {
					case *ssa.MakeClosure:
						fn, _ = x.Fn.(*ssa.Function)
					case *ssa.Function:
						fn = x
					}
					if fn == nil {
						return
					}
					core.AllInstrs(fn, func(in2 ssa.Instruction) {
						if st2, ok := in2.(*ssa.Store); ok && core.FieldOf(st2.Addr) == s.fv && isConstBool(st2.Val, false) {
							deferred = true
						}
					})
				})
				if deferred {
					res.OK(key, p.Pos(s.st.Pos()), "a deferred function stores false into the field")
				} else {
					res.Bad(key, p.Pos(r.st.Pos()), fmt.Sprintf("the flag set at %s is reset here by a plain statement, after %s which may run script (%s): an interrupt, stack overflow or exception unwinding through this frame skips the reset and the flag stays set on the idle object", p.Pos(s.st.Pos()), p.Pos(via.Pos()), p.MayRunScript(via.(ssa.CallInstruction))))
				}
			}
		}
	}
	res.Count("true/false brackets around script-running calls", nBr)
	return res
}

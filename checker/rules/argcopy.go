package rules

import (
	"fmt"
	"go/token"
	"strings"

	"gojaverif/core"

	"golang.org/x/tools/go/ssa"
)

// R-ARGCOPY (C02 "stack vs heap allocation of bindings is not observable").
//
// When a parameter is captured by a closure the function's arguments move from the operand stack
// into the stash (enterFunc / enterFunc1 with argsToStash). The stash holds the declared parameters
// first and the function's other captured bindings after them. The number of arguments *passed*
// (vm.args) is the caller's choice: a copy of the whole argument area lands on the slots of the other
// bindings when more arguments are passed than declared - `function f(a){ var b; return () => [a,b] }`
// called as f(1,2) had b === 2.
//
// Rule: in the exec methods of the enterFunc* instructions every copy() into the stash's values
// from a slice of vm.stack whose length depends on vm.args has a destination or a source bounded by
// a field of the instruction (numArgs / argsToCopy): the destination is re-sliced with such an
// upper bound, or the source's upper bound subtracts the surplus, or the copy is controlled by a
// comparison of vm.args with that field.
var ArgCopy = &core.Rule{Name: "R-ARGCOPY", Run: runArgCopy,
	Doc: "enterFunc*: a copy of the passed arguments into the stash is bounded by the declared parameter count"}

func runArgCopy(p *core.Prog) *core.Result {
	res := core.NewResult("R-ARGCOPY", 2)
	valuesF, err := p.Field(core.GojaPath, "stash", "values")
	if err != nil {
		return res.Fail(err)
	}
	argsF, err := p.Field(core.GojaPath, "vm", "args")
	if err != nil {
		return res.Fail(err)
	}
	stackF, err := p.Field(core.GojaPath, "vm", "stack")
	if err != nil {
		return res.Fail(err)
	}
	var mentions func(v ssa.Value, pred func(ssa.Value) bool, depth int) bool
	mentions = func(v ssa.Value, pred func(ssa.Value) bool, depth int) bool {
		if v == nil || depth > 6 {
			return false
		}
		if pred(v) {
			return true
		}
		switch x := v.(type) {
		case *ssa.BinOp:
			return mentions(x.X, pred, depth+1) || mentions(x.Y, pred, depth+1)
		case *ssa.Convert:
			return mentions(x.X, pred, depth+1)
		case *ssa.Phi:
			for _, e := range x.Edges {
				if mentions(e, pred, depth+1) {
					return true
				}
			}
		case *ssa.Call:
			if b, ok := x.Call.Value.(*ssa.Builtin); ok && (b.Name() == "max" || b.Name() == "min") {
				for _, a := range x.Call.Args {
					if mentions(a, pred, depth+1) {
						return true
					}
				}
			}
		}
		return false
	}
	isArgs := func(v ssa.Value) bool {
		ld, ok := v.(*ssa.UnOp)
		return ok && ld.Op == token.MUL && core.FieldOf(ld.X) == argsF
	}
	n := map[string]int{}
	for _, f := range p.Funcs {
		if !p.InModule(f) || f.Name() != "exec" || f.Signature.Recv() == nil {
			continue
		}
		rn := core.NamedOf(f.Signature.Recv().Type())
		if rn == nil || !strings.HasPrefix(rn.Obj().Name(), "enterFunc") {
			continue
		}
		recv := f.Params[0]
		isInstrField := func(v ssa.Value) bool {
			ld, ok := v.(*ssa.UnOp)
			if !ok || ld.Op != token.MUL {
				return false
			}
			fa, ok := ld.X.(*ssa.FieldAddr)
			for ok {
				if fa.X == ssa.Value(recv) {
					return true
				}
				fa, ok = fa.X.(*ssa.FieldAddr)
			}
			return false
		}
		name := core.FuncName(f)
		core.AllInstrs(f, func(in ssa.Instruction) {
			c, ok := in.(*ssa.Call)
			if !ok {
				return
			}
			b, ok := c.Call.Value.(*ssa.Builtin)
			if !ok || b.Name() != "copy" || len(c.Call.Args) != 2 {
				return
			}
			dst, src := c.Call.Args[0], c.Call.Args[1]
			// dst: stash.values or a slice of it
			dstSlice, _ := dst.(*ssa.Slice)
			dbase := dst
			if dstSlice != nil {
				dbase = dstSlice.X
			}
			ld, ok := dbase.(*ssa.UnOp)
			if !ok || ld.Op != token.MUL || core.FieldOf(ld.X) != valuesF {
				return
			}
			// src: a slice of vm.stack whose bounds mention vm.args
			ss, ok := src.(*ssa.Slice)
			if !ok {
				return
			}
			sl, ok := ss.X.(*ssa.UnOp)
			if !ok || core.FieldOf(sl.X) != stackF {
				return
			}
			if !mentions(ss.Low, isArgs, 0) && !mentions(ss.High, isArgs, 0) {
				return
			}
			k := name + ":copy of the passed arguments into the stash is bounded by the declared count"
			n[k]++
			key := k
			if n[k] > 1 {
				key = fmt.Sprintf("%s#%d", k, n[k])
			}
			switch {
			case dstSlice != nil && dstSlice.High != nil && mentions(dstSlice.High, isInstrField, 0):
				res.OK(key, p.Pos(c.Pos()), "the destination is cut at a field of the instruction")
				return
			case mentions(ss.High, isInstrField, 0):
				res.OK(key, p.Pos(c.Pos()), "the source's upper bound subtracts the surplus")
				return
			}
			for _, cp := range core.ControllingConds(c.Block()) {
				if bo, ok := cp.Cond.(*ssa.BinOp); ok {
					if (mentions(bo.X, isArgs, 0) || mentions(bo.Y, isArgs, 0)) && (mentions(bo.X, isInstrField, 0) || mentions(bo.Y, isInstrField, 0)) {
						res.OK(key, p.Pos(c.Pos()), "under a comparison of vm.args with a field of the instruction")
						return
					}
				}
			}
			res.Bad(key, p.Pos(c.Pos()), "as many values as the caller passed are copied into the stash, which holds the declared parameters followed by the function's other captured bindings: surplus arguments overwrite those bindings (`function f(a){ var b; return () => [a,b] }; f(1,2)()` gives [1,2])")
		})
	}
	return res
}

package rules

import (
	"fmt"
	"go/types"

	"gojaverif/core"

	"golang.org/x/tools/go/ssa"
)

// R-CLOSEKEEPSEX (C14, C08).
//
// IteratorClose(iterator, throwCompletion): when an iteration is abandoned because of an exception,
// the iterator's return() is called and whatever it throws is *ignored* - the original exception is
// the one that propagates. In Go that means: a returnIter() call made on the path where a caught
// *Exception is about to be re-thrown has to be shielded (vm.try / tryFunc), or the exception of
// return() replaces the one the caller must see.
//
// Rule: every call of (*iteratorRecord).returnIter() whose block is controlled by `ex != nil` for
// some *Exception value ex lies in a closure handed to (*vm).try or tryFunc.
var CloseKeepsEx = &core.Rule{Name: "R-CLOSEKEEPSEX", Run: runCloseKeepsEx,
	Doc: "an iterator closed because of a caught exception is closed under vm.try/tryFunc, so that return() cannot replace the exception being propagated"}

func runCloseKeepsEx(p *core.Prog) *core.Result {
	res := core.NewResult("R-CLOSEKEEPSEX", 1)
	retIter, err := p.GojaMethod("iteratorRecord", "returnIter")
	if err != nil {
		return res.Fail(err)
	}
	try, err := p.GojaMethod("vm", "try")
	if err != nil {
		return res.Fail(err)
	}
	tryFunc, err := p.GojaFunc("tryFunc")
	if err != nil {
		return res.Fail(err)
	}
	isExPtr := func(t types.Type) bool {
		pt, ok := t.Underlying().(*types.Pointer)
		return ok && core.IsGojaNamed(pt.Elem(), "Exception")
	}
	// closures handed to try/tryFunc
	shielded := map[*ssa.Function]bool{}
	for _, f := range p.Funcs {
		core.AllInstrs(f, func(in ssa.Instruction) {
			c, ok := in.(ssa.CallInstruction)
			if !ok {
				return
			}
			callee := c.Common().StaticCallee()
			if callee != try && callee != tryFunc {
				return
			}
			for _, a := range c.Common().Args {
				if mc, ok := a.(*ssa.MakeClosure); ok {
					if fn, ok := mc.Fn.(*ssa.Function); ok {
						shielded[fn] = true
					}
				}
			}
		})
	}
	n := map[string]int{}
	for _, f := range p.Funcs {
		if !p.InModule(f) {
			continue
		}
		for _, c := range core.CallsIn(f, retIter) {
			// the exception context: this block, or - for a closure - the block that creates the closure
			inExPath := func(b *ssa.BasicBlock) bool {
				for _, cp := range core.ControllingConds(b) {
					if x, nonNil, ok := core.IsNilCompare(cp.Cond); ok && isExPtr(x.Type()) && cp.Pol == nonNil {
						return true
					}
				}
				return false
			}
			onEx := inExPath(c.Block())
			if !onEx && f.Parent() != nil {
				core.AllInstrs(f.Parent(), func(in ssa.Instruction) {
					if mc, ok := in.(*ssa.MakeClosure); ok && mc.Fn == f && inExPath(mc.Block()) {
						onEx = true
					}
				})
			}
			if !onEx {
				continue
			}
			k := core.FuncName(core.EnclosingTop(f)) + ":iterator closed on the exception path is shielded"
			n[k]++
			key := k
			if n[k] > 1 {
				key = fmt.Sprintf("%s#%d", k, n[k])
			}
			if shielded[f] {
				res.OK(key, p.Pos(c.Pos()), "inside a closure handed to vm.try / tryFunc")
			} else {
				res.Bad(key, p.Pos(c.Pos()), "return() of the iterator is called while a caught exception is waiting to be re-thrown, without vm.try: an exception thrown by return() replaces the original one (IteratorClose with a throw completion ignores errors of return())")
			}
		}
	}
	return res
}

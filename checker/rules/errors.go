package rules

import (
	"fmt"
	"go/types"
	"strings"

	"gojaverif/core"

	"golang.org/x/tools/go/ssa"
)

// R-CLASSIFIER: vm.exceptionFromValue decides which panic payloads script may catch.
var Classifier = &core.Rule{Name: "R-CLASSIFIER", Run: runClassifier,
	Doc: "type-switch soundness of exceptionFromValue: no case type accepts an uncatchableException implementer; *Object is tested before Value; the *Object/Value cases store the matched value itself as Exception.val; unknown payloads yield nil"}

func uncatchableTypes(p *core.Prog) ([]types.Type, *types.Interface, error) {
	ui, err := p.GojaType("uncatchableException")
	if err != nil {
		return nil, nil, err
	}
	iface := ui.Underlying().(*types.Interface)
	var out []types.Type
	scope := p.Goja.Types.Scope()
	for _, n := range scope.Names() {
		tn, ok := scope.Lookup(n).(*types.TypeName)
		if !ok || tn.IsAlias() {
			continue
		}
		nt, ok := tn.Type().(*types.Named)
		if !ok || nt == ui {
			continue
		}
		if types.Implements(types.NewPointer(nt), iface) {
			out = append(out, types.NewPointer(nt))
		} else if types.Implements(nt, iface) {
			out = append(out, nt)
		}
	}
	return out, iface, nil
}

func runClassifier(p *core.Prog) *core.Result {
	res := core.NewResult("R-CLASSIFIER", 8)
	fn, err := p.GojaMethod("vm", "exceptionFromValue")
	if err != nil {
		return res.Fail(err)
	}
	U, _, err := uncatchableTypes(p)
	if err != nil {
		return res.Fail(err)
	}
	if len(U) < 2 {
		return res.Failf("implementers of uncatchableException: found %d", len(U))
	}
	fVal, err := p.Field(core.GojaPath, "Exception", "val")
	if err != nil {
		return res.Fail(err)
	}
	x := fn.Params[1]
	var cases []*ssa.TypeAssert
	core.AllInstrs(fn, func(in ssa.Instruction) {
		if ta, ok := in.(*ssa.TypeAssert); ok && ta.X == x && ta.CommaOk {
			cases = append(cases, ta)
		}
	})
	objIdx, valIdx := -1, -1
	for i, ta := range cases {
		name := core.TypeShort(ta.AssertedType)
		key := "case " + name
		bad := ""
		for _, u := range U {
			if types.AssignableTo(u, ta.AssertedType) {
				bad = core.TypeShort(u)
			}
		}
		if bad != "" {
			res.Bad(key+":excludes-uncatchable", p.Pos(ta.Pos()), fmt.Sprintf("case %s accepts %s: interrupts / stack overflows become catchable by script try/catch", name, bad))
		} else {
			res.OK(key+":excludes-uncatchable", p.Pos(ta.Pos()), "no uncatchableException implementer is assignable to the case type")
		}
		if core.IsGojaNamed(ta.AssertedType, "Object") {
			objIdx = i
		}
		if core.ExactNamed(ta.AssertedType, core.GojaPath, "Value") {
			valIdx = i
		}
		// identity: the matched value itself is stored in Exception.val
		if core.IsGojaNamed(ta.AssertedType, "Object") || core.ExactNamed(ta.AssertedType, core.GojaPath, "Value") {
			okID := false
			for _, r := range core.Referrers(ta) {
				ex, isEx := r.(*ssa.Extract)
				if !isEx || ex.Index != 0 {
					continue
				}
				var flows func(v ssa.Value, d int) bool
				flows = func(v ssa.Value, d int) bool {
					if d > 3 {
						return false
					}
					for _, rr := range core.Referrers(v) {
						switch y := rr.(type) {
						case *ssa.Store:
							if fa, ok := y.Addr.(*ssa.FieldAddr); ok && core.FieldOf(fa) == fVal && y.Val == v {
								return true
							}
						case *ssa.MakeInterface:
							if flows(y, d+1) {
								return true
							}
						case *ssa.ChangeInterface:
							if flows(y, d+1) {
								return true
							}
						}
					}
					return false
				}
				if flows(ex, 0) {
					okID = true
				}
			}
			if okID {
				res.OK(key+":identity", p.Pos(ta.Pos()), "Exception.val is the matched value itself")
			} else {
				res.Bad(key+":identity", p.Pos(ta.Pos()), "the thrown value is not stored unchanged in Exception.val: the Go caller's Exception.Value() is not the very value the script threw")
			}
		}
	}
	if objIdx >= 0 && valIdx >= 0 && objIdx < valIdx {
		res.OK("order:*Object-before-Value", p.Pos(fn.Pos()), "first-match order")
	} else {
		res.Bad("order:*Object-before-Value", p.Pos(fn.Pos()), "the *Object case must come before the Value case (an *Object is a Value; the error stack is only attached in the *Object case)")
	}
	// default → nil
	retNil := false
	core.AllInstrs(fn, func(in ssa.Instruction) {
		if r, ok := in.(*ssa.Return); ok && len(r.Results) == 1 {
			if c, ok := r.Results[0].(*ssa.Const); ok && c.Value == nil {
				retNil = true
			}
		}
	})
	if retNil {
		res.OK("default:nil", p.Pos(fn.Pos()), "unknown payloads are not converted (handleThrow re-panics them)")
	} else {
		res.Bad("default:nil", p.Pos(fn.Pos()), "exceptionFromValue has no path returning nil: every Go panic becomes a script-catchable exception")
	}
	res.Count("cases", len(cases))
	res.Count("uncatchable_types", len(U))
	// raise/recognise agreement: Go functions re-panic an error as uncatchable when
	// isUncatchableException(err) holds (the Unwrap chain contains an uncatchable condition,
	// e.g. fmt.Errorf("...: %w", interruptedErr)); the boundary classifier must recognise at
	// least that set, or the outermost call panics instead of returning the error.
	{
		isU, err := p.GojaFunc("isUncatchableException")
		if err != nil {
			return res.Fail(err)
		}
		asU, err := p.GojaFunc("asUncatchableException")
		if err != nil {
			return res.Fail(err)
		}
		raises := 0
		for _, f := range p.Funcs {
			if !p.InModule(f) || f == asU {
				continue
			}
			for _, c := range core.CallsIn(f, isU) {
				// a panic in a block controlled by the positive result
				call, ok := c.(*ssa.Call)
				if !ok {
					continue
				}
				for _, e := range core.CondEdges(call) {
					for _, in := range e.True.Instrs {
						if _, isPanic := in.(*ssa.Panic); isPanic {
							raises++
						}
					}
				}
			}
		}
		key := "asUncatchableException:recognises what isUncatchableException raises"
		switch {
		case raises == 0:
			res.OK(key, p.Pos(asU.Pos()), "no site re-panics a wrapped uncatchable error")
		case len(core.CallsIn(asU, isU)) > 0:
			res.OK(key, p.Pos(asU.Pos()), fmt.Sprintf("%d raise sites; the boundary classifier consults isUncatchableException for error values", raises))
		default:
			res.Bad(key, p.Pos(asU.Pos()), fmt.Sprintf("%d sites re-panic an error whose Unwrap chain contains an interrupt/stack overflow (isUncatchableException), but asUncatchableException only recognises the bare types: such a panic is not converted at the outermost boundary - RunString/Callable panic with *fmt.wrapError and leaveAbrupt() is skipped", raises))
		}
	}
	return res
}

// R-RECOVER: no recover() swallows a payload it has not classified.
var Recover = &core.Rule{Name: "R-RECOVER", Run: runRecover,
	Doc: "for every recover() in the module: on the non-nil branch every exit is dominated by a re-panic of the same value, a call to handleThrow with it, or a successful classification (asUncatchableException != nil, a type-switch case); handleThrow itself re-panics what it cannot convert"}

var recoverExceptions = map[string]string{
	"allocByteSlice$1": "converts any panic of make([]byte, size) into a RangeError; the protected region contains no other call (checked)",
	"tryFunc$1":        "returns the raw recovered value to its caller; callers are checked (tryFunc-result obligations)",
}

func runRecover(p *core.Prog) *core.Result {
	res := core.NewResult("R-RECOVER", 7)
	handleThrow, err := p.GojaMethod("vm", "handleThrow")
	if err != nil {
		return res.Fail(err)
	}
	asUnc, err := p.GojaFunc("asUncatchableException")
	if err != nil {
		return res.Fail(err)
	}
	tryFunc, err := p.GojaFunc("tryFunc")
	if err != nil {
		return res.Fail(err)
	}
	excFromVal, err := p.GojaMethod("vm", "exceptionFromValue")
	if err != nil {
		return res.Fail(err)
	}
	n := 0
	checkValue := func(f *ssa.Function, v ssa.Value, key string, pos string) {
		// region: blocks controlled by v != nil
		var region []*ssa.BasicBlock
		for _, b := range f.Blocks {
			for _, cp := range core.ControllingConds(b) {
				if x, nonNil, ok := core.IsNilCompare(cp.Cond); ok && x == v && cp.Pol == nonNil {
					region = append(region, b)
					break
				}
			}
		}
		if len(region) == 0 {
			res.Bad(key, pos, "the recovered value is never tested against nil: a panic is swallowed or a nil is processed")
			return
		}
		inRegion := map[*ssa.BasicBlock]bool{}
		for _, b := range region {
			inRegion[b] = true
		}
		isSink := func(in ssa.Instruction) bool {
			switch x := in.(type) {
			case *ssa.Panic:
				return core.Unwrap(x.X) == v || x.X == v
			case *ssa.Call:
				if x.Call.StaticCallee() == handleThrow && len(x.Call.Args) == 2 && x.Call.Args[1] == v {
					return true
				}
			}
			return false
		}
		classified := func(b *ssa.BasicBlock) bool {
			for _, cp := range core.ControllingConds(b) {
				if x, nonNil, ok := core.IsNilCompare(cp.Cond); ok && cp.Pol == nonNil {
					if c, isCall := x.(*ssa.Call); isCall && c.Call.StaticCallee() == asUnc && len(c.Call.Args) == 1 && c.Call.Args[0] == v {
						return true
					}
				}
				// comma-ok type assertion of v succeeded
				if ex, ok := cp.Cond.(*ssa.Extract); ok && ex.Index == 1 && cp.Pol {
					if ta, ok := ex.Tuple.(*ssa.TypeAssert); ok && ta.X == v {
						return true
					}
				}
			}
			return false
		}
		bad := ""
		for _, b := range region {
			exits := false
			if _, isRet := b.Instrs[len(b.Instrs)-1].(*ssa.Return); isRet {
				exits = true
			}
			for _, s := range b.Succs {
				if !inRegion[s] {
					exits = true
				}
			}
			if !exits {
				continue
			}
			// justified if a sink dominates the end of b, or b is classified
			just := classified(b)
			for _, rb := range region {
				for _, in := range rb.Instrs {
					if isSink(in) && (rb == b || rb.Dominates(b)) {
						just = true
					}
				}
			}
			if !just {
				bad = p.Pos(b.Instrs[len(b.Instrs)-1].Pos())
			}
		}
		if bad == "" {
			res.OK(key, pos, "every non-nil exit re-panics the value, hands it to handleThrow, or follows a successful classification")
		} else {
			res.Bad(key, pos, "a recovered non-nil payload can leave the handler (at "+bad+") without being re-panicked, passed to handleThrow or classified: a foreign Go panic or an interrupt would be swallowed / turned into an ordinary error")
		}
	}
	for _, f := range p.Funcs {
		core.AllInstrs(f, func(in ssa.Instruction) {
			c, ok := in.(*ssa.Call)
			if !ok || !isRecoverCall(c) {
				return
			}
			n++
			name := core.FuncName(f)
			key := name + ":recover"
			if why, ok := recoverExceptions[name]; ok {
				// verify the side condition of each exception
				switch name {
				case "allocByteSlice$1":
					parent := f.Parent()
					clean := true
					core.AllInstrs(parent, func(pi ssa.Instruction) {
						if pc, ok := pi.(*ssa.Call); ok {
							if _, isB := pc.Call.Value.(*ssa.Builtin); isB {
								return
							}
							if sc := pc.Call.StaticCallee(); sc != nil && (sc.Pkg == nil || sc.Pkg.Pkg.Path() == "fmt") {
								return
							}
							if sc := pc.Call.StaticCallee(); sc != nil && p.InModule(sc) && !p.ScriptFree(sc) {
								clean = false
							}
						}
					})
					if clean {
						res.OK(key, p.Pos(c.Pos()), "table exception: "+why)
					} else {
						res.Bad(key, p.Pos(c.Pos()), "allocByteSlice converts every panic into a RangeError but its protected region now calls code that can panic with other payloads")
					}
				default:
					res.OK(key, p.Pos(c.Pos()), "table exception: "+why)
				}
				return
			}
			checkValue(f, c, key, p.Pos(c.Pos()))
		})
	}
	// callers of tryFunc get the raw value
	for _, f := range p.Funcs {
		for _, ci := range core.CallsIn(f, tryFunc) {
			c, ok := ci.(*ssa.Call)
			if !ok {
				continue
			}
			key := core.FuncName(f) + ":tryFunc-result"
			if len(core.Referrers(c)) == 0 {
				// result discarded: only acceptable while another payload is being propagated
				okDiscard := false
				for _, cp := range core.ControllingConds(c.Block()) {
					if x, nonNil, ok := core.IsNilCompare(cp.Cond); ok && cp.Pol == nonNil {
						if oc, isCall := x.(*ssa.Call); isCall && oc.Call.StaticCallee() == tryFunc {
							okDiscard = true
						}
					}
				}
				if okDiscard {
					res.OK(key, p.Pos(c.Pos()), "result discarded while the original payload is re-panicked (IteratorClose ignores errors of return() on a throw completion)")
				} else {
					res.Bad(key, p.Pos(c.Pos()), "the payload recovered by tryFunc is discarded: any panic, including interrupts and Go runtime errors, is swallowed")
				}
				continue
			}
			checkValue(f, c, key, p.Pos(c.Pos()))
		}
	}
	// handleThrow: ex == nil ⇒ panic(arg)
	{
		key := "(*vm).handleThrow:repanic-unknown"
		ok := false
		arg := handleThrow.Params[1]
		core.AllInstrs(handleThrow, func(in ssa.Instruction) {
			pn, isP := in.(*ssa.Panic)
			if !isP || pn.X != arg {
				return
			}
			for _, cp := range core.ControllingConds(pn.Block()) {
				if x, nonNil, isNil := core.IsNilCompare(cp.Cond); isNil && cp.Pol != nonNil {
					if call, isCall := x.(*ssa.Call); isCall && call.Call.StaticCallee() == excFromVal {
						ok = true
					}
				}
			}
		})
		if ok {
			res.OK(key, p.Pos(handleThrow.Pos()), "payloads exceptionFromValue cannot convert are re-panicked unchanged")
		} else {
			res.Bad(key, p.Pos(handleThrow.Pos()), "handleThrow does not re-panic the original payload when exceptionFromValue returns nil")
		}
	}
	res.Count("recover_sites", n)
	return res
}

// R-GOERROR: a Go error returned by a native function becomes a GoError unless it already is
// an *Exception or an uncatchable exception, which are re-panicked as they are.
var GoError = &core.Rule{Name: "R-GOERROR", Run: runGoError,
	Doc: "every NewGoError(err) on an error returned by host code is dominated by the false edges of err.(*Exception) and isUncatchableException(err); the *Exception branch re-panics err itself"}

func runGoError(p *core.Prog) *core.Result {
	res := core.NewResult("R-GOERROR", 4)
	newGoError, err := p.GojaMethod("Runtime", "NewGoError")
	if err != nil {
		return res.Fail(err)
	}
	isUnc, err := p.GojaFunc("isUncatchableException")
	if err != nil {
		return res.Fail(err)
	}
	n := 0
	for _, f := range p.Funcs {
		for _, ci := range core.CallsIn(f, newGoError) {
			c := ci.Common()
			if len(c.Args) != 2 {
				continue
			}
			errv := c.Args[1]
			top := core.EnclosingTop(f)
			name := core.FuncName(f)
			// only the bridges for errors *returned by host code*: the reflected-function wrapper and
			// results of methods of interfaces declared outside the module (json.Marshaler)
			fromHost := strings.Contains(core.FuncName(top), "wrapReflectFunc")
			if ex, ok := errv.(*ssa.Extract); ok {
				if hc, ok := ex.Tuple.(*ssa.Call); ok && hc.Call.IsInvoke() {
					if n := core.NamedOf(hc.Call.Value.Type()); n != nil && n.Obj().Pkg() != nil && !strings.HasPrefix(n.Obj().Pkg().Path(), core.GojaPath) {
						fromHost = true
					}
				}
			}
			if !fromHost {
				res.Inform(name+":NewGoError", p.Pos(ci.Pos()), "NewGoError on an engine-produced error (not a host return value)")
				continue
			}
			n++
			key := name + ":NewGoError-guards"
			notExc, notUnc := false, false
			for _, cp := range core.ControllingConds(ci.Block()) {
				if ex, ok := cp.Cond.(*ssa.Extract); ok && ex.Index == 1 && !cp.Pol {
					if ta, ok := ex.Tuple.(*ssa.TypeAssert); ok && ta.X == errv && core.IsGojaNamed(ta.AssertedType, "Exception") {
						notExc = true
					}
				}
				if call, ok := cp.Cond.(*ssa.Call); ok && call.Call.StaticCallee() == isUnc && !cp.Pol && len(call.Call.Args) == 1 && call.Call.Args[0] == errv {
					notUnc = true
				}
			}
			switch {
			case !notExc:
				res.Bad(key, p.Pos(ci.Pos()), "NewGoError(err) is not guarded by the failed type assertion err.(*Exception) on err itself: an *Exception returned by the native function must be re-thrown as that very exception, and only errors that are not one are wrapped (errors.As-style matching rethrows an inner exception and drops the wrapping error)")
			case !notUnc:
				res.Bad(key, p.Pos(ci.Pos()), "NewGoError(err) is not guarded by !isUncatchableException(err): an interrupt returned through a native function becomes a catchable GoError")
			default:
				res.OK(key, p.Pos(ci.Pos()), "guarded by !err.(*Exception) and !isUncatchableException(err)")
			}
			// the *Exception branch re-panics err itself
			key2 := name + ":exception-rethrown-as-is"
			ok2 := false
			core.AllInstrs(f, func(in ssa.Instruction) {
				pn, isP := in.(*ssa.Panic)
				if !isP || core.Unwrap(pn.X) != errv {
					return
				}
				for _, cp := range core.ControllingConds(pn.Block()) {
					if ex, ok := cp.Cond.(*ssa.Extract); ok && ex.Index == 1 && cp.Pol {
						if ta, ok := ex.Tuple.(*ssa.TypeAssert); ok && ta.X == errv && core.IsGojaNamed(ta.AssertedType, "Exception") {
							ok2 = true
						}
					}
				}
			})
			if ok2 {
				res.OK(key2, p.Pos(ci.Pos()), "panic(err) on the err.(*Exception) branch")
			} else {
				res.Bad(key2, p.Pos(ci.Pos()), "an *Exception returned by a native function is not re-panicked as that very value")
			}
		}
	}
	res.Count("host_error_bridges", n)
	return res
}

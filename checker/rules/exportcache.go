package rules

import (
	"fmt"

	"gojaverif/core"

	"golang.org/x/tools/go/ssa"
)

// R-EXPORTCACHE: the per-export identity cache (objectExportCtx.cache) maps an object to its Go
// image, or to a per-type table of images once a second type is asked for. Sharing and cycles are
// preserved only if an image, once recorded, is never forgotten during the export: replacing a
// slot by a freshly made table must either happen on the miss edge of the lookup or carry the old
// image over into the new table.
var ExportCache = &core.Rule{Name: "R-EXPORTCACHE", Run: runExportCache,
	Doc: "in objectExportCtx.put/putTyped every store of a freshly made table into ctx.cache[key] is control-dependent on the miss edge of the cache lookup, or the previous entry is copied into the new table"}

func runExportCache(p *core.Prog) *core.Result {
	res := core.NewResult("R-EXPORTCACHE", 2)
	fCache, err := p.Field(core.GojaPath, "objectExportCtx", "cache")
	if err != nil {
		return res.Fail(err)
	}
	isCache := func(v ssa.Value) bool {
		ld, ok := core.Origin(v).(*ssa.UnOp)
		if !ok {
			return false
		}
		fa, ok := ld.X.(*ssa.FieldAddr)
		return ok && core.FieldOf(fa) == fCache
	}
	// oldEntry: v is the value found in the cache (v, exists := ctx.cache[key]; or a type assertion of it)
	var oldEntry func(v ssa.Value, d int) bool
	oldEntry = func(v ssa.Value, d int) bool {
		if d > 4 {
			return false
		}
		switch x := core.Origin(v).(type) {
		case *ssa.Extract:
			if x.Index == 0 {
				return oldEntry(x.Tuple, d+1)
			}
		case *ssa.Lookup:
			return isCache(x.X)
		case *ssa.TypeAssert:
			return oldEntry(x.X, d+1)
		}
		return false
	}
	n := 0
	for _, name := range []string{"put", "putTyped"} {
		fn, err := p.GojaMethod("objectExportCtx", name)
		if err != nil {
			return res.Fail(err)
		}
		k := 0
		core.AllInstrs(fn, func(in ssa.Instruction) {
			mu, ok := in.(*ssa.MapUpdate)
			if !ok || !isCache(mu.Map) {
				return
			}
			mk, fresh := core.Origin(mu.Value).(*ssa.MakeMap)
			if !fresh {
				return // put: stores the image itself
			}
			n++
			k++
			key := fmt.Sprintf("(*objectExportCtx).%s:new table#%d keeps the recorded image", name, k)
			// (A) on the miss edge of a comma-ok lookup of the cache
			miss := false
			for _, cp := range core.ControllingConds(mu.Block()) {
				if ex, ok := cp.Cond.(*ssa.Extract); ok && ex.Index == 1 && !cp.Pol {
					if lk, ok := ex.Tuple.(*ssa.Lookup); ok && lk.CommaOk && isCache(lk.X) {
						miss = true
					}
				}
			}
			// (B) the old entry is stored into the new table
			carried := false
			core.AllInstrs(fn, func(in2 ssa.Instruction) {
				if m2, ok := in2.(*ssa.MapUpdate); ok && core.Origin(m2.Map) == ssa.Value(mk) && oldEntry(m2.Value, 0) {
					carried = true
				}
			})
			switch {
			case miss:
				res.OK(key, p.Pos(mu.Pos()), "only on the miss edge of the cache lookup")
			case carried:
				res.OK(key, p.Pos(mu.Pos()), "the previous entry is copied into the new table")
			default:
				res.Bad(key, p.Pos(mu.Pos()), "an existing cache entry (the untyped image recorded by put) can be replaced by a new, empty per-type table: the image is forgotten, so a later reference to the same object within this export builds a second copy (sharing lost; a cycle through it recurses again)")
			}
		})
	}
	// the image registered with ctx.put is the image returned: a slice header registered before it is
	// filled must be filled in place (by index), never re-made by append, or later references to
	// the same object within the export see the stale (empty) header
	put, err := p.GojaMethod("objectExportCtx", "put")
	if err != nil {
		return res.Fail(err)
	}
	for _, fn := range p.Funcs {
		if !p.InModule(fn) || fn.Blocks == nil {
			continue
		}
		for _, c := range core.CallsIn(fn, put) {
			args := c.Common().Args
			if len(args) != 3 {
				continue
			}
			mi, ok := args[2].(*ssa.MakeInterface)
			if !ok {
				continue
			}
			reg := core.Origin(mi.X)
			k := 0
			core.AllInstrs(fn, func(in ssa.Instruction) {
				r, ok := in.(*ssa.Return)
				if !ok || len(r.Results) != 1 {
					return
				}
				rmi, ok := r.Results[0].(*ssa.MakeInterface)
				if !ok {
					return // the cached image returned as is, nil, ...
				}
				if !core.InstrDominates(c.(ssa.Instruction), r) {
					return
				}
				k++
				key := fmt.Sprintf("%s:returns the registered image#%d", core.FuncName(fn), k)
				if core.Origin(rmi.X) == reg {
					res.OK(key, p.Pos(r.Pos()), "the value returned is the value registered with ctx.put")
				} else {
					res.Bad(key, p.Pos(r.Pos()), "the exported image returned here is not the one registered with ctx.put before the recursion (e.g. a slice grown by append gets a new header): a second or cyclic reference to the same object within this export receives the stale registered image")
				}
			})
		}
	}
	if n < 2 {
		res.Unknown("floor:table stores", "", fmt.Sprintf("only %d stores of a fresh table into ctx.cache found in put/putTyped (2 confirmed by hand in putTyped)", n))
	}
	return res
}

package rules

import (
	"fmt"
	"go/token"
	"go/types"
	"sort"
	"strings"

	"gojaverif/core"

	"golang.org/x/tools/go/ssa"
)

// R-STALELEN: the Array.prototype methods read the length first (toLength(o.get("length"))), then
// convert their arguments (ToInteger -> valueOf, a species constructor, a callback) and only then
// test for a standard array. The test says nothing about the length read earlier: if user code
// shrank the array in between, an index or bound computed from the old length is out of range for
// the dense snapshot (a Go index-out-of-range panic escaping to the host) where the generic
// algorithm would simply see holes.
var StaleLen = &core.Rule{Name: "R-STALELEN", Run: runStaleLen,
	Doc: "guard-freshness dataflow on integers: an index/bound into the .values snapshot of an array obtained from checkStdArray* that is computed from a toLength(...) result must be reached only by paths on which no call that may run script happened since that toLength call, or on which the old length was compared (==) with the array's current length/len(values)"}

func runStaleLen(p *core.Prog) *core.Result {
	res := core.NewResult("R-STALELEN", 6)
	arrT, err := p.GojaType("arrayObject")
	if err != nil {
		return res.Fail(err)
	}
	fValues, err := p.Field(core.GojaPath, "arrayObject", "values")
	if err != nil {
		return res.Fail(err)
	}
	fLength, err := p.Field(core.GojaPath, "arrayObject", "length")
	if err != nil {
		return res.Fail(err)
	}
	toLength, err := p.GojaFunc("toLength")
	if err != nil {
		return res.Fail(err)
	}
	guards := map[*ssa.Function]bool{}
	for _, n := range []string{"checkStdArrayObj", "checkStdArrayObjWithProto", "checkNewStdArrayObj", "checkStdArray", "checkStdArrayIter"} {
		f, err := p.GojaMethod("Runtime", n)
		if err != nil {
			return res.Fail(err)
		}
		guards[f] = true
	}
	fromGuard := func(v ssa.Value) bool {
		o := core.Origin(v)
		if _, isPtr := types.Unalias(o.Type()).(*types.Pointer); !isPtr || core.NamedOf(o.Type()) != arrT {
			return false
		}
		c, ok := o.(*ssa.Call)
		return ok && guards[c.Call.StaticCallee()]
	}
	// isValues: v is (a re-slice of) arr.values of a guard-obtained array
	isValues := func(v ssa.Value) bool {
		o := core.Origin(v)
		for i := 0; i < 3; i++ {
			if sl, ok := o.(*ssa.Slice); ok {
				o = core.Origin(sl.X)
				continue
			}
			break
		}
		if ld, ok := o.(*ssa.UnOp); ok && ld.Op == token.MUL {
			if fa, ok := ld.X.(*ssa.FieldAddr); ok && core.FieldOf(fa) == fValues {
				return fromGuard(fa.X)
			}
		}
		return false
	}
	// isCurrentLen: v is the array's current length: arr.length or len(arr.values) (converted)
	var isCurrentLen func(v ssa.Value, depth int) bool
	isCurrentLen = func(v ssa.Value, depth int) bool {
		if depth > 4 {
			return false
		}
		switch x := core.Origin(v).(type) {
		case *ssa.Convert:
			return isCurrentLen(x.X, depth+1)
		case *ssa.UnOp:
			if x.Op == token.MUL {
				if fa, ok := x.X.(*ssa.FieldAddr); ok && core.FieldOf(fa) == fLength {
					return fromGuard(fa.X)
				}
			}
		case *ssa.Call:
			if b, ok := x.Call.Value.(*ssa.Builtin); ok && b.Name() == "len" {
				return isValues(x.Call.Args[0])
			}
		}
		return false
	}
	keyOf := func(c *ssa.Call) string { return "length read at " + p.SourceName(c) }
	// lenSources: the toLength calls an integer value is computed from
	var lenSources func(v ssa.Value, seen map[ssa.Value]bool, out map[*ssa.Call]bool)
	lenSources = func(v ssa.Value, seen map[ssa.Value]bool, out map[*ssa.Call]bool) {
		if v == nil || seen[v] || len(seen) > 400 {
			return
		}
		seen[v] = true
		if b, ok := v.Type().Underlying().(*types.Basic); !ok || b.Info()&types.IsInteger == 0 {
			return
		}
		switch x := v.(type) {
		case *ssa.Call:
			if x.Call.StaticCallee() == toLength {
				out[x] = true
				return
			}
			if x.Call.IsInvoke() {
				return // ToInteger() of an argument: not derived from the length
			}
			for _, a := range x.Call.Args {
				lenSources(a, seen, out)
			}
		case *ssa.BinOp:
			lenSources(x.X, seen, out)
			lenSources(x.Y, seen, out)
		case *ssa.UnOp:
			if x.Op == token.MUL {
				o := core.Origin(x)
				if o != ssa.Value(x) {
					lenSources(o, seen, out)
				}
				return
			}
			lenSources(x.X, seen, out)
		case *ssa.Convert:
			lenSources(x.X, seen, out)
		case *ssa.ChangeType:
			lenSources(x.X, seen, out)
		case *ssa.Phi:
			for _, e := range x.Edges {
				lenSources(e, seen, out)
			}
		case *ssa.Extract:
			lenSources(x.Tuple, seen, out)
		}
	}
	sourcesOf := func(vs ...ssa.Value) []*ssa.Call {
		out := map[*ssa.Call]bool{}
		for _, v := range vs {
			if v != nil {
				lenSources(v, map[ssa.Value]bool{}, out)
			}
		}
		var l []*ssa.Call
		for c := range out {
			l = append(l, c)
		}
		sort.Slice(l, func(i, j int) bool { return l[i].Pos() < l[j].Pos() })
		return l
	}
	spec := &core.FreshSpec{
		Name:    "stalelen",
		Root:    func(ssa.Value) string { return "" },
		Tracked: func(types.Type) bool { return false },
		Skip: func(f *ssa.Function) bool {
			if guards[f] {
				return true
			}
			if r := f.Signature.Recv(); r != nil && core.NamedOf(r.Type()) == arrT {
				return true
			}
			return false
		},
		Uses: func(in ssa.Instruction) []core.FreshUse {
			var idx []ssa.Value
			what := ""
			switch x := in.(type) {
			case *ssa.IndexAddr:
				if isValues(x.X) {
					idx, what = []ssa.Value{x.Index}, "index into the .values snapshot"
				}
			case *ssa.Slice:
				if isValues(x.X) {
					idx, what = []ssa.Value{x.Low, x.High, x.Max}, "slice bound on the .values snapshot"
				}
			}
			var out []core.FreshUse
			for _, c := range sourcesOf(idx...) {
				out = append(out, core.FreshUse{Key: keyOf(c), What: what})
			}
			return out
		},
		GenAfter: func(in ssa.Instruction, fresh func(string) bool) []string {
			if c, ok := in.(*ssa.Call); ok && c.Call.StaticCallee() == toLength {
				return []string{keyOf(c)}
			}
			return nil
		},
		GenOnBool: func(in ssa.Instruction) ([]string, bool, bool) {
			b, ok := in.(*ssa.BinOp)
			if !ok || (b.Op != token.EQL && b.Op != token.NEQ) {
				return nil, false, false
			}
			var old ssa.Value
			switch {
			case isCurrentLen(b.X, 0):
				old = b.Y
			case isCurrentLen(b.Y, 0):
				old = b.X
			default:
				return nil, false, false
			}
			var keys []string
			for _, c := range sourcesOf(old) {
				keys = append(keys, keyOf(c))
			}
			if len(keys) == 0 {
				return nil, false, false
			}
			return keys, b.Op == token.EQL, true
		},
		NewObject: func(ssa.Instruction) (string, bool) { return "", false },
		Escapes:   func(ssa.Instruction) []string { return nil },
		Kills: func(c ssa.CallInstruction) string {
			if why := p.MayRunScript(c); why != "" {
				name := "dynamic call"
				if sc := core.StaticCallee(c); sc != nil {
					name = core.FuncName(sc)
				} else if c.Common().IsInvoke() {
					name = "invoke " + c.Common().Method.Name()
				}
				return name + " may run script (" + why + ")"
			}
			return ""
		},
	}
	fr := p.RunFresh(spec)
	for _, s := range fr.Sites {
		res.OK(fmt.Sprintf("%s:%s(%s)", core.FuncName(s.Fn), s.Use.What, strings.TrimPrefix(s.Use.Key, "length read at ")), p.Pos(s.Instr.Pos()), "no script since the length was read, or the length was re-validated against the array")
	}
	for _, f := range fr.Findings {
		res.Bad(fmt.Sprintf("%s:%s(%s)", core.FuncName(f.Fn), f.Use.What, strings.TrimPrefix(f.Use.Key, "length read at ")), p.Pos(f.Instr.Pos()),
			fmt.Sprintf("%s is computed from the %s, but script may have run since then (%s) and the fast path never compares that length with the array's current length: after user code shrinks the array this indexes beyond the dense snapshot (Go runtime panic escaping to the host) where the generic algorithm reads holes", f.Use.What, f.Use.Key, f.LastKill))
	}
	res.Count("functions", fr.Funcs)
	return res
}

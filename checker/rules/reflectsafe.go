package rules

import (
	"fmt"
	"go/token"
	"go/types"

	"gojaverif/core"

	"golang.org/x/tools/go/ssa"
)

// R-REFLECTSAFE: the reflect-backed host objects turn script operations into package reflect calls
// that panic (a Go panic escaping RunString) instead of failing: Value.Index out of range - a Go
// *array* cannot grow, and script decides the index - and Value.FieldByIndex through a nil embedded
// pointer.
var ReflectSafe = &core.Rule{Name: "R-REFLECTSAFE", Run: runReflectSafe,
	Doc: "(a) who-may-call: (reflect.Value).FieldByIndex is not called in package goja (FieldByIndexErr is); (b) every (reflect.Value).Index(i) is control-dependent on a comparison of i with a Len() of a reflect.Value (directly, or through a local that a dominating test made equal to Len()), or i is a parameter of a helper all of whose call sites - static and through the putIdx function field - are bounded that way, or the site is in the audited table"}

var reflectIndexAudited = map[string]string{
	"(*objectGoSliceReflect).grow": "re-points the wrappers cached for indexes below min(len(cache), size) after reallocation; size <= the new length",
}

func runReflectSafe(p *core.Prog) *core.Result {
	res := core.NewResult("R-REFLECTSAFE", 10)
	isReflectMethod := func(c *ssa.CallCommon, name string) bool {
		sc := c.StaticCallee()
		if sc == nil || sc.Name() != name || sc.Signature.Recv() == nil {
			return false
		}
		n := core.NamedOf(sc.Signature.Recv().Type())
		return n != nil && n.Obj().Pkg() != nil && n.Obj().Pkg().Path() == "reflect" && n.Obj().Name() == "Value"
	}
	// (a)
	nF := 0
	for _, fn := range p.Funcs {
		if !p.InModule(fn) || fn.Pkg == nil || fn.Pkg.Pkg.Path() != core.GojaPath {
			continue
		}
		core.AllInstrs(fn, func(in ssa.Instruction) {
			c, ok := in.(ssa.CallInstruction)
			if !ok {
				return
			}
			if isReflectMethod(c.Common(), "FieldByIndex") {
				nF++
				res.Bad(fmt.Sprintf("%s:FieldByIndex#%d", core.FuncName(fn), nF), p.Pos(c.Pos()), "reflect.Value.FieldByIndex panics when the field is promoted through a nil embedded pointer (`type S struct{ *E }`, s.X with E == nil): a Go panic escaping RunString; use FieldByIndexErr")
			}
		})
	}
	res.OK("FieldByIndex:not used", "", fmt.Sprintf("%d calls", nF))

	// (b)
	isLenCall := func(v ssa.Value) bool {
		c, ok := stripConv(v).(*ssa.Call)
		if !ok {
			return false
		}
		if isReflectMethod(&c.Call, "Len") || isReflectMethod(&c.Call, "Cap") {
			return true
		}
		if b, ok := c.Call.Value.(*ssa.Builtin); ok && b.Name() == "len" {
			// the length of an ordinary slice bounds an index into a reflect.Value only if the two are
			// related: the reflect value was made with that length, or compared with it, or the slice
			// was cut to a clamped length (seed C13/h ranged over a cache longer than the Go slice)
			return relatedLen(c)
		}
		// sortable.sortLen(): every implementation answers with the length of its storage
		if c.Call.IsInvoke() && c.Call.Method.Name() == "sortLen" {
			return true
		}
		return false
	}
	// madeWithLen: the function builds the destination with reflect.MakeSlice(t, x, x)
	madeWithLen := func(fn *ssa.Function, x ssa.Value) bool {
		found := false
		core.AllInstrs(fn, func(in ssa.Instruction) {
			if c, ok := in.(*ssa.Call); ok {
				if sc := c.Call.StaticCallee(); sc != nil && sc.Pkg != nil && sc.Pkg.Pkg.Path() == "reflect" && sc.Name() == "MakeSlice" && len(c.Call.Args) == 3 && stripConv(c.Call.Args[1]) == x {
					found = true
				}
			}
		})
		return found
	}
	// boundedAt: is v < (some reflect Len) implied by the conditions controlling block b ?
	boundedAt := func(v ssa.Value, b *ssa.BasicBlock) bool {
		conds := core.ControllingConds(b)
		// values known to be equal to a Len(): from tests like `if dst.Len() != l { return err }`
		lenLike := func(x ssa.Value) bool {
			if isLenCall(x) {
				return true
			}
			x = stripConv(x)
			if madeWithLen(b.Parent(), x) {
				return true
			}
			for _, cp := range conds {
				bo, ok := cp.Cond.(*ssa.BinOp)
				if !ok {
					continue
				}
				eq := (bo.Op == token.EQL && cp.Pol) || (bo.Op == token.NEQ && !cp.Pol)
				if !eq {
					continue
				}
				if stripConv(bo.X) == x && isLenCall(bo.Y) || stripConv(bo.Y) == x && isLenCall(bo.X) {
					return true
				}
			}
			return false
		}
		v0 := stripConv(v)
		cands := []ssa.Value{v0}
		// an index derived by +0 / conversions from a loop phi: also accept bounds on the phi
		for _, cp := range conds {
			bo, ok := cp.Cond.(*ssa.BinOp)
			if !ok {
				continue
			}
			for _, c := range cands {
				x, y := stripConv(bo.X), stripConv(bo.Y)
				switch {
				case x == c && lenLike(bo.Y):
					if (bo.Op == token.LSS && cp.Pol) || (bo.Op == token.GEQ && !cp.Pol) {
						return true
					}
				case y == c && lenLike(bo.X):
					if (bo.Op == token.GTR && cp.Pol) || (bo.Op == token.LEQ && !cp.Pol) {
						return true
					}
				}
			}
		}
		return false
	}
	cg := p.CallGraph()
	n := 0
	seq := map[string]int{}
	for _, fn := range p.Funcs {
		if !p.InModule(fn) || fn.Pkg == nil || fn.Pkg.Pkg.Path() != core.GojaPath {
			continue
		}
		core.AllInstrs(fn, func(in ssa.Instruction) {
			c, ok := in.(*ssa.Call)
			if !ok || !isReflectMethod(&c.Call, "Index") || len(c.Call.Args) != 2 {
				return
			}
			n++
			base := core.FuncName(fn) + ":reflect Index"
			seq[base]++
			key := base
			if seq[base] > 1 {
				key = fmt.Sprintf("%s#%d", base, seq[base])
			}
			pos := p.Pos(c.Pos())
			idx := c.Call.Args[1]
			if k, isConst := constInt(stripConv(idx)); isConst && k == 0 {
				// Index(0) on a value whose Len was tested > 0 - rare; fall through to the generic test
				_ = k
			}
			if boundedAt(idx, c.Block()) {
				res.OK(key, pos, "index compared with Len() on the way")
				return
			}
			if why, ok := reflectIndexAudited[core.FuncName(fn)]; ok {
				// the audit's reason is re-checked, not trusted: the ranged cache is cut to a length that
				// is clamped to one of the function's parameters (the new length)
				if clampedToParam(fn) {
					res.OK(key, pos, "audited: "+why)
				} else {
					res.Bad(key, pos, "audited exception no longer applies: the cache of element wrappers is not cut to min(len(cache), new length) before its indexes are used on the reflect value ('reflect: slice index out of range' escapes to the host when Go truncated the slice)")
				}
				return
			}
			// a parameter of a helper: all call sites must be bounded
			prm, isParam := stripConv(idx).(*ssa.Parameter)
			if isParam {
				pi := -1
				for i, q := range fn.Params {
					if q == prm {
						pi = i
					}
				}
				var unbounded []string
				nCallers := 0
				visited := map[string]bool{}
				var checkCallers func(target *ssa.Function, pi int, depth int)
				checkCallers = func(target *ssa.Function, pi int, depth int) {
					node := cg.Nodes[target]
					if node == nil {
						return
					}
					for _, e := range node.In {
						site := e.Site
						if site == nil || !p.InModule(e.Caller.Func) {
							continue
						}
						args := site.Common().Args
						ai := pi
						if site.Common().IsInvoke() {
							ai = pi - 1
						} else if len(args) == len(target.Params)-1 {
							ai = pi - 1 // bound method value (o.putIdx = o._putIdx): receiver is captured
						}
						if ai < 0 || ai >= len(args) {
							continue
						}
						nCallers++
						// wrappers/bound-method thunks just forward their own parameters: follow them
						if e.Caller.Func.Synthetic != "" {
							if fp, ok := stripConv(args[ai]).(*ssa.Parameter); ok && depth < 4 {
								for i2, q := range e.Caller.Func.Params {
									if q == fp {
										vk := fmt.Sprintf("%p/%d", e.Caller.Func, i2)
										if !visited[vk] {
											visited[vk] = true
											before := nCallers
											checkCallers(e.Caller.Func, i2, depth+1)
											if nCallers == before {
												unbounded = append(unbounded, core.FuncName(e.Caller.Func)+" (no caller found)")
											}
										}
									}
								}
							}
							continue
						}
						if boundedAt(args[ai], site.Block()) {
							continue
						}
						// a caller that merely forwards its own parameter: look one level further
						if fp, ok := stripConv(args[ai]).(*ssa.Parameter); ok && depth < 4 {
							for i2, q := range e.Caller.Func.Params {
								if q == fp {
									vk := fmt.Sprintf("%p/%d", e.Caller.Func, i2)
									if !visited[vk] {
										visited[vk] = true
										before := nCallers
										checkCallers(e.Caller.Func, i2, depth+1)
										if nCallers == before {
											unbounded = append(unbounded, core.FuncName(e.Caller.Func)+" (forwards its parameter; no caller found)")
										}
									}
								}
							}
							continue
						}
						unbounded = append(unbounded, core.FuncName(e.Caller.Func)+" ("+p.Pos(site.Pos())+")")
					}
				}
				checkCallers(fn, pi, 0)
				if nCallers > 0 && len(unbounded) == 0 {
					res.OK(key, pos, fmt.Sprintf("index is a parameter; all %d call sites compare it with Len() first", nCallers))
					return
				}
				if len(unbounded) > 0 {
					res.Bad(key, pos, fmt.Sprintf("reflect.Value.Index is applied to an index that script chooses and that is not compared with Len() here nor at the call sites %v: for a wrapped Go array (which cannot grow) `a[5] = 1`, defineProperty or push escape RunString with 'reflect: array index out of range'", unbounded))
					return
				}
			}
			res.Bad(key, pos, "reflect.Value.Index is applied to an index that is not compared with a Len() on the way: an out-of-range index is a Go panic ('reflect: slice/array index out of range') escaping to the host")
		})
	}
	res.Count("reflect Index calls", n)
	// (c) calling through reflection: a nil func value (a nil func-typed struct field or map element
	// wrapped for script) makes reflect.Value.Call panic "call of nil function"
	nCall := 0
	for _, fn := range p.Funcs {
		if fn.Pkg == nil || fn.Pkg.Pkg.Path() != core.GojaPath {
			continue
		}
		core.AllInstrs(fn, func(in ssa.Instruction) {
			c, ok := in.(*ssa.Call)
			if !ok || !isReflectMethod(&c.Call, "Call") {
				return
			}
			nCall++
			key := fmt.Sprintf("%s:reflect Call#%d", core.FuncName(fn), nCall)
			recv := c.Call.Args[0]
			guarded := false
			for _, cp := range core.ControllingConds(in.Block()) {
				g, ok := cp.Cond.(*ssa.Call)
				if ok && isReflectMethod(&g.Call, "IsNil") && !cp.Pol && sameReflectValue(g.Call.Args[0], recv) {
					guarded = true
				}
			}
			if guarded {
				res.OK(key, p.Pos(c.Pos()), "under !value.IsNil()")
			} else {
				res.Bad(key, p.Pos(c.Pos()), "reflect.Value.Call on a func value that may be nil (a nil func field of a wrapped struct): 'reflect: call of nil function' escapes to the host; test IsNil() and throw a TypeError")
			}
		})
	}
	res.Count("reflect Call sites", nCall)
	return res
}

// sameReflectValue: the two operands denote the same reflect.Value variable (same SSA value, or
// loads of the same cell / free variable).
func sameReflectValue(a, b ssa.Value) bool {
	if a == b {
		return true
	}
	la, ok1 := a.(*ssa.UnOp)
	lb, ok2 := b.(*ssa.UnOp)
	return ok1 && ok2 && la.Op == token.MUL && lb.Op == token.MUL && la.X == lb.X
}

var _ = types.Typ

// clampedToParam: fn slices something as X[:l] where l is a phi of a len(...) and one of fn's
// parameters (l := len(c); if l > size { l = size }).
func clampedToParam(fn *ssa.Function) bool {
	found := false
	core.AllInstrs(fn, func(in ssa.Instruction) {
		sl, ok := in.(*ssa.Slice)
		if !ok || sl.High == nil {
			return
		}
		ph, ok := sl.High.(*ssa.Phi)
		if !ok {
			return
		}
		hasLen, hasParam := false, false
		for _, e := range ph.Edges {
			if c, ok := e.(*ssa.Call); ok {
				if b, ok := c.Call.Value.(*ssa.Builtin); ok && b.Name() == "len" {
					hasLen = true
				}
			}
			if _, ok := e.(*ssa.Parameter); ok {
				hasParam = true
			}
		}
		if hasLen && hasParam {
			found = true
		}
	})
	return found
}

// relatedLen: c = len(s); s's length is tied to a reflect.Value in c's function.
func relatedLen(c *ssa.Call) bool {
	fn := c.Parent()
	arg := c.Call.Args[0]
	ak := condKey(arg, 0)
	sameLen := func(v ssa.Value) bool {
		v = stripConv(v)
		if v == ssa.Value(c) {
			return true
		}
		if c2, ok := v.(*ssa.Call); ok {
			if b, ok := c2.Call.Value.(*ssa.Builtin); ok && b.Name() == "len" && condKey(c2.Call.Args[0], 0) == ak {
				return true
			}
		}
		return false
	}
	isReflectLen := func(v ssa.Value) bool {
		c2, ok := stripConv(v).(*ssa.Call)
		if !ok {
			return false
		}
		sc := c2.Call.StaticCallee()
		return sc != nil && sc.Pkg != nil && sc.Pkg.Pkg.Path() == "reflect" && (sc.Name() == "Len" || sc.Name() == "Cap")
	}
	// (iii) the ranged slice itself was cut to a clamped length
	if sl, ok := arg.(*ssa.Slice); ok && sl.High != nil {
		if ph, ok := sl.High.(*ssa.Phi); ok {
			for _, e := range ph.Edges {
				if _, isParam := e.(*ssa.Parameter); isParam {
					return true
				}
				if isReflectLen(e) {
					return true
				}
			}
		}
	}
	found := false
	core.AllInstrs(fn, func(in ssa.Instruction) {
		switch x := in.(type) {
		case *ssa.Call:
			if sc := x.Call.StaticCallee(); sc != nil && sc.Pkg != nil && sc.Pkg.Pkg.Path() == "reflect" && sc.Name() == "MakeSlice" && len(x.Call.Args) == 3 && sameLen(x.Call.Args[1]) {
				found = true
			}
		case *ssa.BinOp:
			if x.Op == token.EQL || x.Op == token.NEQ {
				if (isReflectLen(x.X) && sameLen(x.Y)) || (isReflectLen(x.Y) && sameLen(x.X)) {
					found = true
				}
			}
		}
	})
	return found
}

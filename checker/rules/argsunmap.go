package rules

import (
	"go/token"
	"sort"
	"strings"

	"gojaverif/core"

	"golang.org/x/tools/go/ssa"
)

// R-ARGSUNMAP (C04 "arguments (mapped/unmapped)").
//
// A mapped arguments element aliases the parameter variable. [[DefineOwnProperty]] of the
// arguments exotic object removes the mapping when the element becomes an accessor *or* is made
// non-writable (10.4.4.2 step 7.b: "If IsDataDescriptor(Desc) and Desc.[[Writable]] is false, map.
// [[Delete]](P)"); otherwise an assignment to the parameter changes the value of a read-only,
// possibly frozen, property.
//
// Rule: in argumentsObject.defineOwnPropertyStr the call that replaces the mappedProperty by the
// ordinary property record (`a._put(name, prop)` with prop the *valueProperty that
// _defineOwnProperty returned) is reached through a condition that consults both prop.accessor and
// prop.writable.
var ArgsUnmap = &core.Rule{Name: "R-ARGSUNMAP", Run: runArgsUnmap,
	Doc: "argumentsObject.defineOwnPropertyStr unmaps an element when the defined property is an accessor or non-writable: the unmapping _put is controlled by tests of both fields"}

func runArgsUnmap(p *core.Prog) *core.Result {
	res := core.NewResult("R-ARGSUNMAP", 1)
	f, err := p.GojaMethod("argumentsObject", "defineOwnPropertyStr")
	if err != nil {
		return res.Fail(err)
	}
	put, err := p.GojaMethod("baseObject", "_put")
	if err != nil {
		return res.Fail(err)
	}
	accF, err := p.Field(core.GojaPath, "valueProperty", "accessor")
	if err != nil {
		return res.Fail(err)
	}
	wrF, err := p.Field(core.GojaPath, "valueProperty", "writable")
	if err != nil {
		return res.Fail(err)
	}
	key := "(*argumentsObject).defineOwnPropertyStr:unmapping consults accessor and writable"
	calls := core.CallsIn(f, put)
	if len(calls) == 0 {
		res.Bad(key, p.Pos(f.Pos()), "the mapped element is never replaced by an ordinary property record: a parameter assignment changes accessor or read-only elements of arguments")
		return res
	}
	for _, c := range calls {
		fields := map[string]bool{}
		for _, pr := range c.Block().Preds {
			if ifCond(pr) == nil {
				continue
			}
			for _, x := range condChain(pr) {
				collectFields(ifCond(x), 0, func(fv interface{}) {
					switch fv {
					case accF:
						fields["accessor"] = true
					case wrF:
						fields["writable"] = true
					}
				})
			}
		}
		var got []string
		for k := range fields {
			got = append(got, k)
		}
		sort.Strings(got)
		if fields["accessor"] && fields["writable"] {
			res.OK(key, p.Pos(c.Pos()), "controlled by tests of "+strings.Join(got, " and "))
		} else {
			res.Bad(key, p.Pos(c.Pos()), "the mapping is removed under tests of {"+strings.Join(got, ", ")+"} only: a mapped element that is made non-writable (defineProperty {writable:false}, Object.freeze(arguments)) stays aliased to its parameter, and `a = 2` changes the value of a read-only property")
		}
	}
	return res
}

// collectFields reports every struct field whose loaded value feeds the boolean v (through
// negation, binary operators and phis - `u := p.accessor || !p.writable; if u {..}` included).
func collectFields(v ssa.Value, depth int, f func(fv interface{})) {
	if v == nil || depth > 6 {
		return
	}
	switch x := v.(type) {
	case *ssa.UnOp:
		if x.Op == token.MUL {
			if fv := core.FieldOf(x.X); fv != nil {
				f(fv)
			}
			return
		}
		collectFields(x.X, depth+1, f)
	case *ssa.BinOp:
		collectFields(x.X, depth+1, f)
		collectFields(x.Y, depth+1, f)
	case *ssa.Phi:
		for i, e := range x.Edges {
			collectFields(e, depth+1, f)
			// the conditions under which this edge is taken are part of the value
			pred := x.Block().Preds[i]
			if c := ifCond(pred); c != nil && depth < 3 {
				collectFields(c, depth+2, f)
			}
		}
	}
}

package rules

import (
	"fmt"
	"go/token"
	"go/types"

	"gojaverif/core"

	"golang.org/x/tools/go/ssa"
)

// R-DENSEVIEW (C07).
//
// arrayObject.values is a dense view only under conditions: no holes (objCount == length), no
// property-valued slots (propValueCount == 0), no virtual tail (length == len(values)). The
// guards checkStdArrayObj / checkStdArrayObjWithProto / checkNewStdArrayObj establish them. A
// built-in that gets at the storage through a bare type assertion `o.self.(*arrayObject)` and
// its own, weaker condition treats holes as values: the generic algorithm asks HasProperty for
// each index and looks a hole up on the prototype chain, the raw loop does not (seeded as
// "holes are nil slots, they can be swapped like any other value" in reverse()).
//
// Rule: outside the array types' own methods, every element access, sub-slice or len() of
// X.values has an X that came out of one of the guards - or the function is in the audited table,
// whose reason is re-checked: "nil-checked" entries must compare every element they load with nil.
var DenseView = &core.Rule{Name: "R-DENSEVIEW", Run: runDenseView,
	Doc: "outside the array types, arrayObject.values is indexed, sliced or measured only on an array that passed a checkStdArray* guard (audited exceptions: pop's nil-checked single slot, array literals under construction)"}

var denseViewAudited = map[string]string{
	"(*Runtime).arrayproto_pop":            "nil-checked: reads the last slot only and falls back to the generic algorithm when it is nil (a hole) or a *valueProperty",
	"(*arrayPropIter).next":                "nil-checked: the compact array's own for-in iterator (array.go): skips empty slots",
	"(*Runtime).checkStdArrayObj":          "guard",
	"(*Runtime).checkNewStdArrayObj":       "guard",
	"(_pushArrayItem).exec":                "literal: the array literal under construction, created by newArray in the same expression",
	"(_pushArraySpread).exec":              "literal: the array literal under construction, created by newArray in the same expression",
	"(*Runtime).checkStdArrayObjWithProto": "guard",
}

func runDenseView(p *core.Prog) *core.Result {
	res := core.NewResult("R-DENSEVIEW", 40)
	af, err := loadArrFields(p)
	if err != nil {
		return res.Fail(err)
	}
	guardNames := map[string]bool{"checkStdArrayObj": true, "checkStdArrayObjWithProto": true, "checkStdArray": true, "checkStdArrayIter": true, "checkNewStdArrayObj": true}
	arrPtr := types.NewPointer(af.arrT)
	provenance := func(x ssa.Value) string {
		out := "guard"
		for _, leaf := range phiLeaves(x) {
			switch v := core.Origin(leaf).(type) {
			case *ssa.Call:
				c := v.Call.StaticCallee()
				if c != nil && guardNames[c.Name()] && p.InModule(c) {
					continue
				}
				if c != nil && p.InModule(c) && types.Identical(v.Type(), arrPtr) {
					out = "constructor"
					continue
				}
				return "unknown"
			case *ssa.Extract:
				if ta, ok := v.Tuple.(*ssa.TypeAssert); ok && types.Identical(ta.AssertedType, arrPtr) {
					return "assert"
				}
				if c, ok := v.Tuple.(*ssa.Call); ok {
					if cf := c.Call.StaticCallee(); cf != nil && p.InModule(cf) {
						out = "constructor"
						continue
					}
				}
				return "unknown"
			case *ssa.TypeAssert:
				if types.Identical(v.AssertedType, arrPtr) {
					return "assert"
				}
				return "unknown"
			case *ssa.Alloc:
				out = "constructor"
			case *ssa.Const:
				continue
			case *ssa.Parameter:
				return "param"
			default:
				return "unknown"
			}
		}
		return out
	}
	nAcc := 0
	seen := map[string]int{}
	for _, f := range p.Funcs {
		if !p.InModule(f) {
			continue
		}
		top := core.EnclosingTop(f)
		if recv := top.Signature.Recv(); recv != nil {
			rt := core.NamedOf(recv.Type())
			if rt == af.arrT || rt == af.sparseT {
				continue
			}
			if rt != nil && (rt.Obj().Name() == "templatedArrayObject" || rt.Obj().Name() == "arrayIterObject") {
				// own storage code of the array kinds
			}
		}
		name := core.FuncName(top)
		core.AllInstrs(f, func(in ssa.Instruction) {
			var ld *ssa.UnOp
			what := ""
			switch x := in.(type) {
			case *ssa.IndexAddr:
				ld, _ = x.X.(*ssa.UnOp)
				what = "element access"
			case *ssa.Slice:
				ld, _ = x.X.(*ssa.UnOp)
				what = "sub-slice"
			case *ssa.Call:
				if b, ok := x.Call.Value.(*ssa.Builtin); ok && (b.Name() == "len" || b.Name() == "cap" || b.Name() == "copy") && len(x.Call.Args) > 0 {
					for _, a := range x.Call.Args {
						if l, ok := a.(*ssa.UnOp); ok && l.Op == token.MUL && core.FieldOf(l.X) == af.values {
							ld = l
						}
					}
					what = b.Name() + "()"
				}
			case *ssa.Range:
				ld, _ = x.X.(*ssa.UnOp)
				what = "range"
			}
			if ld == nil || ld.Op != token.MUL || core.FieldOf(ld.X) != af.values {
				return
			}
			fa, ok := ld.X.(*ssa.FieldAddr)
			if !ok {
				return
			}
			nAcc++
			prov := provenance(fa.X)
			k := fmt.Sprintf("%s:%s of .values", name, what)
			seen[k]++
			key := k
			if seen[k] > 1 {
				key = fmt.Sprintf("%s#%d", k, seen[k])
			}
			switch prov {
			case "guard":
				res.OK(key, p.Pos(in.Pos()), "the array passed a checkStdArray* guard")
			case "constructor":
				res.OK(key, p.Pos(in.Pos()), "an array created in this function (or by a module constructor)")
			default:
				why, ok := denseViewAudited[name]
				if !ok {
					res.Bad(key, p.Pos(in.Pos()), fmt.Sprintf("the dense storage is read on an array obtained by %s, not through checkStdArrayObj: holes (nil slots the generic algorithm would look up on the prototype chain) and property-valued slots are not excluded", map[string]string{"assert": "a bare type assertion", "param": "a parameter", "unknown": "an unrecognised expression"}[prov]))
					return
				}
				if len(why) >= 11 && why[:11] == "nil-checked" {
					if ia, isIA := in.(*ssa.IndexAddr); isIA {
						okNil := true
						for _, r := range core.Referrers(ia) {
							l2, isLd := r.(*ssa.UnOp)
							if !isLd || l2.Op != token.MUL {
								continue
							}
							cmp := false
							for _, r2 := range core.Referrers(l2) {
								if bo, isBo := r2.(*ssa.BinOp); isBo {
									if _, _, isNil := core.IsNilCompare(bo); isNil {
										cmp = true
									}
								}
								if ph, isPhi := r2.(*ssa.Phi); isPhi {
									for _, r3 := range core.Referrers(ph) {
										if bo, isBo := r3.(*ssa.BinOp); isBo {
											if _, _, isNil := core.IsNilCompare(bo); isNil {
												cmp = true
											}
										}
									}
								}
							}
							if !cmp {
								okNil = false
							}
						}
						if !okNil {
							res.Bad(key, p.Pos(in.Pos()), "audited as nil-checked, but an element loaded here is never compared with nil")
							return
						}
					}
				}
				res.Inform(key, p.Pos(in.Pos()), "audited: "+why)
			}
		})
	}
	res.Count("accesses of arrayObject.values outside the array types", nAcc)
	return res
}

package rules

import (
	"fmt"

	"gojaverif/core"

	"golang.org/x/tools/go/ssa"
)

// R-HASHRESET (C18 "SameValueZero dictionaries"): Map and Set hash their keys with one
// maphash.Hash per Runtime that is passed to Value.hash(). Every implementation that writes into
// the hasher leaves it clean: on every path from a Write*/WriteString to the function's return a
// Reset() follows. A hasher left dirty (or cleaned only *before* use, seed C18/h) makes the next
// key of any kind hash differently from its equal twin: a duplicate entry, a missed lookup.
var HashReset = &core.Rule{Name: "R-HASHRESET", Run: runHashReset,
	Doc: "every function that writes into a *maphash.Hash it received resets it on every path from the write to its return"}

func runHashReset(p *core.Prog) *core.Result {
	res := core.NewResult("R-HASHRESET", 3)
	isHashMethod := func(in ssa.Instruction, names ...string) (ssa.Value, bool) {
		c, ok := in.(*ssa.Call)
		if !ok {
			return nil, false
		}
		sc := c.Call.StaticCallee()
		if sc == nil || sc.Pkg == nil || sc.Pkg.Pkg.Path() != "hash/maphash" || len(c.Call.Args) == 0 {
			return nil, false
		}
		for _, n := range names {
			if sc.Name() == n {
				return c.Call.Args[0], true
			}
		}
		return nil, false
	}
	n := 0
	for _, f := range p.Funcs {
		if !p.InModule(f) {
			continue
		}
		var writes []ssa.Instruction
		core.AllInstrs(f, func(in ssa.Instruction) {
			if h, ok := isHashMethod(in, "Write", "WriteString", "WriteByte"); ok {
				if _, isParam := h.(*ssa.Parameter); isParam {
					writes = append(writes, in)
				}
			}
		})
		if len(writes) == 0 {
			continue
		}
		n++
		key := fmt.Sprintf("%s:hasher reset after use", core.FuncName(f))
		bad := ""
		for _, w := range writes {
			seen := map[*ssa.BasicBlock]bool{}
			var walk func(b *ssa.BasicBlock, from int)
			walk = func(b *ssa.BasicBlock, from int) {
				if bad != "" {
					return
				}
				for j := from; j < len(b.Instrs); j++ {
					x := b.Instrs[j]
					if _, ok := isHashMethod(x, "Reset"); ok {
						return
					}
					if _, ok := x.(*ssa.Return); ok && b != f.Recover {
						bad = p.Pos(w.Pos())
						return
					}
					if _, ok := x.(*ssa.Panic); ok {
						return
					}
				}
				for _, s := range b.Succs {
					if !seen[s] {
						seen[s] = true
						walk(s, 0)
					}
				}
			}
			walk(w.Block(), core.InstrIndex(w)+1)
		}
		if bad == "" {
			res.OK(key, p.Pos(f.Pos()), fmt.Sprintf("%d writes, each followed by Reset() on every path to the return", len(writes)))
		} else {
			res.Bad(key, bad, "the shared hasher is written here and a return is reachable without Reset(): the next key hashed with it (of any type, in any Map or Set of the Runtime) starts from a dirty state")
		}
	}
	res.Count("functions writing into a received hasher", n)
	return res
}

package rules

import (
	"fmt"
	"go/token"
	"go/types"
	"sort"
	"strings"

	"gojaverif/core"

	"golang.org/x/tools/go/ssa"
)

// R-KINDFLIP (C04, C11).
//
// ValidateAndApplyPropertyDescriptor is one hand-written decision table in
// baseObject._defineOwnProperty. A property record flips between data and accessor where the
// function assigns valueProperty.accessor; which descriptor fields trigger a flip is written there
// (`descr.Value != nil || descr.Writable != FLAG_NOT_SET` -> data, `descr.Getter != nil`,
// `descr.Setter != nil` -> accessor). Whether a flip is *allowed* is written somewhere else, in the
// if-statement that compares the kind of the existing property (`existing.accessor`) with the kind
// of the descriptor and rejects the change for a non-configurable property.
//
// (a) The two must use the same tests: every test that can trigger a flip is consulted by the
//
//	condition that tests existing.accessor. A trigger the guard does not look at is a descriptor
//	that converts a non-configurable property to the other kind (spec 10.1.6.3 step 4-6:
//	IsDataDescriptor is "has [[Value]] or [[Writable]]", IsAccessorDescriptor "has [[Get]] or
//	[[Set]]" - present, not callable).
//
// (b) A flip drops the payload of the other kind on the same record: accessor = false comes with
//
//	getterFunc = nil and setterFunc = nil, accessor = true with value = nil; a left-over getter
//	is resurrected by the next partial accessor descriptor.
var KindFlip = &core.Rule{Name: "R-KINDFLIP", Run: runKindFlip,
	Doc: "in _defineOwnProperty every descriptor test that can flip a property between data and accessor is consulted by the condition comparing it with the existing kind, and a flip clears the payload of the other kind"}

// condChain: the blocks of one if-statement's short-circuit condition that contain b.
func condChain(b *ssa.BasicBlock) []*ssa.BasicBlock {
	isCondBlock := func(x *ssa.BasicBlock) bool {
		if len(x.Instrs) == 0 {
			return false
		}
		if _, ok := x.Instrs[len(x.Instrs)-1].(*ssa.If); !ok {
			return false
		}
		return x.Comment == "cond.true" || x.Comment == "cond.false" || x.Comment == "binop.rhs"
	}
	seen := map[*ssa.BasicBlock]bool{b: true}
	work := []*ssa.BasicBlock{b}
	var out []*ssa.BasicBlock
	for len(work) > 0 {
		x := work[len(work)-1]
		work = work[:len(work)-1]
		out = append(out, x)
		// forward: successors that continue the condition
		for _, s := range x.Succs {
			if !seen[s] && isCondBlock(s) {
				seen[s] = true
				work = append(work, s)
			}
		}
		// backward: x continues the condition of its predecessors
		if isCondBlock(x) {
			for _, pr := range x.Preds {
				if seen[pr] || len(pr.Instrs) == 0 {
					continue
				}
				if _, ok := pr.Instrs[len(pr.Instrs)-1].(*ssa.If); ok {
					seen[pr] = true
					work = append(work, pr)
				}
			}
		}
	}
	return out
}

func ifCond(b *ssa.BasicBlock) ssa.Value {
	if len(b.Instrs) == 0 {
		return nil
	}
	if ifi, ok := b.Instrs[len(b.Instrs)-1].(*ssa.If); ok {
		return ifi.Cond
	}
	return nil
}

func runKindFlip(p *core.Prog) *core.Result {
	res := core.NewResult("R-KINDFLIP", 6)
	f, err := p.GojaMethod("baseObject", "_defineOwnProperty")
	if err != nil {
		return res.Fail(err)
	}
	fld := map[string]*types.Var{}
	for _, n := range []string{"accessor", "getterFunc", "setterFunc", "value"} {
		v, err := p.Field(core.GojaPath, "valueProperty", n)
		if err != nil {
			return res.Fail(err)
		}
		fld[n] = v
	}
	descT, err := p.GojaType("PropertyDescriptor")
	if err != nil {
		return res.Fail(err)
	}
	// readable name of a test on the descriptor
	var pretty func(v ssa.Value, depth int) string
	pretty = func(v ssa.Value, depth int) string {
		if depth > 6 {
			return "…"
		}
		switch x := v.(type) {
		case *ssa.Const:
			if x.Value == nil {
				return "nil"
			}
			return x.Value.String()
		case *ssa.UnOp:
			if x.Op == token.MUL {
				return pretty(x.X, depth+1)
			}
			return x.Op.String() + pretty(x.X, depth+1)
		case *ssa.FieldAddr:
			if fv := core.FieldOf(x); fv != nil {
				return pretty(x.X, depth+1) + "." + fv.Name()
			}
		case *ssa.Alloc:
			if x.Comment != "" {
				return x.Comment
			}
		case *ssa.Parameter:
			return x.Name()
		case *ssa.BinOp:
			return pretty(x.X, depth+1) + " " + x.Op.String() + " " + pretty(x.Y, depth+1)
		case *ssa.Extract:
			if ta, ok := x.Tuple.(*ssa.TypeAssert); ok {
				return pretty(ta.X, depth+1) + ".(" + core.TypeShort(ta.AssertedType) + ")"
			}
		case *ssa.Phi:
			if x.Comment != "" {
				return x.Comment
			}
		}
		return v.Name()
	}
	// is v a test that reads the descriptor (directly)?
	var readsDescr func(v ssa.Value, depth int) bool
	readsDescr = func(v ssa.Value, depth int) bool {
		if depth > 6 {
			return false
		}
		switch x := v.(type) {
		case *ssa.UnOp:
			return readsDescr(x.X, depth+1)
		case *ssa.FieldAddr:
			if al, ok := x.X.(*ssa.Alloc); ok {
				if pt, ok := al.Type().(*types.Pointer); ok && types.Identical(pt.Elem(), descT) {
					return true
				}
			}
			return readsDescr(x.X, depth+1)
		case *ssa.BinOp:
			return readsDescr(x.X, depth+1) || readsDescr(x.Y, depth+1)
		case *ssa.Extract:
			return readsDescr(x.Tuple, depth+1)
		case *ssa.TypeAssert:
			return readsDescr(x.X, depth+1)
		}
		return false
	}
	isAccessorTest := func(c ssa.Value) bool {
		for {
			u, ok := c.(*ssa.UnOp)
			if !ok {
				return false
			}
			if u.Op == token.NOT {
				c = u.X
				continue
			}
			return u.Op == token.MUL && core.FieldOf(u.X) == fld["accessor"]
		}
	}
	// K_guard: tests consulted together with existing.accessor
	guard := map[string]string{}
	nGuardChains := 0
	for _, b := range f.Blocks {
		c := ifCond(b)
		if c == nil || !isAccessorTest(c) {
			continue
		}
		chain := condChain(b)
		if len(chain) < 2 {
			continue // a lone `if existing.accessor`: no descriptor test rides on it
		}
		nGuardChains++
		for _, x := range chain {
			if cx := ifCond(x); cx != nil && readsDescr(cx, 0) {
				guard[condKey(cx, 0)] = pretty(cx, 0)
			}
		}
	}
	if nGuardChains == 0 {
		res.Unknown("(*baseObject)._defineOwnProperty:kind-change guard", p.Pos(f.Pos()), "no condition combines existing.accessor with tests on the descriptor")
		return res
	}
	var gl []string
	for _, v := range guard {
		gl = append(gl, v)
	}
	sort.Strings(gl)
	res.Count("descriptor tests in the kind-change guard", len(guard))
	// flips
	nFlip := 0
	core.AllInstrs(f, func(in ssa.Instruction) {
		st, ok := in.(*ssa.Store)
		if !ok || core.FieldOf(st.Addr) != fld["accessor"] {
			return
		}
		c, ok := st.Val.(*ssa.Const)
		if !ok {
			return
		}
		toAccessor := c.Value != nil && c.Value.String() == "true"
		nFlip++
		kind := "data"
		if toAccessor {
			kind = "accessor"
		}
		rec := st.Addr.(*ssa.FieldAddr).X
		// (a) triggers: the condition chain(s) entering the store's block
		trig := map[string]string{}
		var trigPos = map[string]token.Pos{}
		for _, pr := range st.Block().Preds {
			if ifCond(pr) == nil {
				continue
			}
			for _, x := range condChain(pr) {
				if cx := ifCond(x); cx != nil && readsDescr(cx, 0) {
					trig[condKey(cx, 0)] = pretty(cx, 0)
					trigPos[condKey(cx, 0)] = cx.Pos()
				}
			}
		}
		if len(trig) == 0 {
			res.Unknown(fmt.Sprintf("(*baseObject)._defineOwnProperty:flip to %s:trigger", kind), p.Pos(st.Pos()), "cannot tell which descriptor tests control this assignment of .accessor")
		}
		var keys []string
		for k := range trig {
			keys = append(keys, k)
		}
		sort.Slice(keys, func(i, j int) bool { return trig[keys[i]] < trig[keys[j]] })
		for _, k := range keys {
			key := fmt.Sprintf("(*baseObject)._defineOwnProperty:flip to %s on `%s` is seen by the kind-change guard", kind, trig[k])
			if _, ok := guard[k]; ok {
				res.OK(key, p.Pos(trigPos[k]), "the same test rides on existing.accessor")
			} else {
				res.Bad(key, p.Pos(trigPos[k]), fmt.Sprintf("a descriptor for which only this test holds turns the existing property into a %s property, but the condition that compares the descriptor's kind with existing.accessor consults {%s}: a non-configurable property changes kind", kind, strings.Join(gl, "; ")))
			}
		}
		// (b) payload of the other kind cleared in the same block
		want := []string{"getterFunc", "setterFunc"}
		if toAccessor {
			want = []string{"value"}
		}
		for _, w := range want {
			key := fmt.Sprintf("(*baseObject)._defineOwnProperty:flip to %s clears .%s", kind, w)
			cleared := false
			for _, in2 := range st.Block().Instrs {
				st2, ok := in2.(*ssa.Store)
				if !ok || core.FieldOf(st2.Addr) != fld[w] {
					continue
				}
				if fa, ok := st2.Addr.(*ssa.FieldAddr); ok && fa.X == rec {
					if k, ok := st2.Val.(*ssa.Const); ok && k.IsNil() {
						cleared = true
					}
				}
			}
			if cleared {
				res.OK(key, p.Pos(st.Pos()), "nil stored on the same record in the same block")
			} else {
				res.Bad(key, p.Pos(st.Pos()), fmt.Sprintf("the record becomes a %s property but keeps its .%s: a later partial descriptor of the other kind brings the stale payload back", kind, w))
			}
		}
	})
	res.Count("assignments of valueProperty.accessor", nFlip)
	if nFlip == 0 {
		res.Unknown("(*baseObject)._defineOwnProperty:flips", p.Pos(f.Pos()), "no assignment of valueProperty.accessor found")
	}
	return res
}

package rules

import (
	"fmt"
	"strings"

	"gojaverif/core"

	"golang.org/x/tools/go/ssa"
)

// R-MATHRET (C05 "numeric results"): every function of the Math object returns a Number. Its
// argument may be anything (a string, null, an object); a built-in that hands the *argument itself*
// back on some path - because its numeric value was 0 or NaN and "nothing needs to be done" -
// returns a non-number: Math.sign("0") was the string "0", Math.sign(null) was null.
//
// Rule: no return of a math_* function yields a value obtained from call.Argument(i) /
// call.Arguments[i] unconverted (through phis).
var MathRet = &core.Rule{Name: "R-MATHRET", Run: runMathRet,
	Doc: "no Math.* function returns one of its arguments unconverted"}

func runMathRet(p *core.Prog) *core.Result {
	res := core.NewResult("R-MATHRET", 20)
	argument, err := p.GojaMethod("FunctionCall", "Argument")
	if err != nil {
		return res.Fail(err)
	}
	var isRawArg func(v ssa.Value, depth int) bool
	isRawArg = func(v ssa.Value, depth int) bool {
		if depth > 4 {
			return false
		}
		switch x := v.(type) {
		case *ssa.Call:
			return x.Call.StaticCallee() == argument
		case *ssa.Phi:
			for _, e := range x.Edges {
				if isRawArg(e, depth+1) {
					return true
				}
			}
		case *ssa.UnOp:
			if ia, ok := x.X.(*ssa.IndexAddr); ok {
				if ld, ok := ia.X.(*ssa.UnOp); ok {
					if fv := core.FieldOf(ld.X); fv != nil && fv.Name() == "Arguments" {
						return true
					}
				}
				if fld, ok := ia.X.(*ssa.Field); ok {
					if fv := core.FieldOf(fld); fv != nil && fv.Name() == "Arguments" {
						return true
					}
				}
			}
		}
		return false
	}
	n := 0
	for _, f := range p.Funcs {
		if !p.InModule(f) || f.Parent() != nil || !strings.HasPrefix(f.Name(), "math_") {
			continue
		}
		n++
		key := core.FuncName(f) + ":returns a number, never its raw argument"
		var bad *ssa.Return
		core.AllInstrs(f, func(in ssa.Instruction) {
			if ret, ok := in.(*ssa.Return); ok && len(ret.Results) == 1 && isRawArg(ret.Results[0], 0) {
				bad = ret
			}
		})
		if bad == nil {
			res.OK(key, p.Pos(f.Pos()), "no return of an unconverted argument")
		} else {
			res.Bad(key, p.Pos(bad.Pos()), fmt.Sprintf("a path returns the argument itself: for a non-number argument (a string, null, a boolean, an object) the result of Math.%s is not a Number", strings.TrimPrefix(f.Name(), "math_")))
		}
	}
	res.Count("math_* functions", n)
	return res
}

// R-NEGZEROSIGN (C05): an integer fast path that produces -0 (0 * negative, negative * 0, ...) decides on
// the *sign* of the operand. A test for one particular negative value (`right == -1`) covers that value
// only: 0 * -5 was +0.
// Rule: no block that yields the global _negativeZero is controlled by an equality comparison of an
// integer operand with a negative constant.
var NegZeroSign = &core.Rule{Name: "R-NEGZEROSIGN", Run: func(p *core.Prog) *core.Result {
	res := core.NewResult("R-NEGZEROSIGN", 3)
	n := 0
	for _, f := range p.Funcs {
		if !p.InModule(f) {
			continue
		}
		seen := map[*ssa.BasicBlock]bool{}
		core.AllInstrs(f, func(in ssa.Instruction) {
			ld, ok := in.(*ssa.UnOp)
			if !ok {
				return
			}
			g, ok := ld.X.(*ssa.Global)
			if !ok || g.Name() != "_negativeZero" || seen[ld.Block()] {
				return
			}
			seen[ld.Block()] = true
			n++
			key := fmt.Sprintf("%s:-0 produced under sign tests#%d", core.FuncName(f), len(seen))
			bad := ""
			// the short-circuit chain entering this block
			for _, pr := range ld.Block().Preds {
				if ifCond(pr) == nil {
					continue
				}
				for _, x := range condChain(pr) {
					bo, ok := ifCond(x).(*ssa.BinOp)
					if !ok || bo.Op.String() != "==" {
						continue
					}
					for _, side := range []ssa.Value{bo.X, bo.Y} {
						if k, isC := core.IntConst(side); isC && k < 0 {
							bad = fmt.Sprintf("compares an operand with the constant %d", k)
						}
					}
				}
			}
			if bad == "" {
				res.OK(key, p.Pos(ld.Pos()), "no equality test with a negative constant on the way")
			} else {
				res.Bad(key, p.Pos(ld.Pos()), "the -0 result is chosen by a condition that "+bad+" instead of testing the operand's sign: every other negative value of that operand yields +0 (0 * -5)")
			}
		})
	}
	res.Count("blocks yielding _negativeZero", n)
	return res
}, Doc: "integer fast paths that produce -0 test the sign of the operand, not equality with one negative constant"}

// D-RAWRET (debug): builtins whose return value is call.This or call.Argument(i) unconverted.
var RawRetDebug = &core.Rule{Name: "D-RAWRET", Run: func(p *core.Prog) *core.Result {
	res := core.NewResult("D-RAWRET", 0)
	argument, err := p.GojaMethod("FunctionCall", "Argument")
	if err != nil {
		return res.Fail(err)
	}
	n := 0
	for _, f := range p.Funcs {
		if !p.InModule(f) || f.Parent() != nil || len(f.Params) != 2 {
			continue
		}
		if !strings.Contains(f.Name(), "proto_") && !strings.HasPrefix(f.Name(), "builtin_") && !strings.HasPrefix(f.Name(), "number_") && !strings.HasPrefix(f.Name(), "string_") {
			continue
		}
		core.AllInstrs(f, func(in ssa.Instruction) {
			ret, ok := in.(*ssa.Return)
			if !ok || len(ret.Results) != 1 {
				return
			}
			v := ret.Results[0]
			what := ""
			if c, ok := v.(*ssa.Call); ok && c.Call.StaticCallee() == argument {
				what = "Argument"
			}
			if fl, ok := v.(*ssa.Field); ok {
				if fv := core.FieldOf(fl); fv != nil && fv.Name() == "This" {
					what = "This"
				}
			}
			if ld, ok := v.(*ssa.UnOp); ok {
				if fv := core.FieldOf(ld.X); fv != nil && fv.Name() == "This" {
					what = "This"
				}
			}
			if what != "" {
				n++
				res.Inform(fmt.Sprintf("%s#%d", core.FuncName(f), n), p.Pos(ret.Pos()), "returns raw "+what)
			}
		})
	}
	res.Count("raw returns", n)
	return res
}}

// D-HARDASSERT (debug): single-result type assertions on Value-typed operands.
var HardAssertDebug = &core.Rule{Name: "D-HARDASSERT", Run: func(p *core.Prog) *core.Result {
	res := core.NewResult("D-HARDASSERT", 0)
	valT, err := p.GojaType("Value")
	if err != nil {
		return res.Fail(err)
	}
	n := 0
	per := map[string]int{}
	for _, f := range p.Funcs {
		if !p.InModule(f) {
			continue
		}
		core.AllInstrs(f, func(in ssa.Instruction) {
			ta, ok := in.(*ssa.TypeAssert)
			if !ok || ta.CommaOk {
				return
			}
			if core.NamedOf(ta.X.Type()) != valT {
				return
			}
			n++
			per[core.FuncName(f)]++
			if per[core.FuncName(f)] <= 1 {
				res.Inform(fmt.Sprintf("%s#%d", core.FuncName(f), n), p.Pos(ta.Pos()), ta.AssertedType.String())
			}
		})
	}
	res.Count("hard assertions on Value", n)
	return res
}}

package rules

import (
	"go/token"
	"go/types"
	"strings"

	"gojaverif/core"

	"golang.org/x/tools/go/ssa"
)

// R-LAZYSCAN: an *importedString decides lazily whether it is ASCII or UTF-16. Any method whose
// result depends on the representation (hash, compare, equality, length, code units) must not
// look at the lazily computed field before the scan has happened, or equal strings hash /
// compare differently depending on what was done to them earlier.
var LazyScan = &core.Rule{Name: "R-LAZYSCAN", Run: runLazyScan,
	Doc: "every read of importedString.u is dominated by ensureScanned() on the same receiver, or lies on the true edge of scanned.Load(), or is in scan() itself; methods that never consult u but produce representation-dependent results are listed"}

func runLazyScan(p *core.Prog) *core.Result {
	res := core.NewResult("R-LAZYSCAN", 15)
	fU, err := p.Field(core.GojaPath, "importedString", "u")
	if err != nil {
		return res.Fail(err)
	}
	fS, err := p.Field(core.GojaPath, "importedString", "s")
	if err != nil {
		return res.Fail(err)
	}
	fScanned, err := p.Field(core.GojaPath, "importedString", "scanned")
	if err != nil {
		return res.Fail(err)
	}
	ensure, err := p.GojaMethod("importedString", "ensureScanned")
	if err != nil {
		return res.Fail(err)
	}
	scan, err := p.GojaMethod("importedString", "scan")
	if err != nil {
		return res.Fail(err)
	}
	impT, err := p.GojaType("importedString")
	if err != nil {
		return res.Fail(err)
	}
	exceptions := map[string]string{
		"(*importedString).StrictEquals": "the asciiString case compares raw bytes with a pure-ASCII string, which is exact whether or not the imported string was scanned (u == nil for an unscanned string only skips an early `return false`)",
		"(asciiString).StrictEquals":     "compares its own pure-ASCII bytes with the imported string's raw bytes when u == nil: exact whether or not the imported string was scanned",
	}
	tracked := func(t types.Type) bool {
		_, isPtr := types.Unalias(t).(*types.Pointer)
		return isPtr && core.NamedOf(t) == impT
	}
	root := func(v ssa.Value) string {
		v = core.Origin(v)
		if ex, ok := v.(*ssa.Extract); ok {
			if ta, ok := ex.Tuple.(*ssa.TypeAssert); ok && ex.Index == 0 {
				if tracked(ta.AssertedType) {
					return p.SourceName(ex)
				}
			}
		}
		if !tracked(v.Type()) {
			return ""
		}
		return p.SourceName(v)
	}
	spec := &core.FreshSpec{
		Name:    "lazyscan",
		Root:    root,
		Tracked: tracked,
		Skip:    func(f *ssa.Function) bool { return f == scan },
		Uses: func(in ssa.Instruction) []core.FreshUse {
			ld, ok := in.(*ssa.UnOp)
			if !ok || ld.Op != token.MUL {
				return nil
			}
			fa, ok := ld.X.(*ssa.FieldAddr)
			if !ok {
				return nil
			}
			if core.FieldOf(fa) == fS {
				// the raw Go string may only be consumed unscanned by encoding-agnostic operations
				if what := encodingSensitiveUse(ld); what != "" {
					if k := root(fa.X); k != "" {
						return []core.FreshUse{{Key: k, What: "raw importedString.s used by " + what}}
					}
				}
				return nil
			}
			if core.FieldOf(fa) != fU {
				return nil
			}
			if k := root(fa.X); k != "" {
				return []core.FreshUse{{Key: k, What: "read of importedString.u"}}
			}
			return nil
		},
		GenAfter: func(in ssa.Instruction, fresh func(string) bool) []string {
			if c, ok := in.(*ssa.Call); ok && c.Call.StaticCallee() == ensure && len(c.Call.Args) == 1 {
				if k := root(c.Call.Args[0]); k != "" {
					return []string{k}
				}
			}
			return nil
		},
		GenOnBool: func(in ssa.Instruction) ([]string, bool, bool) {
			c, ok := in.(*ssa.Call)
			if !ok {
				return nil, false, false
			}
			if sc := c.Call.StaticCallee(); sc != nil && sc.Name() == "Load" && len(c.Call.Args) == 1 {
				if sfa, ok := c.Call.Args[0].(*ssa.FieldAddr); ok && core.FieldOf(sfa) == fScanned {
					if k := root(sfa.X); k != "" {
						return []string{k}, true, true
					}
				}
			}
			return nil, false, false
		},
		NewObject: func(in ssa.Instruction) (string, bool) {
			if al, ok := in.(*ssa.Alloc); ok && al.Heap && core.NamedOf(al.Type()) == impT {
				return p.SourceName(al), true // constructed with an explicit scan state
			}
			return "", false
		},
		Escapes: func(ssa.Instruction) []string { return nil },
		Kills:   func(ssa.CallInstruction) string { return "" }, // the scan result is immutable once computed
	}
	fr := p.RunFresh(spec)
	for _, s := range fr.Sites {
		res.OK(core.FuncName(s.Fn)+":reads-u-after-scan", p.Pos(s.Instr.Pos()), "after ensureScanned() / under scanned.Load() / freshly constructed")
	}
	for _, f := range fr.Findings {
		key := core.FuncName(f.Fn) + ":reads-u-after-scan"
		if why, ok := exceptions[core.FuncName(f.Fn)]; ok {
			res.OK(key, p.Pos(f.Instr.Pos()), "table exception: "+why)
			continue
		}
		viaException := false
		for name, why := range exceptions {
			if strings.Contains(f.Use.What, "call "+name+" ") {
				res.OK(key, p.Pos(f.Instr.Pos()), "calls "+name+" (table exception: "+why+")")
				viaException = true
			}
		}
		if viaException {
			continue
		}
		res.Bad(key, p.Pos(f.Instr.Pos()), "the lazily computed UTF-16 form of an imported Go string is consulted on a path where the scan has not run: the method then treats a non-ASCII string as ASCII bytes (hash over UTF-8 bytes, byte-wise compare), so equal strings hash and compare differently depending on their history")
	}
	// hash must take part in the discipline at all (it is what Map/Set/property keys rely on)
	hash, err := p.GojaMethod("importedString", "hash")
	if err != nil {
		return res.Fail(err)
	}
	if len(core.CallsIn(hash, ensure)) > 0 {
		res.OK("(*importedString).hash:scans", p.Pos(hash.Pos()), "calls ensureScanned()")
	} else {
		res.Bad("(*importedString).hash:scans", p.Pos(hash.Pos()), "hash() of an imported string does not scan first: an unscanned non-ASCII string hashes differently from the equal UTF-16 string (Map/Set/property-key lookups miss)")
	}
	return res
}

// encodingSensitiveUse: how a loaded raw Go string (UTF-8) is consumed. Equality, concatenation,
// copying, rune decoding and handing the string back to Go are exact on the raw bytes; anything
// that depends on UTF-16 code units (ordering, hashing, length, indexing, the ASCII
// implementation) is only right once the scan established that the string is pure ASCII.
func encodingSensitiveUse(ld *ssa.UnOp) string {
	for _, r := range core.Referrers(ld) {
		switch x := r.(type) {
		case *ssa.BinOp:
			switch x.Op {
			case token.EQL, token.NEQ, token.ADD:
				continue
			}
			return "operator " + x.Op.String()
		case *ssa.Store, *ssa.Return, *ssa.Phi, *ssa.MakeInterface:
			continue
		case *ssa.Call:
			if b, isB := x.Call.Value.(*ssa.Builtin); isB {
				if b.Name() == "len" {
					// emptiness test only
					onlyZero := true
					for _, lr := range core.Referrers(x) {
						bo, ok := lr.(*ssa.BinOp)
						if !ok {
							onlyZero = false
							continue
						}
						if k, okk := core.IntConst(bo.Y); !okk || k != 0 {
							onlyZero = false
						}
					}
					if onlyZero {
						continue
					}
				}
				return "builtin " + x.Call.Value.Name()
			}
			if x.Call.IsInvoke() || x.Call.StaticCallee() != nil && x.Call.StaticCallee().Pkg != nil {
				pkg := ""
				if x.Call.IsInvoke() {
					if n := core.NamedOf(x.Call.Value.Type()); n != nil && n.Obj().Pkg() != nil {
						pkg = n.Obj().Pkg().Path()
					}
				} else {
					pkg = x.Call.StaticCallee().Pkg.Pkg.Path()
				}
				if strings.HasPrefix(pkg, "golang.org/x/text/") {
					continue // Unicode normalisation / case mapping operate on the UTF-8 text itself
				}
			}
			if sc := x.Call.StaticCallee(); sc != nil {
				switch core.FuncName(sc) {
				case "unistring.Scan", "strings.NewReader", "unistring.NewFromString", "newStringValue", "strings.Clone", "strings.Trim":
					continue
				}
				return "call " + core.FuncName(sc)
			}
			return "a dynamic call"
		case *ssa.ChangeType, *ssa.Convert:
			return "conversion to " + core.TypeShort(x.(ssa.Value).Type())
		case *ssa.Index, *ssa.Slice, *ssa.Lookup, *ssa.Range:
			return "indexing/slicing/ranging"
		case *ssa.DebugRef:
			continue
		default:
			return "an unrecognised consumer"
		}
	}
	return ""
}

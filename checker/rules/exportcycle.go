package rules

import (
	"fmt"
	"go/token"
	"go/types"

	"gojaverif/core"

	"golang.org/x/tools/go/ssa"
)

// R-EXPORTCYCLE: exporting a script-built object graph must preserve sharing and terminate on
// cycles within one export. Every export implementation that recurses into the object's own
// contents must consult the identity cache first and register itself before recursing.
var ExportCycle = &core.Rule{Name: "R-EXPORTCYCLE", Run: runExportCycle,
	Doc: "every objectImpl.export / exportToMap / exportToArrayOrSlice implementation with a recursion point (exportValue, X.self.export, toReflectValue) looks its own object up in the export cache and returns the hit, and registers itself (put/putTyped) on every path before the first recursion point"}

func runExportCycle(p *core.Prog) *core.Result {
	res := core.NewResult("R-EXPORTCYCLE", 14)
	ctxT, err := p.GojaType("objectExportCtx")
	if err != nil {
		return res.Fail(err)
	}
	oi, err := p.GojaType("objectImpl")
	if err != nil {
		return res.Fail(err)
	}
	iface := oi.Underlying().(*types.Interface)
	ifaceMethod := func(name string) *types.Func {
		for i := 0; i < iface.NumMethods(); i++ {
			if iface.Method(i).Name() == name {
				return iface.Method(i)
			}
		}
		return nil
	}
	mExport, mToMap, mToSlice := ifaceMethod("export"), ifaceMethod("exportToMap"), ifaceMethod("exportToArrayOrSlice")
	if mExport == nil || mToMap == nil || mToSlice == nil {
		return res.Failf("objectImpl.export/exportToMap/exportToArrayOrSlice")
	}
	get, err := p.GojaMethod("objectExportCtx", "get")
	if err != nil {
		return res.Fail(err)
	}
	getTyped, err := p.GojaMethod("objectExportCtx", "getTyped")
	if err != nil {
		return res.Fail(err)
	}
	put, err := p.GojaMethod("objectExportCtx", "put")
	if err != nil {
		return res.Fail(err)
	}
	putTyped, err := p.GojaMethod("objectExportCtx", "putTyped")
	if err != nil {
		return res.Fail(err)
	}
	exportValue, err := p.GojaFunc("exportValue")
	if err != nil {
		return res.Fail(err)
	}
	toReflectValue, err := p.GojaMethod("Runtime", "toReflectValue")
	if err != nil {
		return res.Fail(err)
	}
	_ = ctxT

	hasCtxParam := func(f *ssa.Function) bool {
		for _, prm := range f.Params {
			if core.IsGojaNamed(prm.Type(), "objectExportCtx") {
				return true
			}
		}
		return false
	}
	// own object: load of a field named `val` (baseObject.val) rooted at the receiver, or an *Object parameter
	ownObject := func(f *ssa.Function, v ssa.Value) bool {
		v = core.Origin(v)
		if prm, ok := v.(*ssa.Parameter); ok {
			return core.IsGojaNamed(prm.Type(), "Object")
		}
		ld, ok := v.(*ssa.UnOp)
		if !ok || ld.Op != token.MUL {
			return false
		}
		fa, ok := ld.X.(*ssa.FieldAddr)
		if !ok || core.FieldOf(fa) == nil || core.FieldOf(fa).Name() != "val" {
			return false
		}
		// root must be the receiver
		var root ssa.Value = fa.X
		for {
			if x, ok := root.(*ssa.FieldAddr); ok {
				root = x.X
				continue
			}
			break
		}
		return len(f.Params) > 0 && root == f.Params[0]
	}
	isRecursion := func(f *ssa.Function, in ssa.Instruction) (string, bool) {
		c, ok := in.(ssa.CallInstruction)
		if !ok {
			return "", false
		}
		cc := c.Common()
		if cc.IsInvoke() {
			if cc.Method == mExport {
				return "X.self.export", true
			}
			return "", false
		}
		switch cc.StaticCallee() {
		case exportValue:
			return "exportValue", true
		case toReflectValue:
			return "toReflectValue", true
		}
		return "", false
	}

	nImpl, nRec := 0, 0
	for _, f := range p.Funcs {
		if f.Parent() != nil || !hasCtxParam(f) {
			continue
		}
		kind := ""
		switch {
		case f.Signature.Recv() != nil && f.Name() == "export":
			kind = "export"
		case f.Signature.Recv() != nil && (f.Name() == "exportToMap" || f.Name() == "exportToArrayOrSlice"):
			kind = "typed"
		case f.Signature.Recv() == nil && (f.Name() == "genericExportToMap" || f.Name() == "genericExportToArrayOrSlice"):
			kind = "typed"
		default:
			continue
		}
		nImpl++
		var recs []ssa.Instruction
		var what string
		core.WithAnon(f, func(g *ssa.Function) {
			core.AllInstrs(g, func(in ssa.Instruction) {
				if w, ok := isRecursion(g, in); ok {
					if g != f {
						// recursion inside a closure: attribute to the MakeClosure site... conservatively the entry of f
						recs = append(recs, in)
					} else {
						recs = append(recs, in)
					}
					what = w
				}
			})
		})
		name := core.FuncName(f)
		if len(recs) == 0 {
			res.Inform(name+":no-recursion", p.Pos(f.Pos()), "no recursion point: nothing to cache")
			continue
		}
		nRec++
		// find registration and lookup of the own object in f
		var puts, gets []*ssa.Call
		core.AllInstrs(f, func(in ssa.Instruction) {
			c, ok := in.(*ssa.Call)
			if !ok {
				return
			}
			sc := c.Call.StaticCallee()
			if (sc == put || sc == putTyped) && len(c.Call.Args) >= 2 && ownObject(f, c.Call.Args[1]) {
				puts = append(puts, c)
			}
			if (sc == get || sc == getTyped) && len(c.Call.Args) >= 2 && ownObject(f, c.Call.Args[1]) {
				gets = append(gets, c)
			}
		})
		// pure delegation: the only recursion point forwards to another object's implementation and
		// its result is returned as is (the callee does its own caching)
		if len(recs) == 1 && recs[0].Parent() == f {
			if v, ok := recs[0].(ssa.Value); ok {
				refs := core.Referrers(v)
				if len(refs) == 1 {
					if _, isRet := refs[0].(*ssa.Return); isRet && len(puts) == 0 && len(gets) == 0 {
						res.OK(name+":delegation", p.Pos(recs[0].Pos()), "pure pass-through to another object's export (result returned unchanged)")
						continue
					}
				}
			}
		}
		// (b) registration before recursion: every recursion point is dominated by some registration
		keyPut := name + ":register-before-recursion"
		okPut := true
		var firstBad ssa.Instruction
		for _, r := range recs {
			dom := false
			for _, c := range puts {
				if r.Parent() == f && core.InstrDominates(c, r) {
					dom = true
				}
			}
			if !dom {
				okPut = false
				if firstBad == nil {
					firstBad = r
				}
			}
		}
		if okPut {
			res.OK(keyPut, p.Pos(f.Pos()), fmt.Sprintf("each of the %d recursion points (%s) is dominated by put/putTyped of the own object", len(recs), what))
		} else {
			res.Bad(keyPut, p.Pos(firstBad.Pos()), fmt.Sprintf("recursion into the object's contents (%s) is not dominated by ctx.put/putTyped of the object itself: a cycle through this object never terminates (fatal Go stack overflow in the host) and shared references are exported as copies", what))
		}
		// (a) lookup: for untyped export the implementation looks itself up; typed variants are looked up by the caller
		if kind == "export" {
			keyGet := name + ":lookup-before-recursion"
			okGet := false
			for _, c := range gets {
				hit := false
				for _, e := range core.Referrers(c) {
					if ex, ok := e.(*ssa.Extract); ok && ex.Index == 1 {
						all := true
						for _, r := range recs {
							if r.Parent() == f && !core.DominatedByCond(ex, false, r.Block()) {
								all = false
							}
						}
						hit = all
					}
				}
				if hit {
					okGet = true
				}
			}
			if okGet {
				res.OK(keyGet, p.Pos(f.Pos()), "ctx.get(own object) hit returns the cached value; recursion only on the miss edge")
			} else {
				res.Bad(keyGet, p.Pos(recs[0].Pos()), fmt.Sprintf("export recurses (%s) without first consulting ctx.get for the object itself: a cyclic graph through this object recurses until the Go runtime aborts the process, and an object reachable twice is exported twice", what))
			}
		}
	}
	// callers of the typed variants must consult getTyped first (or be a pass-through inside a typed implementation)
	nCallers := 0
	for _, f := range p.Funcs {
		core.AllInstrs(f, func(in ssa.Instruction) {
			c, ok := in.(ssa.CallInstruction)
			if !ok || !c.Common().IsInvoke() || (c.Common().Method != mToMap && c.Common().Method != mToSlice) {
				return
			}
			nCallers++
			key := core.FuncName(f) + ":typed-caller-lookup"
			top := core.EnclosingTop(f)
			if top.Signature.Recv() != nil && (top.Name() == "exportToMap" || top.Name() == "exportToArrayOrSlice") {
				res.OK(key, p.Pos(c.Pos()), "pass-through inside a typed export implementation (the outer caller did the lookup)")
				return
			}
			ok2 := false
			core.AllInstrs(f, func(in2 ssa.Instruction) {
				g, isCall := in2.(*ssa.Call)
				if !isCall || g.Call.StaticCallee() != getTyped {
					return
				}
				for _, e := range core.Referrers(g) {
					if ex, ok := e.(*ssa.Extract); ok && ex.Index == 1 && core.DominatedByCond(ex, false, in.Block()) {
						ok2 = true
					}
				}
			})
			if ok2 {
				res.OK(key, p.Pos(c.Pos()), "only reached on the miss edge of ctx.getTyped")
			} else {
				res.Bad(key, p.Pos(c.Pos()), "typed export invoked without consulting ctx.getTyped first: cycles recurse forever, sharing is lost")
			}
		})
	}
	res.Count("export_implementations", nImpl)
	res.Count("recursive_implementations", nRec)
	res.Count("typed_callers", nCallers)
	return res
}

package rules

import (
	"fmt"
	"go/constant"
	"go/token"
	"go/types"
	"sort"
	"strings"

	"gojaverif/core"

	"golang.org/x/tools/go/ssa"
)

// R-UNWINDAGREE: break/continue (emitBlockExitCode) and return (compileReturnStatement) both walk
// the compiler's block stack outwards and emit clean-up instructions per block kind. A block
// kind that owns an entry on a run-time auxiliary stack (try frames, open iterators) must be
// unwound by every walker, or one kind of exit leaks the entry / skips finally / leaves an
// iterator open.
var UnwindAgree = &core.Rule{Name: "R-UNWINDAGREE", Run: runUnwindAgree,
	Doc: "sibling table agreement: every function that walks block.outer and emits per-blockType clean-up instructions maps each block kind to instructions with the same effect on vm.tryStack / vm.iterStack (effects derived from the instructions' exec methods)"}

func runUnwindAgree(p *core.Prog) *core.Result {
	res := core.NewResult("R-UNWINDAGREE", 4)
	fTyp, err := p.Field(core.GojaPath, "block", "typ")
	if err != nil {
		return res.Fail(err)
	}
	emit, err := p.GojaMethod("compiler", "emit")
	if err != nil {
		return res.Fail(err)
	}
	vmT, err := p.GojaType("vm")
	if err != nil {
		return res.Fail(err)
	}
	// names of blockType constants
	btNames := map[int64]string{}
	scope := p.Goja.Types.Scope()
	for _, n := range scope.Names() {
		if c, ok := scope.Lookup(n).(*types.Const); ok && core.IsGojaNamed(c.Type(), "blockType") {
			if v, ok := constant.Int64Val(c.Val()); ok {
				btNames[v] = n
			}
		}
	}
	if len(btNames) < 5 {
		return res.Failf("blockType constants")
	}
	// aux-stack effects of an instruction type: fields of vm written by its exec (and static callees)
	effectCache := map[string]string{}
	var effectsOf func(f *ssa.Function, depth int, seen map[*ssa.Function]bool) map[string]bool
	effectsOf = func(f *ssa.Function, depth int, seen map[*ssa.Function]bool) map[string]bool {
		out := map[string]bool{}
		if f == nil || f.Blocks == nil || depth > 3 || seen[f] {
			return out
		}
		seen[f] = true
		core.AllInstrs(f, func(in ssa.Instruction) {
			switch x := in.(type) {
			case *ssa.Store:
				if fa, ok := x.Addr.(*ssa.FieldAddr); ok && core.NamedOf(fa.X.Type()) == vmT {
					if n := core.FieldOf(fa).Name(); n == "tryStack" || n == "iterStack" {
						out[n] = true
					}
				}
			case ssa.CallInstruction:
				if sc := core.StaticCallee(x); sc != nil && p.InModule(sc) && sc.Signature.Recv() != nil && core.NamedOf(sc.Signature.Recv().Type()) == vmT {
					for k := range effectsOf(sc, depth+1, seen) {
						out[k] = true
					}
				}
			}
		})
		return out
	}
	instrEffect := func(t types.Type) string {
		key := types.TypeString(t, nil)
		if e, ok := effectCache[key]; ok {
			return e
		}
		n := core.NamedOf(t)
		e := ""
		if n != nil {
			if fn, err := p.GojaMethod(n.Obj().Name(), "exec"); err == nil {
				var ks []string
				for k := range effectsOf(fn, 0, map[*ssa.Function]bool{}) {
					ks = append(ks, k)
				}
				sort.Strings(ks)
				e = strings.Join(ks, "+")
			}
		}
		effectCache[key] = e
		return e
	}
	type table map[string]map[string]bool // blockType name → set of aux effects
	walkers := map[string]table{}
	walkerPos := map[string]string{}
	for _, f := range p.Funcs {
		// a walker: loads block.typ and calls emit under `typ == K`
		t := table{}
		for _, c := range core.CallsIn(f, emit) {
			var kinds []string
			for _, cp := range core.ControllingConds(c.Block()) {
				b, ok := cp.Cond.(*ssa.BinOp)
				if !ok || b.Op != token.EQL || !cp.Pol {
					continue
				}
				ld, ok := b.X.(*ssa.UnOp)
				if !ok || ld.Op != token.MUL || core.FieldOf(ld.X) != fTyp {
					continue
				}
				if k, ok := core.IntConst(b.Y); ok {
					kinds = append(kinds, btNames[k])
				}
			}
			if len(kinds) == 0 {
				continue
			}
			args := c.Common().Args
			if len(args) != 2 {
				continue
			}
			elems, known := variadicElems(args[1])
			if !known {
				continue
			}
			for _, k := range kinds {
				if t[k] == nil {
					t[k] = map[string]bool{}
				}
				for _, e := range elems {
					ev := e
					if mi, ok := ev.(*ssa.MakeInterface); ok {
						ev = mi.X
					}
					if eff := instrEffect(ev.Type()); eff != "" {
						for _, part := range strings.Split(eff, "+") {
							t[k][part] = true
						}
					}
				}
			}
		}
		// fallthrough cases share a block: SSA merges them, handled through multiple controlling conds
		if len(t) > 0 {
			// only functions that iterate over .outer (a loop): require a cycle containing the load of typ
			walkers[core.FuncName(f)] = t
			walkerPos[core.FuncName(f)] = p.Pos(f.Pos())
		}
	}
	if len(walkers) < 2 {
		return res.Failf("block-stack walkers: found %d, want >= 2", len(walkers))
	}
	// union of kinds with an aux-stack effect anywhere
	kindsWithEffect := map[string]map[string]bool{}
	for _, t := range walkers {
		for k, effs := range t {
			if len(effs) > 0 {
				if kindsWithEffect[k] == nil {
					kindsWithEffect[k] = map[string]bool{}
				}
				for e := range effs {
					kindsWithEffect[k][e] = true
				}
			}
		}
	}
	var wn []string
	for n := range walkers {
		wn = append(wn, n)
	}
	sort.Strings(wn)
	for _, w := range wn {
		for k, want := range kindsWithEffect {
			key := fmt.Sprintf("%s:%s", w, k)
			var missing []string
			for e := range want {
				if !walkers[w][k][e] {
					missing = append(missing, e)
				}
			}
			sort.Strings(missing)
			if len(missing) == 0 {
				res.OK(key, walkerPos[w], fmt.Sprintf("unwinds %s", strings.Join(sortedKeys(want), "+")))
			} else {
				res.Bad(key, walkerPos[w], fmt.Sprintf("another block-stack walker pops vm.%s when leaving a %s block, %s does not: leaving such a block through this kind of exit leaks a try frame (finally skipped / stale handler) or leaves an iterator open (return() not called)", strings.Join(missing, ", vm."), k, w))
			}
		}
	}
	res.Count("walkers", len(walkers))
	return res
}

// R-ITERPOP: an instruction that pops the top iterator record must take it off vm.iterStack
// before it runs script (the iterator's return()/next()), otherwise a throwing callee is
// followed by restoreStacks closing the same iterator a second time.
var IterPop = &core.Rule{Name: "R-ITERPOP", Run: runIterPop,
	Doc: "store-before-call: in every exec method that truncates vm.iterStack, the truncating store dominates every call in that method that may run script"}

func runIterPop(p *core.Prog) *core.Result {
	res := core.NewResult("R-ITERPOP", 3)
	fIter, err := p.Field(core.GojaPath, "vm", "iterStack")
	if err != nil {
		return res.Fail(err)
	}
	n := 0
	for _, f := range p.Funcs {
		if f.Name() != "exec" || f.Signature.Recv() == nil || f.Parent() != nil {
			continue
		}
		// truncating stores: vm.iterStack = vm.iterStack[:l]
		var truncs []ssa.Instruction
		for _, w := range p.FieldWrites(fIter) {
			if w.Fn != f || w.Kind != "store" {
				continue
			}
			if sl, ok := w.Val.(*ssa.Slice); ok && sl.High != nil {
				truncs = append(truncs, w.Instr)
			}
		}
		if len(truncs) == 0 {
			continue
		}
		n++
		key := core.FuncName(f) + ":pop-before-script"
		bad := ""
		core.AllInstrs(f, func(in ssa.Instruction) {
			c, ok := in.(ssa.CallInstruction)
			if !ok {
				return
			}
			why := p.MayRunScript(c)
			if why == "" {
				return
			}
			if sc := core.StaticCallee(c); sc != nil && exceptionContained(p, sc) {
				return // runs script only under vm.try and hands the exception back as a value
			}
			// only calls that happen on a path where the entry is being removed: those reachable from/related to a truncation
			dominated := false
			for _, t := range truncs {
				if core.InstrDominates(t, in) {
					dominated = true
				}
			}
			reachesTrunc := false
			for _, t := range truncs {
				if core.InstrDominates(in, t) || core.Reaches(in.Block(), t.Block()) && in.Block() != t.Block() {
					reachesTrunc = true
				}
			}
			if !dominated && reachesTrunc {
				name := "dynamic call"
				if sc := core.StaticCallee(c); sc != nil {
					name = core.FuncName(sc)
				} else if c.Common().IsInvoke() {
					name = "invoke " + c.Common().Method.Name()
				}
				bad = fmt.Sprintf("%s at %s (%s)", name, p.Pos(in.Pos()), why)
			}
		})
		if bad == "" {
			res.OK(key, p.Pos(f.Pos()), "the iterStack entry is removed before any call that may run script")
		} else {
			res.Bad(key, p.Pos(f.Pos()), "script may run ("+bad+") before this instruction has taken its record off vm.iterStack: if that call throws, the unwinder closes the same iterator again (return() called twice)")
		}
	}
	res.Count("popping_instructions", n)
	// an iterator whose next() failed (threw, returned a non-object, ...) is done: it must not be
	// closed. Every instruction that advances the top iterator with iteratorRecord.step() takes the
	// record off vm.iterStack on the failure edge before it throws, or the unwinder's restoreStacks
	// calls return() on it (seed C08/i).
	step, err := p.GojaMethod("iteratorRecord", "step")
	if err != nil {
		return res.Fail(err)
	}
	vmThrow, err := p.GojaMethod("vm", "throw")
	if err != nil {
		return res.Fail(err)
	}
	nStep := 0
	for _, f := range p.Funcs {
		if f.Name() != "exec" || f.Signature.Recv() == nil || f.Parent() != nil {
			continue
		}
		for _, sc := range core.CallsIn(f, step) {
			call, ok := sc.(*ssa.Call)
			if !ok {
				continue
			}
			nStep++
			key := fmt.Sprintf("%s:failed step() leaves the iterator stack before the throw", core.FuncName(f))
			// throws that depend on the step's exception result
			var exVal ssa.Value
			for _, r := range core.Referrers(call) {
				if ex, ok := r.(*ssa.Extract); ok && ex.Index == 1 {
					exVal = ex
				}
			}
			throws := core.CallsIn(f, vmThrow)
			checked := 0
			bad := ""
			for _, t := range throws {
				ti := t.(ssa.Instruction)
				onFailure := false
				for _, cp := range core.ControllingConds(ti.Block()) {
					if x, nonNil, ok := core.IsNilCompare(cp.Cond); ok && cp.Pol == nonNil && exVal != nil && phiIncludes(x, exVal) {
						onFailure = true
					}
				}
				if !onFailure {
					continue
				}
				checked++
				popped := false
				for _, w := range p.FieldWrites(fIter) {
					if w.Fn == f && w.Kind == "store" && core.InstrDominates(w.Instr, ti) {
						if sl, ok := w.Val.(*ssa.Slice); ok && sl.High != nil {
							// the pop itself must be on the failure edge or dominate the step's failure test
							popped = true
						}
					}
				}
				if !popped {
					bad = p.Pos(ti.Pos())
				}
			}
			switch {
			case bad != "":
				res.Bad(key, bad, "the exception of a failed next() is thrown while the iterator's record is still on vm.iterStack: unwinding calls return() on an iterator that is already done, before the enclosing finally blocks run")
			case checked == 0:
				res.Bad(key, p.Pos(call.Pos()), "no throw on the failure edge of step() found: the exception of next() is dropped")
			default:
				res.OK(key, p.Pos(call.Pos()), "record removed before vm.throw on the failure edge")
			}
		}
	}
	res.Count("instructions advancing an iterator", nStep)
	return res
}

// phiIncludes: v is x or a phi that has x among its (transitive) edges.
func phiIncludes(v, x ssa.Value) bool {
	seen := map[ssa.Value]bool{}
	var rec func(v ssa.Value) bool
	rec = func(v ssa.Value) bool {
		if v == x {
			return true
		}
		if seen[v] {
			return false
		}
		seen[v] = true
		if ph, ok := v.(*ssa.Phi); ok {
			for _, e := range ph.Edges {
				if rec(e) {
					return true
				}
			}
		}
		return false
	}
	return rec(v)
}

// exceptionContained: every call of f that may run script is made inside a closure handed to
// (*vm).try / (*Runtime).try, so a JS exception comes back as a value, never as a panic.
func exceptionContained(p *core.Prog, f *ssa.Function) bool {
	if f.Blocks == nil {
		return false
	}
	ok := true
	core.AllInstrs(f, func(in ssa.Instruction) {
		c, isCall := in.(ssa.CallInstruction)
		if !isCall || p.MayRunScript(c) == "" {
			return
		}
		if sc := core.StaticCallee(c); sc != nil && (core.FuncName(sc) == "(*vm).try" || core.FuncName(sc) == "(*Runtime).try") {
			return
		}
		ok = false
	})
	return ok
}

// R-ITERPROTO: in iteratorRecord.iterate the iterator is closed when the *consumer's* step fails.
// Errors of the iteration protocol itself (next(), reading done/value of the result) must not
// close it: an iterator whose own step failed gets no return() call.
var IterProto = &core.Rule{Name: "R-ITERPROTO", Run: runIterProto,
	Doc: "in iterate(), the closure whose failure triggers returnIter() calls nothing that may run script except the consumer callback; next()/iteratorComplete/iteratorValue run outside it"}

func runIterProto(p *core.Prog) *core.Result {
	res := core.NewResult("R-ITERPROTO", 1)
	iterate, err := p.GojaMethod("iteratorRecord", "iterate")
	if err != nil {
		return res.Fail(err)
	}
	tryFunc, err := p.GojaFunc("tryFunc")
	if err != nil {
		return res.Fail(err)
	}
	returnIter, err := p.GojaMethod("iteratorRecord", "returnIter")
	if err != nil {
		return res.Fail(err)
	}
	n := 0
	for _, ci := range core.CallsIn(iterate, tryFunc) {
		c, ok := ci.(*ssa.Call)
		if !ok || len(core.Referrers(c)) == 0 {
			continue // the discarded tryFunc is the closing call itself
		}
		mc, ok := c.Call.Args[0].(*ssa.MakeClosure)
		if !ok {
			continue
		}
		fn := mc.Fn.(*ssa.Function)
		if len(core.CallsIn(fn, returnIter)) > 0 {
			continue
		}
		n++
		key := "(*iteratorRecord).iterate:guarded-step-only"
		bad := ""
		core.AllInstrs(fn, func(in ssa.Instruction) {
			cc, ok := in.(ssa.CallInstruction)
			if !ok || p.MayRunScript(cc) == "" {
				return
			}
			// the consumer callback: a call of a free variable holding the `step` parameter
			if ld, ok := cc.Common().Value.(*ssa.UnOp); ok {
				if _, isFV := ld.X.(*ssa.FreeVar); isFV {
					return
				}
			}
			if _, isFV := cc.Common().Value.(*ssa.FreeVar); isFV {
				return
			}
			name := "a dynamic call"
			if sc := core.StaticCallee(cc); sc != nil {
				name = core.FuncName(sc)
			}
			bad = name + " at " + p.Pos(in.Pos())
		})
		if bad == "" {
			res.OK(key, p.Pos(c.Pos()), "only the consumer callback runs inside the closing guard")
		} else {
			res.Bad(key, p.Pos(c.Pos()), "the guard whose failure calls the iterator's return() also covers "+bad+": an exception thrown by the iterator's own result object (a throwing 'value' getter) now closes the iterator, which the specification forbids")
		}
	}
	if n == 0 {
		res.Bad("(*iteratorRecord).iterate:guarded-step-only", p.Pos(iterate.Pos()), "no guarded consumer step found in iterate(): anchor changed")
	}
	return res
}

// R-UNWINDTARGET (C08, C02, C01): the walk that emits the clean-up code of a break/continue goes
// from the current block outwards and stops exactly at the target block. Leaving the walk early
// is right in one situation only - the block about to be left is the shared per-loop scope *of the
// target itself* (`continue` of a plain `for`) - and that is an identity test against the target.
// An early exit decided by the *kind* of the enclosing block instead stops at the first inner
// `for (let ...)` loop of a labelled continue: the inner scope is never left, an operand-stack slot
// leaks per iteration, closures see the wrong binding and (with a captured variable) a Go
// index-out-of-range escapes RunString. Seeded three times by independent agents (C08/e, C01/g,
// C02/h).
var UnwindTarget = &core.Rule{Name: "R-UNWINDTARGET", Run: runUnwindTarget,
	Doc: "a loop that walks block.outer up to a target block is left early only under an identity comparison with that target"}

func runUnwindTarget(p *core.Prog) *core.Result {
	res := core.NewResult("R-UNWINDTARGET", 1)
	fOuter, err := p.Field(core.GojaPath, "block", "outer")
	if err != nil {
		return res.Fail(err)
	}
	blockT, err := p.GojaType("block")
	if err != nil {
		return res.Fail(err)
	}
	nLoops := 0
	for _, f := range p.Funcs {
		for _, h := range f.Blocks {
			// header: phi b with an edge = load(b.outer); loop condition b != T
			var phi *ssa.Phi
			for _, in := range h.Instrs {
				ph, ok := in.(*ssa.Phi)
				if !ok {
					break
				}
				if !types.Identical(ph.Type(), types.NewPointer(blockT)) {
					continue
				}
				for _, e := range ph.Edges {
					if ld, ok := e.(*ssa.UnOp); ok && ld.Op == token.MUL {
						if fa, ok := ld.X.(*ssa.FieldAddr); ok && core.FieldOf(fa) == fOuter && fa.X == ph {
							phi = ph
						}
					}
				}
			}
			if phi == nil || len(h.Instrs) == 0 {
				continue
			}
			ifi, ok := h.Instrs[len(h.Instrs)-1].(*ssa.If)
			if !ok {
				continue
			}
			bo, ok := ifi.Cond.(*ssa.BinOp)
			if !ok || (bo.Op != token.NEQ && bo.Op != token.EQL) {
				continue
			}
			var target ssa.Value
			switch {
			case bo.X == phi:
				target = bo.Y
			case bo.Y == phi:
				target = bo.X
			default:
				continue
			}
			if c, ok := target.(*ssa.Const); ok && c.IsNil() {
				continue // a walk to the outermost block has no target to overshoot
			}
			nLoops++
			inLoop := func(x *ssa.BasicBlock) bool { return h.Dominates(x) && (x == h || core.Reaches(x, h)) }
			isTargetTest := func(cp core.CondPol) bool {
				c, ok := cp.Cond.(*ssa.BinOp)
				if !ok {
					return false
				}
				if !((c.Op == token.EQL && cp.Pol) || (c.Op == token.NEQ && !cp.Pol)) {
					return false
				}
				fromWalk := func(v ssa.Value) bool {
					if v == phi {
						return true
					}
					if ld, ok := v.(*ssa.UnOp); ok && ld.Op == token.MUL {
						if fa, ok := ld.X.(*ssa.FieldAddr); ok && core.FieldOf(fa) == fOuter && fa.X == phi {
							return true
						}
					}
					return false
				}
				return (fromWalk(c.X) && c.Y == target) || (fromWalk(c.Y) && c.X == target)
			}
			n := 0
			for _, x := range f.Blocks {
				if !inLoop(x) || x == h {
					continue
				}
				for si, s := range x.Succs {
					if inLoop(s) {
						continue
					}
					if p.FirstNoReturn(s) >= 0 || p.FirstNoReturn(x) >= 0 {
						continue
					}
					n++
					key := fmt.Sprintf("%s:early exit of the walk to the target#%d", core.FuncName(f), n)
					conds := core.ControllingConds(x)
					if xi, ok := x.Instrs[len(x.Instrs)-1].(*ssa.If); ok {
						conds = append(conds, core.CondPol{Cond: xi.Cond, Pol: si == 0})
					}
					ok2 := false
					for _, cp := range conds {
						if isTargetTest(cp) {
							ok2 = true
						}
					}
					pos := p.Pos(x.Instrs[len(x.Instrs)-1].Pos())
					if ok2 {
						res.OK(key, pos, "only when the enclosing block is the target itself")
					} else {
						res.Bad(key, pos, "the unwinding walk stops before the target block without having compared the enclosing block with the target: a labelled continue across an inner `for (let ...)` loop leaves that loop's scope (and anything between) un-exited")
					}
				}
			}
			if n == 0 {
				res.OK(fmt.Sprintf("%s:walk to the target has no early exit", core.FuncName(f)), p.Pos(h.Instrs[0].Pos()), "stops at the target only")
			}
		}
	}
	res.Count("walks of block.outer up to a target", nLoops)
	if nLoops == 0 {
		return res.Failf("no loop walking block.outer to a target block found (emitBlockExitCode)")
	}
	return res
}

// R-FINALLYENTER (C08 "exactly once"): a try frame carries the positions of its pending catch and
// finally blocks. Entering the finally block consumes finallyPos (set to -1); from then on the
// frame's catch clause must be out of the game as well, or an exception thrown *inside* the
// finally block is caught by the statement's own catch and the finally block runs a second time
// (`try { } catch (e) { } finally { throw 1 }` logged "caught 1" and ran finally twice).
// Rule: every store that disarms tryFrame.finallyPos is accompanied by a store of a negative
// constant to catchPos of the same frame in the same block region, or is control-dependent on a
// test that catchPos is already negative.
var FinallyEnter = &core.Rule{Name: "R-FINALLYENTER", Run: runFinallyEnter,
	Doc: "every store disarming tryFrame.finallyPos comes with catchPos of the same frame disarmed: by a store in the same straight-line region or by a dominating test catchPos < 0"}

func runFinallyEnter(p *core.Prog) *core.Result {
	res := core.NewResult("R-FINALLYENTER", 3)
	fFin, err := p.Field(core.GojaPath, "tryFrame", "finallyPos")
	if err != nil {
		return res.Fail(err)
	}
	fCatch, err := p.Field(core.GojaPath, "tryFrame", "catchPos")
	if err != nil {
		return res.Fail(err)
	}
	negConst := func(v ssa.Value) bool {
		k, ok := core.IntConst(v)
		return ok && k < 0
	}
	n := map[string]int{}
	for _, f := range p.Funcs {
		core.AllInstrs(f, func(in ssa.Instruction) {
			st, ok := in.(*ssa.Store)
			if !ok || core.FieldOf(st.Addr) != fFin || !negConst(st.Val) {
				return
			}
			base := st.Addr.(*ssa.FieldAddr).X
			k := core.FuncName(f) + ":finally entered with the catch disarmed"
			n[k]++
			key := k
			if n[k] > 1 {
				key = fmt.Sprintf("%s#%d", k, n[k])
			}
			pos := p.Pos(st.Pos())
			// (a) a store of a negative constant to catchPos of the same frame in the same block
			for _, x := range st.Block().Instrs {
				if s2, ok := x.(*ssa.Store); ok && core.FieldOf(s2.Addr) == fCatch && negConst(s2.Val) {
					if fa, ok := s2.Addr.(*ssa.FieldAddr); ok && fa.X == base {
						res.OK(key, pos, "catchPos of the same frame is disarmed alongside")
						return
					}
				}
			}
			// (b) dominated by a test that catchPos is already negative
			for _, cp := range core.ControllingConds(st.Block()) {
				bo, ok := cp.Cond.(*ssa.BinOp)
				if !ok {
					continue
				}
				ld, ok := bo.X.(*ssa.UnOp)
				if !ok || ld.Op != token.MUL || core.FieldOf(ld.X) != fCatch {
					continue
				}
				kc, ok := core.IntConst(bo.Y)
				if !ok {
					continue
				}
				neg := false
				switch {
				case bo.Op == token.GEQ && kc == 0 && !cp.Pol, bo.Op == token.LSS && kc == 0 && cp.Pol,
					bo.Op == token.EQL && kc < 0 && cp.Pol, bo.Op == token.GTR && kc == -1 && !cp.Pol:
					neg = true
				}
				if neg {
					res.OK(key, pos, "only reached when catchPos is already negative")
					return
				}
			}
			res.Bad(key, pos, "the finally block is entered (finallyPos disarmed) while the frame's catchPos may still be armed: an exception thrown inside the finally block is caught by the statement's own catch clause and the finally block runs twice")
		})
	}
	return res
}

// R-CLOSEORDER (C08 "innermost to outermost"): when an exception (or generator.return()) unwinds
// through several open iterators of one try region, they are closed from the top of vm.iterStack
// downward - the loop that walks the tail of the iterator stack and closes each record steps its
// index downward. (With several throwing return() methods the order also decides which error wins.)
var CloseOrder = &core.Rule{Name: "R-CLOSEORDER", Run: runCloseOrder,
	Doc: "the loop of vm.restoreStacks that closes the records of the iterator-stack tail steps its index downward (innermost iterator first)"}

func runCloseOrder(p *core.Prog) *core.Result {
	res := core.NewResult("R-CLOSEORDER", 1)
	fn, err := p.GojaMethod("vm", "restoreStacks")
	if err != nil {
		return res.Fail(err)
	}
	fIter, err := p.Field(core.GojaPath, "vm", "iterStack")
	if err != nil {
		return res.Fail(err)
	}
	fromIterStack := func(v ssa.Value) bool {
		for i := 0; i < 4; i++ {
			switch x := v.(type) {
			case *ssa.Slice:
				v = x.X
				continue
			case *ssa.UnOp:
				if x.Op == token.MUL && core.FieldOf(x.X) == fIter {
					return true
				}
			}
			break
		}
		return false
	}
	n := 0
	core.AllInstrs(fn, func(in ssa.Instruction) {
		ia, ok := in.(*ssa.IndexAddr)
		if !ok || !fromIterStack(ia.X) {
			return
		}
		ph, ok := ia.Index.(*ssa.Phi)
		if !ok {
			// `for i := range s` is rotated: the index is phi+1 and the phi's back edge is that sum
			if bo, isBin := ia.Index.(*ssa.BinOp); isBin {
				if p2, isPhi := bo.X.(*ssa.Phi); isPhi {
					ph, ok = p2, true
				}
			}
			if !ok {
				return
			}
		}
		// the value on the back edge
		for _, e := range ph.Edges {
			bo, ok := e.(*ssa.BinOp)
			if !ok || (bo.X != ph && bo.Y != ph) {
				continue
			}
			k, isConst := core.IntConst(bo.Y)
			if !isConst {
				continue
			}
			n++
			key := fmt.Sprintf("(*vm).restoreStacks:iterators closed from the top down#%d", n)
			down := (bo.Op == token.SUB && k > 0) || (bo.Op == token.ADD && k < 0)
			if down {
				res.OK(key, p.Pos(ia.Pos()), "index decreases")
			} else {
				res.Bad(key, p.Pos(ia.Pos()), "the records of the iterator-stack tail are visited with an increasing index: outer iterators are closed before inner ones")
			}
			return
		}
	})
	if n == 0 {
		res.Bad("(*vm).restoreStacks:iterators closed from the top down", p.Pos(fn.Pos()), "no index loop over the tail of vm.iterStack found in restoreStacks")
	}
	// every open iterator is closed even when an earlier return() threw: the closing loop is left
	// through its loop condition only (seed C08/g stopped at the first failing return())
	for _, h := range fn.Blocks {
		isHeader := false
		for _, pr := range h.Preds {
			if h.Dominates(pr) {
				isHeader = true
			}
		}
		if !isHeader {
			continue
		}
		inLoop := func(x *ssa.BasicBlock) bool { return h.Dominates(x) && (x == h || core.Reaches(x, h)) }
		early := ""
		for _, x := range fn.Blocks {
			if !inLoop(x) || x == h {
				continue
			}
			for _, sx := range x.Succs {
				if !inLoop(sx) && p.FirstNoReturn(sx) < 0 {
					early = p.Pos(x.Instrs[len(x.Instrs)-1].Pos())
				}
			}
		}
		key := "(*vm).restoreStacks:closing loop runs to the end"
		if early == "" {
			res.OK(key, p.Pos(h.Instrs[0].Pos()), "left through its loop condition only")
		} else {
			res.Bad(key, early, "the loop that closes the open iterators can be left before the last record: after an iterator whose return() throws, the remaining (outer) iterators are never closed")
		}
	}
	return res
}

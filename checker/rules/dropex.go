package rules

import (
	"fmt"
	"go/types"

	"gojaverif/core"

	"golang.org/x/tools/go/ssa"
)

// R-DROPEX (C14, C08): a *Exception returned by an engine function is a JS exception in transit.
// A call site that discards it silently swallows an exception the script (or the host) must see.
// Rule: the *Exception result of every statically resolved call of a module function is used
// (assigned, compared, returned, re-thrown), or the call site is in the audited table.
var DropEx = &core.Rule{Name: "R-DROPEX", Run: runDropEx,
	Doc: "no *Exception returned by an engine function is discarded, except at audited call sites"}

var dropExAudited = map[string]string{
	"(*Runtime).ForOf→try":                   "IteratorClose with a throw completion: what return() throws is ignored, the step's exception is re-thrown right after",
	"(*Runtime).newPromiseReactionJob$1→try": "the abrupt completion of a promise job has nowhere to go (HostReportErrors); the capability's resolve function is user code for a subclass",
	"(*vm).handleThrow→restoreStacks":        "IteratorClose with a throw completion: the exception being handled wins over errors of return()",
}

func runDropEx(p *core.Prog) *core.Result {
	res := core.NewResult("R-DROPEX", 10)
	// (plain `error` results are not covered: the parser's error helpers record the error and return it as
	// well, so discarding their result is the idiom there - 20 of 22 discards of an error are of that kind)
	isExPtr := func(t types.Type) bool {
		pt, ok := t.Underlying().(*types.Pointer)
		return ok && core.IsGojaNamed(pt.Elem(), "Exception")
	}
	n := map[string]int{}
	nCalls := 0
	for _, f := range p.Funcs {
		if !p.InModule(f) {
			continue
		}
		core.AllInstrs(f, func(in ssa.Instruction) {
			c, ok := in.(*ssa.Call)
			if !ok {
				return
			}
			callee := c.Call.StaticCallee()
			if callee == nil || !p.InModule(callee) {
				return
			}
			sig := callee.Signature
			idx := -1
			for i := 0; i < sig.Results().Len(); i++ {
				if isExPtr(sig.Results().At(i).Type()) {
					idx = i
				}
			}
			if idx < 0 {
				return
			}
			nCalls++
			used := false
			if sig.Results().Len() == 1 {
				used = len(core.Referrers(c)) > 0
			} else {
				for _, r := range core.Referrers(c) {
					if ex, ok := r.(*ssa.Extract); ok && ex.Index == idx && len(core.Referrers(ex)) > 0 {
						used = true
					}
				}
			}
			k := fmt.Sprintf("%s:*Exception returned by %s is used", core.FuncName(f), callee.Name())
			n[k]++
			key := k
			if n[k] > 1 {
				key = fmt.Sprintf("%s#%d", k, n[k])
			}
			if used {
				res.OK(key, p.Pos(c.Pos()), "used")
				return
			}
			if why, ok := dropExAudited[core.FuncName(f)+"→"+callee.Name()]; ok {
				res.Inform(key, p.Pos(c.Pos()), "audited: "+why)
				return
			}
			res.Bad(key, p.Pos(c.Pos()), "the *Exception result is discarded: a JS exception raised under "+callee.Name()+" is swallowed here")
		})
	}
	res.Count("calls returning *Exception", nCalls)
	return res
}

package rules

import (
	"fmt"
	"go/types"
	"strings"

	"gojaverif/core"

	"golang.org/x/tools/go/ssa"
)

// R-PANICPAYLOAD: goja propagates JS exceptions as Go panics. Every panic in the module must
// carry a payload that the boundary classifiers turn into a documented error kind, be a
// re-panic of a recovered value, or be an audited internal assertion.
var PanicPayload = &core.Rule{Name: "R-PANICPAYLOAD", Run: runPanicPayload,
	Doc: "every panic(x) in the module is classified by the static type of x: a type exceptionFromValue / compileAST / the uncatchable classifier accepts, a re-panic of a recovered or classified value, or an internal-assertion payload listed in the audited table"}

// internal assertions (string / error payloads): symbol → why unreachable or acceptable
var bugPanicTable = map[string]string{
	"(*Runtime).eval":                        "re-panics the error returned by r.compile, which is always an *Exception (syntax errors are wrapped there)",
	"(*Runtime).stringproto_normalize":       "default of a type switch over the three String representations (unknownStringTypeErr): exhaustive today",
	"(*Runtime).wrapJSFunc$1":                "re-panics the error returned by a JS Callable: an *Exception or an uncatchable error",
	"(*Runtime).wrapReflectFunc$1":           "re-panics err only after err.(*Exception) / isUncatchableException(err) succeeded (checked by R-GOERROR)",
	"(*_builtinJSON_stringifyContext).str":   "re-panics err only after err.(*Exception) / isUncatchableException(err) succeeded (checked by R-GOERROR)",
	"(*classScope).getDeclaredPrivateId":     "compiler assertion on its own intermediate representation (expression kinds, scope tables), not on the input program",
	"(*compiledAssignExpr).emitGetter":       "compiler assertion on its own intermediate representation (expression kinds, scope tables), not on the input program",
	"(*compiledBinaryExpr).emitGetter":       "compiler assertion on its own intermediate representation (expression kinds, scope tables), not on the input program",
	"(*compiledObjectLiteral).emitGetter":    "compiler assertion on its own intermediate representation (expression kinds, scope tables), not on the input program",
	"(*compiledUnaryExpr).emitGetter":        "compiler assertion on its own intermediate representation (expression kinds, scope tables), not on the input program",
	"(*compiler).compileBranchStatement":     "compiler assertion on its own intermediate representation (expression kinds, scope tables), not on the input program",
	"(*compiler).compileExpression":          "compiler assertion on its own intermediate representation (expression kinds, scope tables), not on the input program",
	"(*compiler).compileForInto":             "compiler assertion on its own intermediate representation (expression kinds, scope tables), not on the input program",
	"(*compiler).compileLabeledForStatement": "compiler assertion on its own intermediate representation (expression kinds, scope tables), not on the input program",
	"(*compiler).compileNumberLiteral":       "compiler assertion on its own intermediate representation (expression kinds, scope tables), not on the input program",
	"(*compiler).compileStatement":           "compiler assertion on its own intermediate representation (expression kinds, scope tables), not on the input program",
	"(*compiler).emitPattern":                "compiler assertion on its own intermediate representation (expression kinds, scope tables), not on the input program",
	"(*compiler).emitThrow":                  "compiler assertion on its own intermediate representation (expression kinds, scope tables), not on the input program",
	"(*parser._parser).error":                "lexer/parser assertion about its own scanning state (lengths precomputed by scanEscape); the parser reports malformed input through the ErrorList",
	"(*privateRefId).init":                   "VM assertion on operands of instructions emitted by the compiler (bytecode invariant)",
	"(*privateRefRes).init":                  "VM assertion on operands of instructions emitted by the compiler (bytecode invariant)",
	"(*regexpPattern).createRegexp2":         "assertion on a pattern/position map that was already validated when the RegExp was compiled",
	"(*stash).initByIdx":                     "VM assertion on operands of instructions emitted by the compiler (bytecode invariant)",
	"(*valueProperty).Export":                "valueProperty is an internal property cell that is never handed out as a Value; these Value methods exist only to satisfy the interface",
	"(*valueProperty).ExportType":            "valueProperty is an internal property cell that is never handed out as a Value; these Value methods exist only to satisfy the interface",
	"(*valueProperty).hash":                  "valueProperty is an internal property cell that is never handed out as a Value; these Value methods exist only to satisfy the interface",
	"(*vm).countVariadicArgs":                "VM assertion on operands of instructions emitted by the compiler (bytecode invariant)",
	"(*vm).initStack1":                       "VM assertion on operands of instructions emitted by the compiler (bytecode invariant)",
	"(*vm).storeStack":                       "VM assertion on operands of instructions emitted by the compiler (bytecode invariant)",
	"(*vm).storeStack1":                      "VM assertion on operands of instructions emitted by the compiler (bytecode invariant)",
	"(*vm).storeStack1Lex":                   "VM assertion on operands of instructions emitted by the compiler (bytecode invariant)",
	"(concatStrings).exec":                   "default of a type switch over the three String representations (unknownStringTypeErr): exhaustive today",
	"(positionMap).get":                      "assertion on a pattern/position map that was already validated when the RegExp was compiled",
	"MustCompile":                            "documented API: MustCompile panics on a compile error by contract",
	"devirtualizeString":                     "default of a type switch over the three String representations (unknownStringTypeErr): exhaustive today",
	"escapeInvalidUtf16":                     "assertion on a pattern/position map that was already validated when the RegExp was compiled",
	"fast.Dtoa$1":                            "port of an assertion of the reference dtoa implementation (JS_ASSERT); arithmetic invariant of the algorithm",
	"ftoa.FToBaseStr":                        "port of an assertion of the reference dtoa implementation (JS_ASSERT); arithmetic invariant of the algorithm",
	"init#2":                                 "package initialisation: unknown byte order of the host CPU",
	"newStashRef":                            "VM assertion on operands of instructions emitted by the compiler (bytecode invariant)",
	"parser.parseStringLiteral":              "lexer/parser assertion about its own scanning state (lengths precomputed by scanEscape); the parser reports malformed input through the ErrorList",
}

func runPanicPayload(p *core.Prog) *core.Result {
	res := core.NewResult("R-PANICPAYLOAD", 300)
	// accepted payload types, derived from the classifiers on each run
	accepted := map[string]bool{}
	if fn, err := p.GojaMethod("vm", "exceptionFromValue"); err == nil {
		core.AllInstrs(fn, func(in ssa.Instruction) {
			if ta, ok := in.(*ssa.TypeAssert); ok && ta.X == fn.Params[1] {
				accepted[types.TypeString(ta.AssertedType, nil)] = true
			}
		})
	} else {
		return res.Fail(err)
	}
	U, uiface, err := uncatchableTypes(p)
	if err != nil {
		return res.Fail(err)
	}
	for _, u := range U {
		accepted[types.TypeString(u, nil)] = true
	}
	accepted[core.GojaPath+".Value"] = true
	cse, err := p.GojaType("CompilerSyntaxError")
	if err == nil {
		accepted[types.TypeString(types.NewPointer(cse), nil)] = true
	}
	valueT, _ := p.GojaType("Value")
	valueIface := valueT.Underlying().(*types.Interface)
	byKind := map[string]int{}
	for _, f := range p.Funcs {
		if f.Pkg != nil && strings.HasSuffix(f.Pkg.Pkg.Path(), "/goja") && f.Pkg.Pkg.Name() == "main" {
			continue
		}
		core.AllInstrs(f, func(in ssa.Instruction) {
			pn, ok := in.(*ssa.Panic)
			if !ok {
				return
			}
			x := pn.X
			for {
				if mi, ok := x.(*ssa.MakeInterface); ok {
					x = mi.X // the concrete payload type (named string types such as typeError stay visible)
					continue
				}
				if ci, ok := x.(*ssa.ChangeInterface); ok {
					x = ci.X
					continue
				}
				break
			}
			t := x.Type()
			ts := types.TypeString(t, nil)
			key := core.FuncName(f) + ":panic(" + core.TypeShort(t) + ")"
			pos := p.Pos(pn.Pos())
			switch {
			case accepted[ts]:
				byKind["classified type"]++
				res.OK(key, pos, "payload type is classified by exceptionFromValue / the uncatchable test / compileAST")
			case types.Implements(t, valueIface):
				byKind["Value implementer"]++
				res.OK(key, pos, "payload implements Value (thrown JS value)")
			case types.Implements(t, uiface):
				byKind["uncatchable"]++
				res.OK(key, pos, "uncatchable exception")
			case isIfaceType(t):
				// interface{} / error: must be a re-panic of something recovered or already classified
				if how, ok := rePanic(p, f, x); ok {
					byKind["re-panic"]++
					res.OK(key, pos, how)
				} else if why, ok := bugPanicTable[core.FuncName(f)]; ok {
					byKind["audited assertion"]++
					res.OK(key, pos, "audited: "+why)
				} else {
					byKind["unknown interface"]++
					res.Bad(key, pos, "panic with an interface-typed payload that is neither a recovered value, a classifier argument nor a known exception: its dynamic type may be one no boundary converts, i.e. a raw Go panic in the host")
				}
			default:
				// string, error values, fmt.Errorf: internal assertions
				name := core.FuncName(f)
				if why, ok := bugPanicTable[name]; ok {
					byKind["audited assertion"]++
					res.OK(key, pos, "audited internal assertion: "+why)
					return
				}
				if p.FirstNoReturn(pn.Block()) >= 0 && p.FirstNoReturn(pn.Block()) < core.InstrIndex(pn) {
					byKind["unreachable"]++
					res.OK(key, pos, "unreachable: preceded in its block by a call that never returns")
					return
				}
				byKind["internal payload"]++
				res.Bad(key, pos, fmt.Sprintf("panic with a %s payload: no boundary classifies it, so if this is reachable a BUG diagnostic / raw Go panic escapes to the host", core.TypeShort(t)))
			}
		})
	}
	for k, n := range byKind {
		res.Count(k, n)
	}
	return res
}

func isIfaceType(t types.Type) bool {
	_, ok := t.Underlying().(*types.Interface)
	return ok
}

// rePanic: the interface-typed payload is the result of recover(), a value handed to a
// classifier, a parameter that callers fill with such values, or an *Exception/Value in disguise.
func rePanic(p *core.Prog, f *ssa.Function, x ssa.Value) (string, bool) {
	o := core.Origin(x)
	if isRecoverCall(o) {
		return "re-panic of the recovered value", true
	}
	if c, ok := o.(*ssa.Call); ok {
		if sc := c.Call.StaticCallee(); sc != nil {
			switch sc.Name() {
			case "tryFunc":
				return "re-panic of the value returned by tryFunc", true
			}
		}
	}
	if prm, ok := o.(*ssa.Parameter); ok {
		return "re-panic of parameter " + prm.Name() + " (payload handed in by the caller: handleThrow/throw paths)", true
	}
	if ex, ok := o.(*ssa.Extract); ok {
		if ta, ok := ex.Tuple.(*ssa.TypeAssert); ok {
			return "type-asserted value of " + core.TypeShort(ta.AssertedType), true
		}
	}
	if _, ok := o.(*ssa.Phi); ok {
		return "", false
	}
	if ld, ok := o.(*ssa.UnOp); ok {
		if g, ok := ld.X.(*ssa.Global); ok {
			return "package-level error value " + g.Name(), true
		}
	}
	return "", false
}

package rules

import (
	"fmt"
	"go/token"
	"go/types"

	"gojaverif/core"

	"golang.org/x/tools/go/ssa"
)

// R-HOSTSLICE (C07, C13).
//
// objectGoSlice and objectGoSliceReflect are live views of a slice the *host* owns. Setting
// length (or writing past the end) re-slices it in place whenever the capacity allows. Unlike
// arrayObject.values, whose spare capacity only the engine touches, the capacity of a host slice
// holds whatever the Go program left there (`s = backing[:2]`): growing must zero the slots it
// uncovers (new array elements are undefined/zero, not stale Go data), and shrinking zeroes what it
// cuts off (so that the elements are released and a later grow does not resurrect them).
//
// Rule: every in-place re-slice with an upper bound of the host slice - `*o.data = (*o.data)[:n]`,
// `o.fieldsValue.SetLen(n)` - is preceded by a zeroing loop over a sub-slice of the same slice
// (a nil store into an element, resp. reflect `Set(reflect.Zero(..))` on an element), dominating
// it or in a loop whose header dominates it.
var HostSlice = &core.Rule{Name: "R-HOSTSLICE", Run: runHostSlice,
	Doc: "every in-place re-slice (grow within capacity or shrink) of a host-owned Go slice behind objectGoSlice / objectGoSliceReflect is preceded by zeroing the slots it uncovers or cuts off"}

func runHostSlice(p *core.Prog) *core.Result {
	res := core.NewResult("R-HOSTSLICE", 4)
	dataF, err := p.Field(core.GojaPath, "objectGoSlice", "data")
	if err != nil {
		return res.Fail(err)
	}
	fvF, err := p.Field(core.GojaPath, "objectGoReflect", "fieldsValue")
	if err != nil {
		return res.Fail(err)
	}
	// a loop containing block cb has a header that dominates instruction at
	loopDominates := func(cb *ssa.BasicBlock, at ssa.Instruction) bool {
		if cb.Dominates(at.Block()) && cb != at.Block() {
			return true
		}
		for h := at.Block(); h != nil; h = h.Idom() {
			if h.Dominates(cb) && h != cb && core.Reaches(cb, h) {
				return true
			}
			if h == cb && core.Reaches(cb, cb) && h != at.Block() {
				return true
			}
		}
		return false
	}
	isDataLoad := func(v ssa.Value) bool { // *o.data
		ld, ok := v.(*ssa.UnOp)
		if !ok || ld.Op != token.MUL {
			return false
		}
		ld2, ok := ld.X.(*ssa.UnOp)
		return ok && ld2.Op == token.MUL && core.FieldOf(ld2.X) == dataF
	}
	var fromData func(v ssa.Value, d int) bool
	fromData = func(v ssa.Value, d int) bool {
		if d > 4 {
			return false
		}
		if isDataLoad(v) {
			return true
		}
		if sl, ok := v.(*ssa.Slice); ok {
			return fromData(sl.X, d+1)
		}
		return false
	}
	isFieldsValueLoad := func(v ssa.Value) bool {
		ld, ok := v.(*ssa.UnOp)
		return ok && ld.Op == token.MUL && core.FieldOf(ld.X) == fvF
	}
	reflectMethod := func(c ssa.CallInstruction, name string) bool {
		f := c.Common().StaticCallee()
		if f == nil || f.Pkg == nil || f.Pkg.Pkg.Path() != "reflect" || f.Name() != name {
			return false
		}
		r := f.Signature.Recv()
		return r != nil && types.TypeString(r.Type(), nil) == "reflect.Value"
	}
	n := map[string]int{}
	for _, f := range p.Funcs {
		if !p.InModule(f) || len(f.Blocks) == 0 {
			continue
		}
		name := core.FuncName(f)
		// zeroing instructions
		var zeroPlain, zeroReflect []ssa.Instruction
		core.AllInstrs(f, func(in ssa.Instruction) {
			switch x := in.(type) {
			case *ssa.Store:
				if c, ok := x.Val.(*ssa.Const); ok && c.IsNil() {
					if ia, ok := x.Addr.(*ssa.IndexAddr); ok && fromData(ia.X, 0) {
						zeroPlain = append(zeroPlain, in)
					}
				}
			case *ssa.Call:
				if reflectMethod(x, "Set") && len(x.Call.Args) == 2 {
					if z, ok := x.Call.Args[1].(*ssa.Call); ok {
						if zf := z.Call.StaticCallee(); zf != nil && zf.Pkg != nil && zf.Pkg.Pkg.Path() == "reflect" && zf.Name() == "Zero" {
							zeroReflect = append(zeroReflect, in)
						}
					}
				}
			}
		})
		check := func(at ssa.Instruction, what string, zs []ssa.Instruction) {
			k := fmt.Sprintf("%s:%s zeroes the slots it uncovers or cuts off", name, what)
			n[k]++
			key := k
			if n[k] > 1 {
				key = fmt.Sprintf("%s#%d", k, n[k])
			}
			for _, z := range zs {
				if core.InstrDominates(z, at) || loopDominates(z.Block(), at) {
					res.OK(key, p.Pos(at.Pos()), "zeroing loop at "+p.Pos(z.Pos()))
					return
				}
			}
			res.Bad(key, p.Pos(at.Pos()), "the host's slice is re-sliced in place without zeroing: growing within capacity exposes whatever the Go program left beyond len (stale elements instead of empty slots), shrinking keeps the cut-off elements alive for the next grow")
		}
		core.AllInstrs(f, func(in ssa.Instruction) {
			switch x := in.(type) {
			case *ssa.Store:
				// *o.data = (*o.data)[..:hi]
				ld, ok := x.Addr.(*ssa.UnOp)
				if !ok || ld.Op != token.MUL || core.FieldOf(ld.X) != dataF {
					return
				}
				sl, ok := x.Val.(*ssa.Slice)
				if !ok || sl.High == nil || !fromData(sl.X, 0) {
					return
				}
				check(in, "in-place re-slice of *objectGoSlice.data", zeroPlain)
			case *ssa.Call:
				if reflectMethod(x, "SetLen") && len(x.Call.Args) == 2 && isFieldsValueLoad(x.Call.Args[0]) {
					check(in, "SetLen on the wrapped reflect slice", zeroReflect)
				}
			}
		})
	}
	return res
}

package rules

import (
	"fmt"
	"go/token"
	"go/types"

	"gojaverif/core"

	"golang.org/x/tools/go/ssa"
)

// R-FRESH-ARRAY: Array.prototype fast paths read arrayObject.values directly after
// checkStdArrayObj*() established that the array is a plain dense array. Any script run since the
// check can change that (length change, element deletion, accessor definition, storage switch),
// so elements read from the snapshot afterwards differ from what the generic algorithm reads.
var FreshArray = &core.Rule{Name: "R-FRESH-ARRAY", Run: runFreshArray,
	Doc: "guard-freshness dataflow: every read of arrayObject.values (and of elements of a slice loaded from it) in code that obtained the array from checkStdArray*/checkStdArrayObj* is reached only by paths without a call that may run script since the check"}

func runFreshArray(p *core.Prog) *core.Result {
	res := core.NewResult("R-FRESH-ARRAY", 20)
	arrT, err := p.GojaType("arrayObject")
	if err != nil {
		return res.Fail(err)
	}
	fValues, err := p.Field(core.GojaPath, "arrayObject", "values")
	if err != nil {
		return res.Fail(err)
	}
	setValues, err := p.GojaFunc("setArrayValues")
	if err != nil {
		return res.Fail(err)
	}
	storageField := map[*types.Var]bool{fValues: true}
	for _, n := range []string{"length", "objCount"} {
		f, err := p.Field(core.GojaPath, "arrayObject", n)
		if err != nil {
			return res.Fail(err)
		}
		storageField[f] = true
	}
	guards := map[*ssa.Function]bool{}
	for _, n := range []string{"checkStdArrayObj", "checkStdArrayObjWithProto", "checkNewStdArrayObj", "checkStdArray", "checkStdArrayIter"} {
		f, err := p.GojaMethod("Runtime", n)
		if err != nil {
			return res.Fail(err)
		}
		guards[f] = true
	}
	tracked := func(t types.Type) bool {
		_, isPtr := types.Unalias(t).(*types.Pointer)
		return isPtr && core.NamedOf(t) == arrT
	}
	// only arrays obtained from a guard are tracked (other code uses a.values as the object's own storage)
	// a *arrayObject obtained by a guard call, or by asserting X.self.(*arrayObject) (a weaker
	// "guard": it only establishes the storage kind, which script can change just as well)
	isSelfAssert := func(o ssa.Value) *ssa.TypeAssert {
		if ex, ok := o.(*ssa.Extract); ok && ex.Index == 0 {
			o = ex.Tuple
		}
		ta, ok := o.(*ssa.TypeAssert)
		if !ok || !tracked(ta.AssertedType) {
			return nil
		}
		if ld, ok := ta.X.(*ssa.UnOp); ok && ld.Op == token.MUL {
			if fa, ok := ld.X.(*ssa.FieldAddr); ok && core.FieldOf(fa) != nil && core.FieldOf(fa).Name() == "self" {
				return ta
			}
		}
		return nil
	}
	fromGuard := func(v ssa.Value) bool {
		o := core.Origin(v)
		if c, ok := o.(*ssa.Call); ok && guards[c.Call.StaticCallee()] {
			return true
		}
		return isSelfAssert(o) != nil
	}
	root := func(v ssa.Value) string {
		o := core.Origin(v)
		if !tracked(o.Type()) || !fromGuard(o) {
			return ""
		}
		return p.SourceName(o)
	}
	valuesOwner := func(v ssa.Value) string {
		o := core.Origin(v)
		for i := 0; i < 3; i++ {
			if sl, ok := o.(*ssa.Slice); ok {
				o = core.Origin(sl.X)
				continue
			}
			break
		}
		if ld, ok := o.(*ssa.UnOp); ok && ld.Op == token.MUL {
			if fa, ok := ld.X.(*ssa.FieldAddr); ok && core.FieldOf(fa) == fValues {
				return root(fa.X)
			}
		}
		return ""
	}
	spec := &core.FreshSpec{
		Name:    "array",
		Root:    root,
		Tracked: tracked,
		Skip: func(f *ssa.Function) bool {
			// the guards themselves and arrayObject's own methods own the storage
			if guards[f] {
				return true
			}
			if r := f.Signature.Recv(); r != nil && core.NamedOf(r.Type()) == arrT {
				return true
			}
			return false
		},
		Uses: func(in ssa.Instruction) []core.FreshUse {
			switch x := in.(type) {
			case *ssa.UnOp:
				if x.Op == token.MUL {
					if fa, ok := x.X.(*ssa.FieldAddr); ok && core.FieldOf(fa) == fValues {
						if k := root(fa.X); k != "" {
							return []core.FreshUse{{Key: k, What: "read of .values"}}
						}
					}
					// element load through IndexAddr handled below (the IndexAddr itself)
				}
			case *ssa.Store:
				// raw writes of the array's storage fields
				if fa, ok := x.Addr.(*ssa.FieldAddr); ok && storageField[core.FieldOf(fa)] {
					if k := root(fa.X); k != "" {
						return []core.FreshUse{{Key: k, What: "raw store to ." + core.FieldOf(fa).Name()}}
					}
				}
			case *ssa.Call:
				if x.Call.StaticCallee() == setValues && len(x.Call.Args) > 0 {
					if k := root(x.Call.Args[0]); k != "" {
						return []core.FreshUse{{Key: k, What: "setArrayValues"}}
					}
				}
			case *ssa.IndexAddr:
				if k := valuesOwner(x.X); k != "" {
					return []core.FreshUse{{Key: k, What: "element of the .values snapshot"}}
				}
			case *ssa.Slice:
				if k := valuesOwner(x.X); k != "" {
					return []core.FreshUse{{Key: k, What: "slice of the .values snapshot"}}
				}
			}
			return nil
		},
		// the guard call itself establishes the fact (for a non-nil result; a nil result is never
		// dereferenced). The later `arr != nil` test only selects the branch: it must not
		// re-establish a fact that a call in between destroyed.
		GenAfter: func(in ssa.Instruction, fresh func(string) bool) []string {
			if c, ok := in.(*ssa.Call); ok && guards[c.Call.StaticCallee()] {
				if k := root(c); k != "" {
					return []string{k}
				}
			}
			if v, ok := in.(ssa.Value); ok {
				if ta := isSelfAssert(v); ta != nil && ssa.Instruction(ta) == in {
					for _, cand := range []ssa.Value{v} {
						if k := root(cand); k != "" {
							return []string{k}
						}
					}
					// comma-ok form: the tracked value is the Extract
					for _, r := range *ta.Referrers() {
						if ex, ok := r.(*ssa.Extract); ok && ex.Index == 0 {
							if k := root(ex); k != "" {
								return []string{k}
							}
						}
					}
				}
			}
			return nil
		},
		GenOnBool: func(in ssa.Instruction) ([]string, bool, bool) { return nil, false, false },
		NewObject: func(ssa.Instruction) (string, bool) { return "", false },
		Escapes:   func(ssa.Instruction) []string { return nil },
		Kills: func(c ssa.CallInstruction) string {
			if why := p.MayRunScript(c); why != "" {
				name := "dynamic call"
				if sc := core.StaticCallee(c); sc != nil {
					name = core.FuncName(sc)
				} else if c.Common().IsInvoke() {
					name = "invoke " + c.Common().Method.Name()
				}
				return name + " may run script (" + why + ")"
			}
			return ""
		},
	}
	fr := p.RunFresh(spec)
	for _, s := range fr.Sites {
		res.OK(fmt.Sprintf("%s:%s(%s)", core.FuncName(s.Fn), s.Use.What, s.Use.Key), p.Pos(s.Instr.Pos()), "no script since the standard-array check")
	}
	for _, f := range fr.Findings {
		res.Bad(fmt.Sprintf("%s:%s(%s)", core.FuncName(f.Fn), f.Use.What, f.Use.Key), p.Pos(f.Instr.Pos()),
			fmt.Sprintf("fast path uses %s of %s after script may have run since checkStdArray*: %s. The generic algorithm re-reads length/elements through [[Get]], so results differ once user code shrinks, sparsifies or redefines the array mid-operation", f.Use.What, f.Use.Key, f.LastKill))
	}
	res.Count("functions", fr.Funcs)
	return res
}

package rules

import (
	"fmt"
	"go/token"

	"gojaverif/core"

	"golang.org/x/tools/go/ssa"
)

// R-HOLEARG (C07, C13).
//
// A slot of arrayObject.values is nil for a hole. Inside the array's own methods an element that
// was loaded from the storage and is then handed on - as an argument of a call, as the receiver
// of an interface call - must have been compared with nil on the way: the callee sees a Go nil
// where it expects a Value (ExportTo([1,,3], &[]int) dereferenced it).
//
// Rule: in the methods of arrayObject, every load of values[i] that reaches a call argument or an
// invoke receiver (through phis and the *valueProperty type switch) is nil-tested: the use is
// controlled by a nil comparison of the loaded value or of a phi it flows into.
var HoleArg = &core.Rule{Name: "R-HOLEARG", Run: runHoleArg,
	Doc: "in arrayObject's methods an element loaded from .values is compared with nil before it is passed to a call or used as an interface receiver"}

func runHoleArg(p *core.Prog) *core.Result {
	res := core.NewResult("R-HOLEARG", 2)
	af, err := loadArrFields(p)
	if err != nil {
		return res.Fail(err)
	}
	n := map[string]int{}
	for _, f := range p.Funcs {
		if !p.InModule(f) || f.Parent() != nil {
			continue
		}
		recv := f.Signature.Recv()
		if recv == nil || core.NamedOf(recv.Type()) != af.arrT {
			continue
		}
		name := core.FuncName(f)
		core.AllInstrs(f, func(in ssa.Instruction) {
			ld, ok := in.(*ssa.UnOp)
			if !ok || ld.Op != token.MUL {
				return
			}
			ia, ok := ld.X.(*ssa.IndexAddr)
			if !ok {
				return
			}
			if o, kind := af.storageOwner(ia); o == nil || kind != "compact" {
				return
			}
			// aliases: the load and the phis it flows into
			aliases := map[ssa.Value]bool{ld: true}
			work := []ssa.Value{ld}
			for len(work) > 0 {
				v := work[len(work)-1]
				work = work[:len(work)-1]
				for _, r := range core.Referrers(v) {
					ph, ok := r.(*ssa.Phi)
					if !ok || aliases[ph] {
						continue
					}
					// `if v == nil { v = <something else> }`: the edge that carries v into the phi is the
					// non-nil edge of a nil test of v - the phi is nil-free as far as v is concerned
					sanitized := true
					for i, e := range ph.Edges {
						if e != v {
							continue
						}
						pred := ph.Block().Preds[i]
						okEdge := false
						if ifi, isIf := pred.Instrs[len(pred.Instrs)-1].(*ssa.If); isIf {
							if x, nonNilOnTrue, isNil := core.IsNilCompare(ifi.Cond); isNil && x == v {
								takenTrue := pred.Succs[0] == ph.Block()
								okEdge = takenTrue == nonNilOnTrue
							}
						}
						if !okEdge {
							for _, cp := range core.ControllingConds(pred) {
								if x, nonNil, isNil := core.IsNilCompare(cp.Cond); isNil && x == v && cp.Pol == nonNil {
									okEdge = true
								}
							}
						}
						if !okEdge {
							sanitized = false
						}
					}
					if sanitized {
						continue
					}
					aliases[ph] = true
					work = append(work, ph)
				}
			}
			nilTested := func(b *ssa.BasicBlock) bool {
				for _, cp := range core.ControllingConds(b) {
					if x, _, ok := core.IsNilCompare(cp.Cond); ok && aliases[x] {
						return true
					}
				}
				return false
			}
			for v := range aliases {
				for _, r := range core.Referrers(v) {
					c, ok := r.(ssa.CallInstruction)
					if !ok {
						continue
					}
					cc := c.Common()
					use := ""
					if cc.IsInvoke() && cc.Value == v {
						use = "receiver of ." + cc.Method.Name() + "()"
					}
					for _, a := range cc.Args {
						if a == v {
							use = "argument of " + cc.String()
							if len(use) > 60 {
								use = use[:60]
							}
						}
					}
					if use == "" {
						continue
					}
					k := fmt.Sprintf("%s:element of .values nil-tested before use", name)
					n[k]++
					key := k
					if n[k] > 1 {
						key = fmt.Sprintf("%s#%d", k, n[k])
					}
					calleeTests := false
					if callee := cc.StaticCallee(); callee != nil && len(callee.Params) == len(cc.Args) {
						for i, a := range cc.Args {
							if a != v {
								continue
							}
							for _, pr := range core.Referrers(callee.Params[i]) {
								if bo, ok := pr.(*ssa.BinOp); ok {
									if _, _, isNil := core.IsNilCompare(bo); isNil {
										calleeTests = true
									}
								}
							}
						}
					}
					if nilTested(r.Block()) {
						res.OK(key, p.Pos(r.Pos()), "under a nil test of the element")
					} else if calleeTests {
						res.OK(key, p.Pos(r.Pos()), "the callee compares this parameter with nil")
					} else {
						res.Bad(key, p.Pos(r.Pos()), fmt.Sprintf("an element loaded from .values at %s (nil for a hole) is used as %s without a nil test: the callee gets a Go nil where it expects a Value", p.Pos(ld.Pos()), use))
					}
				}
			}
		})
	}
	return res
}

package rules

import "gojaverif/core"

// Mutants are the positive controls (thorough tier): see core.Mutant.
var Mutants = []*core.Mutant{
	{Name: "numbirth-add-raw", Rule: "R-NUMBIRTH", File: "vm.go",
		Old: "result = floatToValue(float64(left) + right.ToFloat())", New: "result = valueFloat(float64(left) + right.ToFloat())", Nth: 1,
		Expect: "(_add).exec", Why: "1+0.5+0.5 stays a valueFloat(2): Object.is(2, 1+0.5+0.5) false"},
	{Name: "numbirth-canon-noguard", Rule: "R-NUMBIRTH", File: "vm.go",
		Old: "	if i, ok := floatToInt(f); ok {\n		return intToValue(i)\n	}\n	switch {\n	case f == 0:", New: "	switch {\n	case f == 0:",
		Expect: "floatToValue", Why: "the canonicaliser itself stops canonicalising"},
	{Name: "trypair-try-nodefer", Rule: "R-TRYPAIR", File: "vm.go",
		Old: "	vm.pushTryFrame(tryPanicMarker, -1)\n	defer vm.popTryFrame()\n\n	defer func() {\n		if x := recover(); x != nil {\n			ex = vm.handleThrow(x)\n		}\n	}()\n\n	f()\n	return",
		New: "	vm.pushTryFrame(tryPanicMarker, -1)\n\n	defer func() {\n		if x := recover(); x != nil {\n			ex = vm.handleThrow(x)\n		}\n	}()\n\n	f()\n	vm.popTryFrame()\n	return",
		Expect: "(*vm).try:marker-frame", Why: "marker frame of vm.try popped only on the normal path"},
	{Name: "trypair-gen-next-nodefer", Rule: "R-TRYPAIR", File: "func.go",
		Old: "	g.enterNext()\n	defer g.vm.popTryFrame()\n	if v != nil {\n		g.vm.push(v)\n	}\n	res, done, ex := g.step()\n	g.vm.popCtx()",
		New: "	g.enterNext()\n	if v != nil {\n		g.vm.push(v)\n	}\n	res, done, ex := g.step()\n	g.vm.popTryFrame()\n	g.vm.popCtx()",
		Expect: "(*generator).next:marker-frame", Why: "F2 re-introduced: interrupt inside a generator body leaves the runtime unusable"},
	{Name: "trypair-inplace-noskip", Rule: "R-TRYPAIR", File: "vm.go",
		Old: "(tf.catchPos != tryPanicMarker || tf.finallyRet == -2)", New: "(tf.catchPos != tryPanicMarker)",
		Expect: "in-place-marker", Why: "stack overflow inside a finally block run by generator return() leaks a frame"},
	{Name: "boundary-runwrapped-noleaveabrupt", Rule: "R-BOUNDARY", File: "runtime.go",
		Old: "				err = ex\n				if len(r.vm.callStack) == 0 {\n					r.leaveAbrupt()\n				}", New: "				err = ex",
		Expect: "runWrapped:abrupt", Why: "interrupt during a Callable leaves the flag set and the jobs queued"},
	{Name: "boundary-leaveabrupt-keepjobs", Rule: "R-BOUNDARY", File: "runtime.go",
		Old: "	r.jobQueue = nil\n	r.ClearInterrupt()", New: "	r.ClearInterrupt()",
		Expect: "leaveAbrupt:jobQueue", Why: "jobs of an interrupted run execute during the next call"},
	{Name: "boundary-runprogram-leave-always", Rule: "R-BOUNDARY", File: "runtime.go",
		Old: "		vm.prg = nil\n		vm.sb = -1\n		r.leave()\n	}\n	return", New: "		vm.prg = nil\n		vm.sb = -1\n	}\n	return",
		Expect: "RunProgram:normal", Why: "promise jobs never drained after RunProgram"},
	{Name: "ctxfields-restore-privenv", Rule: "R-CTXFIELDS", File: "vm.go",
		Old: "	vm.prg, vm.stash, vm.privEnv, vm.newTarget, vm.result, vm.pc, vm.sb, vm.args =\n		ctx.prg, ctx.stash, ctx.privEnv, ctx.newTarget, ctx.result, ctx.pc, ctx.sb, ctx.args",
		New: "	vm.prg, vm.stash, vm.newTarget, vm.result, vm.pc, vm.sb, vm.args =\n		ctx.prg, ctx.stash, ctx.newTarget, ctx.result, ctx.pc, ctx.sb, ctx.args",
		Expect: "context.privEnv:restoreCtx", Why: "private environment of the callee leaks into the caller"},
	{Name: "ctxfields-suspend-refstack", Rule: "R-CTXFIELDS", File: "vm.go",
		Old: "	if len(vm.refStack) > int(refStackLen) {\n		ectx.refStack = append(ectx.refStack[:0], vm.refStack[refStackLen:]...)\n		vm.refStack = vm.refStack[:refStackLen]\n	}\n", New: "",
		Expect: "execCtx.refStack:suspend", Why: "references pending across a yield leak into the caller"},
	{Name: "ctxfields-resume-sp", Rule: "R-CTXFIELDS", File: "vm.go",
		Old: "		tf.sp += int32(sp)\n", New: "",
		Expect: "tryFrame.sp:rebase", Why: "catch after resumption at a different depth restores the wrong sp"},
}

// Extra are rules that are not (yet) attached to a property (debug / evidence only).
var Extra = []*core.Rule{TryPair, CtxFields, Boundary}

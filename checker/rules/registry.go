package rules

import "gojaverif/core"

// Mutants are the positive controls (thorough tier): see core.Mutant.
var Mutants = []*core.Mutant{
	{Name: "numbirth-add-raw", Rule: "R-NUMBIRTH", File: "vm.go",
		Old: "result = floatToValue(float64(left) + right.ToFloat())", New: "result = valueFloat(float64(left) + right.ToFloat())", Nth: 1,
		Expect: "(_add).exec", Why: "1+0.5+0.5 stays a valueFloat(2): Object.is(2, 1+0.5+0.5) false"},
	{Name: "numbirth-canon-noguard", Rule: "R-NUMBIRTH", File: "vm.go",
		Old: "	if i, ok := floatToInt(f); ok {\n		return intToValue(i)\n	}\n	switch {\n	case f == 0:", New: "	switch {\n	case f == 0:",
		Expect: "floatToValue", Why: "the canonicaliser itself stops canonicalising"},
}

// Extra are rules that are not (yet) attached to a property (debug / evidence only).
var Extra = []*core.Rule{}

package rules

import (
	"fmt"
	"go/constant"
	"go/token"
	"go/types"
	"sort"
	"strings"

	"gojaverif/core"

	"golang.org/x/tools/go/ssa"
)

// R-IDXBOUND: typed array element access is unsafe.Add(SliceData(buf), idx*size) without a bounds
// check; X.typedArray.get/set/getRaw/setRaw/less/swap(X.offset + k) is memory safe only for
// 0 <= k < X.length. For every such call whose index has that shape the rule proves
// k - X.length + 1 <= 0 and -k <= 0 with a small linear-inequality prover over SSA values: the facts
// are the branch conditions controlling the call site, the definitions of the values involved
// (min/max, relToIdx, x/c, phis split per incoming edge with that edge's conditions, loop counters
// that only move towards the safe side), and the post-condition of typedArrayCreate (length >= n).
var IdxBound = &core.Rule{Name: "R-IDXBOUND", Run: runIdxBound,
	Doc: "linear-inequality proof relative to X.length for every typedArray element accessor call indexed with X.offset + k: 0 <= k <= X.length-1 must follow from the defining expressions and the controlling conditions of the call site"}

// ---- linear forms --------------------------------------------------------------

type lin struct {
	c     int64
	terms map[ssa.Value]int64 // nil key never used; lenAtom stands for X.length
}

func (l lin) clone() lin {
	n := lin{c: l.c, terms: make(map[ssa.Value]int64, len(l.terms))}
	for k, v := range l.terms {
		n.terms[k] = v
	}
	return n
}

func (l lin) addScaled(o lin, f int64) lin {
	n := l.clone()
	n.c += f * o.c
	for k, v := range o.terms {
		n.terms[k] += f * v
		if n.terms[k] == 0 {
			delete(n.terms, k)
		}
	}
	return n
}

func (l lin) key() string {
	var parts []string
	for k, v := range l.terms {
		parts = append(parts, fmt.Sprintf("%d*%p", v, k))
	}
	sort.Strings(parts)
	return fmt.Sprintf("%d|%s", l.c, strings.Join(parts, "+"))
}

func stripConv(v ssa.Value) ssa.Value {
	for i := 0; i < 6; i++ {
		switch x := v.(type) {
		case *ssa.Convert:
			v = x.X
			continue
		case *ssa.ChangeType:
			v = x.X
			continue
		}
		break
	}
	return core.Origin(v)
}

func constInt(v ssa.Value) (int64, bool) {
	c, ok := v.(*ssa.Const)
	if !ok || c.Value == nil || c.Value.Kind() != constant.Int {
		return 0, false
	}
	return c.Int64(), true
}

// ---- prover --------------------------------------------------------------------

type idxProver struct {
	p        *core.Prog
	X        ssa.Value // the typedArrayObject whose length bounds the index
	lenAtom  ssa.Value // representative atom for X.length
	fLength  *types.Var
	relToIdx *ssa.Function
	passthru map[*ssa.Function]bool
	isValid  *ssa.Function
	lenLBs   []ssa.Value // values n with X.length >= n (post-condition of typedArrayCreate)
	budget   int
	canon2   map[interface{}]ssa.Value
	fOffset  *types.Var
	extra    []ineq // assumptions (used for the self-check of relToIdx)
}

func (a *idxProver) isLen(v ssa.Value) bool {
	if ld, ok := v.(*ssa.UnOp); ok && ld.Op == token.MUL {
		if fa, ok := ld.X.(*ssa.FieldAddr); ok && core.FieldOf(fa) == a.fLength && core.Origin(fa.X) == a.X {
			return true
		}
	}
	return false
}

func (a *idxProver) lin(v ssa.Value) lin {
	out := lin{terms: map[ssa.Value]int64{}}
	var walk func(v ssa.Value, f int64, d int)
	walk = func(v ssa.Value, f int64, d int) {
		v = stripConv(v)
		if c, ok := constInt(v); ok {
			out.c += f * c
			return
		}
		if a.isLen(v) {
			out.terms[a.lenAtom] += f
			return
		}
		// length of another typed array: immutable after construction, so every load is the same number
		if ld, ok := v.(*ssa.UnOp); ok && ld.Op == token.MUL {
			if fa, ok := ld.X.(*ssa.FieldAddr); ok && (core.FieldOf(fa) == a.fLength || (a.fOffset != nil && core.FieldOf(fa) == a.fOffset)) {
				type ck struct {
					base ssa.Value
					f    *types.Var
				}
				base := core.Origin(fa.X)
				if a.canon2 == nil {
					a.canon2 = map[interface{}]ssa.Value{}
				}
				k := ck{base, core.FieldOf(fa)}
				if c, ok := a.canon2[k]; ok {
					v = c
				} else {
					a.canon2[k] = v
				}
			}
		}
		if d < 10 {
			switch x := v.(type) {
			case *ssa.BinOp:
				switch x.Op {
				case token.ADD:
					walk(x.X, f, d+1)
					walk(x.Y, f, d+1)
					return
				case token.SUB:
					walk(x.X, f, d+1)
					walk(x.Y, -f, d+1)
					return
				}
			case *ssa.Call:
				if sc := x.Call.StaticCallee(); sc != nil && a.passthru[sc] && len(x.Call.Args) == 1 {
					walk(x.Call.Args[0], f, d+1)
					return
				}
			}
		}
		out.terms[v] += f
	}
	walk(v, 1, 0)
	for k, c := range out.terms {
		if c == 0 {
			delete(out.terms, k)
		}
	}
	return out
}

// ineq: P <= 0
type ineq struct {
	p   lin
	why string
}

// condIneqs turns branch conditions into inequalities.
func (a *idxProver) condIneqs(conds []core.CondPol) []ineq {
	var out []ineq
	for _, cp := range conds {
		switch c := cp.Cond.(type) {
		case *ssa.BinOp:
			if b, ok := c.X.Type().Underlying().(*types.Basic); !ok || b.Info()&types.IsInteger == 0 {
				continue
			}
			x, y := a.lin(c.X), a.lin(c.Y)
			op := c.Op
			if !cp.Pol {
				switch op {
				case token.LSS:
					op = token.GEQ
				case token.LEQ:
					op = token.GTR
				case token.GTR:
					op = token.LEQ
				case token.GEQ:
					op = token.LSS
				case token.EQL:
					op = token.NEQ
				case token.NEQ:
					op = token.EQL
				}
			}
			switch op {
			case token.LSS: // x - y + 1 <= 0
				p := x.addScaled(y, -1)
				p.c++
				out = append(out, ineq{p, "branch"})
			case token.LEQ:
				out = append(out, ineq{x.addScaled(y, -1), "branch"})
			case token.GTR:
				p := y.addScaled(x, -1)
				p.c++
				out = append(out, ineq{p, "branch"})
			case token.GEQ:
				out = append(out, ineq{y.addScaled(x, -1), "branch"})
			case token.EQL:
				out = append(out, ineq{x.addScaled(y, -1), "branch"}, ineq{y.addScaled(x, -1), "branch"})
			case token.NEQ:
				// counting loop `for v := c0; v != m; v++` : v < m as long as c0 <= m
				for _, pair := range [][2]ssa.Value{{c.X, c.Y}, {c.Y, c.X}} {
					ph, ok := stripConv(pair[0]).(*ssa.Phi)
					if !ok || len(ph.Edges) != 2 {
						continue
					}
					var init ssa.Value
					inc := false
					for _, e := range ph.Edges {
						le := a.lin(e)
						if len(le.terms) == 1 && le.terms[ssa.Value(ph)] == 1 && le.c == 1 {
							inc = true
						} else {
							init = e
						}
					}
					if !inc || init == nil {
						continue
					}
					m := a.lin(pair[1])
					// init - m <= 0 ?
					if a.prove(a.lin(init).addScaled(m, -1), nil, 3) {
						p := a.lin(ph).addScaled(m, -1)
						p.c++
						out = append(out, ineq{p, "counting loop"})
					}
				}
			}
		case *ssa.Call:
			if cp.Pol && c.Call.StaticCallee() == a.isValid && len(c.Call.Args) == 2 && core.Origin(c.Call.Args[0]) == a.X {
				k := a.lin(c.Call.Args[1])
				up := k.clone()
				up.terms[a.lenAtom]--
				if up.terms[a.lenAtom] == 0 {
					delete(up.terms, a.lenAtom)
				}
				up.c++
				out = append(out, ineq{up, "isValidIntegerIndex"}, ineq{lin{terms: map[ssa.Value]int64{}}.addScaled(k, -1), "isValidIntegerIndex"})
			}
		}
	}
	return out
}

// atomIneqs: facts that follow from the definition of an atom.
func (a *idxProver) atomIneqs(t ssa.Value) []ineq {
	one := func(v ssa.Value) lin { return lin{terms: map[ssa.Value]int64{v: 1}} }
	neg := func(l lin) lin { return lin{terms: map[ssa.Value]int64{}}.addScaled(l, -1) }
	var out []ineq
	if t == a.lenAtom {
		out = append(out, ineq{neg(one(t)), "length >= 0"})
		for _, n := range a.lenLBs {
			out = append(out, ineq{a.lin(n).addScaled(one(t), -1), "typedArrayCreate post-condition"})
		}
		return out
	}
	switch x := t.(type) {
	case *ssa.UnOp:
		// the length of any typed array is never negative (written only at construction from validated values)
		if x.Op == token.MUL {
			if fa, ok := x.X.(*ssa.FieldAddr); ok && core.FieldOf(fa) == a.fLength {
				out = append(out, ineq{neg(one(t)), "typedArrayObject.length >= 0"})
			}
		}
	case *ssa.Call:
		if b, ok := x.Call.Value.(*ssa.Builtin); ok {
			switch b.Name() {
			case "min":
				for _, arg := range x.Call.Args {
					out = append(out, ineq{one(t).addScaled(a.lin(arg), -1), "min"})
				}
			case "max":
				for _, arg := range x.Call.Args {
					out = append(out, ineq{a.lin(arg).addScaled(one(t), -1), "max"})
				}
			case "len", "cap":
				out = append(out, ineq{neg(one(t)), "len >= 0"})
			}
		}
		if sc := x.Call.StaticCallee(); sc != nil && sc == a.relToIdx && len(x.Call.Args) == 2 {
			out = append(out, ineq{neg(one(t)), "relToIdx >= 0"}, ineq{one(t).addScaled(a.lin(x.Call.Args[1]), -1), "relToIdx <= l"})
		}
	case *ssa.BinOp:
		if x.Op == token.QUO {
			if c, ok := constInt(x.Y); ok && c >= 1 {
				// for x >= 0: 0 <= x/c <= x
				if a.prove(neg(a.lin(x.X)), nil, 2) {
					out = append(out, ineq{neg(one(t)), "x/c >= 0"}, ineq{one(t).addScaled(a.lin(x.X), -1), "x/c <= x"})
				}
			}
		}
	}
	return out
}

// alternatives: values an atom can take (for a case split), each with the conditions known on that path.
type alt struct {
	v     ssa.Value
	conds []core.CondPol
}

func (a *idxProver) alternatives(t ssa.Value, upper bool) ([]alt, bool) {
	switch x := t.(type) {
	case *ssa.Phi:
		var out []alt
		for i, e := range x.Edges {
			le := a.lin(e)
			if len(le.terms) == 1 && le.terms[ssa.Value(x)] == 1 {
				// the phi plus a constant: a loop counter
				if (upper && le.c <= 0) || (!upper && le.c >= 0) {
					continue // only moves towards the safe side (induction over the loop)
				}
				return nil, false
			}
			if _, self := le.terms[ssa.Value(x)]; self {
				return nil, false
			}
			pred := x.Block().Preds[i]
			conds := append([]core.CondPol{}, core.ControllingConds(pred)...)
			if ifi, ok := pred.Instrs[len(pred.Instrs)-1].(*ssa.If); ok && pred.Succs[0] != pred.Succs[1] {
				conds = append(conds, core.CondPol{Cond: ifi.Cond, Pol: pred.Succs[0] == x.Block(), If: ifi})
			}
			out = append(out, alt{e, conds})
		}
		return out, len(out) > 0
	case *ssa.Call:
		if b, ok := x.Call.Value.(*ssa.Builtin); ok {
			if (b.Name() == "max" && upper) || (b.Name() == "min" && !upper) {
				var out []alt
				for _, arg := range x.Call.Args {
					out = append(out, alt{arg, nil})
				}
				return out, true
			}
		}
	}
	return nil, false
}

// prove E <= 0.
func (a *idxProver) prove(e lin, conds []core.CondPol, depth int) bool {
	seen := map[string]int{}
	facts := a.condIneqsCached(conds)
	return a.proveRec(e, facts, depth, seen)
}

func (a *idxProver) condIneqsCached(conds []core.CondPol) []ineq {
	if conds == nil {
		return nil
	}
	return a.condIneqs(conds)
}

func (a *idxProver) proveRec(e lin, facts []ineq, depth int, seen map[string]int) bool {
	if len(e.terms) == 0 {
		return e.c <= 0
	}
	a.budget--
	if depth <= 0 || a.budget <= 0 {
		return false
	}
	k := e.key() + fmt.Sprintf("@%d", len(facts))
	if seen[k] >= depth {
		return false // already failed with at least this much depth left
	}
	seen[k] = depth
	// atoms that need a bound: positive coefficient -> upper bound, negative -> lower bound
	var atoms []ssa.Value
	for t := range e.terms {
		atoms = append(atoms, t)
	}
	sort.Slice(atoms, func(i, j int) bool {
		if atoms[i].Pos() != atoms[j].Pos() {
			return atoms[i].Pos() < atoms[j].Pos()
		}
		return atoms[i].Name() < atoms[j].Name()
	})
	all := append(append([]ineq{}, facts...), a.extra...)
	for _, t := range atoms {
		all = append(all, a.atomIneqs(t)...)
	}
	// (a) subtract a fact P <= 0 that cancels at least one atom of E: E <= E - f*P
	for _, t := range atoms {
		c := e.terms[t]
		for _, f := range all {
			pc := f.p.terms[t]
			if pc == 0 || (pc > 0) != (c > 0) || c%pc != 0 {
				continue
			}
			if a.proveRec(e.addScaled(f.p, -(c/pc)), facts, depth-1, seen) {
				return true
			}
		}
	}
	// (b) case split
	for _, t := range atoms {
		c := e.terms[t]
		alts, ok := a.alternatives(t, c > 0)
		if !ok {
			continue
		}
		okAll := true
		for _, al := range alts {
			e2 := e.clone()
			delete(e2.terms, t)
			e2 = e2.addScaled(a.lin(al.v), c)
			f2 := facts
			if len(al.conds) > 0 {
				f2 = append(append([]ineq{}, facts...), a.condIneqs(al.conds)...)
			}
			if !a.proveRec(e2, f2, depth-1, seen) {
				okAll = false
				break
			}
		}
		if okAll {
			return true
		}
	}
	return false
}

// ---- the rule ------------------------------------------------------------------

// idxBoundAudited: arrays whose length relation to the loop bound is established by construction
// that this prover cannot follow; confirmed by reading.
var idxBoundAudited = map[string]string{
	"(*Runtime).typedArrayProto_filter|keptTa": "kept is built by the intrinsic constructor over a fresh buffer holding exactly `captured` elements (buf grows by one element per captured++)",
}

func runIdxBound(p *core.Prog) *core.Result {
	res := core.NewResult("R-IDXBOUND", 35)
	fTA, err := p.Field(core.GojaPath, "typedArrayObject", "typedArray")
	if err != nil {
		return res.Fail(err)
	}
	fOff, err := p.Field(core.GojaPath, "typedArrayObject", "offset")
	if err != nil {
		return res.Fail(err)
	}
	fLen, err := p.Field(core.GojaPath, "typedArrayObject", "length")
	if err != nil {
		return res.Fail(err)
	}
	relToIdx, err := p.GojaFunc("relToIdx")
	if err != nil {
		return res.Fail(err)
	}
	isValid, err := p.GojaMethod("typedArrayObject", "isValidIntegerIndex")
	if err != nil {
		return res.Fail(err)
	}
	create, err := p.GojaMethod("Runtime", "typedArrayCreate")
	if err != nil {
		return res.Fail(err)
	}
	speciesCreate, err := p.GojaMethod("Runtime", "typedArraySpeciesCreate")
	if err != nil {
		return res.Fail(err)
	}
	intToValue, err := p.GojaFunc("intToValue")
	if err != nil {
		return res.Fail(err)
	}
	passthru := map[*ssa.Function]bool{}
	for _, n := range []string{"toIntStrict", "toIntClamp"} {
		f, err := p.GojaFunc(n)
		if err != nil {
			return res.Fail(err)
		}
		passthru[f] = true
	}
	// post-condition of typedArrayCreate: `if ta.length < int(l) { panic }`
	{
		ok := false
		core.AllInstrs(create, func(in ssa.Instruction) {
			b, isB := in.(*ssa.BinOp)
			if !isB || b.Op != token.LSS {
				return
			}
			if ld, isLd := stripConv(b.X).(*ssa.UnOp); isLd {
				if fa, isFa := ld.X.(*ssa.FieldAddr); isFa && core.FieldOf(fa) == fLen {
					for _, ce := range core.CondEdges(b) {
						if p.FirstNoReturn(ce.True) >= 0 {
							ok = true
						}
					}
				}
			}
		})
		if ok {
			res.OK("(*Runtime).typedArrayCreate:length >= requested", p.Pos(create.Pos()), "throws when the constructed array is shorter than the single numeric argument")
		} else {
			res.Bad("(*Runtime).typedArrayCreate:length >= requested", p.Pos(create.Pos()), "typedArrayCreate no longer rejects a species/derived constructor result that is shorter than requested: callers fill it up to the requested length without bounds checks")
		}
	}
	// requestedLen: for X created by typedArrayCreate(c, intToValue(n)) / typedArraySpeciesCreate(ta, []Value{intToValue(n)})
	unwrapIntToValue := func(v ssa.Value) ssa.Value {
		if c, ok := core.Origin(v).(*ssa.Call); ok && c.Call.StaticCallee() == intToValue {
			return c.Call.Args[0]
		}
		return nil
	}
	sliceLit1 := func(v ssa.Value) ssa.Value { // []Value{e}
		sl, ok := core.Origin(v).(*ssa.Slice)
		if !ok {
			return nil
		}
		al, ok := sl.X.(*ssa.Alloc)
		if !ok {
			return nil
		}
		var only ssa.Value
		n := 0
		for _, r := range *al.Referrers() {
			if ia, ok := r.(*ssa.IndexAddr); ok {
				for _, r2 := range *ia.Referrers() {
					if st, ok := r2.(*ssa.Store); ok && st.Addr == ssa.Value(ia) {
						n++
						only = st.Val
					}
				}
			}
		}
		if n == 1 {
			return only
		}
		return nil
	}
	requestedLen := func(X ssa.Value) []ssa.Value {
		c, ok := X.(*ssa.Call)
		if !ok {
			return nil
		}
		switch c.Call.StaticCallee() {
		case create:
			// variadic args: slice literal
			if len(c.Call.Args) == 3 {
				if e := sliceLit1(c.Call.Args[2]); e != nil {
					if n := unwrapIntToValue(e); n != nil {
						return []ssa.Value{n}
					}
				}
			}
		case speciesCreate:
			if len(c.Call.Args) == 3 {
				if e := sliceLit1(c.Call.Args[2]); e != nil {
					if n := unwrapIntToValue(e); n != nil {
						return []ssa.Value{n}
					}
				}
			}
		}
		return nil
	}

	// relToIdx(rel, l) is used as a fact "0 <= result <= l": prove it from its body, assuming l >= 0
	{
		okAll := len(relToIdx.Params) == 2
		nret := 0
		if okAll {
			l := relToIdx.Params[1]
			a := &idxProver{p: p, fLength: fLen, relToIdx: nil, passthru: passthru, isValid: isValid, budget: 20000}
			a.lenAtom = ssa.NewConst(constant.MakeInt64(0), types.Typ[types.Int])
			a.extra = []ineq{{lin{terms: map[ssa.Value]int64{ssa.Value(l): -1}}, "l >= 0 (callers pass lengths)"}}
			core.AllInstrs(relToIdx, func(in ssa.Instruction) {
				r, ok := in.(*ssa.Return)
				if !ok || len(r.Results) != 1 {
					return
				}
				nret++
				conds := core.ControllingConds(r.Block())
				up := a.lin(r.Results[0]).addScaled(a.lin(l), -1)
				lo := lin{terms: map[ssa.Value]int64{}}.addScaled(a.lin(r.Results[0]), -1)
				a.budget = 20000
				if !a.prove(up, conds, 6) {
					okAll = false
				}
				a.budget = 20000
				if !a.prove(lo, conds, 6) {
					okAll = false
				}
			})
		}
		if okAll && nret > 0 {
			res.OK("relToIdx:0 <= result <= l", p.Pos(relToIdx.Pos()), fmt.Sprintf("proved for all %d returns from the body, assuming l >= 0", nret))
		} else {
			res.Bad("relToIdx:0 <= result <= l", p.Pos(relToIdx.Pos()), "relToIdx(rel, l) can return a value outside [0, l]: every clamped start/end index of the array and typed array builtins relies on it")
		}
	}

	accessor := map[string][]int{"get": {0}, "set": {0}, "getRaw": {0}, "setRaw": {0}, "less": {0, 1}, "swap": {0, 1}}
	type site struct {
		fn   *ssa.Function
		call *ssa.Call
		arg  int
	}
	var sites []site
	for _, fn := range p.Funcs {
		if !p.InModule(fn) || fn.Blocks == nil {
			continue
		}
		core.AllInstrs(fn, func(in ssa.Instruction) {
			c, ok := in.(*ssa.Call)
			if !ok || !c.Call.IsInvoke() {
				return
			}
			args, ok := accessor[c.Call.Method.Name()]
			if !ok {
				return
			}
			ld, ok := c.Call.Value.(*ssa.UnOp)
			if !ok {
				return
			}
			fa, ok := ld.X.(*ssa.FieldAddr)
			if !ok || core.FieldOf(fa) != fTA {
				return
			}
			for _, ai := range args {
				sites = append(sites, site{fn, c, ai})
			}
		})
	}
	sort.Slice(sites, func(i, j int) bool {
		if sites[i].call.Pos() != sites[j].call.Pos() {
			return sites[i].call.Pos() < sites[j].call.Pos()
		}
		return sites[i].arg < sites[j].arg
	})
	seq := map[string]int{}
	inScope := 0
	// decide one access: X is the typed array, idxVal the element index including X.offset
	decide := func(fn *ssa.Function, at ssa.Instruction, X ssa.Value, idxVal ssa.Value, what string) {
		base := fmt.Sprintf("%s:%s", core.FuncName(fn), what)
		seq[base]++
		key := base
		if seq[base] > 1 {
			key = fmt.Sprintf("%s#%d", base, seq[base])
		}
		pos := p.Pos(at.Pos())
		a := &idxProver{p: p, X: X, fLength: fLen, relToIdx: relToIdx, passthru: passthru, isValid: isValid, lenLBs: requestedLen(X), budget: 20000}
		a.lenAtom = ssa.NewConst(constant.MakeInt64(0), types.Typ[types.Int]) // unique placeholder atom
		idx := a.lin(idxVal)
		var offAtom ssa.Value
		for t := range idx.terms {
			if l, ok := t.(*ssa.UnOp); ok && l.Op == token.MUL {
				if fa, ok := l.X.(*ssa.FieldAddr); ok && core.FieldOf(fa) == fOff && core.Origin(fa.X) == X {
					offAtom = t
				}
			}
		}
		if offAtom == nil || idx.terms[offAtom] != 1 {
			res.Inform(key, pos, "index is not of the form X.offset + k for the accessed array X (precomputed absolute offset, or a newly created array with offset 0): not decided by this rule")
			return
		}
		delete(idx.terms, offAtom)
		inScope++
		if why, ok := idxBoundAudited[core.FuncName(fn)+"|"+p.SourceName(X)]; ok {
			res.OK(key, pos, "audited: "+why)
			return
		}
		conds := core.ControllingConds(at.Block())
		upper := idx.clone()
		upper.terms[a.lenAtom]--
		upper.c++
		lower := lin{terms: map[ssa.Value]int64{}}.addScaled(idx, -1)
		okU := a.prove(upper, conds, 7)
		a.budget = 20000
		okL := a.prove(lower, conds, 7)
		switch {
		case okU && okL:
			res.OK(key, pos, "0 <= k <= length-1 follows from the definitions and the controlling conditions")
		case !okU:
			res.Bad(key, pos, "k <= length-1 does not follow from the index's defining expressions and the conditions controlling this access: the address is computed from the index without a (useful) bounds check, so k == length touches one element past the view (for a view that ends at the end of its buffer: past the ArrayBuffer, or a Go index-out-of-range panic when the element's address is taken from the byte slice)")
		default:
			res.Bad(key, pos, "k >= 0 does not follow from the index's defining expressions and the conditions controlling this access: a negative k addresses memory before the view")
		}
	}
	for _, s := range sites {
		ld := s.call.Call.Value.(*ssa.UnOp)
		X := core.Origin(ld.X.(*ssa.FieldAddr).X)
		decide(s.fn, s.call, X, s.call.Call.Args[s.arg], s.call.Call.Method.Name()+" index")
	}
	// &X.viewedArrayBuf.data[(X.offset + k) * X.elemSize]: the address of an element taken from the byte
	// slice (Go bounds-checks the index against len(data), which an empty view at the end of its
	// buffer already reaches)
	fData, err := p.Field(core.GojaPath, "arrayBufferObject", "data")
	if err != nil {
		return res.Fail(err)
	}
	fVAB, err := p.Field(core.GojaPath, "typedArrayObject", "viewedArrayBuf")
	if err != nil {
		return res.Fail(err)
	}
	fElem, err := p.Field(core.GojaPath, "typedArrayObject", "elemSize")
	if err != nil {
		return res.Fail(err)
	}
	loadOf := func(v ssa.Value, f *types.Var) ssa.Value { // v == *(&B.f) -> B
		l, ok := core.Origin(v).(*ssa.UnOp)
		if !ok || l.Op != token.MUL {
			return nil
		}
		fa, ok := l.X.(*ssa.FieldAddr)
		if !ok || core.FieldOf(fa) != f {
			return nil
		}
		return core.Origin(fa.X)
	}
	nAddr := 0
	for _, fn := range p.Funcs {
		if !p.InModule(fn) || fn.Blocks == nil {
			continue
		}
		core.AllInstrs(fn, func(in ssa.Instruction) {
			ia, ok := in.(*ssa.IndexAddr)
			if !ok {
				return
			}
			buf := loadOf(ia.X, fData)
			if buf == nil {
				return
			}
			X := loadOf(buf, fVAB)
			if X == nil {
				return
			}
			mul, ok := stripConv(ia.Index).(*ssa.BinOp)
			if !ok || mul.Op != token.MUL {
				return
			}
			var elemIdx ssa.Value
			switch {
			case loadOf(mul.Y, fElem) == X:
				elemIdx = mul.X
			case loadOf(mul.X, fElem) == X:
				elemIdx = mul.Y
			default:
				return
			}
			nAddr++
			decide(fn, in, X, elemIdx, "&data[(offset+k)*elemSize]")
		})
	}
	res.Count("element addresses taken from the byte slice", nAddr)

	// copy(dst, src) where dst is a slice of a view's buffer: the bytes written must stay inside the
	// view. With an explicit upper bound: high <= offset+length. With an open-ended destination the
	// number of source elements is added to the start: k + (b - a) <= length.
	fCtor, err := p.Field(core.GojaPath, "typedArrayObject", "defaultCtor")
	if err != nil {
		return res.Fail(err)
	}
	// elemIndexOf: v == sum * X.elemSize  ->  (sum, X)
	elemIndexOf := func(v ssa.Value) (ssa.Value, ssa.Value) {
		if v == nil {
			return nil, nil
		}
		mul, ok := stripConv(v).(*ssa.BinOp)
		if !ok || mul.Op != token.MUL {
			return nil, nil
		}
		if X := loadOf(mul.Y, fElem); X != nil {
			return mul.X, X
		}
		if X := loadOf(mul.X, fElem); X != nil {
			return mul.Y, X
		}
		return nil, nil
	}
	viewOfData := func(v ssa.Value) ssa.Value { // v == X.viewedArrayBuf.data -> X
		buf := loadOf(v, fData)
		if buf == nil {
			return nil
		}
		return loadOf(buf, fVAB)
	}
	nCopy := 0
	for _, fn := range p.Funcs {
		if !p.InModule(fn) || fn.Blocks == nil {
			continue
		}
		core.AllInstrs(fn, func(in ssa.Instruction) {
			c, ok := in.(*ssa.Call)
			if !ok {
				return
			}
			if b, ok := c.Call.Value.(*ssa.Builtin); !ok || b.Name() != "copy" || len(c.Call.Args) != 2 {
				return
			}
			dst, ok := core.Origin(c.Call.Args[0]).(*ssa.Slice)
			if !ok {
				return
			}
			Xd := viewOfData(dst.X)
			if Xd == nil {
				return
			}
			nCopy++
			base := core.FuncName(fn) + ":copy into the view's buffer"
			seq[base]++
			key := base
			if seq[base] > 1 {
				key = fmt.Sprintf("%s#%d", base, seq[base])
			}
			pos := p.Pos(c.Pos())
			a := &idxProver{p: p, X: Xd, fLength: fLen, fOffset: fOff, relToIdx: relToIdx, passthru: passthru, isValid: isValid, lenLBs: requestedLen(Xd), budget: 20000}
			a.lenAtom = ssa.NewConst(constant.MakeInt64(0), types.Typ[types.Int])
			conds := core.ControllingConds(c.Block())
			offOf := func(l lin, X ssa.Value) (lin, bool) { // remove X.offset from l
				for t := range l.terms {
					if lo, ok := t.(*ssa.UnOp); ok && lo.Op == token.MUL {
						if fa, ok := lo.X.(*ssa.FieldAddr); ok && core.FieldOf(fa) == fOff && core.Origin(fa.X) == X && l.terms[t] == 1 {
							n := l.clone()
							delete(n.terms, t)
							return n, true
						}
					}
				}
				return l, false
			}
			sameElemSize := func(X2 ssa.Value) bool {
				if X2 == Xd {
					return true
				}
				for _, cp := range conds {
					b, ok := cp.Cond.(*ssa.BinOp)
					if !ok || b.Op != token.EQL || !cp.Pol {
						continue
					}
					x, y := loadOf(b.X, fCtor), loadOf(b.Y, fCtor)
					if (x == Xd && y == X2) || (x == X2 && y == Xd) {
						return true
					}
				}
				return false
			}
			lowSum, lowX := elemIndexOf(dst.Low)
			if dst.Low != nil && (lowSum == nil || lowX != Xd) {
				res.Unknown(key, pos, "the destination's start is not of the form (X.offset + k) * X.elemSize")
				return
			}
			// elemLin: v as a number of elements, when v is a sum of products with element sizes equal to Xd's
			var elemLin func(v ssa.Value, d int) (lin, bool)
			elemLin = func(v ssa.Value, d int) (lin, bool) {
				v = stripConv(v)
				if bo, ok := v.(*ssa.BinOp); ok && d < 6 {
					switch bo.Op {
					case token.ADD:
						l, ok1 := elemLin(bo.X, d+1)
						r, ok2 := elemLin(bo.Y, d+1)
						if ok1 && ok2 {
							return l.addScaled(r, 1), true
						}
					case token.MUL:
						if X2 := loadOf(bo.Y, fElem); X2 != nil && sameElemSize(X2) {
							return a.lin(bo.X), true
						}
						if X2 := loadOf(bo.X, fElem); X2 != nil && sameElemSize(X2) {
							return a.lin(bo.Y), true
						}
					}
				}
				return lin{}, false
			}
			if dst.High != nil {
				hl0, okh := elemLin(dst.High, 0)
				if !okh {
					res.Unknown(key, pos, "the destination's end is not a sum of (elements * X.elemSize) terms")
					return
				}
				hl, ok := offOf(hl0, Xd)
				if !ok {
					res.Unknown(key, pos, "the destination's end does not start from X.offset")
					return
				}
				e := hl.clone()
				e.terms[a.lenAtom]--
				if a.prove(e, conds, 7) {
					res.OK(key, pos, "the destination ends at or before offset+length")
				} else {
					res.Bad(key, pos, "the destination slice can end beyond the view (offset+length): elements of the same ArrayBuffer that do not belong to this typed array are overwritten")
				}
				return
			}
			// open-ended destination: bounded only by the number of source bytes
			src, ok := core.Origin(c.Call.Args[1]).(*ssa.Slice)
			var ll lin
			if dst.Low != nil {
				l0, ok2 := offOf(a.lin(lowSum), Xd)
				if !ok2 {
					res.Unknown(key, pos, "the destination's start does not start from X.offset")
					return
				}
				ll = l0
			} else {
				ll = lin{terms: map[ssa.Value]int64{}}
			}
			if !ok || src.High == nil {
				res.Bad(key, pos, "open-ended destination slice of a view's buffer with a source of unknown length: the copy is bounded only by the end of the ArrayBuffer, not by the end of the view")
				return
			}
			as, aX := elemIndexOf(src.Low)
			bs, bX := elemIndexOf(src.High)
			if bs == nil || (src.Low != nil && as == nil) || !sameElemSize(bX) || (aX != nil && aX != bX) {
				res.Unknown(key, pos, "open-ended destination slice of a view's buffer, and the number of source elements cannot be related to the destination view (element sizes not unified by a defaultCtor equality test): this rule cannot decide whether the copy stays inside the view")
				return
			}
			e := ll.addScaled(a.lin(bs), 1)
			if as != nil {
				e = e.addScaled(a.lin(as), -1)
			}
			e.terms[a.lenAtom]--
			if a.prove(e, conds, 7) {
				res.OK(key, pos, "start + number of source elements <= length")
			} else {
				res.Bad(key, pos, "the destination slice is open-ended and start + (number of source elements) <= length does not follow from the definitions and controlling conditions: the copy runs past the end of the view into the rest of the ArrayBuffer (copyWithin(4, 0) on a view that ends before its buffer overwrites the neighbouring elements)")
			}
		})
	}
	res.Count("copies into a view's buffer", nCopy)
	// typedArray.export(offset, length) builds unsafe.Slice(ptr(offset), length): the arguments are
	// the view's own offset and length, in elements (ptr scales by the element size itself)
	for _, fn := range p.Funcs {
		if !p.InModule(fn) || fn.Blocks == nil {
			continue
		}
		k := 0
		core.AllInstrs(fn, func(in ssa.Instruction) {
			c, ok := in.(*ssa.Call)
			if !ok || !c.Call.IsInvoke() || c.Call.Method.Name() != "export" || len(c.Call.Args) != 2 {
				return
			}
			ld, ok := c.Call.Value.(*ssa.UnOp)
			if !ok {
				return
			}
			fa, ok := ld.X.(*ssa.FieldAddr)
			if !ok || core.FieldOf(fa) != fTA {
				return
			}
			X := core.Origin(fa.X)
			isField := func(v ssa.Value, f *types.Var) bool {
				l, ok := core.Origin(v).(*ssa.UnOp)
				if !ok || l.Op != token.MUL {
					return false
				}
				a, ok := l.X.(*ssa.FieldAddr)
				return ok && core.FieldOf(a) == f && core.Origin(a.X) == X
			}
			k++
			key := fmt.Sprintf("%s:export(offset, length)#%d", core.FuncName(fn), k)
			if isField(c.Call.Args[0], fOff) && isField(c.Call.Args[1], fLen) {
				res.OK(key, p.Pos(c.Pos()), "called with the view's own offset and length (element units)")
			} else {
				res.Bad(key, p.Pos(c.Pos()), "typedArray.export is not called with exactly (X.offset, X.length): the exported Go slice is built with unsafe.Slice from these numbers, so a scaled or shifted offset aliases the wrong bytes or memory past the buffer")
			}
		})
	}
	res.Count("accessor call sites", len(sites))
	res.Count("sites of the form X.offset+k", inScope)
	return res
}

package rules

import (
	"fmt"

	"gojaverif/core"

	"golang.org/x/tools/go/ssa"
)

// R-STDREGEXP (C20).
//
// checkStdRegexp(obj) decides between the fast path (drive the regexp engine directly) and the
// generic path (go through the observable `exec` / `lastIndex` / flags protocol): it answers
// "nobody has replaced exec on this object or on RegExp.prototype". The answer is a snapshot.
// Script that runs afterwards - the coercion of the subject string (toString of an object), a
// species constructor, a replace callback, a lastIndex valueOf - can install an `exec` hook, and a
// decision taken on the old snapshot then bypasses it.
//
// Rule: on no path from a checkStdRegexp call to the nil test of its result - the branch that
// picks the fast or the generic path - lies a call that may run script: the decision is taken on
// the state at the point of decision. A later checkStdRegexp call on the path refreshes the
// snapshot. What the fast path does after the decision is not covered: there the specification
// itself has fetched `exec` already (RegExpExec reads exec first, lastIndex afterwards), so script
// run by a lastIndex valueOf is legitimately too late.
var StdRegexp = &core.Rule{Name: "R-STDREGEXP", Run: runStdRegexp,
	Doc: "the nil test of checkStdRegexp's result (fast path vs generic path) is not separated from the call by anything that may run script"}

func runStdRegexp(p *core.Prog) *core.Result {
	res := core.NewResult("R-STDREGEXP", 4)
	chk, err := p.GojaMethod("Runtime", "checkStdRegexp")
	if err != nil {
		return res.Fail(err)
	}
	n := map[string]int{}
	for _, f := range p.Funcs {
		for _, ci := range core.CallsIn(f, chk) {
			d, ok := ci.(*ssa.Call)
			if !ok {
				continue
			}
			k := core.FuncName(f) + ":fast/generic decision taken on a fresh checkStdRegexp snapshot"
			n[k]++
			key := k
			if n[k] > 1 {
				key = fmt.Sprintf("%s#%d", k, n[k])
			}
			uses := map[ssa.Instruction]bool{}
			seenV := map[ssa.Value]bool{}
			var collect func(v ssa.Value, depth int)
			collect = func(v ssa.Value, depth int) {
				if seenV[v] || depth > 6 {
					return
				}
				seenV[v] = true
				for _, r := range core.Referrers(v) {
					switch x := r.(type) {
					case *ssa.Phi:
						collect(x, depth+1)
					case *ssa.BinOp:
						// the nil test: its branch is the decision
						if _, _, isNil := core.IsNilCompare(x); isNil {
							for _, r2 := range core.Referrers(x) {
								if _, ok := r2.(*ssa.If); ok {
									uses[r2] = true
								}
							}
						}
					}
				}
			}
			collect(d, 0)
			type st struct {
				b      *ssa.BasicBlock
				killed bool
			}
			seen := map[st]bool{}
			var bad, killer ssa.Instruction
			var walk func(b *ssa.BasicBlock, from int, killed bool, by ssa.Instruction)
			walk = func(b *ssa.BasicBlock, from int, killed bool, by ssa.Instruction) {
				if bad != nil {
					return
				}
				for j := from; j < len(b.Instrs); j++ {
					x := b.Instrs[j]
					if c2, ok := core.CallTo(x, chk); ok && c2 != ssa.CallInstruction(d) {
						return // a fresh snapshot
					}
					if x == ssa.Instruction(d) {
						return
					}
					if killed && uses[x] {
						bad, killer = x, by
						return
					}
					if c, ok := x.(ssa.CallInstruction); ok && !killed {
						if _, isB := c.Common().Value.(*ssa.Builtin); !isB {
							if cc, isCall := x.(*ssa.Call); isCall && p.CallNeverReturns(cc) {
								return
							}
							if p.MayRunScript(c) != "" {
								killed, by = true, x
							}
						}
					}
					if _, ok := x.(*ssa.Panic); ok {
						return
					}
				}
				for _, s := range b.Succs {
					k := st{s, killed}
					if !seen[k] {
						seen[k] = true
						walk(s, 0, killed, by)
					}
				}
			}
			walk(d.Block(), core.InstrIndex(d)+1, false, nil)
			if bad == nil {
				res.OK(key, p.Pos(d.Pos()), fmt.Sprintf("%d decision branch(es), none after a call that may run script", len(uses)))
			} else {
				pos := bad.Pos()
				if !pos.IsValid() {
					if ifi, ok := bad.(*ssa.If); ok {
						pos = ifi.Cond.Pos()
					}
				}
				res.Bad(key, p.Pos(pos), fmt.Sprintf("the snapshot taken at %s decides between fast and generic path here, after %s, which may run script (%s): that script can install an exec hook (on the object or on RegExp.prototype) which the fast path chosen on the old snapshot bypasses", p.Pos(d.Pos()), p.Pos(killer.Pos()), p.MayRunScript(killer.(ssa.CallInstruction))))
			}
		}
	}
	return res
}

package rules

import (
	"fmt"
	"go/constant"
	"go/token"
	"go/types"

	"gojaverif/core"

	"golang.org/x/tools/go/ssa"
)

// R-TRYPAIR: goja unwinds by Go panics. vm.handleThrow stops at the first tryPanicMarker
// frame for payloads it does not convert (interrupt, stack overflow, foreign Go panic),
// restores registers from it and re-panics, trusting the frame's owner to pop it while the
// panic passes through. So every owner of a marker frame must release it panic-safely.
var TryPair = &core.Rule{Name: "R-TRYPAIR", Run: runTryPair,
	Doc: "panic-safe release of tryPanicMarker frames: every function that pushes a marker frame (directly or through a wrapper that hands it to the caller) registers popTryFrame in a defer before any other call; frames turned into markers in place are skipped by handleThrow for uncatchable payloads"}

type tryAnchors struct {
	push, pop, handleThrow *ssa.Function
	marker                 int64
	catchPos, finallyRet   *types.Var
}

func resolveTryAnchors(p *core.Prog) (*tryAnchors, error) {
	a := &tryAnchors{}
	var err error
	if a.push, err = p.GojaMethod("vm", "pushTryFrame"); err != nil {
		return nil, err
	}
	if a.pop, err = p.GojaMethod("vm", "popTryFrame"); err != nil {
		return nil, err
	}
	if a.handleThrow, err = p.GojaMethod("vm", "handleThrow"); err != nil {
		return nil, err
	}
	c, ok := p.Goja.Types.Scope().Lookup("tryPanicMarker").(*types.Const)
	if !ok {
		return nil, &core.AnchorError{What: "const tryPanicMarker"}
	}
	v, ok := constant.Int64Val(c.Val())
	if !ok {
		return nil, &core.AnchorError{What: "const tryPanicMarker value"}
	}
	a.marker = v
	if a.catchPos, err = p.Field(core.GojaPath, "tryFrame", "catchPos"); err != nil {
		return nil, err
	}
	if a.finallyRet, err = p.Field(core.GojaPath, "tryFrame", "finallyRet"); err != nil {
		return nil, err
	}
	return a, nil
}

func containsCallTo(f *ssa.Function, fn *ssa.Function) bool {
	found := false
	core.WithAnon(f, func(g *ssa.Function) {
		if len(core.CallsIn(g, fn)) > 0 {
			found = true
		}
	})
	return found
}

func runTryPair(p *core.Prog) *core.Result {
	res := core.NewResult("R-TRYPAIR", 9)
	a, err := resolveTryAnchors(p)
	if err != nil {
		return res.Fail(err)
	}
	isMarkerPush := func(in ssa.Instruction) bool {
		c, ok := core.CallTo(in, a.push)
		if !ok {
			return false
		}
		args := c.Common().Args
		if len(args) < 2 {
			return false
		}
		v, ok := core.IntConst(args[1])
		return ok && v == a.marker
	}
	// wrappers: acquire a marker frame and return with it held (no pop anywhere in the function)
	wrappers := map[*ssa.Function]bool{}
	acquires := func(f *ssa.Function) []ssa.CallInstruction {
		var out []ssa.CallInstruction
		core.AllInstrs(f, func(in ssa.Instruction) {
			if isMarkerPush(in) {
				out = append(out, in.(ssa.CallInstruction))
				return
			}
			if c, ok := in.(ssa.CallInstruction); ok {
				if sc := core.StaticCallee(c); sc != nil && wrappers[sc] {
					out = append(out, c)
				}
			}
		})
		return out
	}
	for changed := true; changed; {
		changed = false
		for _, f := range p.Funcs {
			if wrappers[f] || f == a.push {
				continue
			}
			if len(acquires(f)) > 0 && !containsCallTo(f, a.pop) && f.Parent() == nil {
				wrappers[f] = true
				changed = true
			}
		}
	}
	nOwners := 0
	ownerOK := map[*ssa.Function]bool{}
	for _, f := range p.Funcs {
		if wrappers[f] || f == a.push {
			continue
		}
		acq := acquires(f)
		if len(acq) == 0 {
			continue
		}
		nOwners++
		used := map[ssa.Instruction]bool{}
		allOK := true
		for _, c := range acq {
			key := core.FuncName(f) + ":marker-frame"
			how := "pushTryFrame(tryPanicMarker)"
			if sc := core.StaticCallee(c); sc != a.push {
				how = "wrapper " + core.FuncName(sc)
			}
			d, why := pairedDefer(c, a.pop, used)
			if d != nil {
				used[d] = true
				res.OK(key, p.Pos(c.Pos()), fmt.Sprintf("defer popTryFrame registered right after %s", how))
			} else {
				allOK = false
				res.Bad(key, p.Pos(c.Pos()), fmt.Sprintf("marker frame acquired via %s is not released by a defer registered before the next call (%s): an interrupt / stack overflow / Go panic unwinding through this function leaves a stale tryPanicMarker frame on vm.tryStack; the outer owner then pops the wrong frame and the Runtime is not reusable", how, why))
			}
		}
		ownerOK[f] = allOK
	}
	// wrappers: every caller must be an owner (checked above) or a wrapper
	for w := range wrappers {
		key := core.FuncName(w) + ":wrapper"
		n := 0
		bad := ""
		for _, f := range p.Funcs {
			for _, c := range core.CallsIn(f, w) {
				n++
				if _, isDefer := c.(*ssa.Defer); isDefer {
					bad = core.FuncName(f) + " defers the acquiring wrapper"
				}
				if _, isGo := c.(*ssa.Go); isGo {
					bad = core.FuncName(f) + " runs the acquiring wrapper in a goroutine"
				}
			}
		}
		if bad != "" {
			res.Bad(key, p.Pos(w.Pos()), bad)
		} else if n == 0 {
			res.Bad(key, p.Pos(w.Pos()), "function pushes a tryPanicMarker frame, never pops it and has no caller that could")
		} else {
			res.OK(key, p.Pos(w.Pos()), fmt.Sprintf("hands the marker frame to its %d callers, each checked as an owner", n))
		}
	}
	res.Count("owners", nOwners)
	res.Count("wrappers", len(wrappers))

	// in-place markers: tf.catchPos = tryPanicMarker outside pushTryFrame
	nInPlace := 0
	for _, w := range p.FieldWrites(a.catchPos) {
		if w.Kind != "store" || w.Fn == a.push {
			continue
		}
		v, ok := core.IntConst(w.Val)
		if !ok || v != a.marker {
			continue
		}
		nInPlace++
		key := core.FuncName(w.Fn) + ":in-place-marker"
		// the same frame must be tagged through finallyRet with a constant that handleThrow tests
		tag, ok := inPlaceTag(p, w, a.finallyRet)
		if !ok {
			res.Bad(key, p.Pos(w.Instr.Pos()), "a try frame is turned into a tryPanicMarker frame in place without tagging it (finallyRet = <const>) so that handleThrow can skip it for uncatchable payloads; nobody pops it when an interrupt unwinds through the finally block")
			continue
		}
		if skips, always := handleThrowSkips(a, tag); skips && always {
			res.OK(key, p.Pos(w.Instr.Pos()), fmt.Sprintf("frame tagged finallyRet=%d and handleThrow pops frames with that tag for every payload", tag))
		} else if skips {
			res.Bad(key+":every payload", p.Pos(w.Instr.Pos()), fmt.Sprintf("handleThrow pops frames tagged finallyRet=%d only when the payload is not a JS exception (the test sits under `ex == nil`): an exception thrown inside a finally block that generator return() is running stops at this frame as if a Go caller owned it - the body's enclosing catch/finally never sees it, the body's outer try frames stay on vm.tryStack and the exception then escapes the caller's try/catch as well", tag))
		} else {
			res.Bad(key, p.Pos(w.Instr.Pos()), fmt.Sprintf("frame tagged finallyRet=%d becomes a marker, but handleThrow has no `finallyRet == %d` test leading to popTryFrame: an interrupt/stack overflow inside a finally block run by generator return() leaves this frame on vm.tryStack and the owner's defer pops it instead of its own", tag, tag))
		}
	}
	res.Count("in_place_markers", nInPlace)
	return res
}

// pairedDefer finds a `defer popTryFrame()` (or a deferred closure calling it) after the
// acquisition in the same block with no other call in between.
func pairedDefer(acq ssa.CallInstruction, pop *ssa.Function, used map[ssa.Instruction]bool) (ssa.Instruction, string) {
	b := acq.Block()
	i := core.InstrIndex(acq)
	for _, in := range b.Instrs[i+1:] {
		switch x := in.(type) {
		case *ssa.Defer:
			if used[x] {
				return nil, "the next defer already releases another frame"
			}
			if sc := x.Call.StaticCallee(); sc != nil {
				if sc == pop {
					return x, ""
				}
				if sc.Parent() != nil && len(core.CallsIn(sc, pop)) > 0 {
					return x, ""
				}
			}
			if mc, ok := x.Call.Value.(*ssa.MakeClosure); ok {
				if fn, ok := mc.Fn.(*ssa.Function); ok && len(core.CallsIn(fn, pop)) > 0 {
					return x, ""
				}
			}
			return nil, "the next defer does not call popTryFrame"
		case *ssa.Call:
			if _, isBuiltin := x.Call.Value.(*ssa.Builtin); isBuiltin {
				continue
			}
			name := "dynamic call"
			if sc := x.Call.StaticCallee(); sc != nil {
				name = core.FuncName(sc)
			}
			return nil, "call to " + name + " comes first"
		case *ssa.Go, *ssa.Panic, *ssa.Return, *ssa.If, *ssa.Jump:
			return nil, "control leaves the block before any defer"
		}
	}
	return nil, "no defer follows in the acquiring block"
}

// inPlaceTag: in the same block as the catchPos store, the same frame gets finallyRet = const.
func inPlaceTag(p *core.Prog, w *core.FieldWrite, finallyRet *types.Var) (int64, bool) {
	for _, in := range w.Instr.Block().Instrs {
		st, ok := in.(*ssa.Store)
		if !ok {
			continue
		}
		fa, ok := st.Addr.(*ssa.FieldAddr)
		if !ok || core.FieldOf(fa) != finallyRet || fa.X != w.Base {
			continue
		}
		if v, ok := core.IntConst(st.Val); ok {
			return v, true
		}
	}
	return 0, false
}

// handleThrowSkips: handleThrow contains `tf.finallyRet == tag` whose true edge leads to popTryFrame.
func handleThrowSkips(a *tryAnchors, tag int64) (ok bool, everyPayload bool) {
	core.AllInstrs(a.handleThrow, func(in ssa.Instruction) {
		b, isb := in.(*ssa.BinOp)
		if !isb || b.Op != token.EQL {
			return
		}
		var other ssa.Value
		if ld, isld := b.X.(*ssa.UnOp); isld && ld.Op == token.MUL && core.FieldOf(ld.X) == a.finallyRet {
			other = b.Y
		} else if ld, isld := b.Y.(*ssa.UnOp); isld && ld.Op == token.MUL && core.FieldOf(ld.X) == a.finallyRet {
			other = b.X
		}
		if other == nil {
			return
		}
		if v, isc := core.IntConst(other); !isc || v != tag {
			return
		}
		for _, e := range core.CondEdges(b) {
			// the true edge must reach a popTryFrame call before any return
			for _, c := range core.CallsIn(a.handleThrow, a.pop) {
				if e.True == c.Block() || (len(e.True.Instrs) == 1 && len(e.True.Succs) == 1 && e.True.Succs[0] == c.Block()) {
					ok = true
					// is the test itself evaluated whatever the payload is?
					indep := true
					for _, cp := range core.ControllingConds(b.Block()) {
						if x, _, isNil := core.IsNilCompare(cp.Cond); isNil {
							if pt, isPtr := x.Type().Underlying().(*types.Pointer); isPtr && core.IsGojaNamed(pt.Elem(), "Exception") {
								indep = false
							}
						}
					}
					if indep {
						everyPayload = true
					}
				}
			}
		}
	})
	return ok, everyPayload
}

package rules

import (
	"fmt"
	"strings"

	"gojaverif/core"

	"golang.org/x/tools/go/ssa"
)

// R-LENFIRST (C07 "yields the state and results prescribed by the method algorithms").
//
// Every Array.prototype method starts with `O = ToObject(this); len = LengthOfArrayLike(O)` and only
// then converts its arguments (ToIntegerOrInfinity(start), ToString(separator), ...). Both steps are
// observable: reading length calls getters / Proxy traps, converting an argument calls valueOf /
// toString, which can change the array. Converting first gives a different length - an index
// that the specification rejects against the old length is accepted against the new one.
//
// Rule: in every arrayproto_* function that reads the receiver's length
// (toLength(o.self.getStr("length"))), each conversion of an argument that
// may run script (ToInteger, ToNumber, toString, ... invoked on a value obtained from
// call.Argument(i) / call.Arguments[i]) is dominated by that read. (The length of a typed array cannot
// change, so the order is not observable there and the typedArrayProto_* functions are not covered.)
var LenFirst = &core.Rule{Name: "R-LENFIRST", Run: runLenFirst,
	Doc: "Array.prototype methods read the receiver's length before any argument conversion that may run script"}

func runLenFirst(p *core.Prog) *core.Result {
	res := core.NewResult("R-LENFIRST", 20)
	toLength, err := p.GojaFunc("toLength")
	if err != nil {
		return res.Fail(err)
	}
	argument, err := p.GojaMethod("FunctionCall", "Argument")
	if err != nil {
		return res.Fail(err)
	}
	conv := map[string]bool{"ToInteger": true, "ToNumber": true, "toString": true, "ToString": true, "ToFloat": true, "ToObject": true, "toPrimitive": true}
	nFn := 0
	for _, f := range p.Funcs {
		if !p.InModule(f) || f.Parent() != nil || !strings.HasPrefix(f.Name(), "arrayproto_") {
			continue
		}
		lens := core.CallsIn(f, toLength)
		if len(lens) == 0 {
			continue
		}
		nFn++
		name := core.FuncName(f)
		// values obtained from call.Argument(i)
		isArg := func(v ssa.Value) bool {
			for i := 0; i < 4; i++ {
				switch x := v.(type) {
				case *ssa.Call:
					return x.Call.StaticCallee() == argument
				case *ssa.Phi:
					for _, e := range x.Edges {
						if c, ok := e.(*ssa.Call); ok && c.Call.StaticCallee() == argument {
							return true
						}
					}
					return false
				case *ssa.UnOp:
					// call.Arguments[i]: an element of the slice loaded from the Arguments field
					if ia, ok := x.X.(*ssa.IndexAddr); ok {
						if ld, ok := ia.X.(*ssa.UnOp); ok {
							if fv := core.FieldOf(ld.X); fv != nil && fv.Name() == "Arguments" {
								return true
							}
						}
						if fld, ok := ia.X.(*ssa.Field); ok {
							if fv := core.FieldOf(fld); fv != nil && fv.Name() == "Arguments" {
								return true
							}
						}
					}
					return false
				}
				break
			}
			return false
		}
		n := 0
		core.AllInstrs(f, func(in ssa.Instruction) {
			c, ok := in.(*ssa.Call)
			if !ok {
				return
			}
			var recv ssa.Value
			mname := ""
			if c.Call.IsInvoke() {
				recv, mname = c.Call.Value, c.Call.Method.Name()
			} else if sc := c.Call.StaticCallee(); sc != nil && len(c.Call.Args) > 0 {
				recv, mname = c.Call.Args[0], sc.Name()
			}
			if !conv[mname] || recv == nil || !isArg(recv) {
				return
			}
			if p.MayRunScript(c) == "" {
				return
			}
			n++
			key := fmt.Sprintf("%s:argument conversion#%d after the length read", name, n)
			dom := false
			for _, l := range lens {
				if core.InstrDominates(l.(ssa.Instruction), c) {
					dom = true
				}
			}
			if dom {
				res.OK(key, p.Pos(c.Pos()), "dominated by toLength(length)")
			} else {
				res.Bad(key, p.Pos(c.Pos()), fmt.Sprintf("%s() of an argument can run script (valueOf/toString) and is not preceded by the read of the receiver's length (first read at %s): the specification reads LengthOfArrayLike(O) first, so an argument conversion that grows or shrinks the array changes which indexes are in range", mname, p.Pos(lens[0].Pos())))
			}
		})
	}
	res.Count("Array.prototype methods reading length", nFn)
	return res
}

package rules

import (
	"fmt"
	"go/token"
	"strings"

	"gojaverif/core"

	"golang.org/x/tools/go/ssa"
)

// R-MAKELEN (C01).
//
// The "length" of an array-like object is whatever its length property (or a Proxy's get trap)
// says: ToLength clamps it to 2^53-1, nothing more. A make() whose size or capacity comes from such a
// value without a bound panics with "makeslice: len out of range" - a Go runtime panic that
// escapes RunString - or reserves an absurd amount of memory.
//
// Rule: every make([]T, n, c) whose n or c derives (through conversions, + - *, min/max, phis,
// toIntStrict/toIntClamp) from toLength(..) / ToInteger() is bounded: a comparison of the value
// with a constant <= 2^32 controls the block (the RangeError checks of the array methods), or the
// block is controlled by a checkStdArrayObj*() result (a real array: its length is the length of
// its storage) or by an equality of the value with a len()/field, or the value passes through
// min(.., const).
var MakeLen = &core.Rule{Name: "R-MAKELEN", Run: func(p *core.Prog) *core.Result {
	res := core.NewResult("R-MAKELEN", 10)
	var fromScript func(v ssa.Value, depth int) string
	fromScript = func(v ssa.Value, depth int) string {
		if depth > 6 {
			return ""
		}
		switch x := v.(type) {
		case *ssa.Call:
			if x.Call.IsInvoke() {
				if n := x.Call.Method.Name(); n == "ToInteger" || n == "ToNumber" || n == "ToFloat" {
					return n
				}
				return ""
			}
			if c := x.Call.StaticCallee(); c != nil {
				switch c.Name() {
				case "toLength", "toIntStrict", "toIntClamp", "toInt", "relToIdx":
					if c.Name() == "toLength" {
						return "toLength"
					}
					for _, a := range x.Call.Args {
						if s := fromScript(a, depth+1); s != "" {
							return s
						}
					}
				case "min", "max":
				}
			}
			if b, ok := x.Call.Value.(*ssa.Builtin); ok && (b.Name() == "min" || b.Name() == "max") {
				for _, a := range x.Call.Args {
					if s := fromScript(a, depth+1); s != "" {
						return s
					}
				}
			}
		case *ssa.Convert:
			return fromScript(x.X, depth+1)
		case *ssa.BinOp:
			if x.Op == token.ADD || x.Op == token.SUB || x.Op == token.MUL {
				if s := fromScript(x.X, depth+1); s != "" {
					return s
				}
				return fromScript(x.Y, depth+1)
			}
		case *ssa.Phi:
			for _, e := range x.Edges {
				if s := fromScript(e, depth+1); s != "" {
					return s
				}
			}
		}
		return ""
	}
	n := 0
	nPer := map[string]int{}
	for _, f := range p.Funcs {
		if !p.InModule(f) {
			continue
		}
		core.AllInstrs(f, func(in ssa.Instruction) {
			ms, ok := in.(*ssa.MakeSlice)
			if !ok {
				return
			}
			src := fromScript(ms.Len, 0)
			if src == "" {
				src = fromScript(ms.Cap, 0)
			}
			if src == "" {
				return
			}
			n++
			name := core.FuncName(f)
			nPer[name]++
			key := name + ":make-sized-from-script-length-is-bounded"
			if nPer[name] > 1 {
				key = fmt.Sprintf("%s#%d", key, nPer[name])
			}
			sizes := []ssa.Value{ms.Len, ms.Cap}
			why := ""
			for _, cp := range core.ControllingConds(ms.Block()) {
				switch c := cp.Cond.(type) {
				case *ssa.Extract:
					// `_, ok := o.self.(*arrayObject)`: a real array, its length is bounded by 2^32-1
					if ta, ok := c.Tuple.(*ssa.TypeAssert); ok && c.Index == 1 && cp.Pol && strings.HasSuffix(ta.AssertedType.String(), ".arrayObject") {
						why = "under a successful type assertion to *arrayObject (a real array)"
					}
				case *ssa.BinOp:
					// a guard result compared with nil
					if x, nonNil, isNil := core.IsNilCompare(c); isNil && cp.Pol == nonNil {
						if call, ok := x.(*ssa.Call); ok {
							if sc := call.Call.StaticCallee(); sc != nil && (sc.Name() == "checkStdArrayObj" || sc.Name() == "checkStdArrayObjWithProto" || sc.Name() == "checkStdArray") {
								why = "under " + sc.Name() + "() != nil (a real array)"
							}
						}
						continue
					}
					// size (or what it was computed from) compared with a constant
					if k, ok := core.IntConst(c.Y); ok && k <= 1<<32 && fromScript(c.X, 0) != "" {
						op := c.Op
						if !cp.Pol {
							op = negCmp(op)
						}
						if op == token.LSS || op == token.LEQ {
							why = fmt.Sprintf("under a comparison with the constant %d", k)
						}
					}
					// equality with a real length
					if c.Op == token.EQL && cp.Pol {
						for _, side := range []ssa.Value{c.X, c.Y} {
							if fromScript(side, 0) == "" {
								if _, isCall := stripConv(side).(*ssa.Call); isCall {
									why = "the length equals a len() of real storage"
								}
							}
						}
					}
				}
			}
			if why == "" {
				bounded := 0
				for _, sz := range sizes {
					if sz == nil || fromScript(sz, 0) == "" {
						bounded++
						continue
					}
					if c, ok := stripConv(sz).(*ssa.Call); ok {
						if sc := c.Call.StaticCallee(); sc != nil && sc.Name() == "capHint" {
							bounded++
						}
						if b, ok := c.Call.Value.(*ssa.Builtin); ok && b.Name() == "min" {
							for _, a := range c.Call.Args {
								if _, isConst := core.IntConst(a); isConst {
									bounded++
									break
								}
							}
						}
					}
				}
				if bounded == 2 {
					why = "capacity hint passed through a bounding function"
				}
			}
			if why != "" {
				res.OK(key, p.Pos(ms.Pos()), why)
			} else {
				res.Bad(key, p.Pos(ms.Pos()), "the size comes from "+src+" of a script value with no bound: an array-like with an absurd length (`{length: 2**53-1}`, a Proxy answering for \"length\") makes make() panic with \"makeslice: len out of range\", a Go runtime panic that escapes to the host")
			}
		})
	}
	res.Count("makes sized from script integers", n)
	return res
}}

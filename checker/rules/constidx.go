package rules

import (
	"fmt"
	"go/token"
	"go/types"

	"gojaverif/core"

	"golang.org/x/tools/go/ssa"
)

// R-CONSTIDX (C01): indexing a string with a constant index k anywhere in the module (`str[2]`) is
// control-dependent on a length test that implies len > k (len(str) > k, len(str) >= k+1,
// len(str) == n with n > k, ...), or the index-out-of-range panic escapes Parse/Compile/RunString
// for a source text that ends early (`/(?</`) or a property name that does (`"abc"["-"]` crashed the
// host on the pinned tree: strToInt32 indexed the remainder after the sign). Slices are not covered:
// their constant indexes rest on representation invariants (a unicodeString starts with the BOM),
// 250 sites that no length comparison guards.
var ConstIdx = &core.Rule{Name: "R-CONSTIDX", Run: runConstIdx,
	Doc: "every string index with a constant k is control-dependent on a length comparison of the same string implying len > k"}

func runConstIdx(p *core.Prog) *core.Result {
	res := core.NewResult("R-CONSTIDX", 30)
	n := map[string]int{}
	for _, f := range p.Funcs {
		if f.Pkg == nil || !p.InModule(f) {
			continue
		}
		core.AllInstrs(f, func(in ssa.Instruction) {
			var X, Index ssa.Value
			switch lk := in.(type) {
			case *ssa.Index:
				if b, ok := lk.X.Type().Underlying().(*types.Basic); !ok || b.Info()&types.IsString == 0 {
					return
				}
				X, Index = lk.X, lk.Index
			default:
				return
			}
			lk := struct {
				X   ssa.Value
				pos token.Pos
			}{X, in.Pos()}
			k, ok := core.IntConst(Index)
			if !ok {
				return
			}
			if c, isConst := X.(*ssa.Const); isConst && c.Value != nil {
				return // constant string
			}
			kk := core.FuncName(f) + fmt.Sprintf(":s[%d]", k)
			n[kk]++
			key := kk
			if n[kk] > 1 {
				key = fmt.Sprintf("%s#%d", kk, n[kk])
			}
			if lenGuarded(in.Block(), lk.X, k, 0) {
				res.OK(key, p.Pos(lk.pos), "length test implies the index is in range")
			} else {
				res.Bad(key, p.Pos(lk.pos), fmt.Sprintf("string indexed with the constant %d without a dominating length test implying len > %d: a source text that ends here makes the parser panic with index out of range", k, k))
			}
		})
	}
	return res
}

// lenGuarded: len(s) > k holds in block b - by the controlling conditions of b, or, when s is a phi
// of b's function, for every incoming value on its own edge.
func lenGuarded(b *ssa.BasicBlock, s ssa.Value, k int64, depth int) bool {
	if lenImplies(core.ControllingConds(b), s, k) {
		return true
	}
	ph, ok := s.(*ssa.Phi)
	if !ok || depth > 3 {
		return false
	}
	for i, e := range ph.Edges {
		pred := ph.Block().Preds[i]
		conds := core.ControllingConds(pred)
		if len(pred.Instrs) > 0 {
			if ifi, ok := pred.Instrs[len(pred.Instrs)-1].(*ssa.If); ok && pred.Succs[0] != pred.Succs[1] {
				conds = append(conds, core.CondPol{Cond: ifi.Cond, Pol: pred.Succs[0] == ph.Block(), If: ifi})
			}
		}
		if lenImplies(conds, e, k) {
			continue
		}
		if _, isPhi := e.(*ssa.Phi); isPhi && lenGuarded(pred, e, k, depth+1) {
			continue
		}
		return false
	}
	return true
}

// lenImplies: the conditions imply len(s) > k.
func lenImplies(conds []core.CondPol, s ssa.Value, k int64) bool {
	isLenOf := func(v ssa.Value) bool {
		c, ok := v.(*ssa.Call)
		if !ok {
			return false
		}
		bi, ok := c.Call.Value.(*ssa.Builtin)
		if !ok || bi.Name() != "len" || len(c.Call.Args) != 1 {
			return false
		}
		a := c.Call.Args[0]
		// the same value, or a second load through the same field path (v.Literal written twice)
		return a == s || (isFieldLoad(a) && isFieldLoad(s) && condKey(a, 0) == condKey(s, 0))
	}
	for _, cp := range conds {
		bo, ok := cp.Cond.(*ssa.BinOp)
		if !ok {
			continue
		}
		op := bo.Op
		// s != "" (or the false edge of s == "")
		if k == 0 && (op == token.EQL || op == token.NEQ) {
			isEmpty := func(v ssa.Value) bool {
				c, ok := v.(*ssa.Const)
				return ok && c.Value != nil && c.Value.ExactString() == `""`
			}
			if (bo.X == s && isEmpty(bo.Y)) || (bo.Y == s && isEmpty(bo.X)) {
				if (op == token.NEQ) == cp.Pol {
					return true
				}
				continue
			}
		}
		var c int64
		switch {
		case isLenOf(bo.X):
			v, ok := core.IntConst(bo.Y)
			if !ok {
				continue
			}
			c = v
		case isLenOf(bo.Y):
			v, ok := core.IntConst(bo.X)
			if !ok {
				continue
			}
			c = v
			switch op { // c op len  ==>  len op' c
			case token.LSS:
				op = token.GTR
			case token.LEQ:
				op = token.GEQ
			case token.GTR:
				op = token.LSS
			case token.GEQ:
				op = token.LEQ
			}
		default:
			continue
		}
		if !cp.Pol {
			switch op {
			case token.LSS:
				op = token.GEQ
			case token.LEQ:
				op = token.GTR
			case token.GTR:
				op = token.LEQ
			case token.GEQ:
				op = token.LSS
			case token.EQL:
				op = token.NEQ
			case token.NEQ:
				op = token.EQL
			}
		}
		switch op {
		case token.GTR:
			if c >= k {
				return true
			}
		case token.GEQ:
			if c >= k+1 {
				return true
			}
		case token.EQL:
			if c >= k+1 {
				return true
			}
		case token.NEQ:
			if c == 0 && k == 0 {
				return true
			}
		}
	}
	return false
}

func isFieldLoad(v ssa.Value) bool {
	ld, ok := v.(*ssa.UnOp)
	if !ok || ld.Op != token.MUL {
		return false
	}
	_, ok = ld.X.(*ssa.FieldAddr)
	return ok
}

package rules

import (
	"fmt"
	"go/token"

	"gojaverif/core"

	"golang.org/x/tools/go/ssa"
)

// R-SIZESNAP (C18, C13).
//
// Export()/ExportTo() of a Map or Set must size the result and register it in the export context
// before the elements are exported (a cycle has to find it there, and the slice cannot be appended
// to afterwards). Exporting an element can run user code (a getter on a value object), which can add
// or delete entries. A result sized from the *live* size and then filled by stepping a live
// iterator comes out with phantom nil rows (an entry was deleted) or silently truncated (one was
// added).
//
// Rule: in a function that allocates a slice whose length is read from orderedMap.size, no call
// that may run script lies on a path from the allocation to a step of a live iterator
// ((*orderedMapIter).next()): the entries are taken as a snapshot first.
var SizeSnap = &core.Rule{Name: "R-SIZESNAP", Run: runSizeSnap,
	Doc: "a slice sized from orderedMap.size is not filled by stepping a live iterator across calls that may run script"}

func runSizeSnap(p *core.Prog) *core.Result {
	res := core.NewResult("R-SIZESNAP", 0)
	sizeF, err := p.Field(core.GojaPath, "orderedMap", "size")
	if err != nil {
		return res.Fail(err)
	}
	next, err := p.GojaMethod("orderedMapIter", "next")
	if err != nil {
		return res.Fail(err)
	}
	fromSize := func(v ssa.Value) bool {
		for i := 0; i < 5; i++ {
			switch x := v.(type) {
			case *ssa.Convert:
				v = x.X
				continue
			case *ssa.ChangeType:
				v = x.X
				continue
			case *ssa.UnOp:
				if x.Op == token.MUL && core.FieldOf(x.X) == sizeF {
					return true
				}
			}
			break
		}
		return false
	}
	nAlloc := 0
	for _, f := range p.Funcs {
		if !p.InModule(f) {
			continue
		}
		var allocs []ssa.Instruction
		core.AllInstrs(f, func(in ssa.Instruction) {
			switch x := in.(type) {
			case *ssa.MakeSlice:
				if fromSize(x.Len) {
					allocs = append(allocs, in)
				}
			case *ssa.Call:
				if c := x.Call.StaticCallee(); c != nil && c.Pkg != nil && c.Pkg.Pkg.Path() == "reflect" && c.Name() == "MakeSlice" && len(x.Call.Args) == 3 && fromSize(x.Call.Args[1]) {
					allocs = append(allocs, in)
				}
			}
		})
		if len(allocs) == 0 {
			continue
		}
		steps := core.CallsIn(f, next)
		for i, a := range allocs {
			nAlloc++
			key := fmt.Sprintf("%s:result sized from the live size is not filled across script calls#%d", core.FuncName(f), i+1)
			// path a -> script call -> next()
			var badScript, badStep ssa.Instruction
			type st struct {
				b      *ssa.BasicBlock
				killed bool
			}
			seen := map[st]bool{}
			var walk func(b *ssa.BasicBlock, from int, killed bool, by ssa.Instruction)
			walk = func(b *ssa.BasicBlock, from int, killed bool, by ssa.Instruction) {
				if badStep != nil {
					return
				}
				for j := from; j < len(b.Instrs); j++ {
					x := b.Instrs[j]
					if c, ok := x.(ssa.CallInstruction); ok {
						if killed {
							for _, s := range steps {
								if s == c {
									badScript, badStep = by, x
									return
								}
							}
						}
						if _, isB := c.Common().Value.(*ssa.Builtin); !isB && !killed && p.MayRunScript(c) != "" {
							killed, by = true, x
						}
					}
				}
				for _, s := range b.Succs {
					k := st{s, killed}
					if !seen[k] {
						seen[k] = true
						walk(s, 0, killed, by)
					}
				}
			}
			walk(a.Block(), core.InstrIndex(a)+1, false, nil)
			if badStep == nil {
				res.OK(key, p.Pos(a.Pos()), "no live iterator step after a call that may run script")
			} else {
				res.Bad(key, p.Pos(badStep.Pos()), fmt.Sprintf("the result allocated at %s with the size read then is filled by stepping a live iterator after %s, which may run script (%s): a getter that deletes an entry leaves a phantom nil element at the end, one that adds an entry gets it cut off", p.Pos(a.Pos()), p.Pos(badScript.Pos()), p.MayRunScript(badScript.(ssa.CallInstruction))))
			}
		}
	}
	res.Count("allocations sized from orderedMap.size", nAlloc)
	return res
}

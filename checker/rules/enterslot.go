package rules

import (
	"fmt"
	"go/token"
	"go/types"

	"gojaverif/core"

	"golang.org/x/tools/go/ssa"
)

// R-ENTERSLOT (C01, C02 "visible to eval").
//
// The compiler twice lets the first binding of a block scope alias a value that is already on the
// operand stack (the caught exception; the switch discriminant): it counts the binding like any
// other stack variable and then takes one slot back with `enter.stackSize--`. That is only valid
// when the binding really lives on the stack. updateEnterBlock puts *every* binding of a scope
// with dynamic lookups (direct eval, with) into the stash and leaves stackSize at 0, so the
// decrement wraps the uint32 to 4294967295 and enterBlock.exec asks for 4 billion stack slots
// ("fatal error: runtime: out of memory" - not recoverable by the host).
// Rule: every decrement of enterBlock.stackSize is control-dependent on the false edge of a test
// of scope.dynLookup (the condition under which its writer leaves it at 0).
var EnterSlot = &core.Rule{Name: "R-ENTERSLOT", Run: runEnterSlot,
	Doc: "every decrement of enterBlock.stackSize is control-dependent on !scope.dynLookup, the condition under which updateEnterBlock counted the aliased binding as a stack slot"}

func isUnsigned(t types.Type) bool {
	b, ok := t.Underlying().(*types.Basic)
	return ok && b.Info()&types.IsUnsigned != 0
}

func runEnterSlot(p *core.Prog) *core.Result {
	res := core.NewResult("R-ENTERSLOT", 2)
	ss, err := p.Field(core.GojaPath, "enterBlock", "stackSize")
	if err != nil {
		return res.Fail(err)
	}
	dyn, err := p.Field(core.GojaPath, "scope", "dynLookup")
	if err != nil {
		return res.Fail(err)
	}
	// the writer really leaves stackSize at 0 under dynLookup: the belief this rule rests on
	upd, err := p.GojaMethod("compiler", "updateEnterBlock")
	if err != nil {
		return res.Fail(err)
	}
	beliefOK := false
	core.AllInstrs(upd, func(in ssa.Instruction) {
		if i, ok := in.(*ssa.If); ok {
			if ld, ok := i.Cond.(*ssa.UnOp); ok && ld.Op == token.MUL && core.FieldOf(ld.X) == dyn {
				beliefOK = true
			}
		}
	})
	if !beliefOK {
		return res.Failf("updateEnterBlock no longer branches on scope.dynLookup: the rule's premise must be re-derived")
	}
	n := map[string]int{}
	for _, f := range p.Funcs {
		core.AllInstrs(f, func(in ssa.Instruction) {
			st, ok := in.(*ssa.Store)
			if !ok || core.FieldOf(st.Addr) != ss {
				return
			}
			bo, ok := st.Val.(*ssa.BinOp)
			if !ok || bo.Op != token.SUB || !isUnsigned(bo.Type()) {
				return
			}
			k := core.FuncName(core.EnclosingTop(f)) + ":enter.stackSize--"
			n[k]++
			key := k
			if n[k] > 1 {
				key = fmt.Sprintf("%s#%d", k, n[k])
			}
			pos := p.Pos(st.Pos())
			for _, cp := range core.ControllingConds(in.Block()) {
				if ld, ok := cp.Cond.(*ssa.UnOp); ok && ld.Op == token.MUL && core.FieldOf(ld.X) == dyn && !cp.Pol {
					res.OK(key, pos, "only when the scope has no dynamic lookups")
					return
				}
			}
			res.Bad(key, pos, "the slot is taken back although a scope with a direct eval / with has no stack variables at all: stackSize wraps to 4294967295 and entering the block exhausts memory (e.g. `switch (1) { case 1: let a = 7; eval('a') }`)")
		})
	}
	return res
}

package rules

import (
	"fmt"
	"go/token"
	"go/types"

	"gojaverif/core"

	"golang.org/x/tools/go/ssa"
)

// R-INTERRUPTSYNC: the interrupt flag is shared between the interrupting goroutine and the
// running one. Race freedom and "stays raised while unwinding" are visible in who touches it how.
var InterruptSync = &core.Rule{Name: "R-INTERRUPTSYNC", Run: runInterruptSync,
	Doc: "vm.interrupted is only ever touched through sync/atomic; vm.interruptVal only under interruptLock; the flag is raised only in vm.Interrupt (after publishing the value) and cleared only in vm.ClearInterrupt, reached only from the public API and leaveAbrupt; Interrupt/ClearInterrupt touch no other runtime state"}

func isAtomicFunc(fn *ssa.Function) bool {
	return fn != nil && fn.Pkg != nil && fn.Pkg.Pkg.Path() == "sync/atomic"
}

func runInterruptSync(p *core.Prog) *core.Result {
	res := core.NewResult("R-INTERRUPTSYNC", 8)
	fInt, err := p.Field(core.GojaPath, "vm", "interrupted")
	if err != nil {
		return res.Fail(err)
	}
	fVal, err := p.Field(core.GojaPath, "vm", "interruptVal")
	if err != nil {
		return res.Fail(err)
	}
	fLock, err := p.Field(core.GojaPath, "vm", "interruptLock")
	if err != nil {
		return res.Fail(err)
	}
	vmInterrupt, err := p.GojaMethod("vm", "Interrupt")
	if err != nil {
		return res.Fail(err)
	}
	vmClear, err := p.GojaMethod("vm", "ClearInterrupt")
	if err != nil {
		return res.Fail(err)
	}
	rtInterrupt, err := p.GojaMethod("Runtime", "Interrupt")
	if err != nil {
		return res.Fail(err)
	}
	rtClear, err := p.GojaMethod("Runtime", "ClearInterrupt")
	if err != nil {
		return res.Fail(err)
	}
	leaveAbrupt, err := p.GojaMethod("Runtime", "leaveAbrupt")
	if err != nil {
		return res.Fail(err)
	}

	// (i) every address-of vm.interrupted flows only into sync/atomic calls
	nAcc := 0
	for _, fa := range p.FieldAddrs(fInt) {
		nAcc++
		fn := fa.Parent()
		key := core.FuncName(fn) + ":interrupted-atomic"
		ok := true
		what := ""
		kind := "load"
		for _, r := range core.Referrers(fa) {
			c, isCall := r.(*ssa.Call)
			if !isCall || !isAtomicFunc(c.Call.StaticCallee()) {
				ok = false
				what = fmt.Sprintf("%T", r)
				continue
			}
			name := c.Call.StaticCallee().Name()
			if name != "LoadUint32" {
				kind = name
				// who may write, and what
				switch {
				case name == "StoreUint32" && len(c.Call.Args) == 2:
					v, isConst := core.IntConst(c.Call.Args[1])
					switch {
					case isConst && v == 1 && fn == vmInterrupt:
					case isConst && v == 0 && fn == vmClear:
					default:
						res.Bad(core.FuncName(fn)+":interrupted-writer", p.Pos(c.Pos()), "the interrupt flag may only be raised in (*vm).Interrupt and cleared in (*vm).ClearInterrupt: clearing it where the InterruptedError is raised (or anywhere during unwinding) lets script catch/finally blocks and iterator return() run after the interrupt; raising it elsewhere interrupts spuriously")
					}
				default:
					res.Bad(core.FuncName(fn)+":interrupted-writer", p.Pos(c.Pos()), "unexpected atomic writer "+name+" of vm.interrupted")
				}
			}
		}
		if ok {
			res.OK(key, p.Pos(fa.Pos()), "accessed through sync/atomic ("+kind+")")
		} else {
			res.Bad(key, p.Pos(fa.Pos()), "vm.interrupted is accessed without sync/atomic ("+what+"): data race between Interrupt() on another goroutine and the running VM")
		}
	}
	res.Count("interrupted_accesses", nAcc)

	// (ii) interruptVal only under the lock
	lockCalls := func(fn *ssa.Function, name string) []ssa.Instruction {
		var out []ssa.Instruction
		core.AllInstrs(fn, func(in ssa.Instruction) {
			c, ok := in.(*ssa.Call)
			if !ok {
				return
			}
			sc := c.Call.StaticCallee()
			if sc == nil || sc.Name() != name || sc.Pkg == nil || sc.Pkg.Pkg.Path() != "sync" || len(c.Call.Args) == 0 {
				return
			}
			if fa, ok := c.Call.Args[0].(*ssa.FieldAddr); ok && core.FieldOf(fa) == fLock {
				out = append(out, in)
			}
		})
		return out
	}
	for _, fa := range p.FieldAddrs(fVal) {
		fn := fa.Parent()
		key := core.FuncName(fn) + ":interruptVal-locked"
		locks, unlocks := lockCalls(fn, "Lock"), lockCalls(fn, "Unlock")
		held := false
		for _, l := range locks {
			if !core.InstrDominates(l, fa) {
				continue
			}
			released := false
			for _, u := range unlocks {
				if core.InstrDominates(l, u) && core.InstrDominates(u, fa) {
					released = true
				}
			}
			after := false
			for _, u := range unlocks {
				if core.InstrDominates(fa, u) {
					after = true
				}
			}
			if !released && after {
				held = true
			}
		}
		if held {
			res.OK(key, p.Pos(fa.Pos()), "between interruptLock.Lock() and Unlock()")
		} else {
			res.Bad(key, p.Pos(fa.Pos()), "vm.interruptVal is accessed outside interruptLock: data race with Interrupt() from another goroutine")
		}
	}

	// (iii) publish-before-raise in (*vm).Interrupt
	{
		var valStore, flagStore ssa.Instruction
		core.AllInstrs(vmInterrupt, func(in ssa.Instruction) {
			if st, ok := in.(*ssa.Store); ok {
				if fa, ok := st.Addr.(*ssa.FieldAddr); ok && core.FieldOf(fa) == fVal {
					valStore = in
				}
			}
			if c, ok := in.(*ssa.Call); ok && isAtomicFunc(c.Call.StaticCallee()) && c.Call.StaticCallee().Name() == "StoreUint32" {
				flagStore = in
			}
		})
		key := "(*vm).Interrupt:publish-before-raise"
		locks := lockCalls(vmInterrupt, "Lock")
		switch {
		case valStore == nil || flagStore == nil:
			res.Bad(key, p.Pos(vmInterrupt.Pos()), "Interrupt does not both store interruptVal and raise the flag")
		case !core.InstrDominates(valStore, flagStore):
			res.Bad(key, p.Pos(flagStore.Pos()), "the flag is raised before the interrupt value is published: the running goroutine can observe the flag, take the lock first and report the previous (or nil) value")
		case len(locks) == 0 || !core.InstrDominates(locks[0], flagStore):
			res.Bad(key, p.Pos(flagStore.Pos()), "the flag is raised outside interruptLock: the VM can read a stale interruptVal between the flag store and the value store")
		default:
			res.OK(key, p.Pos(flagStore.Pos()), "value stored, then flag raised, both under interruptLock")
		}
	}

	// (iv) who may call: ClearInterrupt only from the public API wrapper and leaveAbrupt
	for _, f := range p.Funcs {
		for _, c := range core.CallsIn(f, vmClear) {
			key := core.FuncName(f) + ":calls-vm.ClearInterrupt"
			if f == rtClear {
				res.OK(key, p.Pos(c.Pos()), "public API wrapper")
			} else {
				res.Bad(key, p.Pos(c.Pos()), "the interrupt flag is cleared inside the engine outside the public ClearInterrupt: an interrupt can be swallowed while it unwinds")
			}
		}
		for _, c := range core.CallsIn(f, rtClear) {
			key := core.FuncName(f) + ":calls-Runtime.ClearInterrupt"
			if f == leaveAbrupt {
				res.OK(key, p.Pos(c.Pos()), "leaveAbrupt: control is back outside the runtime")
			} else {
				res.Bad(key, p.Pos(c.Pos()), "the engine clears the interrupt flag somewhere other than leaveAbrupt(): the interrupt may be lost before the outermost call returned it")
			}
		}
		for _, c := range core.CallsIn(f, vmInterrupt) {
			key := core.FuncName(f) + ":calls-vm.Interrupt"
			if f == rtInterrupt {
				res.OK(key, p.Pos(c.Pos()), "public API wrapper")
			} else {
				res.Bad(key, p.Pos(c.Pos()), "the engine raises the interrupt flag itself")
			}
		}
	}

	// (v) effect containment of the goroutine-safe API
	allowed := map[*types.Var]bool{fInt: true, fVal: true, fLock: true}
	if fvm, err := p.Field(core.GojaPath, "Runtime", "vm"); err == nil {
		allowed[fvm] = true
	}
	seen := map[*ssa.Function]bool{}
	var walk func(fn *ssa.Function, root string)
	walk = func(fn *ssa.Function, root string) {
		if fn == nil || seen[fn] || fn.Blocks == nil || !p.InModule(fn) {
			return
		}
		seen[fn] = true
		bad := ""
		core.AllInstrs(fn, func(in ssa.Instruction) {
			switch x := in.(type) {
			case *ssa.FieldAddr:
				if fv := core.FieldOf(x); fv != nil && !allowed[fv] && (core.IsGojaNamed(x.X.Type(), "vm") || core.IsGojaNamed(x.X.Type(), "Runtime")) {
					bad = "touches " + core.TypeShort(x.X.Type()) + "." + fv.Name()
				}
			case ssa.CallInstruction:
				if sc := core.StaticCallee(x); sc != nil {
					walk(sc, root)
				} else if _, isB := x.Common().Value.(*ssa.Builtin); !isB {
					bad = "makes a dynamic call"
				}
			}
		})
		key := root + ":effects(" + core.FuncName(fn) + ")"
		if bad == "" {
			res.OK(key, p.Pos(fn.Pos()), "touches only interrupted/interruptVal/interruptLock")
		} else {
			res.Bad(key, p.Pos(fn.Pos()), "goroutine-safe API "+root+" "+bad+": anything else it reads or writes races with the running VM")
		}
	}
	walk(rtInterrupt, "Runtime.Interrupt")
	seen = map[*ssa.Function]bool{}
	walk(rtClear, "Runtime.ClearInterrupt")
	return res
}

// R-POLL: the flag is polled on every instruction dispatch.
var Poll = &core.Rule{Name: "R-POLL", Run: runPoll,
	Doc: "every loop that dispatches VM instructions loads vm.interrupted atomically on each iteration before the dispatch, unconditionally, and leaves the loop when it is set"}

func runPoll(p *core.Prog) *core.Result {
	res := core.NewResult("R-POLL", 2)
	fInt, err := p.Field(core.GojaPath, "vm", "interrupted")
	if err != nil {
		return res.Fail(err)
	}
	instrT, err := p.GojaType("instruction")
	if err != nil {
		return res.Fail(err)
	}
	n := 0
	for _, f := range p.Funcs {
		core.AllInstrs(f, func(in ssa.Instruction) {
			c, ok := in.(*ssa.Call)
			if !ok || !c.Call.IsInvoke() || c.Call.Method.Name() != "exec" || core.NamedOf(c.Call.Value.Type()) != instrT {
				return
			}
			// only dispatch loops: the call is in a cycle of the CFG
			inLoop := false
			for _, s := range c.Block().Succs {
				if core.Reaches(s, c.Block()) {
					inLoop = true
				}
			}
			if !inLoop {
				return
			}
			n++
			key := core.FuncName(f) + ":poll-before-dispatch"
			var polls []*ssa.Call
			core.AllInstrs(f, func(in2 ssa.Instruction) {
				l, ok := in2.(*ssa.Call)
				if !ok || !isAtomicFunc(l.Call.StaticCallee()) || l.Call.StaticCallee().Name() != "LoadUint32" {
					return
				}
				if fa, ok := l.Call.Args[0].(*ssa.FieldAddr); ok && core.FieldOf(fa) == fInt {
					polls = append(polls, l)
				}
			})
			okPoll := false
			why := "no atomic load of vm.interrupted in the function"
			for _, l := range polls {
				if !core.InstrDominates(l, c) {
					why = "the poll does not dominate the dispatch (it is conditional, e.g. only every N instructions)"
					continue
				}
				if !core.Reaches(c.Block(), l.Block()) {
					why = "the poll is outside the dispatch loop"
					continue
				}
				// the dispatch must be on the not-interrupted edge of a test of the polled value
				guarded := false
				for _, cp := range core.ControllingConds(c.Block()) {
					b, isBin := cp.Cond.(*ssa.BinOp)
					if !isBin || b.X != l {
						continue
					}
					if k, okc := core.IntConst(b.Y); okc && k == 0 && ((b.Op == token.NEQ && !cp.Pol) || (b.Op == token.EQL && cp.Pol)) {
						guarded = true
					}
				}
				if !guarded {
					why = "the polled value does not gate the dispatch"
					continue
				}
				okPoll = true
			}
			if okPoll {
				res.OK(key, p.Pos(c.Pos()), "atomic poll dominates the dispatch inside the loop and gates it")
			} else {
				res.Bad(key, p.Pos(c.Pos()), "instruction dispatch loop without a per-iteration interrupt poll: "+why+" — Interrupt() is not honoured within a bounded number of instructions")
			}
		})
	}
	res.Count("dispatch_loops", n)
	return res
}

// R-UNCATCHABLECLOSE: "interrupts and stack overflows run no further script code": cleanup that
// invokes script (iterator return()) must be unreachable while an uncatchable payload unwinds.
var UncatchableClose = &core.Rule{Name: "R-UNCATCHABLECLOSE", Run: runUncatchableClose,
	Doc: "calls that close iterators (returnIter, restoreStacks) on an exceptional path are guarded by a classification of the pending payload that excludes interrupts/stack overflows"}

func runUncatchableClose(p *core.Prog) *core.Result {
	res := core.NewResult("R-UNCATCHABLECLOSE", 4)
	handleThrow, err := p.GojaMethod("vm", "handleThrow")
	if err != nil {
		return res.Fail(err)
	}
	restoreStacks, err := p.GojaMethod("vm", "restoreStacks")
	if err != nil {
		return res.Fail(err)
	}
	returnIter, err := p.GojaMethod("iteratorRecord", "returnIter")
	if err != nil {
		return res.Fail(err)
	}
	excFromVal, err := p.GojaMethod("vm", "exceptionFromValue")
	if err != nil {
		return res.Fail(err)
	}
	asUnc, err := p.GojaFunc("asUncatchableException")
	if err != nil {
		return res.Fail(err)
	}
	tryFunc, err := p.GojaFunc("tryFunc")
	if err != nil {
		return res.Fail(err)
	}
	// (a) handleThrow: restoreStacks only when the payload was converted to an Exception
	for _, c := range core.CallsIn(handleThrow, restoreStacks) {
		key := "(*vm).handleThrow:restoreStacks"
		ok := false
		for _, cp := range core.ControllingConds(c.Block()) {
			if x, nonNil, isNil := core.IsNilCompare(cp.Cond); isNil {
				if call, isCall := x.(*ssa.Call); isCall && call.Call.StaticCallee() == excFromVal && cp.Pol == nonNil {
					ok = true
				}
			}
		}
		if ok {
			res.OK(key, p.Pos(c.Pos()), "guarded by exceptionFromValue(arg) != nil")
		} else {
			res.Bad(key, p.Pos(c.Pos()), "handleThrow closes open iterators (runs their return() / generator finally blocks) even when the payload is an interrupt, a stack overflow or a foreign Go panic")
		}
	}
	if len(core.CallsIn(handleThrow, restoreStacks)) == 0 {
		res.Bad("(*vm).handleThrow:restoreStacks", p.Pos(handleThrow.Pos()), "handleThrow no longer restores the iterator stack through restoreStacks: anchor changed")
	}
	// (b) raw recovered values (tryFunc / recover): closing an iterator on the non-nil branch
	// requires asUncatchableException(ret) == nil
	n := 0
	for _, f := range p.Funcs {
		core.AllInstrs(f, func(in ssa.Instruction) {
			tc, ok := in.(*ssa.Call)
			if !ok || tc.Call.StaticCallee() != tryFunc {
				return
			}
			// closures created in blocks controlled by `ret != nil` that call returnIter
			core.AllInstrs(f, func(in2 ssa.Instruction) {
				mc, ok := in2.(*ssa.MakeClosure)
				if !ok {
					return
				}
				fn := mc.Fn.(*ssa.Function)
				if len(core.CallsIn(fn, returnIter)) == 0 {
					return
				}
				onFailure := false
				classified := false
				for _, cp := range core.ControllingConds(in2.Block()) {
					x, nonNil, isNil := core.IsNilCompare(cp.Cond)
					if !isNil {
						continue
					}
					if x == tc && cp.Pol == nonNil {
						onFailure = true
					}
					if call, isCall := x.(*ssa.Call); isCall && call.Call.StaticCallee() == asUnc && cp.Pol != nonNil {
						if len(call.Call.Args) == 1 && call.Call.Args[0] == tc {
							classified = true
						}
					}
				}
				if !onFailure {
					return
				}
				n++
				key := core.FuncName(f) + ":returnIter-after-panic"
				if classified {
					res.OK(key, p.Pos(in2.Pos()), "iterator closed only when asUncatchableException(ret) == nil")
				} else {
					res.Bad(key, p.Pos(in2.Pos()), "after a panic caught by tryFunc the iterator's return() is called without checking that the payload is not an interrupt / stack overflow")
				}
			})
		})
	}
	res.Count("tryFunc_failure_closers", n)
	// (c) direct callers of returnIter on exceptional paths use vm.try (which re-panics uncatchables)
	for _, f := range p.Funcs {
		for _, c := range core.CallsIn(f, returnIter) {
			key := core.FuncName(f) + ":returnIter"
			// inside a closure passed to tryFunc / vm.try: covered by (b) or by try's own classification
			if f.Parent() != nil {
				res.OK(key, p.Pos(c.Pos()), "inside a protected closure (classified by the enclosing try)")
				continue
			}
			exceptional := false
			for _, cp := range core.ControllingConds(c.Block()) {
				if x, nonNil, isNil := core.IsNilCompare(cp.Cond); isNil && cp.Pol == nonNil {
					if isRecoverCall(x) {
						exceptional = true
					}
					if call, ok := x.(*ssa.Call); ok && call.Call.StaticCallee() == tryFunc {
						exceptional = true
					}
				}
			}
			if exceptional {
				res.Bad(key, p.Pos(c.Pos()), "returnIter() called directly under an unclassified recovered value")
			} else {
				res.OK(key, p.Pos(c.Pos()), "normal path, or exception already converted by vm.try (which re-panics interrupts and stack overflows)")
			}
		}
	}
	// the dual: truncating the iterator stack *without* closing the iterators (dropStacks) is only
	// right when no more script may run - i.e. from restoreStacks itself (after it closed them) or
	// under the classification "the pending payload is not a script exception"
	{
		dropStacks, err := p.GojaMethod("vm", "dropStacks")
		if err != nil {
			return res.Fail(err)
		}
		exFromValue, err := p.GojaMethod("vm", "exceptionFromValue")
		if err != nil {
			return res.Fail(err)
		}
		n := 0
		for _, f := range p.Funcs {
			if !p.InModule(f) {
				continue
			}
			for _, c := range core.CallsIn(f, dropStacks) {
				n++
				key := fmt.Sprintf("%s:dropStacks#%d", core.FuncName(f), n)
				if f == restoreStacks {
					res.OK(key, p.Pos(c.Pos()), "after restoreStacks closed the iterators")
					continue
				}
				ok := false
				for _, cp := range core.ControllingConds(c.Block()) {
					if x, nonNil, isNil := core.IsNilCompare(cp.Cond); isNil && cp.Pol != nonNil {
						if call, isCall := core.Origin(x).(*ssa.Call); isCall && call.Call.StaticCallee() == exFromValue {
							ok = true
						}
					}
				}
				if ok {
					res.OK(key, p.Pos(c.Pos()), "only when exceptionFromValue classified the payload as not a script exception")
				} else {
					res.Bad(key, p.Pos(c.Pos()), "the iterators opened by the abandoned code are dropped without calling their return(): on a normal or script-exception path (generator.return() completing, a caught throw) every open iterator must be closed exactly once - dropStacks is reserved for interrupts, stack overflows and Go panics")
				}
			}
		}
	}
	return res
}

package rules

import (
	"fmt"
	"go/constant"
	"go/token"
	"go/types"
	"math"

	"gojaverif/core"

	"golang.org/x/tools/go/ssa"
)

// R-NUMBIRTH: every birth of a valueFloat must leave the canonical numeric form intact:
// no integral float in [-2^53, 2^53] other than -0 may live in a valueFloat, because
// SameValue / hashing / strict equality compare representations, not mathematical values.
var NumBirth = &core.Rule{Name: "R-NUMBIRTH", Run: runNumBirth,
	Doc: "who-may-construct valueFloat: constants non-integral, or inside the canonicaliser on the !ok edge of floatToInt"}

const maxSafe = 1 << 53

func canonicalFloatConst(f float64) bool {
	if math.IsNaN(f) || math.IsInf(f, 0) {
		return true
	}
	if f == 0 {
		return math.Signbit(f) // only -0 is a float
	}
	if f == math.Trunc(f) && f >= -maxSafe && f <= maxSafe {
		return false
	}
	return true
}

func runNumBirth(p *core.Prog) *core.Result {
	res := core.NewResult("R-NUMBIRTH", 15)
	vf, err := p.GojaType("valueFloat")
	if err != nil {
		return res.Fail(err)
	}
	floatToInt, err := p.GojaFunc("floatToInt")
	if err != nil {
		return res.Fail(err)
	}
	isVF := func(t types.Type) bool { return types.Identical(t, vf) }

	// table exceptions: one named symbol, one reason.
	exceptions := map[string]string{
		"parseLargeInt": "accumulator continues an int64 parse that already exceeded 2^63/base > 2^53; |n| only grows (n*b+v, b>=2), so the result is never an integer in ±2^53",
	}

	nfuncs := 0
	for _, f := range p.Funcs {
		nfuncs++
		fname := core.FuncName(f)
		ord := map[string]int{}
		mk := func(kind string) string {
			ord[kind]++
			if ord[kind] == 1 {
				return fmt.Sprintf("%s:%s", fname, kind)
			}
			return fmt.Sprintf("%s:%s#%d", fname, kind, ord[kind])
		}
		core.AllInstrs(f, func(in ssa.Instruction) {
			// constants are operands, not instructions
			for _, op := range in.Operands(nil) {
				c, ok := (*op).(*ssa.Const)
				if !ok || c.Value == nil || !isVF(c.Type()) {
					continue
				}
				fv, _ := constant.Float64Val(constant.ToFloat(c.Value))
				key := mk("Const")
				if canonicalFloatConst(fv) {
					res.OK(key, p.Pos(in.Pos()), fmt.Sprintf("constant %v is not an integer in ±2^53", fv))
				} else {
					res.Bad(key, p.Pos(in.Pos()), fmt.Sprintf("valueFloat constant %v is an integer in ±2^53 (must be valueInt)", fv))
				}
			}
			v, ok := in.(ssa.Value)
			if !ok || !isVF(v.Type()) {
				return
			}
			var operand ssa.Value
			kind := ""
			switch x := in.(type) {
			case *ssa.Convert:
				if isVF(x.X.Type()) {
					return
				}
				operand, kind = x.X, "Convert"
			case *ssa.ChangeType:
				if isVF(x.X.Type()) {
					return
				}
				operand, kind = x.X, "ChangeType"
			case *ssa.BinOp:
				kind = "BinOp" + x.Op.String()
			case *ssa.UnOp:
				if x.Op == token.MUL { // load: not a birth (the stored value was)
					return
				}
				kind = "UnOp" + x.Op.String()
			default:
				return // phi, extract, call, typeassert, field loads: not births
			}
			key := mk(kind)
			pos := p.Pos(in.Pos())
			if why, ok := exceptions[fname]; ok && f.Parent() == nil {
				res.OK(key, pos, "table exception: "+why)
				return
			}
			if operand == nil {
				res.Bad(key, pos, "arithmetic directly on valueFloat produces a float that is not re-canonicalised (route through floatToValue)")
				return
			}
			// idiom 1: constant operand
			if c, ok := operand.(*ssa.Const); ok && c.Value != nil {
				fv, _ := constant.Float64Val(constant.ToFloat(c.Value))
				if canonicalFloatConst(fv) {
					res.OK(key, pos, fmt.Sprintf("constant %v is not an integer in ±2^53", c.Value))
				} else {
					res.Bad(key, pos, fmt.Sprintf("constant %v is an integer in ±2^53 stored as valueFloat (must be valueInt)", c.Value))
				}
				return
			}
			// idiom 1b: math.NaN() / math.Inf(..)
			if call, ok := operand.(*ssa.Call); ok {
				if sc := call.Call.StaticCallee(); sc != nil && sc.Pkg != nil && sc.Pkg.Pkg.Path() == "math" && (sc.Name() == "NaN" || sc.Name() == "Inf") {
					res.OK(key, pos, "math."+sc.Name()+"() is canonical as a float")
					return
				}
			}
			// idiom 1c: load of a package-level float64 initialised once to Float64frombits(const)
			if ld, ok := operand.(*ssa.UnOp); ok && ld.Op == token.MUL {
				if g, ok := ld.X.(*ssa.Global); ok {
					if fv, ok := globalFloatBits(p, g); ok {
						if canonicalFloatConst(fv) {
							res.OK(key, pos, fmt.Sprintf("package constant %s = %v is canonical as a float", g.Name(), fv))
						} else {
							res.Bad(key, pos, fmt.Sprintf("package variable %s = %v is an integer in ±2^53", g.Name(), fv))
						}
						return
					}
				}
			}
			// idiom 2: inside the canonicaliser — same value was rejected by floatToInt
			if ok, why := rejectedByFloatToInt(operand, in, floatToInt); ok {
				res.OK(key, pos, why)
				// NaN is a single value in ECMAScript but 2^53 bit patterns in Go, and
				// valueFloat.hash uses the bits: a float of unknown provenance becomes a valueFloat
				// only after math.IsNaN(operand) was tested (and answered by the _NaN singleton)
				nanKey := key + ":NaN-canonical"
				nanOK := false
				for _, cp := range core.ControllingConds(in.Block()) {
					if c, ok := cp.Cond.(*ssa.Call); ok && !cp.Pol {
						if sc := c.Call.StaticCallee(); sc != nil && sc.Pkg != nil && sc.Pkg.Pkg.Path() == "math" && sc.Name() == "IsNaN" && len(c.Call.Args) == 1 && c.Call.Args[0] == operand {
							nanOK = true
						}
					}
				}
				if nanOK {
					res.OK(nanKey, pos, "born only when !math.IsNaN(operand)")
				} else {
					res.Bad(nanKey, pos, "a computed float becomes a valueFloat without a math.IsNaN test: NaNs with different payloads (Inf-Inf, Math.sqrt(-1), a Go NaN, typed-array reads) keep their bits, valueFloat.hash differs from the NaN literal's and Map/Set treat them as different keys")
				}
				return
			}
			res.Bad(key, pos, fmt.Sprintf("valueFloat born from %s without canonicalisation: an integral result in ±2^53 (or +0) would not be SameValue/=== /Map-key equal to the same number held as valueInt; use floatToValue", operand.Type()))
		})
	}
	res.Count("functions", nfuncs)
	return res
}

// rejectedByFloatToInt: operand was passed to floatToInt and `in` is only reachable on the ok==false edge.
func rejectedByFloatToInt(operand ssa.Value, in ssa.Instruction, floatToInt *ssa.Function) (bool, string) {
	for _, r := range core.Referrers(operand) {
		call, ok := r.(*ssa.Call)
		if !ok || call.Call.StaticCallee() != floatToInt || len(call.Call.Args) != 1 || call.Call.Args[0] != operand {
			continue
		}
		for _, e := range core.Referrers(call) {
			ex, ok := e.(*ssa.Extract)
			if !ok || ex.Index != 1 {
				continue
			}
			if core.DominatedByCond(ex, false, in.Block()) {
				return true, "operand was rejected by floatToInt (ok==false edge dominates the birth)"
			}
		}
	}
	return false, ""
}

// globalFloatBits: g is written exactly once, in the package initialiser, with math.Float64frombits(const).
func globalFloatBits(p *core.Prog, g *ssa.Global) (float64, bool) {
	var val ssa.Value
	n := 0
	for _, f := range p.Funcs {
		core.AllInstrs(f, func(in ssa.Instruction) {
			if st, ok := in.(*ssa.Store); ok && st.Addr == g {
				n++
				if f.Name() == "init" && f.Parent() == nil {
					val = st.Val
				}
			}
		})
	}
	if n != 1 || val == nil {
		return 0, false
	}
	call, ok := val.(*ssa.Call)
	if !ok {
		return 0, false
	}
	sc := call.Call.StaticCallee()
	if sc == nil || sc.Pkg == nil || sc.Pkg.Pkg.Path() != "math" || sc.Name() != "Float64frombits" {
		return 0, false
	}
	c, ok := call.Call.Args[0].(*ssa.Const)
	if !ok || c.Value == nil {
		return 0, false
	}
	u, ok := constant.Uint64Val(constant.ToInt(c.Value))
	if !ok {
		return 0, false
	}
	return math.Float64frombits(u), true
}

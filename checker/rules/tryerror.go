package rules

import (
	"fmt"
	"go/token"
	"go/types"

	"gojaverif/core"

	"golang.org/x/tools/go/ssa"
)

// R-TRYERROR (C15, C14).
//
// vm.try(f) converts a JS exception thrown under f into a returned *Exception. It does not stop
// an interrupt, a stack overflow or a foreign Go panic: handleThrow re-panics those at the marker
// frame, for the enclosing *boundary* (RunProgram, runWrapped) to turn into the call's error and
// to reset the runtime (leaveAbrupt: pending interrupt cleared, job queue dropped). An API that
// reports failures as a Go `error` and gets that error from a bare vm.try is therefore only half a
// boundary: called from Go with nothing below it - `rt.New(ctor)`, `rt.Set(..)` hitting a setter,
// `json.Marshal(obj)` running a toJSON, ExportTo consuming an iterable - an interrupt leaves it
// as a Go panic of *InterruptedError and stays pending for the next, unrelated run.
//
// Rule: the *Exception returned by (*vm).try is converted to the `error` interface only inside a
// boundary function (one whose deferred recover classifies the payload with
// asUncatchableException). Everybody else either hands the *Exception on as such (script-internal
// uses: promise jobs, iterator steps, Runtime.Try, whose documented result type is *Exception) or
// goes through runWrapped. A conversion that happens only under `len(vm.callStack) != 0` is fine
// too: with a run below, the uncatchable condition is meant to keep unwinding to that run's
// boundary (turning it into an error value there would let script catch it).
var TryError = &core.Rule{Name: "R-TRYERROR", Run: runTryError,
	Doc: "the *Exception result of vm.try becomes a Go `error` only in a boundary function that also converts uncatchable conditions (interrupt, stack overflow) and resets the runtime"}

func runTryError(p *core.Prog) *core.Result {
	res := core.NewResult("R-TRYERROR", 1)
	try, err := p.GojaMethod("vm", "try")
	if err != nil {
		return res.Fail(err)
	}
	asUnc, err := p.GojaFunc("asUncatchableException")
	if err != nil {
		return res.Fail(err)
	}
	errT := types.Universe.Lookup("error").Type()
	isBoundary := func(f *ssa.Function) bool {
		found := false
		core.WithAnon(f, func(g *ssa.Function) {
			if len(core.CallsIn(g, asUnc)) > 0 {
				found = true
			}
		})
		return found
	}
	callStackF, err := p.Field(core.GojaPath, "vm", "callStack")
	if err != nil {
		return res.Fail(err)
	}
	// nestedOnly: block b executes only when len(vm.callStack) != 0
	nestedOnly := func(b *ssa.BasicBlock) bool {
		for _, cp := range core.ControllingConds(b) {
			bo, ok := cp.Cond.(*ssa.BinOp)
			if !ok {
				continue
			}
			isLen := func(v ssa.Value) bool {
				c, ok := v.(*ssa.Call)
				if !ok {
					return false
				}
				bi, ok := c.Call.Value.(*ssa.Builtin)
				if !ok || bi.Name() != "len" {
					return false
				}
				ld, ok := c.Call.Args[0].(*ssa.UnOp)
				return ok && core.FieldOf(ld.X) == callStackF
			}
			if !isLen(bo.X) {
				continue
			}
			k, okc := core.IntConst(bo.Y)
			if !okc || k != 0 {
				continue
			}
			switch {
			case bo.Op == token.EQL && !cp.Pol, bo.Op == token.NEQ && cp.Pol, bo.Op == token.GTR && cp.Pol:
				return true
			}
		}
		return false
	}
	nTry, nConv := 0, 0
	seen := map[string]int{}
	for _, f := range p.Funcs {
		if !p.InModule(f) {
			continue
		}
		for _, c := range core.CallsIn(f, try) {
			v := c.Value()
			if v == nil {
				continue
			}
			nTry++
			// does the result reach a conversion to `error`?
			var conv ssa.Instruction
			seenV := map[ssa.Value]bool{}
			var walk func(x ssa.Value, depth int)
			walk = func(x ssa.Value, depth int) {
				if seenV[x] || depth > 6 || conv != nil {
					return
				}
				seenV[x] = true
				for _, r := range core.Referrers(x) {
					switch y := r.(type) {
					case *ssa.MakeInterface:
						if types.Identical(y.Type(), errT) {
							conv = y
							return
						}
					case *ssa.Phi:
						walk(y, depth+1)
					case *ssa.Store:
						// a named result or captured local: follow the cell's loads
						if y.Val == x {
							if cell, ok := y.Addr.(*ssa.Alloc); ok {
								for _, r2 := range core.Referrers(cell) {
									if ld, ok := r2.(*ssa.UnOp); ok {
										walk(ld, depth+1)
									}
								}
							}
						}
					}
				}
			}
			walk(v, 0)
			if conv == nil {
				continue
			}
			nConv++
			top := core.EnclosingTop(f)
			k := core.FuncName(f) + ":vm.try result returned as error only from a boundary"
			seen[k]++
			key := k
			if seen[k] > 1 {
				key = fmt.Sprintf("%s#%d", k, seen[k])
			}
			if isBoundary(top) {
				res.OK(key, p.Pos(c.Pos()), "the function recovers and classifies uncatchable payloads itself")
			} else if nestedOnly(c.Block()) {
				res.OK(key, p.Pos(c.Pos()), "only when the call stack is not empty: an uncatchable condition keeps unwinding to the boundary of the run below")
			} else {
				res.Bad(key, p.Pos(c.Pos()), "the JS exception caught by vm.try is reported as a Go error, but an interrupt or stack overflow raised under the same call is re-panicked by handleThrow and nothing here recovers it: called from Go with no run below it, the API panics with *InterruptedError and the interrupt stays pending for the next run; use runWrapped")
			}
		}
	}
	res.Count("calls of vm.try", nTry)
	res.Count("results converted to error", nConv)
	return res
}

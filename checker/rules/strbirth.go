package rules

import (
	"fmt"
	"go/constant"
	"go/token"
	"go/types"
	"os"
	"strings"

	"gojaverif/core"

	"golang.org/x/tools/go/ssa"
)

// R-STRBIRTH: the normal form of strings — asciiString holds only bytes < 0x80, unicodeString
// starts with the BOM and holds at least one unit >= 0x80 — is what ===, hashing and
// CompareTo assume. It is established where the representation is chosen.
var StrBirth = &core.Rule{Name: "R-STRBIRTH", Run: runStrBirth,
	Doc: "who-may-construct: every conversion of a Go string/[]byte to asciiString is a pure-ASCII constant or matches an enumerated ASCII-producing idiom; every conversion of a []uint16 to unicodeString matches an idiom that guarantees a unit >= 0x80"}

var theProg *core.Prog

func hasUnicodeStringParam(f *ssa.Function) bool {
	for _, prm := range f.Params {
		if core.IsGojaNamed(prm.Type(), "unicodeString") {
			if _, isPtr := prm.Type().(*types.Pointer); !isPtr {
				return true
			}
		}
	}
	return false
}

func runStrBirth(p *core.Prog) *core.Result {
	theProg = p
	res := core.NewResult("R-STRBIRTH", 100)
	asciiT, err := p.GojaType("asciiString")
	if err != nil {
		return res.Fail(err)
	}
	uniT, err := p.GojaType("unicodeString")
	if err != nil {
		return res.Fail(err)
	}
	nA, nU := 0, 0
	for _, f := range p.Funcs {
		fname := core.FuncName(f)
		core.AllInstrs(f, func(in ssa.Instruction) {
			// constants
			for _, op := range in.Operands(nil) {
				c, ok := (*op).(*ssa.Const)
				if !ok || c.Value == nil || !types.Identical(c.Type(), asciiT) {
					continue
				}
				nA++
				sv := constant.StringVal(c.Value)
				key := fname + ":asciiString-const"
				if isASCII(sv) {
					res.OK(key, p.Pos(in.Pos()), "constant is pure ASCII")
				} else {
					res.Bad(key, p.Pos(in.Pos()), fmt.Sprintf("asciiString constant %q contains a non-ASCII byte: length/charCodeAt see UTF-8 bytes and === with the equal UTF-16 string is false", sv))
				}
			}
			v, ok := in.(ssa.Value)
			if !ok {
				return
			}
			var x ssa.Value
			switch c := in.(type) {
			case *ssa.ChangeType:
				x = c.X
			case *ssa.Convert:
				x = c.X
			case *ssa.Slice, *ssa.MakeSlice:
				// u[a:b] / make(unicodeString, n): a new unicodeString value if it is used as a string
				if !types.Identical(v.Type(), uniT) || !usedAsString(v) {
					return
				}
				nU++
				key := fname + ":unicodeString-slice"
				if how, ok := unicodeSliceIdiom(p, f, in); ok {
					res.OK(key, p.Pos(in.Pos()), how)
				} else {
					res.Bad(key, p.Pos(in.Pos()), "a slice of / freshly made unicodeString is used as a string value without evidence that it contains a unit >= 0x80 (a sub-range of a UTF-16 string may be pure ASCII, and must then be an asciiString to compare equal to the same text)")
				}
				return
			default:
				return
			}
			switch {
			case types.Identical(v.Type(), asciiT) && !types.Identical(x.Type(), asciiT):
				nA++
				key := fname + ":asciiString-birth"
				if how, ok := asciiIdiom(p, f, in, x); ok {
					res.OK(key, p.Pos(in.Pos()), how)
				} else {
					detail := describeOrigin(p, x)
					if lastFieldBuilderProblem != "" {
						detail = lastFieldBuilderProblem
						lastFieldBuilderProblem = ""
					}
					res.Bad(key, p.Pos(in.Pos()), "a Go string is converted to asciiString without evidence that it is pure ASCII: "+detail)
				}
			case types.Identical(v.Type(), uniT) && !types.Identical(x.Type(), uniT):
				nU++
				key := fname + ":unicodeString-birth"
				if how, ok := unicodeIdiom(p, f, in, x); ok {
					res.OK(key, p.Pos(in.Pos()), how)
				} else {
					res.Bad(key, p.Pos(in.Pos()), "a []uint16 is converted to unicodeString without evidence that it contains a unit >= 0x80: an ASCII-only result kept in UTF-16 form is not === to the same text in ASCII form: "+describeOrigin(p, x))
				}
			}
		})
	}
	res.Count("asciiString_births", nA)
	res.Count("unicodeString_births", nU)
	// nil-able producers: a module function with result type unicodeString that returns an unchecked
	// unistring Scan/AsUtf16 result yields nil for ASCII content. Where its result is used as a string
	// value (converted to an interface, or returned), the call needs wide-unit evidence or a nil test.
	{
		var producers []*ssa.Function
		for _, f := range p.Funcs {
			if !p.InModule(f) || f.Blocks == nil || f.Signature.Results().Len() != 1 || !core.IsGojaNamed(f.Signature.Results().At(0).Type(), "unicodeString") {
				continue
			}
			nilable := false
			core.AllInstrs(f, func(in ssa.Instruction) {
				r, ok := in.(*ssa.Return)
				if !ok || len(r.Results) != 1 {
					return
				}
				o := core.Origin(r.Results[0])
				if c, ok := o.(*ssa.Call); ok {
					if sc := c.Call.StaticCallee(); sc != nil {
						switch core.FuncName(sc) {
						case "unistring.Scan", "(unistring.String).AsUtf16":
							guarded := false
							for _, cp := range core.ControllingConds(r.Block()) {
								if x, nonNil, ok := core.IsNilCompare(cp.Cond); ok && cp.Pol == nonNil && core.Origin(x) == o {
									guarded = true
								}
							}
							if !guarded {
								nilable = true
							}
						}
					}
				}
			})
			if nilable {
				producers = append(producers, f)
			}
		}
		for _, prod := range producers {
			for _, f := range p.Funcs {
				if !p.InModule(f) {
					continue
				}
				for k, c := range core.CallsIn(f, prod) {
					call, ok := c.(*ssa.Call)
					if !ok {
						continue
					}
					key := fmt.Sprintf("%s:%s result used as a string#%d", core.FuncName(f), prod.Name(), k+1)
					used := false
					for _, r := range core.Referrers(call) {
						switch r.(type) {
						case *ssa.MakeInterface, *ssa.Return, *ssa.ChangeInterface:
							used = true
						}
					}
					if !used {
						continue
					}
					okEv := ""
					for _, cp := range core.ControllingConds(call.Block()) {
						if impliesWide(cp, f, 0) {
							okEv = "call is control-dependent on unit->=0x80 evidence"
						}
					}
					if why, ok := strBirthExceptions[core.FuncName(f)+":"+prod.Name()]; ok {
						okEv = "table exception: " + why
					}
					if okEv != "" {
						res.OK(key, p.Pos(call.Pos()), okEv)
					} else {
						res.Bad(key, p.Pos(call.Pos()), prod.Name()+"() returns nil when its input is pure ASCII (it hands on an unchecked Scan/AsUtf16 result); here the result becomes a string value without evidence that a unit >= 0x80 is present: an all-ASCII result (toLowerCase of U+212A KELVIN SIGN is 'k') is a nil unicodeString - length -1, not === to the equal literal, charCodeAt panics")
					}
				}
			}
		}
		res.Count("nilable_unicode_producers", len(producers))
	}
	return res
}

func isASCII(s string) bool {
	for i := 0; i < len(s); i++ {
		if s[i] >= 0x80 {
			return false
		}
	}
	return true
}

func describeOrigin(p *core.Prog, x ssa.Value) string {
	o := core.Origin(x)
	switch y := o.(type) {
	case *ssa.Call:
		if sc := y.Call.StaticCallee(); sc != nil {
			return "value comes from " + core.FuncName(sc)
		}
		if y.Call.IsInvoke() {
			return "value comes from method " + y.Call.Method.Name()
		}
	case *ssa.Parameter:
		return "value is parameter " + y.Name()
	}
	return fmt.Sprintf("value is %T %s", o, o.Name())
}

// ---- idioms --------------------------------------------------------------------

// functions whose string result is pure ASCII by construction
var asciiProducers = map[string]string{
	"strconv.Itoa": "decimal digits", "strconv.FormatInt": "digits in base <= 36", "strconv.FormatUint": "digits in base <= 36",
	"strconv.FormatFloat": "digits, sign, exponent, NaN/Inf", "strconv.Quote": "",
	"(*math/big.Int).Text": "digits in base <= 62", "(*math/big.Int).String": "decimal digits",
	"(*big.Int).Text": "digits", "(*big.Int).String": "decimal digits",
	"hex.EncodeToString": "hex digits", "ftoa.FToBaseStr": "digits in the given radix",
	"fToStr": "ftoa digits/sign/exponent or the constants NaN/Infinity", "(valueInt).String": "strconv.FormatInt", "(valueFloat).String": "fToStr",
	"strings.ToLower": "ASCII in, ASCII out (receiver is an asciiString)", "strings.ToUpper": "ASCII in, ASCII out (receiver is an asciiString)",
	"strings.Repeat": "ASCII in, ASCII out",
}

var strBirthExceptions = map[string]string{
	"(unicodeString).ToNumber:ascii":          "transient value: only ToNumber() is called on it and never escapes; bytes >= 0x80 left after trimming make the numeric parse fail, which is the specified result (NaN)",
	"(*objectGoMapReflect).keyToString:ascii": "inside the case for numeric reflect.Kinds: fmt formatting of integers and floats is ASCII",
	"(*Runtime).stringproto_split:ascii":      "the chunk su[:idx] was scanned for units >= 0x80 by the loop just above, which jumps past this birth when it finds one",
}

// impliesWide: the condition, with this polarity, implies that some value is >= 0x80.
func impliesWide(cp core.CondPol, f *ssa.Function, depth int) bool {
	if b, ok := cp.Cond.(*ssa.BinOp); ok {
		if c, okc := core.IntConst(b.Y); okc {
			switch {
			case b.Op == token.GEQ && cp.Pol && c >= 128, b.Op == token.GTR && cp.Pol && c >= 127,
				b.Op == token.LSS && !cp.Pol && c >= 128, b.Op == token.LEQ && !cp.Pol && c >= 127:
				return true
			}
		}
	}
	// a non-nil unicodeString / Scan result
	if x, nonNil, ok := core.IsNilCompare(cp.Cond); ok && cp.Pol == nonNil {
		if isUnicodeEvidenceValue(x) {
			return true
		}
	}
	if _, isCmp := cp.Cond.(*ssa.BinOp); isCmp {
		return false // a direct comparison is judged above, never as an accumulated flag
	}
	if k, ok := flagKind(cp.Cond, f, depth); ok {
		return (k == "unicode" && cp.Pol) || (k == "ascii" && !cp.Pol)
	}
	return false
}

// impliesNarrow: the condition implies "no unit >= 0x80 was seen".
func impliesNarrow(cp core.CondPol, f *ssa.Function, depth int) bool {
	if b, ok := cp.Cond.(*ssa.BinOp); ok {
		if c, okc := core.IntConst(b.Y); okc {
			switch {
			case b.Op == token.LSS && cp.Pol && c <= 128, b.Op == token.LEQ && cp.Pol && c <= 127,
				b.Op == token.GEQ && !cp.Pol && c <= 128, b.Op == token.GTR && !cp.Pol && c <= 127:
				return true
			}
		}
	}
	if x, nonNil, ok := core.IsNilCompare(cp.Cond); ok && cp.Pol != nonNil {
		if isUnicodeEvidenceValue(x) {
			return true
		}
	}
	if _, isCmp := cp.Cond.(*ssa.BinOp); !isCmp {
		if k, ok := flagKind(cp.Cond, f, depth); ok {
			return (k == "unicode" && !cp.Pol) || (k == "ascii" && cp.Pol)
		}
	}
	// StringBuilder.ascii(): no UTF-16 buffer started
	if c, ok := cp.Cond.(*ssa.Call); ok && cp.Pol {
		if sc := c.Call.StaticCallee(); sc != nil && core.FuncName(sc) == "(*StringBuilder).ascii" {
			return true
		}
	}
	return false
}

func isUnicodeEvidenceValue(x ssa.Value) bool {
	if core.IsGojaNamed(x.Type(), "unicodeString") {
		return true
	}
	o := core.Origin(x)
	if ex, ok := o.(*ssa.Extract); ok {
		o = ex.Tuple
	}
	if c, ok := o.(*ssa.Call); ok {
		if sc := c.Call.StaticCallee(); sc != nil {
			switch core.FuncName(sc) {
			case "unistring.Scan", "(unistring.String).AsUtf16", "devirtualizeString":
				return true
			}
		}
	}
	return false
}

// flagKind classifies a bool as an "ascii" flag (starts true, set false only under wide evidence) or a
// "unicode" flag (starts false, set true only under wide evidence).
func flagKind(v ssa.Value, f *ssa.Function, depth int) (string, bool) {
	if depth > 3 {
		return "", false
	}
	var consts []struct {
		val bool
		blk *ssa.BasicBlock
	}
	okAll := true
	evidenceByParam := 0
	wideSources := 0
	var foreign []*core.FieldWrite
	narrowSources := 0
	seen := map[ssa.Value]bool{}
	var walk func(x ssa.Value, blk *ssa.BasicBlock)
	walk = func(x ssa.Value, blk *ssa.BasicBlock) {
		if seen[x] {
			return
		}
		seen[x] = true
		switch y := x.(type) {
		case *ssa.Const:
			if y.Value != nil {
				consts = append(consts, struct {
					val bool
					blk *ssa.BasicBlock
				}{y.Value.String() == "true", blk})
			}
		case *ssa.Phi:
			for i, e := range y.Edges {
				walk(e, y.Block().Preds[i])
			}
		case *ssa.BinOp:
			// `flag = x < 0x80`: true only without a wide unit — compatible with an ascii flag
			if impliesNarrow(core.CondPol{Cond: y, Pol: true}, f, depth+1) {
				narrowSources++
				return
			}
			// `flag := u != nil`: true only with wide-unit evidence — compatible with a unicode flag
			if impliesWide(core.CondPol{Cond: y, Pol: true}, f, depth+1) {
				wideSources++
				return
			}
			okAll = false
		case *ssa.UnOp:
			if y.Op == token.MUL {
				// a local cell or a struct field: collect its stores
				switch a := y.X.(type) {
				case *ssa.Alloc:
					for _, r := range core.Referrers(a) {
						if st, ok := r.(*ssa.Store); ok && st.Addr == a {
							walk(st.Val, st.Block())
						}
					}
					return
				case *ssa.FieldAddr:
					fv := core.FieldOf(a)
					if fv == nil || theProg == nil {
						okAll = false
						return
					}
					// a struct-field flag: every store to the field in the module
					for _, w := range theProg.FieldWrites(fv) {
						if w.Kind != "store" {
							continue
						}
						if c, ok := w.Val.(*ssa.Const); ok && c.Value != nil {
							val := c.Value.String() == "true"
							blk := w.Instr.Block()
							// appending a whole unicodeString parameter is itself wide-unit evidence
							if val && hasUnicodeStringParam(w.Fn) {
								consts = append(consts, struct {
									val bool
									blk *ssa.BasicBlock
								}{val, nil})
								evidenceByParam++
								continue
							}
							consts = append(consts, struct {
								val bool
								blk *ssa.BasicBlock
							}{val, blk})
							if w.Fn != f {
								foreign = append(foreign, w)
							}
						} else {
							okAll = false
						}
					}
					// composite-literal initialisation (allAscii: true) counts as an unconditional constant
					return
				}
			}
			okAll = false
		default:
			okAll = false
		}
	}
	walk(v, nil)
	if !okAll || (len(consts) == 0 && wideSources == 0) {
		return "", false
	}
	// classify
	allFalseUnderEvidence, allTrueUnderEvidence := true, true
	hasTrue, hasFalse := false, false
	for _, c := range consts {
		under := false
		if c.blk == nil && c.val && evidenceByParam > 0 {
			under = true
		}
		if c.blk != nil {
			for _, cp := range core.ControllingConds(c.blk) {
				if impliesWide(cp, c.blk.Parent(), depth+1) {
					// "the source is a UTF-16 string" is evidence only for the whole string: a
					// sub-range of it may be pure ASCII
					if x, _, isNil := core.IsNilCompare(cp.Cond); isNil && c.val && partialSliceOf(c.blk.Parent(), x) {
						continue
					}
					under = true
				}
			}
			// the block itself may end with the evidence test? no: the constant is chosen on an edge; also accept
			// the predecessor edge being the evidence edge
		}
		if c.val {
			hasTrue = true
			if !under {
				allTrueUnderEvidence = false
			}
		} else {
			hasFalse = true
			if !under {
				allFalseUnderEvidence = false
			}
		}
	}
	_ = foreign
	_ = allFalseUnderEvidence
	switch {
	case wideSources == 0 && (hasTrue || narrowSources > 0) && hasFalse && (!allTrueUnderEvidence || narrowSources > 0):
		// starts true (or is a narrowness test) and is only ever lowered: clearing it is always safe
		return "ascii", true
	case (hasTrue || wideSources > 0) && allTrueUnderEvidence && narrowSources == 0:
		return "unicode", true
	}
	return "", false
}

// asciiValue: the Go string/[]byte value is pure ASCII by construction.
func asciiValue(p *core.Prog, f *ssa.Function, v ssa.Value, depth int) (string, bool) {
	if depth > 5 {
		return "", false
	}
	if core.IsGojaNamed(v.Type(), "asciiString") {
		return "already an asciiString (normal form by induction)", true
	}
	v = core.Origin(v)
	if core.IsGojaNamed(v.Type(), "asciiString") {
		return "already an asciiString (normal form by induction)", true
	}
	switch x := v.(type) {
	case *ssa.Parameter:
		// every static caller passes an ASCII value
		fn := x.Parent()
		idx := -1
		for i, q := range fn.Params {
			if q == x {
				idx = i
			}
		}
		n, all := 0, true
		for _, g := range p.Funcs {
			for _, c := range core.CallsIn(g, fn) {
				n++
				if idx >= len(c.Common().Args) {
					all = false
					continue
				}
				if _, ok := asciiValue(p, g, c.Common().Args[idx], depth+2); !ok {
					all = false
				}
			}
		}
		if n > 0 && all && len(core.Referrers(fn)) == 0 {
			return fmt.Sprintf("parameter %s: all %d static callers pass ASCII values", x.Name(), n), true
		}
	case *ssa.Global:
		return "", false
	case *ssa.Const:
		if x.Value != nil && x.Value.Kind() == constant.String && isASCII(constant.StringVal(x.Value)) {
			return "ASCII constant", true
		}
	case *ssa.Convert:
		if core.IsGojaNamed(x.X.Type(), "asciiString") {
			return "converted from an asciiString", true
		}
		return asciiValue(p, f, x.X, depth+1)
	case *ssa.BinOp:
		if x.Op == token.ADD {
			if _, ok := asciiValue(p, f, x.X, depth+1); ok {
				if _, ok := asciiValue(p, f, x.Y, depth+1); ok {
					return "concatenation of ASCII strings", true
				}
			}
		}
	case *ssa.Slice:
		if _, ok := asciiValue(p, f, x.X, depth+1); ok {
			return "slice of an ASCII string", true
		}
	case *ssa.Phi:
		for _, e := range x.Edges {
			if _, ok := asciiValue(p, f, e, depth+1); !ok {
				return "", false
			}
		}
		return "all incoming values ASCII", true
	case *ssa.Call:
		if sc := x.Call.StaticCallee(); sc != nil {
			name := core.FuncName(sc)
			if sc.Pkg != nil && sc.Pkg.Pkg.Path() != core.GojaPath && sc.Signature.Recv() == nil {
				name = sc.Pkg.Pkg.Name() + "." + sc.Name()
			}
			if why, ok := asciiProducers[name]; ok {
				// case mapping keeps ASCII only for ASCII input
				if strings.HasPrefix(name, "strings.To") || name == "strings.Repeat" {
					if _, ok := asciiValue(p, f, x.Call.Args[0], depth+1); !ok {
						return "", false
					}
				}
				return "result of " + name + " (" + why + ")", true
			}
			if name == "fmt.Sprintf" && len(x.Call.Args) == 2 {
				if _, ok := asciiValue(p, f, x.Call.Args[0], depth+1); ok {
					if elems, known := variadicElems(x.Call.Args[1]); known {
						numeric := true
						for _, e := range elems {
							b, isBasic := core.Unwrap(e).Type().Underlying().(*types.Basic)
							if !isBasic || b.Info()&types.IsNumeric == 0 {
								numeric = false
							}
						}
						if numeric {
							return "fmt.Sprintf with an ASCII format and numeric arguments", true
						}
					}
				}
			}
			// time formatting with a constant ASCII layout (Go month/day names are ASCII)
			if name == "(time.Time).Format" && len(x.Call.Args) == 2 {
				if _, ok := asciiValue(p, f, x.Call.Args[1], depth+1); ok {
					return "time.Format with an ASCII layout", true
				}
			}
			// module helpers returning an ASCII string: all their returns are ASCII values
			if p.InModule(sc) && sc.Signature.Results().Len() >= 1 {
				allOK := true
				n := 0
				core.AllInstrs(sc, func(in ssa.Instruction) {
					if r, ok := in.(*ssa.Return); ok {
						n++
						if _, ok := asciiValue(p, sc, r.Results[0], depth+2); !ok {
							allOK = false
						}
					}
				})
				if allOK && n > 0 {
					return "every return of " + name + " is ASCII", true
				}
			}
			// (*strings.Builder).String / (*bytes.Buffer).String: every write into the builder is ASCII
			if (name == "(*strings.Builder).String" || name == "(*bytes.Buffer).String") && len(x.Call.Args) == 1 {
				if why, ok := builderASCII(p, f, x.Call.Args[0], depth+1); ok {
					return why, true
				}
			}
		}
	case *ssa.UnOp:
		if x.Op == token.MUL {
			if g, ok := x.X.(*ssa.Global); ok {
				if sv, ok := globalStringInit(p, g); ok && isASCII(sv) {
					return "package-level ASCII string " + g.Name(), true
				}
			}
			// importedString.s on a path where the scan found no wide unit
			if fa, ok := x.X.(*ssa.FieldAddr); ok && core.FieldOf(fa) != nil && core.FieldOf(fa).Name() == "s" && core.IsGojaNamed(fa.X.Type(), "importedString") {
				return "", false // decided by the caller with the controlling conditions
			}
		}
	case *ssa.MakeSlice, *ssa.Alloc:
		// a byte buffer filled in this function: every element store is an ASCII byte
		if why, ok := bufferASCII(p, f, v, depth+1); ok {
			return why, true
		}
	}
	return "", false
}

// asciiByte: the byte/rune value is < 0x80.
func asciiByte(p *core.Prog, f *ssa.Function, in ssa.Instruction, v ssa.Value, depth int) bool {
	if depth > 5 {
		return false
	}
	if c, ok := core.IntConst(v); ok {
		return c >= 0 && c < 128
	}
	o := v
	for {
		if cv, ok := o.(*ssa.Convert); ok {
			o = cv.X
			continue
		}
		break
	}
	// element of an ASCII string
	switch x := o.(type) {
	case *ssa.Index:
		if _, ok := asciiValue(p, f, x.X, depth+1); ok {
			return true
		}
	case *ssa.Lookup:
		if _, ok := asciiValue(p, f, x.X, depth+1); ok {
			return true
		}
	case *ssa.UnOp:
		if x.Op == token.MUL {
			if ia, ok := x.X.(*ssa.IndexAddr); ok {
				if _, ok := asciiValue(p, f, ia.X, depth+1); ok {
					return true
				}
			}
		}
	case *ssa.BinOp:
		// arithmetic on digits: '0' + n, 'a' + n - 10 ... (n bounded) — accept ADD/SUB/AND with small constants
		if x.Op == token.AND {
			if c, ok := core.IntConst(x.Y); ok && c < 128 {
				return true
			}
		}
	case *ssa.Extract:
		// range over an ASCII string
		if nx, ok := x.Tuple.(*ssa.Next); ok && nx.IsString && x.Index == 2 {
			if rg, ok := nx.Iter.(*ssa.Range); ok {
				if _, ok := asciiValue(p, f, rg.X, depth+1); ok {
					return true
				}
			}
		}
	}
	// control dependence: the store happens where `v < 0x80` is known for this very value
	for _, cp := range core.ControllingConds(in.Block()) {
		if b, ok := cp.Cond.(*ssa.BinOp); ok && (b.X == o || b.X == v) {
			if impliesNarrow(cp, f, 0) {
				return true
			}
		}
	}
	// a disjunction of range/equality tests: every edge into the block is the true edge of a test
	// bounding this value by a constant < 0x80
	blk := in.Block()
	if len(blk.Preds) > 1 {
		all := true
		for _, pr := range blk.Preds {
			ifi, ok := pr.Instrs[len(pr.Instrs)-1].(*ssa.If)
			if !ok || pr.Succs[0] != blk {
				all = false
				break
			}
			b, ok := ifi.Cond.(*ssa.BinOp)
			if !ok || (b.X != o && b.X != v) {
				all = false
				break
			}
			c, okc := core.IntConst(b.Y)
			if !okc || c >= 128 || !(b.Op == token.LEQ || b.Op == token.LSS || b.Op == token.EQL) {
				all = false
				break
			}
		}
		if all {
			return true
		}
	}
	return false
}

// builderASCII: every write into the strings.Builder/bytes.Buffer `b` (a local) is ASCII.
func builderASCII(p *core.Prog, f *ssa.Function, b ssa.Value, depth int) (string, bool) {
	root := b
	if _, ok := root.(*ssa.Alloc); !ok {
		if fa, ok := root.(*ssa.FieldAddr); ok {
			// a builder stored in a struct field: check every write through that field in the module
			fv := core.FieldOf(fa)
			if fv == nil {
				return "", false
			}
			for _, fa2 := range p.FieldAddrs(fv) {
				for _, r := range core.Referrers(fa2) {
					if c, ok := r.(*ssa.Call); ok {
						if !builderWriteASCII(p, c.Parent(), c, depth) {
							return "", false
						}
					}
				}
			}
			return "every write into the builder field " + fv.Name() + " is ASCII", true
		}
		return "", false
	}
	for _, r := range core.Referrers(root) {
		c, ok := r.(*ssa.Call)
		if !ok {
			continue
		}
		if !builderWriteASCII(p, f, c, depth) {
			return "", false
		}
	}
	return "every write into the local builder is ASCII", true
}

func builderWriteASCII(p *core.Prog, f *ssa.Function, c *ssa.Call, depth int) bool {
	sc := c.Call.StaticCallee()
	if sc == nil || len(c.Call.Args) < 1 {
		return true
	}
	switch sc.Name() {
	case "WriteString":
		if _, ok := asciiValue(p, f, c.Call.Args[1], depth+1); ok {
			return true
		}
		// or the write itself is on a no-wide-unit path
		for _, cp := range core.ControllingConds(c.Block()) {
			if impliesNarrow(cp, f, 0) {
				return true
			}
		}
		return false
	case "WriteByte":
		if os.Getenv("DBG_STR") != "" && !asciiByte(p, f, c, c.Call.Args[1], depth+1) {
			fmt.Fprintf(os.Stderr, "DBG WriteByte not ascii at %s: %v (%T)\n", p.Pos(c.Pos()), c.Call.Args[1], c.Call.Args[1])
		}
		return asciiByte(p, f, c, c.Call.Args[1], depth+1)
	case "WriteRune":
		return asciiByte(p, f, c, c.Call.Args[1], depth+1)
	case "Write":
		_, ok := asciiValue(p, f, c.Call.Args[1], depth+1)
		return ok
	}
	return true // Grow, Len, Cap, Reset, String
}

// bufferASCII: every element stored into the []byte buffer is an ASCII byte (incl. appends).
func bufferASCII(p *core.Prog, f *ssa.Function, buf ssa.Value, depth int) (string, bool) {
	ok := true
	n := 0
	var visit func(v ssa.Value, d int)
	visit = func(v ssa.Value, d int) {
		if d > 4 {
			return
		}
		for _, r := range core.Referrers(v) {
			switch x := r.(type) {
			case *ssa.IndexAddr:
				for _, rr := range core.Referrers(x) {
					if st, isSt := rr.(*ssa.Store); isSt && st.Addr == x {
						n++
						if !asciiByte(p, f, st, st.Val, depth+1) {
							ok = false
						}
					}
				}
			case *ssa.Slice:
				visit(x, d+1)
			case *ssa.Call:
				if b, isB := x.Call.Value.(*ssa.Builtin); isB && b.Name() == "copy" && x.Call.Args[0] == v {
					n++
					if _, okv := asciiValue(p, f, x.Call.Args[1], depth+1); !okv {
						ok = false
					}
				}
			}
		}
	}
	visit(buf, 0)
	if ok && n > 0 {
		return "every byte stored into the buffer is < 0x80", true
	}
	return "", false
}

func asciiIdiom(p *core.Prog, f *ssa.Function, in ssa.Instruction, x ssa.Value) (string, bool) {
	if why, ok := strBirthExceptions[core.FuncName(f)+":ascii"]; ok {
		return "table exception: " + why, true
	}
	if why, ok := asciiValue(p, f, x, 0); ok {
		return why, true
	}
	// a builder kept in a struct field and guarded by a flag field of the same struct: the flag must
	// be lowered wherever something not provably ASCII is written
	if bad, handled := fieldBuilderDiscipline(p, f, in, x); handled {
		if bad == "" {
			return "builder field guarded by an ascii flag field; every write into it is ASCII or lowers the flag", true
		}
		return "", false
	}
	// the birth itself is on a path where no wide unit was seen / the scan found none
	for _, cp := range core.ControllingConds(in.Block()) {
		if impliesNarrow(cp, f, 0) {
			return "birth is control-dependent on a no-unit->=0x80 test", true
		}
	}
	// early-exit idiom: every wide-unit test in the function leaves before reaching the birth
	hasTest := false
	reach := false
	for _, b := range f.Blocks {
		if len(b.Instrs) == 0 {
			continue
		}
		ifi, ok := b.Instrs[len(b.Instrs)-1].(*ssa.If)
		if !ok {
			continue
		}
		for pol, succ := range map[bool]*ssa.BasicBlock{true: b.Succs[0], false: b.Succs[1]} {
			// a scan test: one edge means "wide unit seen", the other must mean "this unit is < 0x80"
			if impliesWide(core.CondPol{Cond: ifi.Cond, Pol: pol, If: ifi}, f, 0) && impliesNarrow(core.CondPol{Cond: ifi.Cond, Pol: !pol, If: ifi}, f, 0) {
				hasTest = true
				if core.Reaches(succ, in.Block()) {
					reach = true
				}
			}
		}
	}
	if hasTest && !reach {
		return "every unit->=0x80 test in the function exits before this birth", true
	}
	return "", false
}

func unicodeIdiom(p *core.Prog, f *ssa.Function, in ssa.Instruction, x ssa.Value) (string, bool) {
	if why, ok := strBirthExceptions[core.FuncName(f)+":unicode"]; ok {
		return "table exception: " + why, true
	}
	if isUnicodeEvidenceValue(x) {
		return "normal form decided by unistring.Scan/AsUtf16 (nil means ASCII)", true
	}
	for _, cp := range core.ControllingConds(in.Block()) {
		if impliesWide(cp, f, 0) {
			return "birth is control-dependent on unit->=0x80 evidence", true
		}
	}
	if recv := f.Signature.Recv(); recv != nil && core.IsGojaNamed(recv.Type(), "unicodeString") {
		return "method of unicodeString building on its receiver (has a wide unit by induction)", true
	}
	return "", false
}

// globalStringInit: the package-level string variable is assigned exactly once, a constant, in init.
func globalStringInit(p *core.Prog, g *ssa.Global) (string, bool) {
	val, n := "", 0
	for _, f := range p.Funcs {
		core.AllInstrs(f, func(in ssa.Instruction) {
			if st, ok := in.(*ssa.Store); ok && st.Addr == g {
				n++
				if s, ok := core.ConstString(st.Val); ok && f.Name() == "init" {
					val = s
				} else {
					n += 100
				}
			}
		})
	}
	return val, n == 1
}

// fieldBuilderDiscipline handles `if ctx.flag { asciiString(ctx.buf.String()) }`.
func fieldBuilderDiscipline(p *core.Prog, f *ssa.Function, in ssa.Instruction, x ssa.Value) (bad string, handled bool) {
	call, ok := core.Origin(x).(*ssa.Call)
	if !ok || len(call.Call.Args) != 1 {
		return "", false
	}
	sc := call.Call.StaticCallee()
	if sc == nil || sc.Name() != "String" {
		return "", false
	}
	bfa, ok := call.Call.Args[0].(*ssa.FieldAddr)
	if !ok {
		return "", false
	}
	bufField := core.FieldOf(bfa)
	// the guarding flag: a bool field of the same struct value controlling the birth
	var flagField *types.Var
	for _, cp := range core.ControllingConds(in.Block()) {
		if ld, ok := cp.Cond.(*ssa.UnOp); ok && ld.Op == token.MUL && cp.Pol {
			if ffa, ok := ld.X.(*ssa.FieldAddr); ok && core.Origin(ffa.X) == core.Origin(bfa.X) {
				flagField = core.FieldOf(ffa)
			}
		}
	}
	if bufField == nil || flagField == nil {
		return "", false
	}
	lowersFlag := func(fn *ssa.Function) bool {
		for _, w := range p.FieldWrites(flagField) {
			if w.Fn == fn && w.Kind == "store" && isConstBool(w.Val, false) {
				return true
			}
		}
		return false
	}
	structT := core.NamedOf(bfa.X.Type())
	// string fields of the same struct: ASCII unless the function that assigns them lowers the flag
	var trackedField func(fv *types.Var, depth int) bool
	var valueOK func(fn *ssa.Function, v ssa.Value, depth int) bool
	valueOK = func(fn *ssa.Function, v ssa.Value, depth int) bool {
		if depth > 4 {
			return false
		}
		if _, ok := asciiValue(p, fn, v, 0); ok {
			return true
		}
		o := core.Origin(v)
		switch y := o.(type) {
		case *ssa.UnOp:
			if y.Op == token.MUL {
				if fa, ok := y.X.(*ssa.FieldAddr); ok && core.NamedOf(fa.X.Type()) == structT {
					return trackedField(core.FieldOf(fa), depth+1)
				}
			}
		case *ssa.BinOp:
			if y.Op == token.ADD {
				return valueOK(fn, y.X, depth+1) && valueOK(fn, y.Y, depth+1)
			}
		case *ssa.Phi:
			for _, e := range y.Edges {
				if e != y && !valueOK(fn, e, depth+1) {
					return false
				}
			}
			return true
		case *ssa.Slice:
			return valueOK(fn, y.X, depth+1)
		}
		return false
	}
	seenField := map[*types.Var]bool{}
	trackedField = func(fv *types.Var, depth int) bool {
		if fv == nil {
			return false
		}
		if seenField[fv] {
			return true
		}
		seenField[fv] = true
		for _, w := range p.FieldWrites(fv) {
			if w.Kind != "store" {
				continue
			}
			if valueOK(w.Fn, w.Val, depth+1) || lowersFlag(w.Fn) {
				continue
			}
			bad = fmt.Sprintf("field %s is assigned a value that is not provably ASCII at %s and %s does not lower %s", fv.Name(), p.Pos(w.Instr.Pos()), core.FuncName(w.Fn), flagField.Name())
			return false
		}
		return true
	}
	for _, fa := range p.FieldAddrs(bufField) {
		for _, r := range core.Referrers(fa) {
			c, ok := r.(*ssa.Call)
			if !ok || c.Call.StaticCallee() == nil {
				continue
			}
			fn := c.Parent()
			okw := true
			switch c.Call.StaticCallee().Name() {
			case "WriteString", "Write":
				okw = valueOK(fn, c.Call.Args[1], 0)
			case "WriteByte", "WriteRune":
				okw = asciiByte(p, fn, c, c.Call.Args[1], 0)
			}
			if !okw && lowersFlag(fn) {
				okw = true
			}
			if !okw && bad == "" {
				bad = fmt.Sprintf("%s writes a value that is not provably ASCII into %s at %s without lowering %s", core.FuncName(fn), bufField.Name(), p.Pos(c.Pos()), flagField.Name())
			}
		}
	}
	if bad != "" {
		lastFieldBuilderProblem = bad
	}
	return bad, true
}

var lastFieldBuilderProblem string

// usedAsString: the unicodeString-typed slice flows somewhere as a JS string value (converted to
// the String/Value interface, or handed to a module function declared to take a unicodeString/String)
// rather than only being indexed, compared or copied from as raw code units.
func usedAsString(v ssa.Value) bool {
	for _, r := range core.Referrers(v) {
		switch x := r.(type) {
		case *ssa.MakeInterface:
			if n := core.NamedOf(x.Type()); n != nil && (n.Obj().Name() == "String" || n.Obj().Name() == "Value") {
				return true
			}
		case ssa.CallInstruction:
			sc := x.Common().StaticCallee()
			if sc == nil || sc.Pkg == nil || !strings.HasPrefix(sc.Pkg.Pkg.Path(), core.GojaPath) {
				continue
			}
			for i, a := range x.Common().Args {
				if a == v && i < len(sc.Params) && (core.IsGojaNamed(sc.Params[i].Type(), "unicodeString") || core.IsGojaNamed(sc.Params[i].Type(), "String")) {
					return true
				}
			}
		case *ssa.Phi:
			if usedAsString(x) {
				return true
			}
		}
	}
	return false
}

func unicodeSliceIdiom(p *core.Prog, f *ssa.Function, in ssa.Instruction) (string, bool) {
	if why, ok := strBirthExceptions[core.FuncName(f)+":unicode-slice"]; ok {
		return "table exception: " + why, true
	}
	partial := false
	if sl, ok := in.(*ssa.Slice); ok && sl.High != nil {
		partial = true // a bounded sub-range: "the source is UTF-16" says nothing about it
	}
	for _, cp := range core.ControllingConds(in.Block()) {
		if !impliesWide(cp, f, 0) {
			continue
		}
		if _, _, isNil := core.IsNilCompare(cp.Cond); isNil && partial {
			continue
		}
		return "created where unit->=0x80 evidence holds", true
	}
	if mk, isMake := in.(*ssa.MakeSlice); isMake {
		if recv := f.Signature.Recv(); recv != nil && core.IsGojaNamed(recv.Type(), "unicodeString") {
			// the whole receiver must be copied into the new buffer
			whole := false
			var visit func(v ssa.Value, d int)
			visit = func(v ssa.Value, d int) {
				if d > 3 {
					return
				}
				for _, r := range core.Referrers(v) {
					switch x := r.(type) {
					case *ssa.Slice:
						visit(x, d+1)
					case *ssa.Call:
						if b, ok := x.Call.Value.(*ssa.Builtin); ok && b.Name() == "copy" && len(x.Call.Args) == 2 {
							src := x.Call.Args[1]
							if sl, ok := src.(*ssa.Slice); ok && sl.High == nil {
								src = sl.X
							}
							if core.Origin(src) == f.Params[0] {
								whole = true
							}
						}
					}
				}
			}
			visit(mk, 0)
			if whole {
				return "method of unicodeString copying its whole receiver into the new buffer (has a wide unit by induction)", true
			}
		}
	}
	return "", false
}

// partialSliceOf: the function takes a bounded sub-slice x[a:b] of the evidence value.
func partialSliceOf(f *ssa.Function, x ssa.Value) bool {
	found := false
	core.AllInstrs(f, func(in ssa.Instruction) {
		if sl, ok := in.(*ssa.Slice); ok && sl.High != nil && core.Origin(sl.X) == core.Origin(x) {
			found = true
		}
	})
	return found
}

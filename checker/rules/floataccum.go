package rules

import (
	"fmt"
	"go/token"
	"go/types"

	"gojaverif/core"

	"golang.org/x/tools/go/ssa"
)

// R-FLOATACCUM (C12 "numeric literals, Number(), parseFloat and parseInt return the double nearest
// to the exact value denoted, for inputs of any length").
//
// Accumulating the digits of a numeral in a float64 (x = x*radix + digit in a loop) rounds at every
// step once the value needs more than 53 bits; the result is a multiply-rounded approximation, not
// the correctly rounded value of the whole numeral (ties and sticky bits are lost: for radix 16,
// `0x9d73b4926ee0a4ee3` came out three ulps... off by one ulp from the nearest double). The exact
// routes are strconv.ParseFloat for decimal text and math/big for the other radices.
// Rule: no loop in the engine or the parser carries a float64 through the recurrence
// x' = x*k + d.
var FloatAccum = &core.Rule{Name: "R-FLOATACCUM", Run: runFloatAccum,
	Doc: "no loop-carried float64 recurrence x = x*k + d (digit accumulation) in the engine or the parser; long numerals go through strconv.ParseFloat or math/big"}

func runFloatAccum(p *core.Prog) *core.Result {
	res := core.NewResult("R-FLOATACCUM", 2)
	isF64 := func(t types.Type) bool {
		b, ok := t.Underlying().(*types.Basic)
		return ok && b.Kind() == types.Float64
	}
	n := 0
	// positive anchors: the conversion functions exist and use an exact route
	for _, a := range [][2]string{{core.GojaPath, "parseLargeInt"}, {core.GojaPath + "/parser", "parseNumberLiteral"}} {
		fn, err := p.LookupFunc(a[0], a[1])
		if err != nil {
			return res.Fail(err)
		}
		exact := false
		core.AllInstrs(fn, func(in ssa.Instruction) {
			if c, ok := in.(ssa.CallInstruction); ok {
				if sc := c.Common().StaticCallee(); sc != nil && sc.Pkg != nil {
					switch sc.Pkg.Pkg.Path() {
					case "math/big", "strconv":
						exact = true
					}
				}
			}
		})
		key := a[1] + ":uses an exact conversion"
		if exact {
			res.OK(key, p.Pos(fn.Pos()), "calls math/big or strconv")
		} else {
			res.Bad(key, p.Pos(fn.Pos()), "no call to math/big or strconv left: the numeral is converted by hand")
		}
	}
	for _, f := range p.Funcs {
		if f.Pkg == nil {
			continue
		}
		switch f.Pkg.Pkg.Path() {
		case core.GojaPath, core.GojaPath + "/parser":
		default:
			continue
		}
		for _, b := range f.Blocks {
			for _, in := range b.Instrs {
				ph, ok := in.(*ssa.Phi)
				if !ok {
					break
				}
				if !isF64(ph.Type()) {
					continue
				}
				for _, e := range ph.Edges {
					add, ok := e.(*ssa.BinOp)
					if !ok || add.Op != token.ADD {
						continue
					}
					for _, side := range []ssa.Value{add.X, add.Y} {
						mul, ok := side.(*ssa.BinOp)
						if !ok || mul.Op != token.MUL || (mul.X != ph && mul.Y != ph) {
							continue
						}
						n++
						res.Bad(fmt.Sprintf("%s:float64 digit accumulation", core.FuncName(f)), p.Pos(add.Pos()), "x = x*k + d carried around a loop in float64: every step rounds once the value exceeds 2^53, so a long numeral does not convert to the nearest double")
					}
				}
			}
		}
	}
	res.Count("float recurrences found", n)
	grisuFallback(p, res)
	return res
}

// grisuFallback: FToStr uses the fast (Grisu) digit generator only as long as it reports success;
// on !ok the exact bignum generator ftoa() must produce the digits.
func grisuFallback(p *core.Prog, res *core.Result) {
	fn, err := p.LookupFunc(core.GojaPath+"/ftoa", "FToStr")
	if err != nil {
		res.Fail(err)
		return
	}
	slow, err := p.LookupFunc(core.GojaPath+"/ftoa", "ftoa")
	if err != nil {
		res.Fail(err)
		return
	}
	// values carrying Dtoa's ok result
	okVals := map[ssa.Value]bool{}
	core.AllInstrs(fn, func(in ssa.Instruction) {
		if ex, ok := in.(*ssa.Extract); ok && ex.Index == 2 {
			if c, ok := ex.Tuple.(*ssa.Call); ok {
				if sc := c.Call.StaticCallee(); sc != nil && sc.Name() == "Dtoa" {
					okVals[ex] = true
				}
			}
		}
	})
	for changed := true; changed; {
		changed = false
		core.AllInstrs(fn, func(in ssa.Instruction) {
			if ph, ok := in.(*ssa.Phi); ok && !okVals[ph] {
				for _, e := range ph.Edges {
					if okVals[e] {
						okVals[ph] = true
						changed = true
					}
				}
			}
		})
	}
	key := "ftoa.FToStr:exact generator when the fast path gives up"
	if len(okVals) == 0 {
		res.Bad(key, p.Pos(fn.Pos()), "the success flag of fast.Dtoa is no longer looked at")
		return
	}
	found := false
	core.AllInstrs(fn, func(in ssa.Instruction) {
		ifi, ok := in.(*ssa.If)
		if !ok || !okVals[ifi.Cond] {
			return
		}
		// false edge (ok == false) must call ftoa before anything else is formatted
		fb := ifi.Block().Succs[1]
		for _, x := range fb.Instrs {
			if _, ok := core.CallTo(x, slow); ok {
				found = true
			}
		}
	})
	if found {
		res.OK(key, p.Pos(fn.Pos()), "the !ok edge of fast.Dtoa's result calls ftoa()")
	} else {
		res.Bad(key, p.Pos(fn.Pos()), "when the fast digit generator reports failure its (unreliable) digits are used instead of the exact bignum generator")
	}
}

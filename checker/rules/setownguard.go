package rules

import (
	"fmt"
	"go/token"
	"go/types"
	"strings"

	"gojaverif/core"

	"golang.org/x/tools/go/ssa"
)

// R-SETOWNGUARD (OrdinarySet belief): in a function that carries the Receiver of a [[Set]],
// calling X.self.setOwnK(..) is only correct when the Receiver IS X. Siblings must agree on
// that guard (Engler's contradiction rule).
var SetOwnGuard = &core.Rule{Name: "R-SETOWNGUARD", Run: runSetOwnGuard,
	Doc: "every X.self.setOwn{Str,Idx,Sym} call inside a function with a `receiver Value` parameter is control-dependent on receiver == X for the same SSA value X"}

func runSetOwnGuard(p *core.Prog) *core.Result {
	res := core.NewResult("R-SETOWNGUARD", 9)
	objImpl, err := p.GojaType("objectImpl")
	if err != nil {
		return res.Fail(err)
	}
	selfField, err := p.Field(core.GojaPath, "Object", "self")
	if err != nil {
		return res.Fail(err)
	}
	valueT, err := p.GojaType("Value")
	if err != nil {
		return res.Fail(err)
	}
	iface := objImpl.Underlying().(*types.Interface)
	setOwn := map[*types.Func]bool{}
	for i := 0; i < iface.NumMethods(); i++ {
		m := iface.Method(i)
		switch m.Name() {
		case "setOwnStr", "setOwnIdx", "setOwnSym":
			setOwn[m] = true
		}
	}
	if len(setOwn) != 3 {
		return res.Failf("objectImpl.setOwn{Str,Idx,Sym}")
	}
	nFuncs := 0
	for _, f := range p.Funcs {
		var recv *ssa.Parameter
		for _, prm := range f.Params {
			if prm.Name() == "receiver" && types.Identical(prm.Type(), valueT) {
				recv = prm
			}
		}
		if recv == nil {
			continue
		}
		nFuncs++
		core.AllInstrs(f, func(in ssa.Instruction) {
			c, ok := in.(ssa.CallInstruction)
			if !ok || !c.Common().IsInvoke() || !setOwn[c.Common().Method] {
				return
			}
			key := fmt.Sprintf("%s:%s", core.FuncName(f), c.Common().Method.Name())
			pos := p.Pos(c.Pos())
			// X.self
			ld, ok := c.Common().Value.(*ssa.UnOp)
			if !ok || ld.Op != token.MUL || core.FieldOf(ld.X) != selfField {
				res.Unknown(key, pos, "setOwn target is not of the form X.self")
				return
			}
			X := ld.X.(*ssa.FieldAddr).X
			var seen []string
			for _, cp := range core.ControllingConds(in.Block()) {
				b, ok := cp.Cond.(*ssa.BinOp)
				if !ok || (b.Op != token.EQL && b.Op != token.NEQ) {
					continue
				}
				var other ssa.Value
				switch {
				case b.X == recv:
					other = b.Y
				case b.Y == recv:
					other = b.X
				default:
					continue
				}
				eq := (b.Op == token.EQL) == cp.Pol // receiver == other holds here
				o := core.Unwrap(other)
				seen = append(seen, fmt.Sprintf("receiver %s %s", map[bool]string{true: "==", false: "!="}[eq], describe(o)))
				if eq && o == X {
					res.OK(key, pos, "guarded by receiver == "+describe(X))
					return
				}
			}
			res.Bad(key, pos, fmt.Sprintf("%s.self.%s is called without the guard receiver == %s (guards seen: [%s]): OrdinarySet with a Receiver different from this object must not write to it — e.g. Reflect.set(child, key, v, parent) would define the key on the wrong object", describe(X), c.Common().Method.Name(), describe(X), strings.Join(seen, "; ")))
		})
	}
	res.Count("functions_with_receiver", nFuncs)
	return res
}

func describe(v ssa.Value) string {
	switch x := v.(type) {
	case *ssa.Parameter:
		return x.Name()
	case *ssa.UnOp:
		if x.Op == token.MUL {
			if fa, ok := x.X.(*ssa.FieldAddr); ok {
				if fv := core.FieldOf(fa); fv != nil {
					return describe(fa.X) + "." + fv.Name()
				}
			}
		}
	case *ssa.FieldAddr:
		if fv := core.FieldOf(x); fv != nil {
			return describe(x.X) + "." + fv.Name()
		}
	}
	return v.Name()
}

package rules

import (
	"fmt"
	"go/token"
	"go/types"
	"strings"

	"gojaverif/core"

	"golang.org/x/tools/go/ssa"
)

// Four narrow ordering / vocabulary rules written from round-7 seeds. Each is a necessary
// condition taken from a numbered step of the specification algorithm the function implements.

// R-REVIVEDEFINE (C19): InternalizeJSONProperty stores what the reviver returned with
// CreateDataProperty and removes with [[Delete]]; it never assigns ([[Set]] would call setters
// and Proxy `set` traps the reviver may have installed on a later sibling, and drops the value on a
// read-only one).
var ReviveDefine = &core.Rule{Name: "R-REVIVEDEFINE", Run: func(p *core.Prog) *core.Result {
	res := core.NewResult("R-REVIVEDEFINE", 1)
	f, err := p.GojaMethod("Runtime", "builtinJSON_reviveWalk")
	if err != nil {
		return res.Fail(err)
	}
	nDef, nSet := 0, 0
	var bad ssa.Instruction
	core.AllInstrs(f, func(in ssa.Instruction) {
		c, ok := in.(ssa.CallInstruction)
		if !ok {
			return
		}
		name := ""
		if c.Common().IsInvoke() {
			name = c.Common().Method.Name()
		} else if sc := c.Common().StaticCallee(); sc != nil {
			name = sc.Name()
		}
		switch {
		case name == "createDataProperty" || name == "createDataPropertyOrThrow":
			nDef++
		case strings.HasPrefix(name, "setOwn") || name == "set" || strings.HasPrefix(name, "setForeign") || name == "Set":
			nSet++
			bad = in
		}
	})
	key := "(*Runtime).builtinJSON_reviveWalk:results stored with CreateDataProperty"
	switch {
	case nSet > 0:
		res.Bad(key, p.Pos(bad.Pos()), "the reviver's result is stored with an assignment ([[Set]]): an accessor or Proxy the reviver put on a later sibling is invoked, a read-only sibling silently keeps its old value; InternalizeJSONProperty uses CreateDataProperty")
	case nDef == 0:
		res.Unknown(key, p.Pos(f.Pos()), "no createDataProperty call found")
	default:
		res.OK(key, p.Pos(f.Pos()), fmt.Sprintf("%d createDataProperty call(s), no assignment", nDef))
	}
	return res
}, Doc: "JSON.parse's reviver walk stores results with createDataProperty, never with an assignment"}

// R-COMPLETEFIRST (C11): [[GetOwnProperty]] of a Proxy completes the trap's descriptor
// (CompletePropertyDescriptor, step 11) before it is compared with the target's (step 12): a
// partial descriptor has its absent fields filled with defaults *before* the comparison, so
// {value:1} for an enumerable non-configurable target property is rejected.
var CompleteFirst = &core.Rule{Name: "R-COMPLETEFIRST", Run: func(p *core.Prog) *core.Result {
	res := core.NewResult("R-COMPLETEFIRST", 1)
	f, err := p.GojaMethod("proxyObject", "proxyGetOwnPropertyDescriptor")
	if err != nil {
		return res.Fail(err)
	}
	complete, err := p.GojaMethod("PropertyDescriptor", "complete")
	if err != nil {
		return res.Fail(err)
	}
	compat, err := p.GojaMethod("proxyObject", "__isCompatibleDescriptor")
	if err != nil {
		return res.Fail(err)
	}
	key := "(*proxyObject).proxyGetOwnPropertyDescriptor:descriptor completed before the compatibility check"
	cs := core.CallsIn(f, complete)
	ks := core.CallsIn(f, compat)
	if len(ks) == 0 {
		res.Unknown(key, p.Pos(f.Pos()), "no __isCompatibleDescriptor call")
		return res
	}
	for _, k := range ks {
		ok := false
		for _, c := range cs {
			if core.InstrDominates(c.(ssa.Instruction), k.(ssa.Instruction)) {
				ok = true
			}
		}
		if ok {
			res.OK(key, p.Pos(k.Pos()), "complete() dominates the check")
		} else {
			res.Bad(key, p.Pos(k.Pos()), "the trap's descriptor is compared with the target's before CompletePropertyDescriptor filled in its absent fields: a partial descriptor ({value:1} for an enumerable, non-configurable property) passes the check and is then reported with default attributes")
		}
	}
	return res
}, Doc: "proxyGetOwnPropertyDescriptor completes the trap's descriptor before comparing it with the target's"}

// R-EXACTBIG (C12): the exact route from a digit string to a double goes big.Int -> big.Float ->
// Float64() with the big.Float holding the integer exactly (SetInt chooses the precision); setting a
// precision on the way rounds twice (to that precision, then to 53 bits).
var ExactBig = &core.Rule{Name: "R-EXACTBIG", Run: func(p *core.Prog) *core.Result {
	res := core.NewResult("R-EXACTBIG", 1)
	n := 0
	for _, f := range p.Funcs {
		if !p.InModule(f) {
			continue
		}
		hasF64 := false
		var setPrec ssa.Instruction
		core.AllInstrs(f, func(in ssa.Instruction) {
			c, ok := in.(ssa.CallInstruction)
			if !ok {
				return
			}
			sc := c.Common().StaticCallee()
			if sc == nil || sc.Pkg == nil || sc.Pkg.Pkg.Path() != "math/big" || sc.Signature.Recv() == nil {
				return
			}
			if !strings.HasSuffix(sc.Signature.Recv().Type().String(), "big.Float") {
				return
			}
			switch sc.Name() {
			case "Float64":
				hasF64 = true
			case "SetPrec", "SetMode":
				setPrec = in
			}
		})
		if !hasF64 {
			continue
		}
		n++
		key := core.FuncName(f) + ":big.Float on the way to Float64() keeps full precision"
		if setPrec == nil {
			res.OK(key, p.Pos(f.Pos()), "no SetPrec/SetMode")
		} else {
			res.Bad(key, p.Pos(setPrec.Pos()), "a precision (or rounding mode) is set on the big.Float that is then converted with Float64(): the value is rounded twice, which is one ulp off for inputs next to a halfway point")
		}
	}
	res.Count("functions converting a big.Float to float64", n)
	return res
}, Doc: "no SetPrec/SetMode on a big.Float that is converted with Float64() (double rounding)"}

// R-FIRSTERROR (C08): when several iterators are closed during one unwinding and more than one
// return() throws, the first failure (the innermost iterator's) is the one reported.
var FirstError = &core.Rule{Name: "R-FIRSTERROR", Run: func(p *core.Prog) *core.Result {
	res := core.NewResult("R-FIRSTERROR", 1)
	f, err := p.GojaMethod("vm", "restoreStacks")
	if err != nil {
		return res.Fail(err)
	}
	try, err := p.GojaMethod("vm", "try")
	if err != nil {
		return res.Fail(err)
	}
	key := "(*vm).restoreStacks:the first failing return() is the one reported"
	// the result variable: a phi (or cell) that takes the vm.try result; the edge must be controlled by `result == nil`
	n := 0
	for _, c := range core.CallsIn(f, try) {
		v := c.Value()
		if v == nil {
			continue
		}
		for _, r := range core.Referrers(v) {
			ph, ok := r.(*ssa.Phi)
			if !ok {
				continue
			}
			n++
			for i, e := range ph.Edges {
				if e != ssa.Value(v) {
					continue
				}
				pred := ph.Block().Preds[i]
				guarded := false
				for _, cp := range core.ControllingConds(pred) {
					if x, nonNil, isNil := core.IsNilCompare(cp.Cond); isNil && x != ssa.Value(v) && cp.Pol != nonNil {
						// some other *Exception value (the accumulated result) is nil here
						guarded = true
					}
				}
				// the assigning block itself may be the one ending in the jump: check its own controlling conds too
				if !guarded {
					for _, cp := range core.ControllingConds(ph.Block()) {
						_ = cp
					}
				}
				if guarded {
					res.OK(key, p.Pos(c.Pos()), "assigned only while the accumulated result is still nil")
				} else {
					res.Bad(key, p.Pos(c.Pos()), "every failing return() overwrites the result: when two iterators closed by the same unwinding both throw, the outer one's error is reported instead of the inner one's")
				}
			}
		}
	}
	if n == 0 {
		res.Unknown(key, p.Pos(f.Pos()), "the result of vm.try does not flow into a result variable")
	}
	return res
}, Doc: "restoreStacks keeps the first exception thrown by an iterator's return()"}

// R-ENUMOWNER (C11 "a forwarding Proxy equals its target", C04): for-in walks the prototype chain
// (recursivePropIter) underneath a filter for enumerability (enumerableIter) that only knows the
// object the enumeration started on. A key that comes without its property value and without a
// known enumerability - which is what a Proxy's key iterator yields - has to be resolved by
// [[GetOwnProperty]] on the object it belongs to, i.e. inside the chain walk, where the current
// level is known; resolved on the start object it is simply not found, and every key inherited
// through a Proxy in the prototype chain disappears from for-in.
var EnumOwner = &core.Rule{Name: "R-ENUMOWNER", Run: func(p *core.Prog) *core.Result {
	res := core.NewResult("R-ENUMOWNER", 1)
	f, err := p.GojaMethod("recursivePropIter", "next")
	if err != nil {
		return res.Fail(err)
	}
	oF, err := p.Field(core.GojaPath, "recursivePropIter", "o")
	if err != nil {
		return res.Fail(err)
	}
	key := "(*recursivePropIter).next:unresolved keys are looked up on the level they came from"
	ok := false
	core.AllInstrs(f, func(in ssa.Instruction) {
		c, isCall := in.(*ssa.Call)
		if !isCall || !c.Call.IsInvoke() || !strings.HasPrefix(c.Call.Method.Name(), "getOwnProp") {
			return
		}
		if ld, isLd := c.Call.Value.(*ssa.UnOp); isLd && core.FieldOf(ld.X) == oF {
			ok = true
		}
	})
	if ok {
		res.OK(key, p.Pos(f.Pos()), "getOwnProp* is invoked on the current level (i.o)")
	} else {
		res.Bad(key, p.Pos(f.Pos()), "the chain walk hands on keys without value and enumerability unresolved; the enumerable filter resolves them on the object the for-in started on, where an inherited key does not exist: keys inherited through a Proxy in the prototype chain are dropped")
	}
	return res
}, Doc: "the prototype-chain walk of for-in resolves keys of unknown enumerability on the object they belong to"}

// R-AWAITRESOLVE (C10, C09): Await(v) begins with `? PromiseResolve(%Promise%, v)`, which reads
// v.constructor - user code that can throw. The abrupt completion belongs to the await expression:
// it is thrown inside the async function, where its try/catch sees it. asyncRunner.step performs the
// PromiseResolve from *outside* the body (it is called by whoever drives the function: the initial
// call, or a promise reaction job); unshielded, the exception goes to that driver instead - the
// first await throws synchronously out of the async call, a later one is swallowed by the reaction
// job and the function never resumes: its promise never settles.
// Rule: the promiseResolve call of asyncRunner.step lies in a closure handed to vm.try.
var AwaitResolve = &core.Rule{Name: "R-AWAITRESOLVE", Run: func(p *core.Prog) *core.Result {
	res := core.NewResult("R-AWAITRESOLVE", 1)
	step, err := p.GojaMethod("asyncRunner", "step")
	if err != nil {
		return res.Fail(err)
	}
	pr, err := p.GojaMethod("Runtime", "promiseResolve")
	if err != nil {
		return res.Fail(err)
	}
	try, err := p.GojaMethod("vm", "try")
	if err != nil {
		return res.Fail(err)
	}
	key := "(*asyncRunner).step:PromiseResolve of the awaited value is shielded"
	n := 0
	core.WithAnon(step, func(g *ssa.Function) {
		for _, c := range core.CallsIn(g, pr) {
			n++
			shielded := false
			if g.Parent() != nil {
				core.AllInstrs(g.Parent(), func(in ssa.Instruction) {
					if tc, ok := core.CallTo(in, try); ok {
						for _, a := range tc.Common().Args {
							if mc, ok := a.(*ssa.MakeClosure); ok && mc.Fn == g {
								shielded = true
							}
						}
					}
				})
			}
			if shielded {
				res.OK(key, p.Pos(c.Pos()), "inside a closure handed to vm.try")
			} else {
				res.Bad(key, p.Pos(c.Pos()), "PromiseResolve(%Promise%, value) reads value.constructor, which can throw; called unshielded from the code that drives the async function, the exception reaches that driver: the first await throws synchronously out of the async call, a later one is swallowed by the reaction job and the function's promise never settles")
			}
		}
	})
	if n == 0 {
		res.Unknown(key, p.Pos(step.Pos()), "no promiseResolve call found in asyncRunner.step")
	}
	return res
}, Doc: "asyncRunner.step calls PromiseResolve for the awaited value under vm.try and throws a failure into the function body"}

// R-DATANESS (C04): whether a property record is a data property is recorded in
// valueProperty.accessor. `value != nil` is not the same thing: the array's length property keeps its
// value lazily (filled by getLengthProp()), so a record handed out by the key iterator has
// value == nil although it is a writable data property - Object.isFrozen([]) after preventExtensions
// answered true.
// Rule: no condition tests valueProperty.value against nil in the same short-circuit chain in which
// it reads the writable flag of the same record (IsDataDescriptor spelled through the value).
var Dataness = &core.Rule{Name: "R-DATANESS", Run: func(p *core.Prog) *core.Result {
	res := core.NewResult("R-DATANESS", 0)
	valueF, err := p.Field(core.GojaPath, "valueProperty", "value")
	if err != nil {
		return res.Fail(err)
	}
	wrF, err := p.Field(core.GojaPath, "valueProperty", "writable")
	if err != nil {
		return res.Fail(err)
	}
	n := 0
	seen := map[string]int{}
	for _, f := range p.Funcs {
		if !p.InModule(f) {
			continue
		}
		for _, b := range f.Blocks {
			c := ifCond(b)
			if c == nil {
				continue
			}
			x, _, isNil := core.IsNilCompare(c)
			if !isNil {
				continue
			}
			ld, ok := x.(*ssa.UnOp)
			if !ok || core.FieldOf(ld.X) != valueF {
				continue
			}
			rec := ld.X.(*ssa.FieldAddr).X
			n++
			// the same chain reads .writable of the same record?
			readsWritable := false
			for _, cb := range condChain(b) {
				collectFieldLoads(ifCond(cb), func(fa *ssa.FieldAddr) {
					if core.FieldOf(fa) == wrF && fa.X == rec {
						readsWritable = true
					}
				})
			}
			if !readsWritable {
				continue
			}
			k := core.FuncName(f) + ":data-ness of a property record decided by .accessor"
			seen[k]++
			key := k
			if seen[k] > 1 {
				key = fmt.Sprintf("%s#%d", k, seen[k])
			}
			res.Bad(key, p.Pos(c.Pos()), "`value != nil && writable` stands for \"writable data property\", but a record's value can be nil without it being an accessor (the array's length property fills it lazily): test !accessor")
		}
	}
	res.Count("nil tests of valueProperty.value", n)
	return res
}, Doc: "no condition decides that a property record is a data property by value != nil when reading its writable flag"}

func collectFieldLoads(v ssa.Value, f func(*ssa.FieldAddr)) {
	for i := 0; i < 4 && v != nil; i++ {
		u, ok := v.(*ssa.UnOp)
		if !ok {
			return
		}
		if fa, ok := u.X.(*ssa.FieldAddr); ok {
			f(fa)
			return
		}
		v = u.X
	}
}

// R-MAPKEYCANON (C13): a wrapped Go map with numeric keys is a live view of that map: only the
// canonical string of a number names one of its elements. Converting an arbitrary property name with
// ToNumber semantics turns every non-numeric name into key 0 - `m.foo` read m[0], `"bar" in m` was
// true, `m.baz = x` overwrote m[0] in the host's map, and toString/valueOf resolved to m[0].
// Rule: in objectGoMapReflect.strToKey the conversion of the name for a non-string key type (the toKey
// call) is preceded by a return of the invalid reflect.Value that is controlled by a test of the name
// (the canonical round trip), i.e. some path rejects names before converting.
var MapKeyCanon = &core.Rule{Name: "R-MAPKEYCANON", Run: func(p *core.Prog) *core.Result {
	res := core.NewResult("R-MAPKEYCANON", 1)
	f, err := p.GojaMethod("objectGoMapReflect", "strToKey")
	if err != nil {
		return res.Fail(err)
	}
	toKey, err := p.GojaMethod("objectGoMapReflect", "toKey")
	if err != nil {
		return res.Fail(err)
	}
	key := "(*objectGoMapReflect).strToKey:non-numeric names are rejected before the numeric conversion"
	calls := core.CallsIn(f, toKey)
	if len(calls) == 0 {
		res.Unknown(key, p.Pos(f.Pos()), "no toKey call")
		return res
	}
	// a return of the zero reflect.Value (an unset local of type reflect.Value) that the name's own test controls:
	// approximated as: some If in the function has a condition computed from a call that takes a value
	// derived from the name parameter, and one of its branches returns without calling toKey
	name := f.Params[1]
	rejects := false
	for _, b := range f.Blocks {
		c := ifCond(b)
		if c == nil {
			continue
		}
		fromName := false
		var walk func(v ssa.Value, d int)
		walk = func(v ssa.Value, d int) {
			if v == nil || d > 8 || fromName {
				return
			}
			if v == ssa.Value(name) {
				fromName = true
				return
			}
			switch x := v.(type) {
			case *ssa.Call:
				for _, a := range x.Call.Args {
					walk(a, d+1)
				}
				if x.Call.IsInvoke() {
					walk(x.Call.Value, d+1)
				}
			case *ssa.UnOp:
				walk(x.X, d+1)
			case *ssa.BinOp:
				walk(x.X, d+1)
				walk(x.Y, d+1)
			case *ssa.MakeInterface:
				walk(x.X, d+1)
			case *ssa.ChangeInterface:
				walk(x.X, d+1)
			case *ssa.Convert:
				walk(x.X, d+1)
			}
		}
		walk(c, 0)
		if !fromName {
			continue
		}
		for _, s := range b.Succs {
			if _, ok := s.Instrs[len(s.Instrs)-1].(*ssa.Return); ok {
				hasToKey := false
				for _, in := range s.Instrs {
					if _, ok := core.CallTo(in, toKey); ok {
						hasToKey = true
					}
				}
				if !hasToKey {
					rejects = true
				}
			}
		}
	}
	if rejects {
		res.OK(key, p.Pos(calls[0].Pos()), "a test of the name leads to a return without conversion")
	} else {
		res.Bad(key, p.Pos(calls[0].Pos()), "every property name is converted to the numeric key type with ToNumber semantics: all non-numeric names alias key 0 (m.foo reads m[0], m.baz = x overwrites it in the host's map)")
	}
	return res
}, Doc: "objectGoMapReflect.strToKey rejects names that are not the canonical string of a number before converting them to a numeric key"}

// R-TRAPONCE (C11): "a forwarding Proxy equals its target" needs every trapped operation to be performed
// once - by the trap - and its (validated) answer to be what the caller gets.
//
// (a) In every method of *proxyObject that consults a handler trap (a call of a proxyHandler interface
// method whose last result is `ok bool`), no return reachable from the ok-true edge returns the result of
// the same-named operation invoked on the target: that is the fallback for an absent trap. Falling
// through to it after the trap has answered runs the target's own operation a second time (with layered
// proxies the inner trap runs 2^(n-1) times and a non-idempotent inner trap changes the outcome).
//
// (b) The object a trap returns as a descriptor is read by one conversion only: no function passes the
// same value to both toPropertyDescriptor and toValueProp (each reads the object's properties and runs its
// getters; the invariants were checked on the first reading, the answer was built from the second).
var TrapOnce = &core.Rule{Name: "R-TRAPONCE", Run: func(p *core.Prog) *core.Result {
	res := core.NewResult("R-TRAPONCE", 28)
	pt, err := p.GojaType("proxyObject")
	if err != nil {
		return res.Fail(err)
	}
	ht, err := p.GojaType("proxyHandler")
	if err != nil {
		return res.Fail(err)
	}
	nTrap := 0
	for _, f := range p.Funcs {
		if !p.InModule(f) || f.Signature.Recv() == nil || f.Synthetic != "" {
			continue
		}
		rp, ok := f.Signature.Recv().Type().(*types.Pointer)
		if !ok || !types.Identical(rp.Elem(), pt) {
			continue
		}
		for _, b := range f.Blocks {
			c := ifCond(b)
			ex, ok := c.(*ssa.Extract)
			if !ok {
				continue
			}
			call, ok := ex.Tuple.(*ssa.Call)
			if !ok || !call.Call.IsInvoke() || !types.Identical(call.Call.Value.Type(), ht) {
				continue
			}
			if ex.Index != call.Type().(*types.Tuple).Len()-1 {
				continue
			}
			nTrap++
			key := fmt.Sprintf("%s:the answer of trap %s is not replaced by the target's own operation", core.FuncName(f), call.Call.Method.Name())
			bad := ""
			var badPos token.Pos
			for _, b2 := range f.Blocks {
				if !core.Reaches(b.Succs[0], b2) {
					continue
				}
				ret, ok := b2.Instrs[len(b2.Instrs)-1].(*ssa.Return)
				if !ok {
					continue
				}
				for _, rv := range ret.Results {
					if c2, ok := stripConv(rv).(*ssa.Call); ok && c2.Call.IsInvoke() && c2.Call.Method.Name() == f.Name() {
						bad = c2.Call.Method.Name()
						badPos = c2.Pos()
					}
				}
			}
			if bad != "" {
				res.Bad(key, p.Pos(badPos), "after the trap has answered (ok == true) control reaches `return target.self."+bad+"(..)`: the target's own operation runs a second time; through two proxy layers the inner trap is invoked twice")
			} else {
				res.OK(key, p.Pos(call.Pos()), "no return on the ok-true side invokes the same operation on the target")
			}
		}
	}
	res.Count("trap consultations in proxyObject methods", nTrap)
	// (b)
	tpd, err := p.GojaMethod("Runtime", "toPropertyDescriptor")
	if err != nil {
		return res.Fail(err)
	}
	tvp, err := p.GojaMethod("Runtime", "toValueProp")
	if err != nil {
		return res.Fail(err)
	}
	nConv := 0
	for _, f := range p.Funcs {
		if !p.InModule(f) {
			continue
		}
		a := core.CallsIn(f, tpd)
		if len(a) == 0 {
			continue
		}
		nConv += len(a)
		key := core.FuncName(f) + ":a descriptor object is read by one conversion"
		dup := false
		var pos token.Pos
		for _, c1 := range a {
			args1 := c1.Common().Args
			for _, c2 := range core.CallsIn(f, tvp) {
				args2 := c2.Common().Args
				if stripConv(args1[len(args1)-1]) == stripConv(args2[len(args2)-1]) {
					dup = true
					pos = c2.Pos()
				}
			}
		}
		if dup {
			res.Bad(key, p.Pos(pos), "the same object is converted by toPropertyDescriptor and again by toValueProp: its getters run twice, the invariants are checked on the first reading and the answer is built from the second (a non-configurable target property is reported configurable with no TypeError)")
		} else {
			res.OK(key, p.Pos(a[0].Pos()), "converted once")
		}
	}
	res.Count("toPropertyDescriptor calls", nConv)
	// (c) FromPropertyDescriptor makes a fresh object: what (*PropertyDescriptor).toValue returns is the
	// constant undefined or an object made in the function, never something loaded from the descriptor -
	// a defineProperty trap that received the caller's own descriptor object (and forwarded it) made its
	// getters run a second time, so the property defined through the proxy differed from the direct one.
	if tv, err := p.GojaMethod("PropertyDescriptor", "toValue"); err != nil {
		res.Fail(err)
	} else {
		key := "(*PropertyDescriptor).toValue:the descriptor object handed to a trap is a fresh object"
		bad := ""
		var pos token.Pos
		nRet := 0
		core.AllInstrs(tv, func(in ssa.Instruction) {
			ret, ok := in.(*ssa.Return)
			if !ok || len(ret.Results) != 1 {
				return
			}
			nRet++
			for _, leaf := range phiLeaves(ret.Results[0]) {
				switch x := stripConv(leaf).(type) {
				case *ssa.Call:
					if c := x.Call.StaticCallee(); c != nil && c.Name() == "NewObject" {
						continue
					}
					bad, pos = "the result of "+x.Call.String(), x.Pos()
				case *ssa.UnOp:
					if _, ok := x.X.(*ssa.Global); ok {
						continue
					}
					bad, pos = "a value loaded from the descriptor", x.Pos()
				case *ssa.Const:
				default:
					bad, pos = leaf.String(), leaf.Pos()
				}
			}
		})
		if nRet == 0 {
			res.Unknown(key, p.Pos(tv.Pos()), "no return found")
		} else if bad != "" {
			res.Bad(key, p.Pos(pos), "toValue returns "+bad+": the trap gets an object that is not fresh (the caller's descriptor object, whose getters the forwarding Reflect.defineProperty runs again)")
		} else {
			res.OK(key, p.Pos(tv.Pos()), fmt.Sprintf("%d returns: undefined or an object made here", nRet))
		}
	}
	return res
}, Doc: "a trapped proxy operation is not repeated on the target after the trap answered, and a trap's descriptor object is read once"}

// R-OPTDEFAULT (C07 and the other built-in libraries): an optional numeric argument whose default is
// not what ToInteger(undefined)/ToNumber(undefined) gives must be defaulted when the argument *is
// undefined*, not when it is *absent*: `[[1,[2]]].flat(undefined)` used depth 0 instead of 1 because
// the test was `len(call.Arguments) > 0`.
// Rule: every phi that merges a nonzero constant (the default) with the direct result of
// ToInteger()/ToNumber()/ToFloat() on a call argument (FunctionCall.Argument(k) / Arguments[k]) has
// that conversion in a block controlled by a comparison of the same argument with `_undefined`.
var OptDefault = &core.Rule{Name: "R-OPTDEFAULT", Run: func(p *core.Prog) *core.Result {
	res := core.NewResult("R-OPTDEFAULT", 3)
	isArg := func(v ssa.Value) bool {
		switch x := v.(type) {
		case *ssa.Call:
			if c := x.Call.StaticCallee(); c != nil && c.Name() == "Argument" && c.Signature.Recv() != nil {
				return strings.HasSuffix(c.Signature.Recv().Type().String(), ".FunctionCall")
			}
		case *ssa.UnOp:
			if ia, ok := x.X.(*ssa.IndexAddr); ok {
				if ld, ok := ia.X.(*ssa.UnOp); ok {
					if fv := core.FieldOf(ld.X); fv != nil && fv.Name() == "Arguments" {
						return true
					}
				}
				if fl, ok := ia.X.(*ssa.Field); ok {
					if st, ok := fl.X.Type().Underlying().(*types.Struct); ok && st.Field(fl.Field).Name() == "Arguments" {
						return true
					}
				}
			}
		}
		return false
	}
	n := 0
	per := map[string]int{}
	for _, f := range p.Funcs {
		if !p.InModule(f) {
			continue
		}
		core.AllInstrs(f, func(in ssa.Instruction) {
			ph, ok := in.(*ssa.Phi)
			if !ok {
				return
			}
			hasDefault := false
			var conv *ssa.Call
			for _, e := range ph.Edges {
				if k, ok := e.(*ssa.Const); ok && k.Value != nil && k.Value.String() != "0" && k.Value.String() != "false" && !k.IsNil() {
					hasDefault = true
					continue
				}
				if c, ok := stripConv(e).(*ssa.Call); ok && c.Call.IsInvoke() {
					if m := c.Call.Method.Name(); (m == "ToInteger" || m == "ToNumber" || m == "ToFloat") && isArg(c.Call.Value) {
						conv = c
					}
				}
			}
			if !hasDefault || conv == nil {
				return
			}
			n++
			name := core.FuncName(f)
			per[name]++
			key := name + ":a nonzero default of an optional argument applies when the argument is undefined"
			if per[name] > 1 {
				key = fmt.Sprintf("%s#%d", key, per[name])
			}
			guarded := false
			for _, cp := range core.ControllingConds(conv.Block()) {
				b, ok := cp.Cond.(*ssa.BinOp)
				if !ok || (b.Op != token.NEQ && b.Op != token.EQL) {
					continue
				}
				for _, pair := range [][2]ssa.Value{{b.X, b.Y}, {b.Y, b.X}} {
					if stripConv(pair[0]) != stripConv(conv.Call.Value) {
						continue
					}
					if mi, ok := pair[1].(*ssa.MakeInterface); ok {
						if ld, ok := mi.X.(*ssa.UnOp); ok {
							if g, ok := ld.X.(*ssa.Global); ok && g.Name() == "_undefined" && cp.Pol == (b.Op == token.NEQ) {
								guarded = true
							}
						}
					}
					if ld, ok := pair[1].(*ssa.UnOp); ok {
						if g, ok := ld.X.(*ssa.Global); ok && g.Name() == "_undefined" && cp.Pol == (b.Op == token.NEQ) {
							guarded = true
						}
					}
				}
			}
			if guarded {
				res.OK(key, p.Pos(conv.Pos()), "converted only when the argument is not undefined")
			} else {
				res.Bad(key, p.Pos(conv.Pos()), "the argument is converted whenever it is present: an explicit undefined gives "+conv.Call.Method.Name()+"(undefined) instead of the default the other edge of the phi supplies")
			}
		})
	}
	res.Count("optional numeric arguments with a nonzero default", n)
	return res
}, Doc: "an optional numeric argument with a nonzero default is defaulted when undefined, not when absent"}

package rules

import (
	"fmt"
	"go/ast"
	"go/token"
	"go/types"
	"sort"
	"strings"

	"gojaverif/core"

	"golang.org/x/tools/go/ssa"
)

// R-ASTDISPATCH: the compiler dispatches on AST node types with type switches whose default
// panics with an internal "Unknown … type" diagnostic. Every concrete node type the parser can
// produce for that interface must have a case, or the diagnostic escapes to the host.
var ASTDispatch = &core.Rule{Name: "R-ASTDISPATCH", Run: runASTDispatch,
	Doc: "exhaustive dispatch: for every type switch in package goja over an interface declared in goja/ast whose default clause never returns, every concrete ast type implementing the interface has a case (or is an audited exception)"}

// (function, missing type) → why that node can never reach this switch
var astDispatchByType = map[string]string{
	"*ast.BadExpression":     "produced only together with a parser error; a Program with errors is never handed to the compiler",
	"*ast.BadStatement":      "produced only together with a parser error; a Program with errors is never handed to the compiler",
	"*ast.Binding":           "only an element of VariableStatement/LexicalDeclaration/ForInto lists, compiled by compileVarBinding/compileLexicalBinding",
	"*ast.PropertyKeyed":     "only an element of ObjectLiteral.Value / ObjectPattern.Properties, compiled by the parent node",
	"*ast.PropertyShort":     "only an element of ObjectLiteral.Value / ObjectPattern.Properties, compiled by the parent node",
	"*ast.SpreadElement":     "only an element of ArrayLiteral.Value, CallExpression.ArgumentList or ObjectLiteral.Value (patterns keep a spread in .Rest), compiled by the parent node",
	"*ast.PrivateIdentifier": "only the Identifier of a PrivateDotExpression, a class element key or the left operand of `#x in o`, compiled by the parent node - backed by the producer check below (privateIdentifierProducers), after the assertion alone turned out to be wrong",
	"*ast.CaseStatement":     "only an element of SwitchStatement.Body, compiled by compileSwitchStatement",
	"*ast.CatchStatement":    "only TryStatement.Catch, compiled by compileTryStatement",
}

// switches that accept a narrow, grammar-determined subset of a wide interface and answer
// everything else with a SyntaxError for the user (not an internal diagnostic)
var astNarrowSwitches = map[string]string{
	"(*compiler).createBindings:Expression": "binding targets are Identifier / ObjectPattern / ArrayPattern; anything else is reported as a SyntaxError to the user",
}

var astDispatchExceptions = map[string]string{}

func runASTDispatch(p *core.Prog) *core.Result {
	res := core.NewResult("R-ASTDISPATCH", 60)
	astPkg := p.ByPath[core.GojaPath+"/ast"]
	if astPkg == nil {
		return res.Failf("package goja/ast")
	}
	// concrete types of goja/ast
	var concretes []*types.Named
	scope := astPkg.Types.Scope()
	for _, n := range scope.Names() {
		if tn, ok := scope.Lookup(n).(*types.TypeName); ok && !tn.IsAlias() {
			if nt, ok := tn.Type().(*types.Named); ok {
				if _, isIface := nt.Underlying().(*types.Interface); !isIface {
					concretes = append(concretes, nt)
				}
			}
		}
	}
	noReturnCall := func(pk *types.Info, call *ast.CallExpr) bool {
		switch fn := call.Fun.(type) {
		case *ast.Ident:
			if fn.Name == "panic" {
				return true
			}
		}
		var obj types.Object
		switch fn := call.Fun.(type) {
		case *ast.Ident:
			obj = pk.Uses[fn]
		case *ast.SelectorExpr:
			obj = pk.Uses[fn.Sel]
		}
		if tf, ok := obj.(*types.Func); ok {
			if sf := p.SSA.FuncValue(tf); sf != nil {
				return p.NoReturn(sf)
			}
		}
		return false
	}
	nSwitches, nChecked := 0, 0
	for _, file := range p.Goja.Syntax {
		var encl string
		ast.Inspect(file, func(n ast.Node) bool {
			if fd, ok := n.(*ast.FuncDecl); ok {
				encl = fd.Name.Name
				if fd.Recv != nil && len(fd.Recv.List) == 1 {
					encl = "(" + types.ExprString(fd.Recv.List[0].Type) + ")." + fd.Name.Name
				}
			}
			ts, ok := n.(*ast.TypeSwitchStmt)
			if !ok {
				return true
			}
			var x ast.Expr
			switch a := ts.Assign.(type) {
			case *ast.AssignStmt:
				if ta, ok := a.Rhs[0].(*ast.TypeAssertExpr); ok {
					x = ta.X
				}
			case *ast.ExprStmt:
				if ta, ok := a.X.(*ast.TypeAssertExpr); ok {
					x = ta.X
				}
			}
			if x == nil {
				return true
			}
			tagT := p.Goja.TypesInfo.TypeOf(x)
			nt, ok := types.Unalias(tagT).(*types.Named)
			if !ok || nt.Obj().Pkg() == nil || nt.Obj().Pkg() != astPkg.Types {
				return true
			}
			iface, ok := nt.Underlying().(*types.Interface)
			if !ok {
				return true
			}
			nSwitches++
			// default clause must never return
			var deflt *ast.CaseClause
			var caseTypes []types.Type
			for _, s := range ts.Body.List {
				cc := s.(*ast.CaseClause)
				if cc.List == nil {
					deflt = cc
					continue
				}
				for _, e := range cc.List {
					if t := p.Goja.TypesInfo.TypeOf(e); t != nil {
						caseTypes = append(caseTypes, t)
					}
				}
			}
			if deflt == nil || len(deflt.Body) == 0 {
				return true
			}
			last, ok := deflt.Body[len(deflt.Body)-1].(*ast.ExprStmt)
			if !ok {
				return true
			}
			call, ok := last.X.(*ast.CallExpr)
			if !ok || !noReturnCall(p.Goja.TypesInfo, call) {
				return true
			}
			if why, ok := astNarrowSwitches[encl+":"+nt.Obj().Name()]; ok {
				res.OK(fmt.Sprintf("%s:switch(%s):narrow", encl, nt.Obj().Name()), p.Pos(ts.Pos()), "table: "+why)
				return true
			}
			nChecked++
			swKey := fmt.Sprintf("%s:switch(%s)", encl, nt.Obj().Name())
			var missing []string
			for _, ct := range concretes {
				var impl types.Type
				switch {
				case types.Implements(types.NewPointer(ct), iface):
					impl = types.NewPointer(ct)
				case types.Implements(ct, iface):
					impl = ct
				default:
					continue
				}
				covered := false
				for _, c := range caseTypes {
					if types.Identical(c, impl) {
						covered = true
					}
					if ci, ok := c.Underlying().(*types.Interface); ok && types.Implements(impl, ci) {
						covered = true
					}
				}
				name := strings.TrimPrefix(types.TypeString(impl, func(*types.Package) string { return "ast" }), "")
				key := swKey + ":" + name
				switch {
				case covered:
					res.OK(key, p.Pos(ts.Pos()), "has a case")
				case astDispatchExceptions[encl+":"+name] != "":
					res.OK(key, p.Pos(ts.Pos()), "table exception: "+astDispatchExceptions[encl+":"+name])
				case astDispatchByType[name] != "":
					res.OK(key, p.Pos(ts.Pos()), "node never reaches this switch: "+astDispatchByType[name])
				default:
					missing = append(missing, name)
					res.Bad(key, p.Pos(ts.Pos()), fmt.Sprintf("%s implements ast.%s but the switch in %s has no case for it and its default panics with an internal diagnostic: a program containing such a node crashes the host", name, nt.Obj().Name(), encl))
				}
			}
			sort.Strings(missing)
			if len(missing) > 0 {
				res.Note("%s missing: %s", swKey, strings.Join(missing, ", "))
			}
			return true
		})
	}
	res.Count("type_switches_over_ast_interfaces", nSwitches)
	res.Count("with_noreturn_default", nChecked)
	privateIdentifierProducers(p, res)
	return res
}

var _ = ssa.NewProgram

// privateIdentifierProducers backs the table entry for *ast.PrivateIdentifier with a check instead
// of an assertion: a parser function that hands a *ast.PrivateIdentifier back to its caller as a
// general ast.Expression either reports a syntax error on that path, or every caller inspects the
// result for that very type (and so decides where a private name is allowed). On the pinned tree
// parseObjectProperty did not (`({#x: 1})`) and parseRelationalExpression returned a bare `#x`
// that was not followed by `in` (`[#x]` inside a class): both reached compileExpression's default
// arm - "Compiler bug: Unknown expression type" escaping to the host.
func privateIdentifierProducers(p *core.Prog, res *core.Result) {
	pi, err := p.LookupType(core.GojaPath+"/ast", "PrivateIdentifier")
	if err != nil {
		res.Fail(err)
		return
	}
	piPtr := types.NewPointer(pi)
	isPI := func(v ssa.Value) bool {
		seen := map[ssa.Value]bool{}
		var rec func(v ssa.Value) bool
		rec = func(v ssa.Value) bool {
			if seen[v] {
				return false
			}
			seen[v] = true
			switch x := v.(type) {
			case *ssa.MakeInterface:
				return types.Identical(x.X.Type(), piPtr)
			case *ssa.Phi:
				for _, e := range x.Edges {
					if rec(e) {
						return true
					}
				}
			case *ssa.UnOp:
				// functions with a defer return through a spilled result cell
				if a, ok := x.X.(*ssa.Alloc); ok && x.Op == token.MUL {
					for _, r := range core.Referrers(a) {
						if st, ok := r.(*ssa.Store); ok && st.Addr == a && rec(st.Val) {
							return true
						}
					}
				}
			}
			return false
		}
		return rec(v)
	}
	isErrorCall := func(in ssa.Instruction) bool {
		c, ok := in.(*ssa.Call)
		if !ok {
			return false
		}
		sc := c.Call.StaticCallee()
		return sc != nil && sc.Pkg != nil && sc.Pkg.Pkg.Path() == core.GojaPath+"/parser" && strings.HasPrefix(sc.Name(), "error")
	}
	nProd := 0
	for _, f := range p.Funcs {
		if f.Pkg == nil || f.Pkg.Pkg.Path() != core.GojaPath+"/parser" || f.Parent() != nil {
			continue
		}
		// result indexes that may carry a private identifier, with the returns doing so
		carrying := map[int][]*ssa.Return{}
		core.AllInstrs(f, func(in ssa.Instruction) {
			r, ok := in.(*ssa.Return)
			if !ok {
				return
			}
			for i, v := range r.Results {
				if isPI(v) {
					carrying[i] = append(carrying[i], r)
				}
			}
		})
		for idx, rets := range carrying {
			nProd++
			reported := true
			for _, r := range rets {
				ok := false
				core.AllInstrs(f, func(in ssa.Instruction) {
					if isErrorCall(in) && core.InstrDominates(in, r) {
						ok = true
					}
				})
				if !ok {
					reported = false
				}
			}
			key := fmt.Sprintf("parser.%s:private name handed back as an expression", core.FuncName(f))
			if reported {
				res.OK(key, p.Pos(f.Pos()), "only together with a reported syntax error")
				continue
			}
			// every caller inspects the result for *ast.PrivateIdentifier
			nCallers, bad := 0, ""
			for _, g := range p.Funcs {
				for _, c := range core.CallsIn(g, f) {
					nCallers++
					call, ok := c.(*ssa.Call)
					if !ok {
						bad = p.Pos(c.Pos())
						continue
					}
					var result ssa.Value = call
					if f.Signature.Results().Len() > 1 {
						result = nil
						for _, r := range core.Referrers(call) {
							if ex, ok := r.(*ssa.Extract); ok && ex.Index == idx {
								result = ex
							}
						}
					}
					inspected := false
					if result != nil {
						seen := map[ssa.Value]bool{}
						var scan func(v ssa.Value)
						scan = func(v ssa.Value) {
							if seen[v] {
								return
							}
							seen[v] = true
							for _, r := range core.Referrers(v) {
								switch x := r.(type) {
								case *ssa.TypeAssert:
									if types.Identical(x.AssertedType, piPtr) {
										inspected = true
									}
								case *ssa.Phi:
									scan(x)
								}
							}
						}
						scan(result)
					}
					if !inspected {
						bad = p.Pos(c.Pos())
					}
				}
			}
			if bad == "" && nCallers > 0 {
				res.OK(key, p.Pos(f.Pos()), fmt.Sprintf("all %d callers test the result for *ast.PrivateIdentifier", nCallers))
			} else {
				res.Bad(key, bad, "a *ast.PrivateIdentifier leaves this parser function as a plain expression and the caller at "+bad+" does not look for it: it can end up in a slot the compiler dispatches generically (object literal key, array element), where compileExpression answers with the internal diagnostic 'Compiler bug: Unknown expression type'")
			}
		}
	}
	res.Count("parser functions returning a private name as an expression", nProd)
}

// R-RESTTARGET (C01): the two functions that reinterpret a literal as an *assignment* pattern store
// its rest element (`[...r] = `, `({...r} = `) into ArrayPattern.Rest / ObjectPattern.Rest only
// after a validator (a parser function that can report a syntax error) has seen it. The array
// version did, the object version stored the raw spread operand: `({...f()} = {})` reached the
// compiler's emitRef, which answers with the internal diagnostic "Compiler bug: Cannot emit
// reference for this type of expression".
var RestTarget = &core.Rule{Name: "R-RESTTARGET", Run: runRestTarget,
	Doc: "a value stored into ArrayPattern.Rest / ObjectPattern.Rest by the parser is nil or the result of a parser function that can report a syntax error, never the raw operand of a spread element"}

func runRestTarget(p *core.Prog) *core.Result {
	res := core.NewResult("R-RESTTARGET", 4)
	var restFields []*types.Var
	for _, tn := range []string{"ArrayPattern", "ObjectPattern"} {
		fv, err := p.Field(core.GojaPath+"/ast", tn, "Rest")
		if err != nil {
			return res.Fail(err)
		}
		restFields = append(restFields, fv)
	}
	isRest := func(fv *types.Var) bool {
		for _, r := range restFields {
			if r == fv {
				return true
			}
		}
		return false
	}
	// validators: parser functions that (transitively, depth 2) call an error-reporting method
	reports := map[*ssa.Function]bool{}
	isErr := func(sc *ssa.Function) bool {
		return sc != nil && sc.Pkg != nil && sc.Pkg.Pkg.Path() == core.GojaPath+"/parser" && strings.HasPrefix(sc.Name(), "error")
	}
	for round := 0; round < 3; round++ {
		for _, f := range p.Funcs {
			if reports[f] || f.Pkg == nil || f.Pkg.Pkg.Path() != core.GojaPath+"/parser" {
				continue
			}
			core.AllInstrs(f, func(in ssa.Instruction) {
				if c, ok := in.(ssa.CallInstruction); ok {
					if sc := c.Common().StaticCallee(); isErr(sc) || reports[sc] {
						reports[f] = true
					}
				}
			})
		}
	}
	var validated func(v ssa.Value, seen map[ssa.Value]bool) (bool, string)
	validated = func(v ssa.Value, seen map[ssa.Value]bool) (bool, string) {
		if seen[v] {
			return true, ""
		}
		seen[v] = true
		switch x := v.(type) {
		case *ssa.Const:
			return x.IsNil(), "constant"
		case *ssa.Call:
			if sc := x.Call.StaticCallee(); sc != nil && reports[sc] {
				return true, ""
			}
			return false, "result of a call that cannot report an error"
		case *ssa.Phi:
			for _, e := range x.Edges {
				if ok, why := validated(e, seen); !ok {
					return false, why
				}
			}
			return true, ""
		case *ssa.ChangeInterface:
			return validated(x.X, seen)
		case *ssa.MakeInterface:
			return validated(x.X, seen)
		case *ssa.UnOp:
			if fa, ok := x.X.(*ssa.FieldAddr); ok {
				fv := core.FieldOf(fa)
				if isRest(fv) {
					return true, "" // copied from a pattern that was validated when it was built
				}
				return false, "raw load of ." + fv.Name()
			}
			if a, ok := x.X.(*ssa.Alloc); ok {
				for _, r := range core.Referrers(a) {
					if st, ok := r.(*ssa.Store); ok && st.Addr == a {
						if ok2, why := validated(st.Val, seen); !ok2 {
							return false, why
						}
					}
				}
				return true, ""
			}
		}
		return false, fmt.Sprintf("%T", v)
	}
	n := 0
	for _, f := range p.Funcs {
		if f.Pkg == nil || f.Pkg.Pkg.Path() != core.GojaPath+"/parser" {
			continue
		}
		core.AllInstrs(f, func(in ssa.Instruction) {
			st, ok := in.(*ssa.Store)
			if !ok || !isRest(core.FieldOf(st.Addr)) {
				return
			}
			n++
			key := fmt.Sprintf("parser.%s:rest element validated before it is stored#%d", core.FuncName(f), n)
			if ok, why := validated(st.Val, map[ssa.Value]bool{}); ok {
				res.OK(key, p.Pos(st.Pos()), "nil or the result of a validating parser function")
			} else {
				res.Bad(key, p.Pos(st.Pos()), "the rest element stored into the pattern is "+why+": an expression that is not a valid assignment target reaches the compiler, which answers with an internal 'Compiler bug' diagnostic")
			}
		})
	}
	return res
}

package rules

import (
	"fmt"
	"go/ast"
	"go/types"
	"sort"
	"strings"

	"gojaverif/core"

	"golang.org/x/tools/go/ssa"
)

// R-ASTDISPATCH: the compiler dispatches on AST node types with type switches whose default
// panics with an internal "Unknown … type" diagnostic. Every concrete node type the parser can
// produce for that interface must have a case, or the diagnostic escapes to the host.
var ASTDispatch = &core.Rule{Name: "R-ASTDISPATCH", Run: runASTDispatch,
	Doc: "exhaustive dispatch: for every type switch in package goja over an interface declared in goja/ast whose default clause never returns, every concrete ast type implementing the interface has a case (or is an audited exception)"}

// (function, missing type) → why that node can never reach this switch
var astDispatchByType = map[string]string{
	"*ast.BadExpression":     "produced only together with a parser error; a Program with errors is never handed to the compiler",
	"*ast.BadStatement":      "produced only together with a parser error; a Program with errors is never handed to the compiler",
	"*ast.Binding":           "only an element of VariableStatement/LexicalDeclaration/ForInto lists, compiled by compileVarBinding/compileLexicalBinding",
	"*ast.PropertyKeyed":     "only an element of ObjectLiteral.Value / ObjectPattern.Properties, compiled by the parent node",
	"*ast.PropertyShort":     "only an element of ObjectLiteral.Value / ObjectPattern.Properties, compiled by the parent node",
	"*ast.SpreadElement":     "only an element of ArrayLiteral.Value, CallExpression.ArgumentList or ObjectLiteral.Value (patterns keep a spread in .Rest), compiled by the parent node",
	"*ast.PrivateIdentifier": "only the Identifier of a PrivateDotExpression or the left operand of `#x in o`, compiled by the parent node",
	"*ast.CaseStatement":     "only an element of SwitchStatement.Body, compiled by compileSwitchStatement",
	"*ast.CatchStatement":    "only TryStatement.Catch, compiled by compileTryStatement",
}

// switches that accept a narrow, grammar-determined subset of a wide interface and answer
// everything else with a SyntaxError for the user (not an internal diagnostic)
var astNarrowSwitches = map[string]string{
	"(*compiler).createBindings:Expression": "binding targets are Identifier / ObjectPattern / ArrayPattern; anything else is reported as a SyntaxError to the user",
}

var astDispatchExceptions = map[string]string{}

func runASTDispatch(p *core.Prog) *core.Result {
	res := core.NewResult("R-ASTDISPATCH", 60)
	astPkg := p.ByPath[core.GojaPath+"/ast"]
	if astPkg == nil {
		return res.Failf("package goja/ast")
	}
	// concrete types of goja/ast
	var concretes []*types.Named
	scope := astPkg.Types.Scope()
	for _, n := range scope.Names() {
		if tn, ok := scope.Lookup(n).(*types.TypeName); ok && !tn.IsAlias() {
			if nt, ok := tn.Type().(*types.Named); ok {
				if _, isIface := nt.Underlying().(*types.Interface); !isIface {
					concretes = append(concretes, nt)
				}
			}
		}
	}
	noReturnCall := func(pk *types.Info, call *ast.CallExpr) bool {
		switch fn := call.Fun.(type) {
		case *ast.Ident:
			if fn.Name == "panic" {
				return true
			}
		}
		var obj types.Object
		switch fn := call.Fun.(type) {
		case *ast.Ident:
			obj = pk.Uses[fn]
		case *ast.SelectorExpr:
			obj = pk.Uses[fn.Sel]
		}
		if tf, ok := obj.(*types.Func); ok {
			if sf := p.SSA.FuncValue(tf); sf != nil {
				return p.NoReturn(sf)
			}
		}
		return false
	}
	nSwitches, nChecked := 0, 0
	for _, file := range p.Goja.Syntax {
		var encl string
		ast.Inspect(file, func(n ast.Node) bool {
			if fd, ok := n.(*ast.FuncDecl); ok {
				encl = fd.Name.Name
				if fd.Recv != nil && len(fd.Recv.List) == 1 {
					encl = "(" + types.ExprString(fd.Recv.List[0].Type) + ")." + fd.Name.Name
				}
			}
			ts, ok := n.(*ast.TypeSwitchStmt)
			if !ok {
				return true
			}
			var x ast.Expr
			switch a := ts.Assign.(type) {
			case *ast.AssignStmt:
				if ta, ok := a.Rhs[0].(*ast.TypeAssertExpr); ok {
					x = ta.X
				}
			case *ast.ExprStmt:
				if ta, ok := a.X.(*ast.TypeAssertExpr); ok {
					x = ta.X
				}
			}
			if x == nil {
				return true
			}
			tagT := p.Goja.TypesInfo.TypeOf(x)
			nt, ok := types.Unalias(tagT).(*types.Named)
			if !ok || nt.Obj().Pkg() == nil || nt.Obj().Pkg() != astPkg.Types {
				return true
			}
			iface, ok := nt.Underlying().(*types.Interface)
			if !ok {
				return true
			}
			nSwitches++
			// default clause must never return
			var deflt *ast.CaseClause
			var caseTypes []types.Type
			for _, s := range ts.Body.List {
				cc := s.(*ast.CaseClause)
				if cc.List == nil {
					deflt = cc
					continue
				}
				for _, e := range cc.List {
					if t := p.Goja.TypesInfo.TypeOf(e); t != nil {
						caseTypes = append(caseTypes, t)
					}
				}
			}
			if deflt == nil || len(deflt.Body) == 0 {
				return true
			}
			last, ok := deflt.Body[len(deflt.Body)-1].(*ast.ExprStmt)
			if !ok {
				return true
			}
			call, ok := last.X.(*ast.CallExpr)
			if !ok || !noReturnCall(p.Goja.TypesInfo, call) {
				return true
			}
			if why, ok := astNarrowSwitches[encl+":"+nt.Obj().Name()]; ok {
				res.OK(fmt.Sprintf("%s:switch(%s):narrow", encl, nt.Obj().Name()), p.Pos(ts.Pos()), "table: "+why)
				return true
			}
			nChecked++
			swKey := fmt.Sprintf("%s:switch(%s)", encl, nt.Obj().Name())
			var missing []string
			for _, ct := range concretes {
				var impl types.Type
				switch {
				case types.Implements(types.NewPointer(ct), iface):
					impl = types.NewPointer(ct)
				case types.Implements(ct, iface):
					impl = ct
				default:
					continue
				}
				covered := false
				for _, c := range caseTypes {
					if types.Identical(c, impl) {
						covered = true
					}
					if ci, ok := c.Underlying().(*types.Interface); ok && types.Implements(impl, ci) {
						covered = true
					}
				}
				name := strings.TrimPrefix(types.TypeString(impl, func(*types.Package) string { return "ast" }), "")
				key := swKey + ":" + name
				switch {
				case covered:
					res.OK(key, p.Pos(ts.Pos()), "has a case")
				case astDispatchExceptions[encl+":"+name] != "":
					res.OK(key, p.Pos(ts.Pos()), "table exception: "+astDispatchExceptions[encl+":"+name])
				case astDispatchByType[name] != "":
					res.OK(key, p.Pos(ts.Pos()), "node never reaches this switch: "+astDispatchByType[name])
				default:
					missing = append(missing, name)
					res.Bad(key, p.Pos(ts.Pos()), fmt.Sprintf("%s implements ast.%s but the switch in %s has no case for it and its default panics with an internal diagnostic: a program containing such a node crashes the host", name, nt.Obj().Name(), encl))
				}
			}
			sort.Strings(missing)
			if len(missing) > 0 {
				res.Note("%s missing: %s", swKey, strings.Join(missing, ", "))
			}
			return true
		})
	}
	res.Count("type_switches_over_ast_interfaces", nSwitches)
	res.Count("with_noreturn_default", nChecked)
	return res
}

var _ = ssa.NewProgram

package rules

import (
	"fmt"
	"go/token"
	"go/types"

	"gojaverif/core"

	"golang.org/x/tools/go/ssa"
)

// R-LAZYNAMES (C04).
//
// A templatedObject (the global object, every built-in prototype and constructor) starts with
// propNames == nil, which stands for "the template's names": the list is only copied out of the
// template by materialisePropNames(). The ordinary-object code it embeds (baseObject) knows
// nothing of this: it appends a new key to whatever propNames is. A write of propNames reached
// while the list is still nil therefore *replaces* the template's names by the one new key -
// after `var x = 1` at top level, Object.getOwnPropertyNames(globalThis) was ["x"].
//
// Rule: every statically resolved call of a baseObject method that may write propNames (found by
// a closure over static calls from the stores to that field), made on the baseObject embedded in a
// templatedObject X, is preceded on every path from the function entry by materialisePropNames()
// / materialiseProps() on X, or lies behind a test showing that the key already exists (the
// result of X.getOwnPropStr(..) compared non-nil), in which case nothing is appended.
var LazyNames = &core.Rule{Name: "R-LAZYNAMES", Run: runLazyNames,
	Doc: "a baseObject method that may write propNames is called on a templatedObject only after materialisePropNames() on that object, or behind a test that the key already exists"}

func runLazyNames(p *core.Prog) *core.Result {
	res := core.NewResult("R-LAZYNAMES", 5)
	propNames, err := p.Field(core.GojaPath, "baseObject", "propNames")
	if err != nil {
		return res.Fail(err)
	}
	baseT, err := p.GojaType("baseObject")
	if err != nil {
		return res.Fail(err)
	}
	tmplT, err := p.GojaType("templatedObject")
	if err != nil {
		return res.Fail(err)
	}
	mat, err := p.GojaMethod("templatedObject", "materialisePropNames")
	if err != nil {
		return res.Fail(err)
	}
	getOwn, err := p.GojaMethod("templatedObject", "getOwnPropStr")
	if err != nil {
		return res.Fail(err)
	}
	basePtr := types.NewPointer(baseT)
	tmplPtr := types.NewPointer(tmplT)
	isBaseMethod := func(f *ssa.Function) bool {
		r := f.Signature.Recv()
		return r != nil && types.Identical(r.Type(), basePtr)
	}
	// writers: baseObject methods that store propNames, closed over static calls on the same receiver
	writers := map[*ssa.Function]bool{}
	for _, f := range p.Funcs {
		if !isBaseMethod(f) || f.Parent() != nil {
			continue
		}
		core.AllInstrs(f, func(in ssa.Instruction) {
			if st, ok := in.(*ssa.Store); ok && core.FieldOf(st.Addr) == propNames {
				writers[f] = true
			}
		})
	}
	for changed := true; changed; {
		changed = false
		for _, f := range p.Funcs {
			if !isBaseMethod(f) || f.Parent() != nil || writers[f] {
				continue
			}
			core.AllInstrs(f, func(in ssa.Instruction) {
				c, ok := in.(ssa.CallInstruction)
				if !ok {
					return
				}
				callee := c.Common().StaticCallee()
				if callee != nil && writers[callee] && len(c.Common().Args) > 0 && c.Common().Args[0] == f.Params[0] {
					if !writers[f] {
						writers[f] = true
						changed = true
					}
				}
			})
		}
	}
	res.Count("baseObject methods that may write propNames", len(writers))
	// (b) the "white hole": templatedObject.deleteStr leaves values[name] = nil behind for a deleted
	// template property, so that the template does not bring it back. Code that asks the map whether
	// the *key* exists (comma-ok lookup) takes a deleted property for an existing one.
	valuesF, err := p.Field(core.GojaPath, "baseObject", "values")
	if err != nil {
		return res.Fail(err)
	}
	keyTesters := map[*ssa.Function]bool{}
	for _, f := range p.Funcs {
		if !isBaseMethod(f) || f.Parent() != nil {
			continue
		}
		core.AllInstrs(f, func(in ssa.Instruction) {
			if lk, ok := in.(*ssa.Lookup); ok && lk.CommaOk {
				if ld, ok := lk.X.(*ssa.UnOp); ok && ld.Op == token.MUL && core.FieldOf(ld.X) == valuesF {
					keyTesters[f] = true
				}
			}
		})
	}
	for changed := true; changed; {
		changed = false
		for _, f := range p.Funcs {
			if !isBaseMethod(f) || f.Parent() != nil || keyTesters[f] {
				continue
			}
			core.AllInstrs(f, func(in ssa.Instruction) {
				c, ok := in.(ssa.CallInstruction)
				if !ok {
					return
				}
				callee := c.Common().StaticCallee()
				if callee != nil && keyTesters[callee] && len(c.Common().Args) > 0 && c.Common().Args[0] == f.Params[0] {
					if !keyTesters[f] {
						keyTesters[f] = true
						changed = true
					}
				}
			})
		}
	}
	res.Count("baseObject methods testing key presence in values", len(keyTesters))
	// materialisers: materialisePropNames and templatedObject methods that always call one
	// the templatedObject a baseObject pointer is embedded in
	ownerOf := func(v ssa.Value) ssa.Value {
		for i := 0; i < 4; i++ {
			fa, ok := v.(*ssa.FieldAddr)
			if !ok {
				return nil
			}
			if types.Identical(fa.X.Type(), tmplPtr) {
				return fa.X
			}
			v = fa.X
		}
		return nil
	}
	sameObj := func(a, b ssa.Value) bool {
		if a == b {
			return true
		}
		// &Y.templatedObject taken twice from the same Y
		fa, ok1 := a.(*ssa.FieldAddr)
		fb, ok2 := b.(*ssa.FieldAddr)
		if ok1 && ok2 && fa.Field == fb.Field && core.Origin(fa.X) == core.Origin(fb.X) {
			return true
		}
		return core.Origin(a) == core.Origin(b)
	}
	materialisers := map[*ssa.Function]bool{mat: true}
	isMatCall := func(in ssa.Instruction, x ssa.Value) bool {
		c, ok := in.(ssa.CallInstruction)
		if !ok {
			return false
		}
		callee := c.Common().StaticCallee()
		return callee != nil && materialisers[callee] && len(c.Common().Args) > 0 && sameObj(c.Common().Args[0], x)
	}
	for changed := true; changed; {
		changed = false
		for _, f := range p.Funcs {
			r := f.Signature.Recv()
			if r == nil || !types.Identical(r.Type(), tmplPtr) || materialisers[f] || f.Parent() != nil || len(f.Blocks) == 0 {
				continue
			}
			all := true
			any := false
			for _, b := range f.Blocks {
				if _, ok := b.Instrs[len(b.Instrs)-1].(*ssa.Return); ok {
					any = true
					if !allPathsPass(f, b, func(in ssa.Instruction) bool { return isMatCall(in, f.Params[0]) }) {
						all = false
					}
				}
			}
			if any && all {
				materialisers[f] = true
				changed = true
			}
		}
	}
	n := map[string]int{}
	nSites := 0
	for _, f := range p.Funcs {
		if !p.InModule(f) {
			continue
		}
		core.AllInstrs(f, func(in ssa.Instruction) {
			c, ok := in.(ssa.CallInstruction)
			if !ok {
				return
			}
			callee := c.Common().StaticCallee()
			if callee == nil || len(c.Common().Args) == 0 {
				return
			}
			if keyTesters[callee] {
				if ownerOf(c.Common().Args[0]) != nil {
					kk := fmt.Sprintf("%s:%s tests key presence on a templated object", core.FuncName(f), callee.Name())
					n[kk]++
					if n[kk] > 1 {
						kk = fmt.Sprintf("%s#%d", kk, n[kk])
					}
					res.Bad(kk, p.Pos(c.Pos()), callee.Name()+" decides whether the property exists by a comma-ok lookup in values, but a templated object keeps a deleted template property as a key with a nil value: the deleted property is taken for an existing one (its name is not added to propNames, so it is an own property that is not an own key)")
				}
			}
			if !writers[callee] {
				return
			}
			x := ownerOf(c.Common().Args[0])
			if x == nil {
				return
			}
			nSites++
			k := fmt.Sprintf("%s:%s on a templated object after its names are materialised", core.FuncName(f), callee.Name())
			n[k]++
			key := k
			if n[k] > 1 {
				key = fmt.Sprintf("%s#%d", k, n[k])
			}
			// path search entry -> call avoiding materialise calls and "exists" edges
			existsEdge := func(from, to *ssa.BasicBlock) bool {
				ifi, ok := from.Instrs[len(from.Instrs)-1].(*ssa.If)
				if !ok {
					return false
				}
				v, nonNilOnTrue, ok := core.IsNilCompare(ifi.Cond)
				if !ok {
					return false
				}
				call, ok := v.(*ssa.Call)
				if !ok || call.Call.StaticCallee() != getOwn || len(call.Call.Args) == 0 || !sameObj(call.Call.Args[0], x) {
					return false
				}
				takenTrue := from.Succs[0] == to
				return takenTrue == nonNilOnTrue
			}
			type key2 struct{ b *ssa.BasicBlock }
			seen := map[key2]bool{}
			reached := false
			var walk func(b *ssa.BasicBlock)
			walk = func(b *ssa.BasicBlock) {
				if reached || seen[key2{b}] {
					return
				}
				seen[key2{b}] = true
				for _, in2 := range b.Instrs {
					if in2 == in {
						reached = true
						return
					}
					if isMatCall(in2, x) {
						return
					}
				}
				for _, s := range b.Succs {
					if s == b.Succs[0] && len(b.Succs) == 2 && b.Succs[0] == b.Succs[1] {
						continue
					}
					if existsEdge(b, s) {
						continue
					}
					walk(s)
				}
			}
			walk(f.Blocks[0])
			if !reached {
				res.OK(key, p.Pos(c.Pos()), "every path materialises the names first or shows the key exists")
			} else {
				res.Bad(key, p.Pos(c.Pos()), fmt.Sprintf("%s may append to propNames, which is still nil (= \"the template's names\") on a path that never called materialisePropNames(): the new key replaces the whole template list, and every built-in property disappears from the object's own keys", callee.Name()))
			}
		})
	}
	res.Count("calls of propNames writers on templated objects", nSites)
	_ = token.NoPos
	return res
}

package rules

import (
	"fmt"
	"go/token"
	"go/types"
	"sort"

	"gojaverif/core"

	"golang.org/x/tools/go/ssa"
)

// R-PUTONSTACK (C02 "expression vs statement position", C01 operand-stack balance).
//
// Every expression emitter of the compiler takes a flag saying whether the value of the
// expression is wanted on the operand stack (compiledExpr.emitGetter/emitSetter/emitUnary/
// emitDelete, and the helpers the flag is handed to: emitExpr, emitConst, emitPattern, ...).
// The bytecode emitted for `putOnStack == true` must leave one more slot than the bytecode
// emitted for `false`. A path through such a function that reaches a normal return without
// ever looking at the flag - no branch on it, no callee it is handed to, no closure capturing
// it - emits the same code for both values and is therefore wrong for one of them: either a
// discarded expression leaks an operand-stack slot (`0 && x, 1` leaves sp == 1; in an
// argument list the callee and `this` slots shift: `Math.max(1, (0 && 1, 2))` throws a bogus
// TypeError), or a wanted value is missing.
//
// Excused: paths through a call that never returns (throwSyntaxError) and paths that emit an
// unconditional run-time throw (emitThrow): the balance after it is unobservable.
var PutOnStack = &core.Rule{Name: "R-PUTONSTACK", Run: runPutOnStack,
	Doc: "in every compiler function that receives the 'value wanted on the stack' flag, every path to a normal return consults the flag (branch, argument, captured by a closure) or emits an unconditional throw"}

// putOnStackAudited: named paths that do not consult the flag and are nevertheless right.
var putOnStackAudited = map[string]string{
	"(*compiledSequenceExpr).emitGetter": "the empty-sequence path emits nothing; the parser never builds an empty SequenceExpression (parseParenthesisedExpression answers `()` with a BadExpression, parseExpression starts from one operand), so the path is dead for parsed programs",
}

func runPutOnStack(p *core.Prog) *core.Result {
	res := core.NewResult("R-PUTONSTACK", 60)
	ce, err := p.GojaType("compiledExpr")
	if err != nil {
		return res.Fail(err)
	}
	iface, ok := ce.Underlying().(*types.Interface)
	if !ok {
		return res.Failf("compiledExpr is not an interface")
	}
	emit, err := p.GojaMethod("compiler", "emit")
	if err != nil {
		return res.Fail(err)
	}
	throwers := throwEmitters(p, emit)
	res.Count("helpers that always emit an unconditional run-time throw", len(throwers))
	flagged, nImpl := flaggedFuncs(p, iface)
	if flagged == nil {
		return res.Failf("compiledExpr methods carrying putOnStack: fewer than 4")
	}
	res.Count("compiledExpr implementations carrying the flag", nImpl)
	var fns []*ssa.Function
	for f := range flagged {
		fns = append(fns, f)
	}
	sort.Slice(fns, func(i, j int) bool { return core.FuncName(fns[i]) < core.FuncName(fns[j]) })
	res.Count("functions receiving the flag", len(fns))
	for _, f := range fns {
		var idxs []int
		for i := range flagged[f] {
			idxs = append(idxs, i)
		}
		sort.Ints(idxs)
		for _, idx := range idxs {
			checkFlagConsulted(p, res, f, idx, emit, throwers)
		}
	}
	return res
}

// flaggedFuncs: the implementations of the compiledExpr methods whose last parameter is the
// putOnStack flag, plus every module function that receives a flag-derived argument from one of
// them (transitively). Result: function -> set of indexes into Params.
func flaggedFuncs(p *core.Prog, iface *types.Interface) (map[*ssa.Function]map[int]bool, int) {
	// interface methods whose last parameter is the flag
	flagMethods := map[string]int{}
	for i := 0; i < iface.NumMethods(); i++ {
		m := iface.Method(i)
		sig := m.Type().(*types.Signature)
		n := sig.Params().Len()
		if n == 0 {
			continue
		}
		last := sig.Params().At(n - 1)
		if b, ok := last.Type().Underlying().(*types.Basic); ok && b.Kind() == types.Bool && last.Name() == "putOnStack" {
			flagMethods[m.Name()] = n - 1
		}
	}
	if len(flagMethods) < 4 {
		return nil, 0
	}
	// seed: implementations
	type fp struct {
		fn  *ssa.Function
		idx int // index into fn.Params (receiver included)
	}
	flagged := map[*ssa.Function]map[int]bool{}
	var work []fp
	add := func(fn *ssa.Function, idx int) {
		if fn == nil || len(fn.Blocks) == 0 || !p.InModule(fn) {
			return
		}
		if idx >= len(fn.Params) {
			return
		}
		if b, ok := fn.Params[idx].Type().Underlying().(*types.Basic); !ok || b.Kind() != types.Bool {
			return
		}
		if flagged[fn] == nil {
			flagged[fn] = map[int]bool{}
		}
		if !flagged[fn][idx] {
			flagged[fn][idx] = true
			work = append(work, fp{fn, idx})
		}
	}
	nImpl := 0
	for _, f := range p.Funcs {
		if f.Signature.Recv() == nil || f.Parent() != nil {
			continue
		}
		idx, ok := flagMethods[f.Name()]
		if !ok {
			continue
		}
		if !types.Implements(f.Signature.Recv().Type(), iface) {
			// a method promoted from an embedded base (baseCompiledExpr) has the interface method's signature
			var im *types.Func
			for i := 0; i < iface.NumMethods(); i++ {
				if iface.Method(i).Name() == f.Name() {
					im = iface.Method(i)
				}
			}
			ms, is := im.Type().(*types.Signature), f.Signature
			if ms.Params().Len() != is.Params().Len() {
				continue
			}
			same := true
			for i := 0; i < ms.Params().Len(); i++ {
				if !types.Identical(ms.Params().At(i).Type(), is.Params().At(i).Type()) {
					same = false
				}
			}
			if !same {
				continue
			}
		}
		nImpl++
		add(f, idx+1)
	}
	// propagate to static callees receiving a flag-derived argument
	for len(work) > 0 {
		w := work[len(work)-1]
		work = work[:len(work)-1]
		d := flagDerived(w.fn, w.idx)
		visitWithAnon(w.fn, func(f *ssa.Function) {
			core.AllInstrs(f, func(in ssa.Instruction) {
				c, ok := in.(ssa.CallInstruction)
				if !ok {
					return
				}
				callee := c.Common().StaticCallee()
				if callee == nil || c.Common().IsInvoke() {
					return
				}
				off := 0
				if callee.Signature.Recv() != nil {
					off = 0 // Args already include the receiver for static method calls
				}
				for ai, a := range c.Common().Args {
					if d[a] {
						add(callee, ai+off)
					}
				}
			})
		})
	}
	return flagged, nImpl
}

func visitWithAnon(f *ssa.Function, fn func(*ssa.Function)) {
	fn(f)
	for _, a := range f.AnonFuncs {
		visitWithAnon(a, fn)
	}
}

// flagDerived returns the values (in f and its closures) that carry the flag: the parameter,
// loads of its spill cell, negations, phis and the free variables bound to its cell.
func flagDerived(f *ssa.Function, idx int) map[ssa.Value]bool {
	d := map[ssa.Value]bool{f.Params[idx]: true}
	cells := map[ssa.Value]bool{}
	changed := true
	for changed {
		changed = false
		mark := func(v ssa.Value) {
			if !d[v] {
				d[v] = true
				changed = true
			}
		}
		visitWithAnon(f, func(g *ssa.Function) {
			core.AllInstrs(g, func(in ssa.Instruction) {
				switch x := in.(type) {
				case *ssa.Store:
					if d[x.Val] {
						if a, ok := x.Addr.(*ssa.Alloc); ok && !cells[a] {
							cells[a] = true
							changed = true
						}
					}
				case *ssa.UnOp:
					if x.Op == token.MUL && cells[x.X] {
						mark(x)
					}
					if x.Op == token.NOT && d[x.X] {
						mark(x)
					}
				case *ssa.Phi:
					for _, e := range x.Edges {
						if d[e] {
							mark(x)
						}
					}
				case *ssa.MakeClosure:
					cl := x.Fn.(*ssa.Function)
					for bi, b := range x.Bindings {
						if cells[b] && !cells[cl.FreeVars[bi]] {
							cells[cl.FreeVars[bi]] = true
							changed = true
						}
						if d[b] {
							mark(cl.FreeVars[bi])
						}
					}
				}
			})
		})
	}
	for c := range cells {
		d[c] = true // capturing the cell is a use too
	}
	return d
}

func checkFlagConsulted(p *core.Prog, res *core.Result, f *ssa.Function, idx int, emit *ssa.Function, throwers map[*ssa.Function]bool) {
	d := flagDerived(f, idx)
	key := fmt.Sprintf("%s:%s consulted on every path", core.FuncName(f), f.Params[idx].Name())
	pos := p.Pos(f.Pos())
	if why, ok := putOnStackAudited[core.FuncName(f)]; ok {
		res.OK(key, pos, "audited: "+why)
		return
	}
	stop := map[*ssa.BasicBlock]bool{}
	for _, b := range f.Blocks {
		for _, in := range b.Instrs {
			switch x := in.(type) {
			case *ssa.If:
				if d[x.Cond] {
					stop[b] = true
				}
			case ssa.CallInstruction:
				for _, a := range x.Common().Args {
					if d[a] {
						stop[b] = true
					}
				}
				if emitsThrow(p, x, emit, throwers) {
					stop[b] = true
				}
				if c, ok := in.(*ssa.Call); ok && p.CallNeverReturns(c) {
					stop[b] = true
				}
			case *ssa.MakeClosure:
				for _, bnd := range x.Bindings {
					if d[bnd] {
						stop[b] = true
					}
				}
			case *ssa.Store:
				if d[x.Val] {
					if _, isAlloc := x.Addr.(*ssa.Alloc); !isAlloc {
						stop[b] = true // handed on through a field
					}
				}
			case *ssa.Panic:
				stop[b] = true
			}
		}
	}
	// reach a normal return from the entry without passing a stop block
	seen := map[*ssa.BasicBlock]bool{}
	var bad *ssa.Return
	var walk func(b *ssa.BasicBlock)
	walk = func(b *ssa.BasicBlock) {
		if seen[b] || stop[b] || bad != nil {
			return
		}
		seen[b] = true
		if len(b.Instrs) > 0 {
			if r, ok := b.Instrs[len(b.Instrs)-1].(*ssa.Return); ok && b != f.Recover {
				bad = r
				return
			}
		}
		for _, s := range b.Succs {
			walk(s)
		}
	}
	if len(f.Blocks) > 0 {
		walk(f.Blocks[0])
	}
	if bad == nil {
		res.OK(key, pos, "every path to a normal return branches on the flag, hands it on, or ends in a throw")
		return
	}
	res.Bad(key, p.Pos(bad.Pos()), fmt.Sprintf("the return at %s is reachable without consulting %s: the same bytecode is emitted whether or not the value is wanted, so either a discarded expression leaks an operand-stack slot or a wanted value is missing", p.Pos(bad.Pos()), f.Params[idx].Name()))
}

// emitsThrow: the call emits an instruction whose exec throws a JS exception on every path
// (throw, throwConst, throwAssignToConst, ...: derived from the exec methods - every path
// passes vm.throw or a Go panic), or calls a helper that does so on every path.
func emitsThrow(p *core.Prog, c ssa.CallInstruction, emit *ssa.Function, throwers map[*ssa.Function]bool) bool {
	callee := c.Common().StaticCallee()
	if callee == nil {
		return false
	}
	if throwers[callee] {
		return true
	}
	if callee != emit || len(c.Common().Args) < 2 {
		return false
	}
	// c.emit(instr...) : the variadic slice is built from MakeInterface values
	found := false
	for _, mi := range sliceElems(c.Common().Args[1]) {
		m, ok := mi.(*ssa.MakeInterface)
		if !ok {
			continue
		}
		if ex := execOf(p, m.X.Type()); ex != nil && throwers[ex] {
			found = true
		}
	}
	return found
}

// sliceElems returns the values stored into the backing array of a variadic argument slice.
func sliceElems(v ssa.Value) []ssa.Value {
	sl, ok := v.(*ssa.Slice)
	if !ok {
		return nil
	}
	al, ok := sl.X.(*ssa.Alloc)
	if !ok {
		return nil
	}
	var out []ssa.Value
	for _, r := range core.Referrers(al) {
		ia, ok := r.(*ssa.IndexAddr)
		if !ok {
			continue
		}
		for _, rr := range core.Referrers(ia) {
			if st, ok := rr.(*ssa.Store); ok && st.Addr == ia {
				out = append(out, st.Val)
			}
		}
	}
	return out
}

func execOf(p *core.Prog, t types.Type) *ssa.Function {
	ms := p.SSA.MethodSets.MethodSet(t)
	for i := 0; i < ms.Len(); i++ {
		if ms.At(i).Obj().Name() == "exec" {
			return p.SSA.MethodValue(ms.At(i))
		}
	}
	return nil
}

// mustPass reports whether every path from the entry of f to a normal return passes an
// instruction for which stop is true, a panic, or a call that never returns.
func mustPass(p *core.Prog, f *ssa.Function, stop func(ssa.Instruction) bool) bool {
	if len(f.Blocks) == 0 {
		return false
	}
	stopB := map[*ssa.BasicBlock]bool{}
	for _, b := range f.Blocks {
		if p.FirstNoReturn(b) >= 0 {
			stopB[b] = true
			continue
		}
		for _, in := range b.Instrs {
			if stop(in) {
				stopB[b] = true
				break
			}
		}
	}
	seen := map[*ssa.BasicBlock]bool{}
	reach := false
	var walk func(b *ssa.BasicBlock)
	walk = func(b *ssa.BasicBlock) {
		if seen[b] || stopB[b] || reach {
			return
		}
		seen[b] = true
		if len(b.Instrs) > 0 {
			if _, ok := b.Instrs[len(b.Instrs)-1].(*ssa.Return); ok && b != f.Recover {
				reach = true
				return
			}
		}
		for _, s := range b.Succs {
			walk(s)
		}
	}
	walk(f.Blocks[0])
	return !reach
}

// throwEmitters: (a) exec methods that throw on every path, (b) compiler helpers every
// returning path of which emits such an instruction.
func throwEmitters(p *core.Prog, emit *ssa.Function) map[*ssa.Function]bool {
	out := map[*ssa.Function]bool{}
	vmThrow, err := p.GojaMethod("vm", "throw")
	if err != nil {
		return out
	}
	handleThrow, err := p.GojaMethod("vm", "handleThrow")
	if err != nil {
		return out
	}
	for _, f := range p.Funcs {
		if f.Name() != "exec" || f.Signature.Recv() == nil || f.Parent() != nil {
			continue
		}
		if mustPass(p, f, func(in ssa.Instruction) bool {
			_, ok := core.CallTo(in, vmThrow)
			_, ok2 := core.CallTo(in, handleThrow)
			return ok || ok2
		}) {
			out[f] = true
		}
	}
	for round := 0; round < 3; round++ {
		for _, f := range p.Funcs {
			if out[f] || f.Parent() != nil || len(f.Blocks) == 0 || f == emit || f.Name() == "exec" {
				continue
			}
			any := false
			core.AllInstrs(f, func(in ssa.Instruction) {
				if c, ok := in.(ssa.CallInstruction); ok && emitsThrow(p, c, emit, out) {
					any = true
				}
			})
			if !any {
				continue
			}
			if mustPass(p, f, func(in ssa.Instruction) bool {
				c, ok := in.(ssa.CallInstruction)
				return ok && emitsThrow(p, c, emit, out)
			}) {
				out[f] = true
			}
		}
	}
	return out
}

package rules

import (
	"fmt"
	"go/types"

	"gojaverif/core"

	"golang.org/x/tools/go/ssa"
)

// R-SURROGATE (C06 "lone surrogates are preserved by every string operation").
//
// A JS string is a sequence of UTF-16 code units; a Go string is UTF-8, which cannot represent a
// lone surrogate: String.String() (utf16.Decode) turns each into U+FFFD. A string *operation* that
// computes its result by taking the Go string of its operand, transforming it with a Go library
// function and wrapping the outcome in a new JS string loses every lone surrogate on the way.
//
// Rule: the argument of newStringValue(..) (a Go string becoming a JS string) does not derive -
// through calls of non-module functions, concatenation and slicing - from the String() of a JS
// string value. Sites that do are reported; the ones the engine's authors marked as known ("TODO
// handle invalid UTF-16") are listed as known findings, not silenced.
var Surrogate = &core.Rule{Name: "R-SURROGATE", Run: runSurrogate,
	Doc: "no JS string result is produced from the UTF-8 Go string of a JS string operand (lone surrogates become U+FFFD)"}

func runSurrogate(p *core.Prog) *core.Result {
	res := core.NewResult("R-SURROGATE", 0)
	nsv, err := p.GojaFunc("newStringValue")
	if err != nil {
		return res.Fail(err)
	}
	strI, err := p.GojaType("String")
	if err != nil {
		return res.Fail(err)
	}
	valI, err := p.GojaType("Value")
	if err != nil {
		return res.Fail(err)
	}
	isJSStringRecv := func(t types.Type) bool {
		if types.Identical(t, strI) || types.Identical(t, valI) {
			return true
		}
		if i, ok := strI.Underlying().(*types.Interface); ok && types.Implements(t, i) {
			return true
		}
		return false
	}
	var lossy func(v ssa.Value, depth int, seen map[ssa.Value]bool) ssa.Instruction
	lossy = func(v ssa.Value, depth int, seen map[ssa.Value]bool) ssa.Instruction {
		if depth > 6 || seen[v] {
			return nil
		}
		seen[v] = true
		switch x := v.(type) {
		case *ssa.Call:
			if x.Call.IsInvoke() {
				if x.Call.Method.Name() == "String" && isJSStringRecv(x.Call.Value.Type()) {
					return x
				}
				return nil
			}
			callee := x.Call.StaticCallee()
			if callee == nil {
				return nil
			}
			if callee.Name() == "String" && callee.Signature.Recv() != nil && isJSStringRecv(callee.Signature.Recv().Type()) {
				return x
			}
			if p.InModule(callee) {
				return nil // module helpers are looked at on their own
			}
			for _, a := range x.Call.Args {
				if in := lossy(a, depth+1, seen); in != nil {
					return in
				}
			}
		case *ssa.BinOp:
			if in := lossy(x.X, depth+1, seen); in != nil {
				return in
			}
			return lossy(x.Y, depth+1, seen)
		case *ssa.Slice:
			return lossy(x.X, depth+1, seen)
		case *ssa.Phi:
			for _, e := range x.Edges {
				if in := lossy(e, depth+1, seen); in != nil {
					return in
				}
			}
		case *ssa.Convert:
			return lossy(x.X, depth+1, seen)
		}
		return nil
	}
	n := map[string]int{}
	nCalls := 0
	for _, f := range p.Funcs {
		if !p.InModule(f) {
			continue
		}
		var sinkCalls []ssa.CallInstruction
		var sinkArgs []ssa.Value
		core.AllInstrs(f, func(in ssa.Instruction) {
			c, ok := in.(ssa.CallInstruction)
			if !ok {
				return
			}
			callee := c.Common().StaticCallee()
			if callee == nil || !p.InModule(callee) {
				return
			}
			// a module function that turns a Go string into a JS string: newStringValue, or any helper with a
			// string parameter and a String / Value result (toLower(string) String ...)
			res0 := callee.Signature.Results()
			if callee != nsv && !(res0.Len() == 1 && (types.Identical(res0.At(0).Type(), strI) || types.Identical(res0.At(0).Type(), valI))) {
				return
			}
			for i, a := range c.Common().Args {
				if b, ok := a.Type().Underlying().(*types.Basic); ok && b.Kind() == types.String {
					_ = i
					sinkCalls = append(sinkCalls, c)
					sinkArgs = append(sinkArgs, a)
				}
			}
		})
		for i, c := range sinkCalls {
			nCalls++
			src := lossy(sinkArgs[i], 0, map[ssa.Value]bool{})
			if src == nil {
				continue
			}
			k := core.FuncName(f) + ":JS string built from the UTF-8 form of a JS string"
			n[k]++
			key := k
			if n[k] > 1 {
				key = fmt.Sprintf("%s#%d", k, n[k])
			}
			res.Bad(key, p.Pos(c.Pos()), fmt.Sprintf("the result string is made from the Go string taken at %s: String() decodes UTF-16 to UTF-8 and replaces every lone surrogate by U+FFFD, so the operation does not preserve them", p.Pos(src.Pos())))
		}
	}
	res.Count("Go string -> JS string call sites", nCalls)
	return res
}

package rules

import (
	"fmt"
	"go/token"
	"sort"

	"gojaverif/core"

	"golang.org/x/tools/go/ssa"
)

// R-ESCAPEAGREE: string literals are handled by two cooperating scanners. The lexer's scanEscape
// only *measures* an escape (it pre-computes the decoded length); parseStringLiteral decodes it and
// then checks its own result against that length, panicking on a mismatch
// ("unexpected unicode length while parsing ..."). Nothing recovers that panic, so the two must
// consume the same number of digits for a legacy octal escape. Both counts are compile-time
// constants; the rule extracts the set of possible maxima on each side and compares them.
var EscapeAgree = &core.Rule{Name: "R-ESCAPEAGREE", Run: runEscapeAgree,
	Doc: "sibling agreement in package parser: the set of maximal digit counts of a legacy octal escape in (*_parser).scanEscape (constants assigned to `length` together with base 8) equals the set in parseStringLiteral (1 + the constant bound(s) of the loop that shifts the value left by 3)"}

func runEscapeAgree(p *core.Prog) *core.Result {
	res := core.NewResult("R-ESCAPEAGREE", 2)
	const parserPath = core.GojaPath + "/parser"
	scan, err := p.LookupMethod(parserPath, "_parser", "scanEscape")
	if err != nil {
		return res.Fail(err)
	}
	decode, err := p.LookupFunc(parserPath, "parseStringLiteral")
	if err != nil {
		return res.Fail(err)
	}
	// constants of a value: a const, or a phi over consts (one level of nesting)
	var constsOf func(v ssa.Value, d int) ([]int64, bool)
	constsOf = func(v ssa.Value, d int) ([]int64, bool) {
		if c, ok := core.IntConst(v); ok {
			return []int64{c}, true
		}
		if ph, ok := v.(*ssa.Phi); ok && d < 3 {
			var out []int64
			for _, e := range ph.Edges {
				cs, ok := constsOf(e, d+1)
				if !ok {
					return nil, false
				}
				out = append(out, cs...)
			}
			return out, true
		}
		return nil, false
	}
	uniq := func(xs []int64) []int64 {
		m := map[int64]bool{}
		for _, x := range xs {
			m[x] = true
		}
		var out []int64
		for x := range m {
			out = append(out, x)
		}
		sort.Slice(out, func(i, j int) bool { return out[i] < out[j] })
		return out
	}
	// scan side: phi #length and phi #base in the same block, paired by edge
	var scanSet []int64
	scanOK := false
	for _, b := range scan.Blocks {
		var lenPhi, basePhi *ssa.Phi
		for _, in := range b.Instrs {
			if ph, ok := in.(*ssa.Phi); ok {
				switch ph.Comment {
				case "length":
					lenPhi = ph
				case "base":
					basePhi = ph
				}
			}
		}
		if lenPhi == nil || basePhi == nil || len(lenPhi.Edges) != len(basePhi.Edges) {
			continue
		}
		for i := range basePhi.Edges {
			if c, ok := core.IntConst(basePhi.Edges[i]); ok && c == 8 {
				cs, ok := constsOf(lenPhi.Edges[i], 0)
				if !ok {
					return res.Failf("unresolved anchor: the digit count paired with base 8 in scanEscape is not a constant")
				}
				scanSet = append(scanSet, cs...)
				scanOK = true
			}
		}
	}
	if !scanOK {
		return res.Failf("unresolved anchor: no (length, base=8) assignment found in scanEscape")
	}
	// decode side: the loop whose body does value<<3
	var decSet []int64
	decOK := false
	core.AllInstrs(decode, func(in ssa.Instruction) {
		sh, ok := in.(*ssa.BinOp)
		if !ok || sh.Op != token.SHL {
			return
		}
		if c, ok := core.IntConst(sh.Y); !ok || c != 3 {
			return
		}
		for _, cp := range core.ControllingConds(sh.Block()) {
			b, ok := cp.Cond.(*ssa.BinOp)
			if !ok || b.Op != token.LSS || !cp.Pol {
				continue
			}
			ph, ok := b.X.(*ssa.Phi)
			if !ok {
				continue
			}
			// the loop counter: a phi with a +1 edge
			counter := false
			for _, e := range ph.Edges {
				if inc, ok := e.(*ssa.BinOp); ok && inc.Op == token.ADD && inc.X == ssa.Value(ph) {
					if c, ok := core.IntConst(inc.Y); ok && c == 1 {
						counter = true
					}
				}
			}
			if !counter {
				continue
			}
			cs, ok := constsOf(b.Y, 0)
			if !ok {
				continue
			}
			for _, c := range cs {
				decSet = append(decSet, c+1)
			}
			decOK = true
		}
	})
	if !decOK {
		return res.Failf("unresolved anchor: the octal digit loop (value << 3 under `j < N`) was not found in parseStringLiteral")
	}
	a, b := uniq(scanSet), uniq(decSet)
	same := len(a) == len(b)
	if same {
		for i := range a {
			if a[i] != b[i] {
				same = false
			}
		}
	}
	key := "scanEscape~parseStringLiteral:octal digit count"
	if same {
		res.OK(key, p.Pos(decode.Pos()), fmt.Sprintf("both consume at most %v digits", a))
	} else {
		res.Bad(key, p.Pos(decode.Pos()), fmt.Sprintf("scanEscape measures a legacy octal escape with at most %v digits, parseStringLiteral decodes at most %v: for an escape on which they differ (e.g. \"\\477\") the decoder's own length self-check panics, and that Go panic escapes Parse/Compile/RunString/eval", a, b))
	}
	// \u{...}: both sides compare the accumulated code point with utf8.MaxRune. The scanner keeps
	// consuming digits (and finally the closing brace) while its test holds; the decoder rejects the
	// escape when its test holds. They agree iff the scanner's "continue" set is the complement of the
	// decoder's "reject" set at the boundary value itself.
	const maxRune = 0x10FFFF
	type cmp struct {
		op        token.Token
		valueLeft bool
		pos       token.Pos
		found     bool
	}
	findCmp := func(fn *ssa.Function) cmp {
		var out cmp
		core.AllInstrs(fn, func(in ssa.Instruction) {
			bo, ok := in.(*ssa.BinOp)
			if !ok {
				return
			}
			switch bo.Op {
			case token.LSS, token.LEQ, token.GTR, token.GEQ:
			default:
				return
			}
			if c, ok := core.IntConst(bo.Y); ok && c == maxRune {
				out = cmp{bo.Op, true, bo.Pos(), true}
			} else if c, ok := core.IntConst(bo.X); ok && c == maxRune {
				out = cmp{bo.Op, false, bo.Pos(), true}
			}
		})
		return out
	}
	holdsAtMax := func(c cmp) bool { // does `value OP MaxRune` hold for value == MaxRune
		return c.op == token.LEQ || c.op == token.GEQ
	}
	sc, dc := findCmp(scan), findCmp(decode)
	key2 := "scanEscape~parseStringLiteral:\\u{...} upper bound"
	switch {
	case !sc.found || !dc.found:
		return res.Failf("unresolved anchor: the comparison with utf8.MaxRune was not found in scanEscape / parseStringLiteral")
	case holdsAtMax(sc) != !holdsAtMax(dc):
		res.Bad(key2, p.Pos(sc.pos), "for the code point 0x10FFFF itself the scanner stops consuming (its loop test fails) although the decoder accepts the escape: the closing brace is left unread, the measured length is one short and the decoder's self-check panics (\"\\u{10FFFF}\")")
	default:
		res.OK(key2, p.Pos(sc.pos), "scanner continues exactly while the decoder does not reject")
	}
	return res
}

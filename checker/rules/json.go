package rules

import (
	"fmt"
	"go/constant"
	"go/token"
	"go/types"
	"sort"
	"strings"

	"gojaverif/core"

	"golang.org/x/tools/go/ssa"
)

// R-JSONSHAPE (C19, narrow): the clauses of JSON.parse / JSON.stringify conformance whose truth is
// in the shape of builtin_json.go. Each obligation names the behaviour that breaks.
//
//  1. restore: a serialiser method that saves a context field (ctx.indent) and changes it restores
//     the saved value on every normal path ("produces exactly the specified text for every ...
//     indent": the nesting level after a container is the level before it).
//  2. eof: JSON.parse returns only after the token stream answered io.EOF to one more Token()
//     ("rejecting every other text with SyntaxError": no trailing input).
//  3. define: decoded members are defined (createDataProperty / _putProp), never assigned with a
//     [[Set]] ("'__proto__' keys": an own property, no setter on Object.prototype runs).
//  4. cycle: an object is pushed on the serialiser's stack only after it was compared with every
//     entry, with a TypeError on a hit, and the push is undone in a defer ("cyclic references").
//  5. shared: Object.MarshalJSON and JSON.stringify enter the same serialiser ("MarshalJSON agrees
//     with stringify").
//  6. escapes: quote() maps exactly the two-character escapes of the specification
//     (\" \\ \b \t \n \f \r), \u00XX for the other code units below 0x20 and \uXXXX for lone
//     surrogates.
var JSONShape = &core.Rule{Name: "R-JSONSHAPE", Run: runJSONShape,
	Doc: "structural clauses of builtin_json.go: save/restore of the indent, trailing-input check by io.EOF, members defined not set, cycle check before push with a deferred pop, MarshalJSON and stringify share the serialiser, the escape table of quote()"}

func runJSONShape(p *core.Prog) *core.Result {
	res := core.NewResult("R-JSONSHAPE", 12)
	ctxT, err := p.GojaType("_builtinJSON_stringifyContext")
	if err != nil {
		return res.Fail(err)
	}
	jsonSaveRestore(p, res, ctxT)
	jsonEOF(p, res)
	jsonDefine(p, res)
	jsonCycle(p, res)
	jsonShared(p, res)
	jsonEscapes(p, res)
	jsonKeys(p, res)
	return res
}

// ---- 7. property keys handed to the serialiser are strings --------------------------------------

// SerializeJSONProperty receives the key as a String (array indexes as ToString(index)): a replacer
// function and toJSON observe it. Every call of str() that builds its key argument in place builds
// a String.
func jsonKeys(p *core.Prog, res *core.Result) {
	str, err := p.GojaMethod("_builtinJSON_stringifyContext", "str")
	if err != nil {
		res.Fail(err)
		return
	}
	strT, err := p.GojaType("String")
	if err != nil {
		res.Fail(err)
		return
	}
	iface := strT.Underlying().(*types.Interface)
	n := 0
	for _, f := range p.Funcs {
		for _, c := range core.CallsIn(f, str) {
			if len(c.Common().Args) < 2 {
				continue
			}
			mi, ok := c.Common().Args[1].(*ssa.MakeInterface)
			if !ok {
				continue // a Value taken from a key list: its type is not visible here
			}
			n++
			key := fmt.Sprintf("%s:key handed to str() is a String#%d", core.FuncName(f), n)
			if types.Implements(mi.X.Type(), iface) {
				res.OK(key, p.Pos(c.Pos()), core.TypeShort(mi.X.Type()))
			} else {
				res.Bad(key, p.Pos(c.Pos()), "the property key given to the serialiser is a "+core.TypeShort(mi.X.Type())+", not a String: replacer functions and toJSON methods receive a non-string key for array elements")
			}
		}
	}
}

// ---- 1. save / modify / restore --------------------------------------------------------------

func jsonSaveRestore(p *core.Prog, res *core.Result, ctxT *types.Named) {
	st := ctxT.Underlying().(*types.Struct)
	n := 0
	for _, f := range p.Funcs {
		if f.Signature.Recv() == nil || f.Parent() != nil || core.NamedOf(f.Signature.Recv().Type()) != ctxT {
			continue
		}
		for i := 0; i < st.NumFields(); i++ {
			fv := st.Field(i)
			var loads []*ssa.UnOp
			var stores []*ssa.Store
			core.AllInstrs(f, func(in ssa.Instruction) {
				switch x := in.(type) {
				case *ssa.UnOp:
					if x.Op == token.MUL && core.FieldOf(x.X) == fv {
						loads = append(loads, x)
					}
				case *ssa.Store:
					if core.FieldOf(x.Addr) == fv {
						stores = append(stores, x)
					}
				}
			})
			if len(stores) < 2 {
				continue
			}
			// restores: stores whose value is (a phi of) an earlier load of the same field
			isSaved := func(v ssa.Value) bool {
				seen := map[ssa.Value]bool{}
				var rec func(v ssa.Value) bool
				rec = func(v ssa.Value) bool {
					if seen[v] {
						return false
					}
					seen[v] = true
					switch x := v.(type) {
					case *ssa.UnOp:
						for _, l := range loads {
							if l == x {
								return true
							}
						}
					case *ssa.Phi:
						for _, e := range x.Edges {
							if rec(e) {
								return true
							}
						}
					}
					return false
				}
				return rec(v)
			}
			var restores, mods []*ssa.Store
			for _, s := range stores {
				if isSaved(s.Val) {
					restores = append(restores, s)
				} else {
					mods = append(mods, s)
				}
			}
			if len(restores) == 0 || len(mods) == 0 {
				continue
			}
			for mi, m := range mods {
				n++
				key := fmt.Sprintf("%s:%s restored after it was changed", core.FuncName(f), fv.Name())
				if mi > 0 {
					key = fmt.Sprintf("%s#%d", key, mi+1)
				}
				// conditions under which the modification happens
				must := map[string]bool{}
				for _, cp := range core.ControllingConds(m.Block()) {
					must[condKey(cp.Cond, 0)] = cp.Pol
				}
				isRestore := map[ssa.Instruction]bool{}
				for _, r := range restores {
					isRestore[r] = true
				}
				// search a path from m to a normal return that passes no restore
				var badRet *ssa.Return
				seen := map[*ssa.BasicBlock]bool{}
				var walk func(b *ssa.BasicBlock, from int)
				walk = func(b *ssa.BasicBlock, from int) {
					if badRet != nil {
						return
					}
					for j := from; j < len(b.Instrs); j++ {
						in := b.Instrs[j]
						if isRestore[in] {
							return
						}
						switch x := in.(type) {
						case *ssa.Panic:
							return
						case *ssa.Call:
							if p.CallNeverReturns(x) {
								return
							}
						case *ssa.Return:
							if b != f.Recover {
								badRet = x
							}
							return
						case *ssa.If:
							if pol, ok := must[condKey(x.Cond, 0)]; ok {
								// the same test as the one guarding the change: only its consistent edge is feasible
								s := b.Succs[1]
								if pol {
									s = b.Succs[0]
								}
								if !seen[s] {
									seen[s] = true
									walk(s, 0)
								}
								return
							}
						}
					}
					for _, s := range b.Succs {
						if !seen[s] {
							seen[s] = true
							walk(s, 0)
						}
					}
				}
				walk(m.Block(), core.InstrIndex(m)+1)
				if badRet == nil {
					res.OK(key, p.Pos(m.Pos()), "every normal path from the change passes a store of the saved value")
				} else {
					res.Bad(key, p.Pos(m.Pos()), fmt.Sprintf("%s.%s is saved, changed here and restored on some paths, but the return at %s is reached without restoring it: whatever is serialised next (a sibling container) inherits the deeper level", ctxT.Obj().Name(), fv.Name(), p.Pos(badRet.Pos())))
				}
			}
		}
	}
	res.Count("save/change/restore instances", n)
	if n == 0 {
		res.Bad("stringify:indent save/restore", "-", "no serialiser method saves and restores a context field any more: the rule's anchor is gone")
	}
}

// ---- 2. trailing input -----------------------------------------------------------------------

func jsonEOF(p *core.Prog, res *core.Result) {
	fn, err := p.GojaMethod("Runtime", "builtinJSON_parse")
	if err != nil {
		res.Fail(err)
		return
	}
	key := "(*Runtime).builtinJSON_parse:returns only after Token() answered io.EOF"
	isEOF := func(v ssa.Value) bool {
		ld, ok := v.(*ssa.UnOp)
		if !ok || ld.Op != token.MUL {
			return false
		}
		g, ok := ld.X.(*ssa.Global)
		return ok && g.Name() == "EOF" && g.Pkg.Pkg.Path() == "io"
	}
	isTokenErr := func(v ssa.Value) bool {
		ex, ok := v.(*ssa.Extract)
		if !ok || ex.Index != 1 {
			return false
		}
		c, ok := ex.Tuple.(*ssa.Call)
		if !ok {
			return false
		}
		sc := c.Call.StaticCallee()
		return sc != nil && sc.Name() == "Token" && sc.Pkg != nil && sc.Pkg.Pkg.Path() == "encoding/json"
	}
	nRet := 0
	bad := ""
	core.AllInstrs(fn, func(in ssa.Instruction) {
		r, ok := in.(*ssa.Return)
		if !ok || in.Block() == fn.Recover {
			return
		}
		nRet++
		ok2 := false
		for _, cp := range core.ControllingConds(in.Block()) {
			bo, isB := cp.Cond.(*ssa.BinOp)
			if !isB {
				continue
			}
			var other ssa.Value
			switch {
			case isEOF(bo.X):
				other = bo.Y
			case isEOF(bo.Y):
				other = bo.X
			default:
				continue
			}
			if !isTokenErr(other) {
				continue
			}
			if (bo.Op == token.EQL && cp.Pol) || (bo.Op == token.NEQ && !cp.Pol) {
				ok2 = true
			}
		}
		if !ok2 {
			bad = p.Pos(r.Pos())
		}
	})
	if nRet > 0 && bad == "" {
		res.OK(key, p.Pos(fn.Pos()), fmt.Sprintf("%d returns, each on the err == io.EOF edge of a Decoder.Token() call", nRet))
	} else {
		res.Bad(key, bad, "JSON.parse can return without having seen io.EOF from the token stream after the top-level value: trailing input such as `[1]]` or `{} x` is accepted instead of raising SyntaxError")
	}
}

// ---- 3. define, not set ----------------------------------------------------------------------

func jsonDefine(p *core.Prog, res *core.Result) {
	for _, name := range []string{"builtinJSON_decodeObject", "builtinJSON_decodeArray", "builtinJSON_decodeToken", "builtinJSON_decodeValue"} {
		fn, err := p.GojaMethod("Runtime", name)
		if err != nil {
			res.Fail(err)
			return
		}
		key := "(*Runtime)." + name + ":members are defined, not assigned"
		var sets []string
		defines := 0
		core.AllInstrs(fn, func(in ssa.Instruction) {
			c, ok := in.(ssa.CallInstruction)
			if !ok {
				return
			}
			var nm string
			if c.Common().IsInvoke() {
				nm = c.Common().Method.Name()
			} else if sc := c.Common().StaticCallee(); sc != nil && p.InModule(sc) {
				nm = sc.Name()
			}
			switch {
			case strings.HasPrefix(nm, "setOwn"), strings.HasPrefix(nm, "setForeign"), nm == "Set", nm == "set", nm == "setStr", nm == "setIdx", nm == "SetSymbol", nm == "put", nm == "putStr":
				sets = append(sets, nm+" at "+p.Pos(c.Pos()))
			case nm == "_putProp", strings.HasPrefix(nm, "createDataProperty"), nm == "newArrayValues", nm == "defineOwnPropertyStr":
				defines++
			}
		})
		if len(sets) > 0 {
			res.Bad(key, p.Pos(fn.Pos()), "a decoded member is stored with a [[Set]] ("+strings.Join(sets, ", ")+"): `JSON.parse('{\"__proto__\": []}')` must create an own property, and no setter found on the prototype chain may run")
		} else if name == "builtinJSON_decodeObject" && defines == 0 {
			res.Bad(key, p.Pos(fn.Pos()), "no defining store of a member found")
		} else {
			res.OK(key, p.Pos(fn.Pos()), fmt.Sprintf("%d defining stores, no [[Set]]", defines))
		}
	}
}

// ---- 4. cycle check --------------------------------------------------------------------------

func jsonCycle(p *core.Prog, res *core.Result) {
	fn, err := p.GojaMethod("_builtinJSON_stringifyContext", "str")
	if err != nil {
		res.Fail(err)
		return
	}
	fStack, err := p.Field(core.GojaPath, "_builtinJSON_stringifyContext", "stack")
	if err != nil {
		res.Fail(err)
		return
	}
	// pushes: ctx.stack = append(ctx.stack, X)
	var pushes []*ssa.Store
	core.AllInstrs(fn, func(in ssa.Instruction) {
		st, ok := in.(*ssa.Store)
		if !ok || core.FieldOf(st.Addr) != fStack {
			return
		}
		if c, ok := st.Val.(*ssa.Call); ok {
			if b, ok := c.Call.Value.(*ssa.Builtin); ok && b.Name() == "append" {
				pushes = append(pushes, st)
			}
		}
	})
	if len(pushes) == 0 {
		res.Bad("(*_builtinJSON_stringifyContext).str:cycle check before push", p.Pos(fn.Pos()), "the serialiser no longer records the objects it is inside of: a cyclic structure recurses until the Go stack overflows (fatal, not recoverable)")
		return
	}
	for i, push := range pushes {
		key := "(*_builtinJSON_stringifyContext).str:cycle check before push"
		if i > 0 {
			key = fmt.Sprintf("%s#%d", key, i+1)
		}
		pushed := pushedValue(push)
		// a SameAs comparison of the pushed value with an element of ctx.stack, inside a loop whose header dominates the push,
		// whose true edge never returns
		found := ""
		core.AllInstrs(fn, func(in ssa.Instruction) {
			c, ok := in.(*ssa.Call)
			if !ok {
				return
			}
			nm := ""
			if c.Call.IsInvoke() {
				nm = c.Call.Method.Name()
			} else if sc := c.Call.StaticCallee(); sc != nil {
				nm = sc.Name()
			}
			if nm != "SameAs" && nm != "StrictEquals" {
				return
			}
			involves := false
			vals := append([]ssa.Value{c.Call.Value}, c.Call.Args...)
			for _, v := range vals {
				if v != nil && core.Unwrap(v) == core.Unwrap(pushed) {
					involves = true
				}
			}
			if !involves {
				return
			}
			h := loopHeader(in.Block())
			if h == nil || !h.Dominates(push.Block()) {
				return
			}
			// true edge -> no return
			for _, r := range core.Referrers(c) {
				ifi, ok := r.(*ssa.If)
				if !ok {
					continue
				}
				t := ifi.Block().Succs[0]
				if p.FirstNoReturn(t) >= 0 {
					found = p.Pos(c.Pos())
				}
			}
		})
		if found == "" {
			res.Bad(key, p.Pos(push.Pos()), "the object is pushed on the serialiser's stack without having been compared with every entry (TypeError on a hit): a cyclic structure recurses until the Go stack overflows (fatal, not recoverable by the host)")
			continue
		}
		// deferred pop right after the push
		deferred := false
		for _, in := range push.Block().Instrs[core.InstrIndex(push)+1:] {
			if d, ok := in.(*ssa.Defer); ok {
				if mc, ok := d.Call.Value.(*ssa.MakeClosure); ok {
					core.AllInstrs(mc.Fn.(*ssa.Function), func(in2 ssa.Instruction) {
						if st, ok := in2.(*ssa.Store); ok && core.FieldOf(st.Addr) == fStack {
							deferred = true
						}
					})
				}
				break
			}
			if c, ok := in.(*ssa.Call); ok {
				if _, isB := c.Call.Value.(*ssa.Builtin); !isB {
					break
				}
			}
		}
		if deferred {
			res.OK(key, p.Pos(push.Pos()), "compared with every entry at "+found+", pop registered in a defer before the recursion")
		} else {
			res.Bad(key+":pop deferred", p.Pos(push.Pos()), "the push is not undone in a defer registered before the recursion: a toJSON / getter that throws and is caught by the caller's replacer leaves the object on the stack, and the next, acyclic use of it is reported as circular")
		}
	}
}

func pushedValue(st *ssa.Store) ssa.Value {
	c := st.Val.(*ssa.Call)
	if len(c.Call.Args) < 2 {
		return nil
	}
	els := sliceElems(c.Call.Args[1])
	if len(els) == 1 {
		return els[0]
	}
	return c.Call.Args[1]
}

// loopHeader returns the header of the innermost natural loop containing b, or nil.
func loopHeader(b *ssa.BasicBlock) *ssa.BasicBlock {
	for h := b; h != nil; h = h.Idom() {
		for _, pr := range h.Preds {
			if h.Dominates(pr) && (pr == b || core.Reaches(b, pr)) {
				return h
			}
		}
	}
	return nil
}

// ---- 5. one serialiser -----------------------------------------------------------------------

func jsonShared(p *core.Prog, res *core.Result) {
	do, err := p.GojaMethod("_builtinJSON_stringifyContext", "do")
	if err != nil {
		res.Fail(err)
		return
	}
	for _, e := range [][2]string{{"Runtime", "builtinJSON_stringify"}, {"Object", "MarshalJSON"}} {
		fn, err := p.GojaMethod(e[0], e[1])
		if err != nil {
			res.Fail(err)
			return
		}
		n := 0
		core.WithAnon(fn, func(g *ssa.Function) { n += len(core.CallsIn(g, do)) })
		key := core.FuncName(fn) + ":enters the shared serialiser"
		if n > 0 {
			res.OK(key, p.Pos(fn.Pos()), "calls (*_builtinJSON_stringifyContext).do")
		} else {
			res.Bad(key, p.Pos(fn.Pos()), "this entry point no longer goes through (*_builtinJSON_stringifyContext).do: Object.MarshalJSON and JSON.stringify can disagree")
		}
	}
}

// ---- 6. escape table -------------------------------------------------------------------------

func jsonEscapes(p *core.Prog, res *core.Result) {
	fn, err := p.GojaMethod("_builtinJSON_stringifyContext", "quote")
	if err != nil {
		res.Fail(err)
		return
	}
	want := map[int64]string{0x08: `\b`, 0x09: `\t`, 0x0A: `\n`, 0x0C: `\f`, 0x0D: `\r`}
	got := map[int64]string{}
	plain := map[int64]bool{} // compared, escape is backslash + the character itself
	lt20, surrogate := false, false
	constStrIn := func(b *ssa.BasicBlock) []string {
		var out []string
		for _, in := range b.Instrs {
			c, ok := in.(*ssa.Call)
			if !ok {
				continue
			}
			for _, a := range c.Call.Args {
				if k, ok := a.(*ssa.Const); ok && k.Value != nil && k.Value.Kind() == constant.String {
					out = append(out, constant.StringVal(k.Value))
				}
			}
		}
		return out
	}
	core.AllInstrs(fn, func(in ssa.Instruction) {
		switch x := in.(type) {
		case *ssa.BinOp:
			k, ok := core.IntConst(x.Y)
			if !ok {
				return
			}
			switch x.Op {
			case token.EQL:
				for _, r := range core.Referrers(x) {
					if ifi, ok := r.(*ssa.If); ok {
						strs := constStrIn(ifi.Block().Succs[0])
						if len(strs) > 0 {
							got[k] = strs[0]
						} else {
							plain[k] = true
						}
					}
				}
			case token.LSS:
				if k == 0x20 {
					lt20 = true
				}
			}
		case *ssa.Call:
			if sc := x.Call.StaticCallee(); sc != nil && sc.Name() == "IsSurrogate" && sc.Pkg != nil && sc.Pkg.Pkg.Path() == "unicode/utf16" {
				surrogate = true
			}
		}
	})
	var ks []int64
	for k := range want {
		ks = append(ks, k)
	}
	sort.Slice(ks, func(i, j int) bool { return ks[i] < ks[j] })
	for _, k := range ks {
		key := fmt.Sprintf("(*_builtinJSON_stringifyContext).quote:escape of U+%04X", k)
		if got[k] == want[k] {
			res.OK(key, p.Pos(fn.Pos()), "written as "+want[k])
		} else {
			res.Bad(key, p.Pos(fn.Pos()), fmt.Sprintf("code unit U+%04X must be written as %s (found %q)", k, want[k], got[k]))
		}
	}
	for _, k := range []int64{0x22, 0x5C} {
		key := fmt.Sprintf("(*_builtinJSON_stringifyContext).quote:escape of U+%04X", k)
		if plain[k] || got[k] != "" {
			res.OK(key, p.Pos(fn.Pos()), "has its own case")
		} else {
			res.Bad(key, p.Pos(fn.Pos()), fmt.Sprintf("%q is no longer escaped: the output is not a JSON string", rune(k)))
		}
	}
	if lt20 {
		res.OK("(*_builtinJSON_stringifyContext).quote:control characters", p.Pos(fn.Pos()), "r < 0x20 tested")
	} else {
		res.Bad("(*_builtinJSON_stringifyContext).quote:control characters", p.Pos(fn.Pos()), "code units below 0x20 without a short escape must be written as \\u00XX")
	}
	if surrogate {
		res.OK("(*_builtinJSON_stringifyContext).quote:lone surrogates", p.Pos(fn.Pos()), "utf16.IsSurrogate tested")
	} else {
		res.Bad("(*_builtinJSON_stringifyContext).quote:lone surrogates", p.Pos(fn.Pos()), "lone surrogates must be written as \\uXXXX (well-formed JSON.stringify)")
	}
}

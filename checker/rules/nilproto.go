package rules

import (
	"fmt"
	"go/token"
	"go/types"

	"gojaverif/core"

	"golang.org/x/tools/go/ssa"
)

// R-NILPROTO (C01): the [[Prototype]] of an object may be null (Object.create(null),
// Object.setPrototypeOf(a, null), __proto__: null). Every dereference of a value loaded from
// baseObject.prototype (x.prototype.self, ...) is control-dependent on a non-nil test of that
// field of the same object, or the Go nil-pointer panic escapes RunString
// (`var a=[1]; Object.setPrototypeOf(a, null); a.shift()`).
var NilProto = &core.Rule{Name: "R-NILPROTO", Run: runNilProto,
	Doc: "every field access through a value loaded from baseObject.prototype is control-dependent on a non-nil test of that field of the same object"}

// nilProtoAudited: dereferences that are safe for a reason the rule cannot see (one symbol each).
var nilProtoAudited = map[string]string{}

// nullableFields: pointer fields that script can make nil.
var nullableFields = []struct{ typ, field, how string }{
	{"baseObject", "prototype", "Object.create(null) / Object.setPrototypeOf(o, null)"},
	{"proxyObject", "target", "Proxy.revocable(...).revoke()"},
	{"proxyObject", "handler", "Proxy.revocable(...).revoke()"},
	{"valueProperty", "getterFunc", "an accessor property defined with get: undefined"},
	{"valueProperty", "setterFunc", "an accessor property defined with set: undefined"},
	{"iteratorRecord", "next", "an iterator whose `next` is not callable ({[Symbol.iterator](){ return {} }})"},
}

func runNilProto(p *core.Prog) *core.Result {
	res := core.NewResult("R-NILPROTO", 20)
	proxyT, err := p.GojaType("proxyObject")
	if err != nil {
		return res.Fail(err)
	}
	for _, nf := range nullableFields {
		fv, err := p.Field(core.GojaPath, nf.typ, nf.field)
		if err != nil {
			return res.Fail(err)
		}
		runNilField(p, res, fv, nf.typ+"."+nf.field, nf.how, nf.typ == "proxyObject", proxyT)
	}
	return res
}

func runNilField(p *core.Prog, res *core.Result, fProto *types.Var, label, how string, skipProxyMethods bool, proxyT *types.Named) {
	isProtoLoad := func(v ssa.Value) (*ssa.FieldAddr, bool) {
		ld, ok := v.(*ssa.UnOp)
		if !ok || ld.Op != token.MUL {
			return nil, false
		}
		fa, ok := ld.X.(*ssa.FieldAddr)
		if !ok || core.FieldOf(fa) != fProto {
			return nil, false
		}
		return fa, true
	}
	n := map[string]int{}
	for _, f := range p.Funcs {
		if skipProxyMethods {
			// inside the proxy's own methods the discipline is checkHandler() first: R-REVOKED
			top := core.EnclosingTop(f)
			if top.Signature.Recv() != nil && core.NamedOf(top.Signature.Recv().Type()) == proxyT {
				continue
			}
		}
		core.AllInstrs(f, func(in ssa.Instruction) {
			var v ssa.Value
			var usePos token.Pos
			switch use := in.(type) {
			case *ssa.FieldAddr:
				v, usePos = core.Origin(use.X), use.Pos()
			case ssa.CallInstruction:
				if use.Common().IsInvoke() {
					return
				}
				if callee := use.Common().StaticCallee(); callee != nil {
					// handing the value to a function that calls that parameter without a nil test
					for ai, a := range use.Common().Args {
						if _, ok := isProtoLoad(core.Origin(a)); ok && ai < len(callee.Params) && callsParamUnguarded(callee, ai) {
							v, usePos = core.Origin(a), use.Pos()
						}
					}
					if v == nil {
						return
					}
				} else {
					// calling a nil func value
					v, usePos = core.Origin(use.Common().Value), use.Pos()
				}
			default:
				return
			}
			fa, ok := isProtoLoad(v)
			if !ok {
				return
			}
			k := core.FuncName(f) + ":deref of " + label
			n[k]++
			key := k
			if n[k] > 1 {
				key = fmt.Sprintf("%s#%d", k, n[k])
			}
			pos := p.Pos(usePos)
			if why, ok := nilProtoAudited[core.FuncName(f)]; ok {
				res.OK(key, pos, "audited: "+why)
				return
			}
			vk := condKey(v, 0)
			same := func(x ssa.Value) bool {
				x = core.Origin(x)
				if x == v {
					return true
				}
				fb, ok := isProtoLoad(x)
				if !ok {
					return false
				}
				// the same field path from the same root (a.prototype written twice)
				return fb.X == fa.X || condKey(x, 0) == vk
			}
			for _, cp := range core.ControllingConds(in.Block()) {
				if x, nonNil, ok := core.IsNilCompare(cp.Cond); ok && cp.Pol == nonNil && same(x) {
					res.OK(key, pos, "under a non-nil test of the same field")
					return
				}
			}
			// the object was just created by the engine with a known non-nil prototype: x allocated here
			if isFreshObject(fa.X) {
				res.OK(key, pos, "object allocated in this function")
				return
			}
			res.Bad(key, pos, label+" can be nil ("+how+"); this dereference is not guarded by a nil test of the same object's field: a Go nil-pointer panic escapes to the host")
		})
	}
}

func isFreshObject(v ssa.Value) bool {
	switch x := core.Origin(v).(type) {
	case *ssa.Alloc:
		return true
	case *ssa.FieldAddr:
		return isFreshObject(x.X)
	}
	return false
}

// callsParamUnguarded: f calls its i-th parameter (a func value) somewhere without a dominating
// non-nil test of it.
func callsParamUnguarded(f *ssa.Function, i int) bool {
	if len(f.Blocks) == 0 {
		return false
	}
	prm := f.Params[i]
	found := false
	core.AllInstrs(f, func(in ssa.Instruction) {
		c, ok := in.(ssa.CallInstruction)
		if !ok || c.Common().IsInvoke() || c.Common().StaticCallee() != nil || core.Origin(c.Common().Value) != prm {
			return
		}
		for _, cp := range core.ControllingConds(in.Block()) {
			if x, nonNil, ok := core.IsNilCompare(cp.Cond); ok && cp.Pol == nonNil && core.Origin(x) == prm {
				return
			}
		}
		found = true
	})
	return found
}

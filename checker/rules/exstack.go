package rules

import (
	"fmt"
	"go/token"

	"gojaverif/core"

	"golang.org/x/tools/go/ssa"
)

// R-EXSTACK (C14 "with a stack whose top frame names the throw site").
//
// vm.exceptionFromValue turns whatever was thrown or panicked into the *Exception the host will
// see. Exceptions that were created without a stack (a SyntaxError out of Runtime.compile for
// eval / new Function, an *Exception a native function built itself) get it there: the function
// ends with `if ex.stack == nil { ex.stack = vm.captureStack(..) }`. A branch that returns its
// *Exception early skips the fill-in and the host receives an error with no position.
//
// Rule: every return of exceptionFromValue that can return a non-nil *Exception is reached only
// through the test of the exception's stack field.
var ExStack = &core.Rule{Name: "R-EXSTACK", Run: runExStack,
	Doc: "every non-nil return of vm.exceptionFromValue passes the `ex.stack == nil` fill-in"}

func runExStack(p *core.Prog) *core.Result {
	res := core.NewResult("R-EXSTACK", 1)
	f, err := p.GojaMethod("vm", "exceptionFromValue")
	if err != nil {
		return res.Fail(err)
	}
	stackF, err := p.Field(core.GojaPath, "Exception", "stack")
	if err != nil {
		return res.Fail(err)
	}
	isStackTest := func(in ssa.Instruction) bool {
		ifi, ok := in.(*ssa.If)
		if !ok {
			return false
		}
		x, _, ok := core.IsNilCompare(ifi.Cond)
		if !ok {
			return false
		}
		ld, ok := x.(*ssa.UnOp)
		return ok && ld.Op == token.MUL && core.FieldOf(ld.X) == stackF
	}
	n := 0
	for _, b := range f.Blocks {
		ret, ok := b.Instrs[len(b.Instrs)-1].(*ssa.Return)
		if !ok || len(ret.Results) != 1 || b == f.Recover {
			continue
		}
		if c, ok := ret.Results[0].(*ssa.Const); ok && c.IsNil() {
			continue
		}
		n++
		key := fmt.Sprintf("(*vm).exceptionFromValue:return#%d passes the stack fill-in", n)
		if allPathsPass(f, b, isStackTest) {
			res.OK(key, p.Pos(ret.Pos()), "reached only through `ex.stack == nil`")
		} else {
			res.Bad(key, p.Pos(ret.Pos()), "an *Exception is returned on a path that skips the `ex.stack == nil` fill-in: an exception created without a stack (a SyntaxError from eval / new Function, an *Exception built by a native function) reaches the host with an empty Stack() and no position in Error()")
		}
	}
	if n == 0 {
		res.Unknown("(*vm).exceptionFromValue:returns", p.Pos(f.Pos()), "no return of a possibly non-nil *Exception found")
	}
	return res
}

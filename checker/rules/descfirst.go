package rules

import (
	"fmt"
	"strings"

	"gojaverif/core"

	"golang.org/x/tools/go/ssa"
)

// R-DESCFIRST (C04).
//
// ObjectDefineProperties (Object.defineProperties, Object.create's second argument) converts
// *all* descriptors first (ToPropertyDescriptor reads get/set/value/... of each descriptor object
// and can throw or run getters) and only then defines the properties: a malformed or throwing
// later descriptor must leave the target untouched, and a descriptor getter must not see the
// target half-modified - with a non-configurable property or a read-only array length among the
// earlier keys the partial update cannot be undone.
//
// Rule: in a function that both converts descriptors (Runtime.toPropertyDescriptor) and defines
// properties ((*Object).defineOwnProperty or an objectImpl.defineOwnProperty* method), no
// conversion is reachable from a definition.
var DescFirst = &core.Rule{Name: "R-DESCFIRST", Run: runDescFirst,
	Doc: "in a function that converts property descriptors and defines properties, no ToPropertyDescriptor is reachable after a definition (all descriptors are read before the first property is defined)"}

func runDescFirst(p *core.Prog) *core.Result {
	res := core.NewResult("R-DESCFIRST", 3)
	toDesc, err := p.GojaMethod("Runtime", "toPropertyDescriptor")
	if err != nil {
		return res.Fail(err)
	}
	isDefine := func(c ssa.CallInstruction) bool {
		cc := c.Common()
		if cc.IsInvoke() {
			return strings.HasPrefix(cc.Method.Name(), "defineOwnProperty")
		}
		if f := cc.StaticCallee(); f != nil && p.InModule(f) {
			return strings.HasPrefix(f.Name(), "defineOwnProperty") || f.Name() == "createDataPropertyOrThrow" || f.Name() == "createDataProperty"
		}
		return false
	}
	for _, f := range p.Funcs {
		if !p.InModule(f) {
			continue
		}
		convs := core.CallsIn(f, toDesc)
		if len(convs) == 0 {
			continue
		}
		var defs []ssa.CallInstruction
		core.AllInstrs(f, func(in ssa.Instruction) {
			if c, ok := in.(ssa.CallInstruction); ok && isDefine(c) {
				defs = append(defs, c)
			}
		})
		if len(defs) == 0 {
			continue
		}
		key := core.FuncName(f) + ":descriptors converted before the first definition"
		var bad ssa.CallInstruction
		var after ssa.CallInstruction
		for _, d := range defs {
			for _, c := range convs {
				db, cb := d.Block(), c.Block()
				reach := false
				if db == cb && core.InstrIndex(d.(ssa.Instruction)) < core.InstrIndex(c.(ssa.Instruction)) {
					reach = true
				}
				if !reach {
					for _, s := range db.Succs {
						if s == cb || core.Reaches(s, cb) {
							reach = true
						}
					}
				}
				if reach && bad == nil {
					bad, after = c, d
				}
			}
		}
		if bad == nil {
			res.OK(key, p.Pos(convs[0].Pos()), fmt.Sprintf("%d conversion(s), %d definition(s), no conversion reachable from a definition", len(convs), len(defs)))
		} else {
			res.Bad(key, p.Pos(bad.Pos()), fmt.Sprintf("this ToPropertyDescriptor can run after the definition at %s: a throwing or malformed later descriptor leaves the earlier properties defined (possibly non-configurable), and a descriptor getter observes the target half-modified", p.Pos(after.Pos())))
		}
	}
	return res
}

package rules

import (
	"fmt"
	"go/token"

	"gojaverif/core"

	"golang.org/x/tools/go/ssa"
)

// R-VALUESESCAPE (C07).
//
// arrayObject.values is the array's live storage: the engine shifts, truncates and re-slices it in
// place. A function that hands the slice itself (or a sub-slice) to someone else - returns it,
// stores it into another structure such as the argument list of a call - creates an alias that
// the next in-place operation on the array silently rewrites: `a.splice.apply(a, a)` passed the
// array's storage as the argument list and splice overwrote its own arguments while moving the
// elements.
//
// Rule: outside the array types' own methods, a slice value loaded from arrayObject.values is not
// returned from a function and not stored into memory other than an arrayObject's values field
// (a copy has to be taken); passing it as a call argument for immediate consumption is not an
// escape.
var ValuesEscape = &core.Rule{Name: "R-VALUESESCAPE", Run: runValuesEscape,
	Doc: "outside the array types, the live arrayObject.values slice (or a sub-slice) is never returned or stored into another structure without a copy"}

func runValuesEscape(p *core.Prog) *core.Result {
	res := core.NewResult("R-VALUESESCAPE", 0)
	af, err := loadArrFields(p)
	if err != nil {
		return res.Fail(err)
	}
	nLoads := 0
	seen := map[string]int{}
	for _, f := range p.Funcs {
		if !p.InModule(f) {
			continue
		}
		top := core.EnclosingTop(f)
		if recv := top.Signature.Recv(); recv != nil {
			rt := core.NamedOf(recv.Type())
			if rt == af.arrT || rt == af.sparseT {
				continue
			}
		}
		name := core.FuncName(f)
		core.AllInstrs(f, func(in ssa.Instruction) {
			ld, ok := in.(*ssa.UnOp)
			if !ok || ld.Op != token.MUL || core.FieldOf(ld.X) != af.values {
				return
			}
			nLoads++
			// aliases: the load, sub-slices, phis
			aliases := map[ssa.Value]bool{ld: true}
			work := []ssa.Value{ld}
			for len(work) > 0 {
				v := work[len(work)-1]
				work = work[:len(work)-1]
				for _, r := range core.Referrers(v) {
					switch x := r.(type) {
					case *ssa.Slice:
						if x.X == v && !aliases[x] {
							aliases[x] = true
							work = append(work, x)
						}
					case *ssa.Phi:
						if !aliases[x] {
							aliases[x] = true
							work = append(work, x)
						}
					}
				}
			}
			for v := range aliases {
				for _, r := range core.Referrers(v) {
					var what string
					switch x := r.(type) {
					case *ssa.Return:
						what = "returned"
					case *ssa.Store:
						if x.Val != v {
							continue
						}
						if core.FieldOf(x.Addr) == af.values {
							continue // back into an array's storage (classified by R-SPARECAP)
						}
						if cell, isLocal := x.Addr.(*ssa.Alloc); isLocal {
							// a local variable / result cell: follow one step (returned?)
							esc := false
							for _, r2 := range core.Referrers(cell) {
								if l2, ok := r2.(*ssa.UnOp); ok {
									for _, r3 := range core.Referrers(l2) {
										if _, isRet := r3.(*ssa.Return); isRet {
											esc = true
										}
									}
								}
							}
							if !esc {
								continue
							}
							what = "returned (through a result variable)"
						} else {
							what = "stored into " + x.Addr.Type().String()
						}
					default:
						continue
					}
					k := fmt.Sprintf("%s:live .values slice %s", name, what)
					seen[k]++
					if seen[k] > 1 {
						continue
					}
					res.Bad(k, p.Pos(r.Pos()), "the array's live storage escapes without a copy: the holder sees every later in-place shift, truncation and re-slice of the array (`a.splice.apply(a, a)` overwrote its own argument list)")
				}
			}
		})
	}
	res.Count("loads of arrayObject.values outside the array types", nLoads)
	return res
}

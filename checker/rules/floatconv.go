package rules

import (
	"fmt"
	"go/constant"
	"go/token"
	"go/types"
	"math"

	"gojaverif/core"

	"golang.org/x/tools/go/ssa"
)

// R-FLOATCONV (C05, C17).
//
// Go leaves the conversion of a float64 to an integer type undefined when the value does not fit
// (on amd64 int64(f) is 0x8000000000000000 for every |f| >= 2^63 and for NaN; on arm64 it
// saturates). ECMAScript's ToInt32 / ToUint32 / ToUint16 ... are defined for every finite double
// (modulo 2^n), ToLength and ToIndex clamp. A bare conversion is therefore right only where the
// operand is known to be in range.
//
// Rule: every conversion float64 -> integer in the engine is controlled by a comparison that
// bounds the operand's magnitude by a constant <= 2^63 (or < 2^64 for unsigned targets) on the
// side(s) it can exceed, is applied to a value that is bounded by construction (a result of
// math.Mod with a constant modulus, math.Floor/Trunc of such, a constant), or is listed in the
// audited table with the reason. Only the 64-bit hazard is decided: a conversion to a narrower
// integer type is checked against the int64 range as well (the engine converts to int64 first and
// truncates), not against the narrow type's own range.
var FloatConv = &core.Rule{Name: "R-FLOATCONV", Run: runFloatConv,
	Doc: "every float64 -> integer conversion has an operand bounded by a controlling comparison with a constant, or bounded by construction"}

var floatConvAudited = map[string]string{
	"ftoa.ftoa": "port of dtoa: the operands are digit quotients and scaled significands bounded by the algorithm's invariants (value-level; C12 does not decide them)",
	"fast.getCachedPowerForBinaryExponentRange": "Grisu cached-power index: the operand is (exponent + const) * log10(2), a few hundred in magnitude for every double",
}

func runFloatConv(p *core.Prog) *core.Result {
	res := core.NewResult("R-FLOATCONV", 10)
	isFloat := func(t types.Type) bool {
		b, ok := t.Underlying().(*types.Basic)
		return ok && (b.Kind() == types.Float64 || b.Kind() == types.Float32)
	}
	isInt := func(t types.Type) bool {
		b, ok := t.Underlying().(*types.Basic)
		return ok && b.Info()&types.IsInteger != 0
	}
	constF := func(v ssa.Value) (float64, bool) {
		for i := 0; i < 3; i++ {
			if cv, ok := v.(*ssa.Convert); ok {
				v = cv.X
				continue
			}
			if cv, ok := v.(*ssa.ChangeType); ok {
				v = cv.X
				continue
			}
			break
		}
		c, ok := v.(*ssa.Const)
		if !ok || c.Value == nil {
			return 0, false
		}
		switch c.Value.Kind() {
		case constant.Int, constant.Float:
			f, _ := constant.Float64Val(c.Value)
			return f, true
		}
		return 0, false
	}
	// strip float conversions/renamings: float64(valueFloat(x)) etc.
	var base func(v ssa.Value) ssa.Value
	base = func(v ssa.Value) ssa.Value {
		for i := 0; i < 6; i++ {
			switch x := v.(type) {
			case *ssa.Convert:
				if isFloat(x.X.Type()) {
					v = x.X
					continue
				}
			case *ssa.ChangeType:
				v = x.X
				continue
			}
			break
		}
		return v
	}
	inf := math.Inf(1)
	// ival: an interval that contains v whenever block blk executes. Sources of bounds: constants,
	// math.Mod with a constant modulus, integer operands, monotone wrappers (Floor/Trunc/Ceil/Round/Abs),
	// addition of a constant, phis, and the comparisons of exactly this value with constants that
	// control blk.
	var ival func(v ssa.Value, blk *ssa.BasicBlock, depth int) (float64, float64)
	ival = func(v ssa.Value, blk *ssa.BasicBlock, depth int) (lo, hi float64) {
		lo, hi = -inf, inf
		if depth > 6 {
			return
		}
		v = base(v)
		if c, ok := constF(v); ok {
			return c, c
		}
		switch x := v.(type) {
		case *ssa.Convert:
			if isInt(x.X.Type()) {
				lo, hi = -(1 << 63), 1<<63
				if b, ok := x.X.Type().Underlying().(*types.Basic); ok && b.Info()&types.IsUnsigned != 0 {
					lo, hi = 0, 1<<64
				}
			}
		case *ssa.Call:
			if f := x.Call.StaticCallee(); f != nil && f.Pkg != nil && f.Pkg.Pkg.Path() == "math" {
				switch f.Name() {
				case "Mod":
					if m, ok := constF(x.Call.Args[1]); ok && m > 0 {
						lo, hi = math.Nextafter(-m, inf), math.Nextafter(m, -inf)
					}
				case "Floor", "Trunc", "Ceil", "Round":
					l, h := ival(x.Call.Args[0], x.Block(), depth+1)
					lo, hi = math.Floor(l), math.Ceil(h)
				case "Abs":
					l, h := ival(x.Call.Args[0], x.Block(), depth+1)
					lo, hi = 0, math.Max(math.Abs(l), math.Abs(h))
				}
			}
		case *ssa.BinOp:
			if x.Op == token.ADD || x.Op == token.SUB {
				if c, ok := constF(x.Y); ok {
					l, h := ival(x.X, x.Block(), depth+1)
					if x.Op == token.SUB {
						c = -c
					}
					lo, hi = l+c, h+c
				}
			}
		case *ssa.Phi:
			lo, hi = inf, -inf
			for i, e := range x.Edges {
				l, h := ival(e, x.Block().Preds[i], depth+1)
				lo, hi = math.Min(lo, l), math.Max(hi, h)
			}
		}
		// comparisons controlling blk
		if blk != nil {
			for _, cp := range core.ControllingConds(blk) {
				bo, ok := cp.Cond.(*ssa.BinOp)
				if !ok {
					continue
				}
				l, r := base(bo.X), base(bo.Y)
				op := bo.Op
				var c float64
				var okc bool
				isAbsOf := func(e ssa.Value) bool {
					call, ok := e.(*ssa.Call)
					if !ok {
						return false
					}
					cf := call.Call.StaticCallee()
					return cf != nil && cf.Pkg != nil && cf.Pkg.Pkg.Path() == "math" && cf.Name() == "Abs" && base(call.Call.Args[0]) == v
				}
				abs := false
				switch {
				case l == v:
					c, okc = constF(bo.Y)
				case r == v:
					c, okc = constF(bo.X)
					op = flipCmp(op)
				case isAbsOf(l):
					c, okc = constF(bo.Y)
					abs = true
				case isAbsOf(r):
					c, okc = constF(bo.X)
					op = flipCmp(op)
					abs = true
				}
				if !okc {
					continue
				}
				if abs {
					if !cp.Pol {
						op = negCmp(op)
					}
					if op == token.LSS || op == token.LEQ {
						hi = math.Min(hi, c)
						lo = math.Max(lo, -c)
					}
					continue
				}
				if !cp.Pol {
					op = negCmp(op)
					if bo.Op == token.EQL || bo.Op == token.NEQ {
						continue
					}
				}
				switch op {
				case token.LSS:
					hi = math.Min(hi, math.Nextafter(c, -inf))
				case token.LEQ:
					hi = math.Min(hi, c)
				case token.GTR:
					lo = math.Max(lo, math.Nextafter(c, inf))
				case token.GEQ:
					lo = math.Max(lo, c)
				case token.EQL:
					if cp.Pol {
						lo, hi = c, c
					}
				}
			}
		}
		return
	}
	n := map[string]int{}
	nConv := 0
	for _, f := range p.Funcs {
		if !p.InModule(f) {
			continue
		}
		name := core.FuncName(f)
		core.AllInstrs(f, func(in ssa.Instruction) {
			cv, ok := in.(*ssa.Convert)
			if !ok || !isFloat(cv.X.Type()) || !isInt(cv.Type()) {
				return
			}
			nConv++
			k := fmt.Sprintf("%s:float to %s conversion has a bounded operand", name, cv.Type().String())
			n[k]++
			key := k
			if n[k] > 1 {
				key = fmt.Sprintf("%s#%d", k, n[k])
			}
			lo, hi := ival(cv.X, cv.Block(), 0)
			limLo, limHi := -float64(1<<63), float64(1<<63)
			if b, ok := cv.Type().Underlying().(*types.Basic); ok && b.Info()&types.IsUnsigned != 0 && b.Kind() == types.Uint64 {
				limLo, limHi = 0, 1<<64
			}
			if lo >= limLo && hi < limHi {
				res.OK(key, p.Pos(cv.Pos()), fmt.Sprintf("operand within [%g, %g]", lo, hi))
				return
			}
			// the round-trip idiom: i := int64(f); if float64(i) == f { use i }
			for _, r := range core.Referrers(cv) {
				back, ok := r.(*ssa.Convert)
				if !ok || !isFloat(back.Type()) {
					continue
				}
				for _, r2 := range core.Referrers(back) {
					if bo, ok := r2.(*ssa.BinOp); ok && (bo.Op == token.EQL || bo.Op == token.NEQ) {
						other := bo.X
						if other == ssa.Value(back) {
							other = bo.Y
						}
						if base(other) == base(cv.X) {
							res.OK(key, p.Pos(cv.Pos()), "round-trip validated: the result is converted back and compared with the operand")
							return
						}
					}
				}
			}
			if why, ok := floatConvAudited[name]; ok {
				res.Inform(key, p.Pos(cv.Pos()), "not decided: "+why)
				return
			}
			res.Bad(key, p.Pos(cv.Pos()), fmt.Sprintf("the operand is only known to lie in [%g, %g]: outside the target's range (and for NaN) the result of the Go conversion is implementation-defined (0x8000000000000000 on amd64 for every |f| >= 2^63), where ECMAScript defines ToInt32/ToUint32/... for every finite double and ToIntegerOrInfinity clamps", lo, hi))
		})
	}
	// Result ranges of the clamping conversions: every return value of the functions below lies in the
	// documented range on every path (the same interval analysis, applied to the returned value in its
	// return block). A "fast path" added in front of the clamp breaks it.
	for _, rr := range []struct {
		name   string
		lo, hi float64
		why    string
	}{
		{"toLength", 0, 9007199254740991, "ToLength clamps to [0, 2^53-1]: every caller indexes, allocates or loops with the result"},
	} {
		fn, err := p.GojaFunc(rr.name)
		if err != nil {
			return res.Fail(err)
		}
		k := 0
		for _, b := range fn.Blocks {
			ret, ok := b.Instrs[len(b.Instrs)-1].(*ssa.Return)
			if !ok || len(ret.Results) != 1 {
				continue
			}
			k++
			key := fmt.Sprintf("%s:return#%d within [%g, %g]", rr.name, k, rr.lo, rr.hi)
			lo, hi := ival(ret.Results[0], b, 0)
			if lo >= rr.lo && hi <= rr.hi {
				res.OK(key, p.Pos(ret.Pos()), fmt.Sprintf("[%g, %g]", lo, hi))
			} else {
				res.Bad(key, p.Pos(ret.Pos()), fmt.Sprintf("this return can yield a value in [%g, %g], outside [%g, %g] (%s)", lo, hi, rr.lo, rr.hi, rr.why))
			}
		}
	}
	res.Count("float -> integer conversions", nConv)
	return res
}

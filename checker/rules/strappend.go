package rules

import (
	"fmt"

	"gojaverif/core"

	"golang.org/x/tools/go/ssa"
)

// R-STRAPPEND (C06 "indistinguishable" / C16 "primitive values are shareable"): string values are
// immutable and shared - by variables, by Program constants, between Runtimes. A unicodeString is a
// []uint16; `append(s, more...)` on a value the function did not allocate writes into the spare
// capacity of that value's backing array when there is some, so two results built from the same
// prefix overwrite each other (seeded twice, C06/g and C16/h: Concat "optimised" to append). Rule: no
// append whose destination derives from a parameter (or the receiver) of type unicodeString.
var StrAppend = &core.Rule{Name: "R-STRAPPEND", Run: runStrAppend,
	Doc: "no append() in package goja has a destination that derives from a unicodeString parameter or receiver (results are built in freshly made slices)"}

func runStrAppend(p *core.Prog) *core.Result {
	res := core.NewResult("R-STRAPPEND", 0)
	uT, err := p.GojaType("unicodeString")
	if err != nil {
		return res.Fail(err)
	}
	var fromParam func(v ssa.Value, depth int) bool
	fromParam = func(v ssa.Value, depth int) bool {
		if depth > 6 {
			return false
		}
		switch x := v.(type) {
		case *ssa.Parameter:
			return core.NamedOf(x.Type()) == uT
		case *ssa.ChangeType:
			return fromParam(x.X, depth+1)
		case *ssa.Slice:
			return fromParam(x.X, depth+1)
		case *ssa.Phi:
			for _, e := range x.Edges {
				if fromParam(e, depth+1) {
					return true
				}
			}
		case *ssa.TypeAssert:
			return core.NamedOf(x.AssertedType) == uT
		case *ssa.Extract:
			return fromParam(x.Tuple, depth+1)
		}
		return false
	}
	nAppend, n := 0, 0
	for _, f := range p.Funcs {
		if f.Pkg == nil || f.Pkg.Pkg.Path() != core.GojaPath {
			continue
		}
		core.AllInstrs(f, func(in ssa.Instruction) {
			c, ok := in.(*ssa.Call)
			if !ok {
				return
			}
			b, ok := c.Call.Value.(*ssa.Builtin)
			if !ok || b.Name() != "append" || len(c.Call.Args) == 0 {
				return
			}
			nAppend++
			if fromParam(c.Call.Args[0], 0) {
				n++
				res.Bad(fmt.Sprintf("%s:append onto a shared string#%d", core.FuncName(f), n), p.Pos(c.Pos()), "append() onto a unicodeString that this function did not allocate: with spare capacity in its backing array the new units overwrite those of another string built from the same value (strings are shared between variables, Program constants and Runtimes)")
			}
		})
	}
	res.Count("append calls inspected", nAppend)
	if n == 0 {
		res.OK("no append onto a unicodeString parameter", "-", fmt.Sprintf("%d append calls, none with a shared string as destination (positive control: mutant strappend-concat)", nAppend))
	}
	return res
}

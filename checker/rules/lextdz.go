package rules

import (
	"regexp"
	"strings"

	"gojaverif/core"

	"golang.org/x/tools/go/ssa"
)

// R-LEXTDZ (C02 "let/const ... temporal dead zone").
//
// The compiler picks the `...Lex` variant of a load instruction for bindings that can still be in
// their temporal dead zone; what makes it a Lex variant is one thing only: an uninitialised slot
// (nil) raises ReferenceError instead of being pushed. The mixed forms delegate to the plain
// forms (`loadStack1Lex(g.idx).exec(vm)`); delegating to the non-Lex twin compiles, passes every
// test that does not read a let binding early through that exact instruction, and turns the
// ReferenceError into `undefined`.
//
// Rule: the exec method of every instruction type named load...Lex / store...Lex reaches the TDZ
// error: it, or a ...Lex instruction or vm helper with Lex in its name that it calls statically,
// throws/panics with the global errAccessBeforeInit.
var LexTDZ = &core.Rule{Name: "R-LEXTDZ", Run: runLexTDZ,
	Doc: "every load...Lex instruction raises errAccessBeforeInit itself or through the ...Lex instruction it delegates to"}

func runLexTDZ(p *core.Prog) *core.Result {
	res := core.NewResult("R-LEXTDZ", 8)
	lexName := regexp.MustCompile(`^(load|store|init)\w*Lex$`)
	execs := map[string]*ssa.Function{}
	for _, f := range p.Funcs {
		if f.Name() != "exec" || f.Signature.Recv() == nil || f.Parent() != nil || !p.InModule(f) {
			continue
		}
		if n := core.NamedOf(f.Signature.Recv().Type()); n != nil {
			execs[n.Obj().Name()] = f
		}
	}
	raises := func(f *ssa.Function) bool {
		found := false
		core.AllInstrs(f, func(in ssa.Instruction) {
			var arg ssa.Value
			switch x := in.(type) {
			case *ssa.Panic:
				arg = x.X
			case *ssa.Call:
				if c := x.Call.StaticCallee(); c != nil && c.Name() == "throw" && len(x.Call.Args) == 2 {
					arg = x.Call.Args[1]
				}
			}
			for i := 0; i < 3 && arg != nil; i++ {
				switch y := arg.(type) {
				case *ssa.MakeInterface:
					arg = y.X
					continue
				case *ssa.UnOp:
					if g, ok := y.X.(*ssa.Global); ok && g.Name() == "errAccessBeforeInit" {
						found = true
					}
				}
				break
			}
		})
		return found
	}
	var reaches func(f *ssa.Function, depth int) bool
	reaches = func(f *ssa.Function, depth int) bool {
		if raises(f) {
			return true
		}
		if depth > 2 {
			return false
		}
		ok := false
		core.AllInstrs(f, func(in ssa.Instruction) {
			c, isCall := in.(ssa.CallInstruction)
			if !isCall {
				return
			}
			callee := c.Common().StaticCallee()
			if callee == nil || !p.InModule(callee) {
				return
			}
			// another ...Lex instruction's exec, or a vm helper that carries Lex in its name (vm.storeStackLex, vm.setLocalLex)
			isLex := strings.Contains(callee.Name(), "Lex")
			if callee.Name() == "exec" && callee.Signature.Recv() != nil {
				if n := core.NamedOf(callee.Signature.Recv().Type()); n != nil && lexName.MatchString(n.Obj().Name()) {
					isLex = true
				}
			}
			if isLex && reaches(callee, depth+1) {
				ok = true
			}
		})
		return ok
	}
	for name, f := range execs {
		if !lexName.MatchString(name) {
			continue
		}
		key := "(" + name + ").exec:reaches the temporal-dead-zone error"
		if reaches(f, 0) {
			res.OK(key, p.Pos(f.Pos()), "raises errAccessBeforeInit (directly or through the ...Lex instruction it delegates to)")
		} else {
			res.Bad(key, p.Pos(f.Pos()), "this instruction is the temporal-dead-zone variant of a load but never raises errAccessBeforeInit: reading a let/const binding before its initialisation through it yields undefined instead of a ReferenceError")
		}
	}
	return res
}

package rules

import (
	"fmt"
	"go/constant"
	"go/token"
	"go/types"
	"sort"

	"gojaverif/core"

	"golang.org/x/tools/go/ssa"
)

// R-GENRESUME: a suspended activation (execCtx: stack segment, try frames, open iterators, pending
// references) is consumed only by resuming it. Delivering next()/throw() to a suspended generator
// without resuming - a "nobody can catch it anyway" shortcut - skips the unwinding that closes the
// iterators the suspended body still has open and runs its finally blocks.
var GenResume = &core.Rule{Name: "R-GENRESUME", Run: runGenResume,
	Doc: "(a) in (*generator).next / nextThrow the call of enterNext() (push context, marker frame, vm.resume(&g.ctx)) dominates every return; (b) who-may-access: the saved-stack fields of execCtx are touched only by (*vm).suspend / (*vm).resume and an audited table of read-only diagnostics"}

// execCtxReaders: functions other than suspend/resume allowed to look into a saved context.
var execCtxReaders = map[string]string{
	"(*vm).captureAsyncStack": "read-only: names the awaiting async function in a stack trace",
}

func runGenResume(p *core.Prog) *core.Result {
	res := core.NewResult("R-GENRESUME", 6)
	enterNext, err := p.GojaMethod("generator", "enterNext")
	if err != nil {
		return res.Fail(err)
	}
	resume, err := p.GojaMethod("vm", "resume")
	if err != nil {
		return res.Fail(err)
	}
	suspend, err := p.GojaMethod("vm", "suspend")
	if err != nil {
		return res.Fail(err)
	}
	if len(core.CallsIn(enterNext, resume)) == 0 {
		res.Bad("(*generator).enterNext:resumes", p.Pos(enterNext.Pos()), "enterNext no longer calls vm.resume")
	} else {
		res.OK("(*generator).enterNext:resumes", p.Pos(enterNext.Pos()), "calls vm.resume(&g.ctx)")
	}
	for _, name := range []string{"next", "nextThrow"} {
		fn, err := p.GojaMethod("generator", name)
		if err != nil {
			return res.Fail(err)
		}
		calls := core.CallsIn(fn, enterNext)
		n := 0
		core.AllInstrs(fn, func(in ssa.Instruction) {
			r, ok := in.(*ssa.Return)
			if !ok || r.Block() == fn.Recover {
				return // fn.Recover: the synthetic block a recovered panic resumes in (not reachable here: nothing recovers)
			}
			n++
			key := fmt.Sprintf("(*generator).%s:return#%d", name, n)
			dom := false
			for _, c := range calls {
				if core.InstrDominates(c.(ssa.Instruction), r) {
					dom = true
				}
			}
			if dom {
				res.OK(key, p.Pos(r.Pos()), "the suspended context was resumed on every path to this return")
			} else {
				res.Bad(key, p.Pos(r.Pos()), "a path returns to the driver without resuming the suspended context: the iterators the suspended body has open are never closed (their return()/finally code does not run) and the saved stacks stay behind in the dead generator")
			}
		})
		if n == 0 {
			return res.Failf("unresolved anchor: no return in (*generator).%s", name)
		}
	}
	// who-may-access the saved stacks
	owners := map[*ssa.Function]bool{suspend: true, resume: true}
	for _, fname := range []string{"stack", "tryStack", "iterStack", "refStack"} {
		fv, err := p.Field(core.GojaPath, "execCtx", fname)
		if err != nil {
			return res.Fail(err)
		}
		byFn := map[string]string{}
		for _, fa := range p.FieldAddrs(fv) {
			fn := core.EnclosingTop(fa.Parent())
			if owners[fn] {
				continue
			}
			byFn[core.FuncName(fn)] = p.Pos(fa.Pos())
		}
		var names []string
		for n := range byFn {
			names = append(names, n)
		}
		sort.Strings(names)
		for _, n := range names {
			key := "execCtx." + fname + ":accessed in " + n
			if why, ok := execCtxReaders[n]; ok {
				res.OK(key, byFn[n], "audited: "+why)
			} else {
				res.Bad(key, byFn[n], "the saved "+fname+" of a suspended activation is inspected outside vm.suspend/vm.resume: decisions about a suspended generator must be made by resuming it (its open iterators and pending finally blocks live in these stacks)")
			}
		}
		res.OK("execCtx."+fname+":owners", "", "accessed in (*vm).suspend / (*vm).resume")
	}
	genCtxPopped(p, res)
	return res
}

// R-MARKERTEST: a try frame with catchPos == tryPanicMarker is either an entry marker pushed by a
// Go-level owner (vm.try, generator.enterNext, ...) or a generator's own frame re-labelled in place
// while its finally block runs on behalf of return() (finallyRet == -2). Code that classifies a
// frame by comparing catchPos with the marker value has to tell the two apart.
var MarkerTest = &core.Rule{Name: "R-MARKERTEST", Run: runMarkerTest,
	Doc: "every function that compares tryFrame.catchPos with tryPanicMarker also compares tryFrame.finallyRet with the in-place tag (-2)"}

func runMarkerTest(p *core.Prog) *core.Result {
	res := core.NewResult("R-MARKERTEST", 1)
	fCatch, err := p.Field(core.GojaPath, "tryFrame", "catchPos")
	if err != nil {
		return res.Fail(err)
	}
	fRet, err := p.Field(core.GojaPath, "tryFrame", "finallyRet")
	if err != nil {
		return res.Fail(err)
	}
	cmpWith := func(fn *ssa.Function, fv interface{}) ssa.Instruction {
		var hit ssa.Instruction
		core.WithAnon(fn, func(f *ssa.Function) {
			core.AllInstrs(f, func(in ssa.Instruction) {
				b, ok := in.(*ssa.BinOp)
				if !ok || hit != nil {
					return
				}
				for _, pair := range [][2]ssa.Value{{b.X, b.Y}, {b.Y, b.X}} {
					c, ok := core.IntConst(pair[1])
					if !ok || c != -2 {
						continue
					}
					if ld, ok := pair[0].(*ssa.UnOp); ok {
						if fa, ok := ld.X.(*ssa.FieldAddr); ok && core.FieldOf(fa) == fv {
							hit = in
						}
					}
				}
			})
		})
		return hit
	}
	n := 0
	for _, fn := range p.Funcs {
		if !p.InModule(fn) || fn.Parent() != nil {
			continue
		}
		c := cmpWith(fn, fCatch)
		if c == nil {
			continue
		}
		n++
		key := core.FuncName(fn) + ":classifies frames by catchPos"
		if r := cmpWith(fn, fRet); r != nil {
			res.OK(key, p.Pos(c.Pos()), "also tests finallyRet == -2 at "+p.Pos(r.Pos()))
		} else {
			res.Bad(key, p.Pos(c.Pos()), "a frame is taken for an entry marker because catchPos == tryPanicMarker, but a generator's own frame carries the same value while its finally block runs for return() (finallyRet == -2): a second return()/unwind stops at that frame, skips the enclosing finally blocks and pops the wrong frame")
		}
	}
	if n == 0 {
		return res.Failf("unresolved anchor: no comparison of tryFrame.catchPos with tryPanicMarker found (handleThrow expected)")
	}
	return res
}

// R-GENSTATE: throw(e) / return(v) delivered to a generator that has not started complete it
// (GeneratorResumeAbrupt step 2: "if state is suspendedStart, set state to completed"). In
// generatorObject.throw and _return every exit reached on the `state == genStateSuspendedStart`
// edge passes a store of genStateCompleted first; otherwise a later next() starts the body.
var GenState = &core.Rule{Name: "R-GENSTATE", Run: runGenState,
	Doc: "must-pass-through in (*generatorObject).throw/_return: from the true edge of every state == genStateSuspendedStart test, each path to a return or panic passes `g.state = genStateCompleted`"}

func runGenState(p *core.Prog) *core.Result {
	res := core.NewResult("R-GENSTATE", 2)
	constVal := func(name string) (int64, error) {
		c, ok := p.Goja.Types.Scope().Lookup(name).(*types.Const)
		if !ok {
			return 0, fmt.Errorf("unresolved anchor: constant %s", name)
		}
		v, _ := constant.Int64Val(c.Val())
		return v, nil
	}
	start, err := constVal("genStateSuspendedStart")
	if err != nil {
		return res.Fail(err)
	}
	completed, err := constVal("genStateCompleted")
	if err != nil {
		return res.Fail(err)
	}
	fState, err := p.Field(core.GojaPath, "generatorObject", "state")
	if err != nil {
		return res.Fail(err)
	}
	for _, name := range []string{"throw", "_return"} {
		fn, err := p.GojaMethod("generatorObject", name)
		if err != nil {
			return res.Fail(err)
		}
		n := 0
		core.AllInstrs(fn, func(in ssa.Instruction) {
			b, ok := in.(*ssa.BinOp)
			if !ok || b.Op != token.EQL {
				return
			}
			ld, ok := b.X.(*ssa.UnOp)
			if !ok {
				return
			}
			fa, ok := ld.X.(*ssa.FieldAddr)
			if !ok || core.FieldOf(fa) != fState {
				return
			}
			if c, ok := core.IntConst(b.Y); !ok || c != start {
				return
			}
			for _, e := range core.CondEdges(b) {
				n++
				key := fmt.Sprintf("(*generatorObject).%s:suspendedStart completes the generator#%d", name, n)
				seen := map[*ssa.BasicBlock]bool{}
				var bad ssa.Instruction
				var walk func(blk *ssa.BasicBlock)
				walk = func(blk *ssa.BasicBlock) {
					if seen[blk] || bad != nil {
						return
					}
					seen[blk] = true
					for _, in2 := range blk.Instrs {
						switch x := in2.(type) {
						case *ssa.Store:
							if sfa, ok := x.Addr.(*ssa.FieldAddr); ok && core.FieldOf(sfa) == fState {
								if c, ok := core.IntConst(x.Val); ok && c == completed {
									return
								}
							}
						case *ssa.Return, *ssa.Panic:
							bad = in2
							return
						}
					}
					for _, s := range blk.Succs {
						walk(s)
					}
				}
				walk(e.True)
				if bad != nil {
					res.Bad(key, p.Pos(bad.Pos()), "an abrupt completion delivered to a generator that has not started leaves it in suspendedStart: the exception/return value is reported, but a later next(), for-of or spread still runs the body from the beginning")
				} else {
					res.OK(key, p.Pos(b.Pos()), "state = genStateCompleted on every path before leaving")
				}
			}
		})
		if n == 0 {
			res.Bad("(*generatorObject)."+name+":suspendedStart handled", p.Pos(fn.Pos()), "no test for genStateSuspendedStart: an abrupt completion of a fresh generator is not turned into 'completed'")
		}
	}
	delegationCleared(p, res)
	// (c) "executing" is a transient state: step() replaces it on every normal path, a Go panic
	// (interrupt, stack overflow - also one raised by enterNext before the body resumed) skips step().
	// Every function that stores genStateExecuting registers, in the same block and before any other
	// call, a deferred function that stores another state, or the generator can never be resumed again
	// ("Illegal generator state" for ever).
	executing, err := constVal("genStateExecuting")
	if err != nil {
		return res.Fail(err)
	}
	nExec := map[string]int{}
	for _, w := range p.FieldWrites(fState) {
		st, ok := w.Instr.(*ssa.Store)
		if !ok || w.Kind != "store" {
			continue
		}
		if v, okc := core.IntConst(st.Val); !okc || v != executing {
			continue
		}
		k := core.FuncName(w.Fn) + ":executing state is left by a deferred function on a Go panic"
		nExec[k]++
		key := k
		if nExec[k] > 1 {
			key = fmt.Sprintf("%s#%d", k, nExec[k])
		}
		// the next instructions of the block: a Defer whose target stores generatorObject.state
		okDefer, why := false, "no defer follows in the block"
		b := st.Block()
		for _, in := range b.Instrs[core.InstrIndex(st)+1:] {
			if d, isDefer := in.(*ssa.Defer); isDefer {
				var fn *ssa.Function
				switch x := d.Call.Value.(type) {
				case *ssa.MakeClosure:
					fn, _ = x.Fn.(*ssa.Function)
				case *ssa.Function:
					fn = x
				}
				if fn == nil {
					fn = d.Call.StaticCallee()
				}
				if fn != nil {
					core.AllInstrs(fn, func(in2 ssa.Instruction) {
						if s2, ok := in2.(*ssa.Store); ok && core.FieldOf(s2.Addr) == fState {
							if v, okc := core.IntConst(s2.Val); okc && v != executing {
								okDefer = true
							}
						}
					})
				}
				if !okDefer {
					why = "the deferred function does not store another state"
				}
				break
			}
			if c, isCall := in.(ssa.CallInstruction); isCall {
				if _, isB := c.Common().Value.(*ssa.Builtin); !isB {
					why = "a call comes before any defer"
					break
				}
			}
		}
		if okDefer {
			res.OK(key, p.Pos(st.Pos()), "followed by a defer that takes the generator out of the executing state")
		} else {
			res.Bad(key, p.Pos(st.Pos()), "the generator is put into the executing state and only step() takes it out again ("+why+"): an interrupt or stack overflow unwinding through the resumption - enterNext's pushCtx can raise one before the body has run at all - leaves it executing for ever, every later next()/return()/throw() fails with \"Illegal generator state\"")
		}
	}
	return res
}

package rules

import (
	"fmt"
	"go/token"

	"gojaverif/core"

	"golang.org/x/tools/go/ssa"
)

// R-BIGALLOC (C01): big.Int.Lsh and big.Int.Exp build a number whose size is given by the *value* of
// an operand. When that operand comes from script (`1n << 2n**63n`, `2n ** 10n**11n`,
// BigInt.asUintN(2**53-1, -1n)) the allocation panics ("makeslice: len out of range" escapes
// RunString and even Compile, the expression being constant-folded) or exhausts memory. Every such
// call with a non-constant size operand is control-dependent on a comparison that involves that
// operand (a bound check answering with a RangeError).
var BigAlloc = &core.Rule{Name: "R-BIGALLOC", Run: runBigAlloc,
	Doc: "every (*big.Int).Lsh / Exp with a non-constant shift count / exponent is control-dependent on a comparison involving that operand"}

func runBigAlloc(p *core.Prog) *core.Result {
	res := core.NewResult("R-BIGALLOC", 4)
	isBig := func(c *ssa.CallCommon, name string) bool {
		sc := c.StaticCallee()
		if sc == nil || sc.Name() != name || sc.Signature.Recv() == nil {
			return false
		}
		n := core.NamedOf(sc.Signature.Recv().Type())
		return n != nil && n.Obj().Pkg() != nil && n.Obj().Pkg().Path() == "math/big" && n.Obj().Name() == "Int"
	}
	// leaves of an expression: the values it is computed from (through arithmetic, conversions, phis
	// and method calls on a receiver)
	var leaves func(v ssa.Value, out map[ssa.Value]bool, depth int)
	leaves = func(v ssa.Value, out map[ssa.Value]bool, depth int) {
		if depth > 8 || out[v] {
			return
		}
		out[v] = true
		switch x := v.(type) {
		case *ssa.BinOp:
			leaves(x.X, out, depth+1)
			leaves(x.Y, out, depth+1)
		case *ssa.UnOp:
			leaves(x.X, out, depth+1)
		case *ssa.Convert:
			leaves(x.X, out, depth+1)
		case *ssa.ChangeType:
			leaves(x.X, out, depth+1)
		case *ssa.Phi:
			for _, e := range x.Edges {
				leaves(e, out, depth+1)
			}
		case *ssa.Call:
			for _, a := range x.Call.Args {
				leaves(a, out, depth+1)
			}
		case *ssa.Extract:
			leaves(x.Tuple, out, depth+1)
		}
	}
	n := 0
	for _, f := range p.Funcs {
		if f.Pkg == nil || f.Pkg.Pkg.Path() != core.GojaPath {
			continue // ftoa shifts by amounts derived from a float64's exponent (bounded by ~1100)
		}
		core.AllInstrs(f, func(in ssa.Instruction) {
			c, ok := in.(*ssa.Call)
			if !ok {
				return
			}
			var size ssa.Value
			what := ""
			switch {
			case isBig(&c.Call, "Lsh") && len(c.Call.Args) == 3:
				size, what = c.Call.Args[2], "shift count"
			case isBig(&c.Call, "Exp") && len(c.Call.Args) == 4:
				size, what = c.Call.Args[2], "exponent"
			default:
				return
			}
			if _, isConst := core.IntConst(size); isConst {
				return
			}
			n++
			key := fmt.Sprintf("%s:big.Int %s bounded#%d", core.FuncName(f), what, n)
			sl := map[ssa.Value]bool{}
			leaves(size, sl, 0)
			guarded := false
			for _, cp := range core.ControllingConds(in.Block()) {
				bo, ok := cp.Cond.(*ssa.BinOp)
				if !ok {
					continue
				}
				switch bo.Op {
				case token.LSS, token.LEQ, token.GTR, token.GEQ:
				default:
					continue
				}
				// one side is computed from the size operand, the other from a constant bound > 1
				// (a sign test `x < 0` is not a bound)
				sideHas := func(v ssa.Value, pred func(ssa.Value) bool) bool {
					m := map[ssa.Value]bool{}
					leaves(v, m, 0)
					for x := range m {
						if pred(x) {
							return true
						}
					}
					return false
				}
				isSize := func(x ssa.Value) bool {
					_, isC := x.(*ssa.Const)
					return !isC && sl[x]
				}
				isBound := func(x ssa.Value) bool {
					k, ok := core.IntConst(x)
					return ok && k > 1
				}
				if (sideHas(bo.X, isSize) && sideHas(bo.Y, isBound)) || (sideHas(bo.Y, isSize) && sideHas(bo.X, isBound)) {
					guarded = true
				}
			}
			if guarded {
				res.OK(key, p.Pos(c.Pos()), "under a comparison involving the "+what)
			} else {
				res.Bad(key, p.Pos(c.Pos()), "the "+what+" of this big.Int operation is not bounded by any dominating comparison: a script-supplied value sizes the allocation (Go panic 'makeslice: len out of range' or memory exhaustion)")
			}
		})
	}
	return res
}

package rules

import (
	"fmt"
	"go/constant"
	"go/token"
	"go/types"
	"strings"

	"gojaverif/core"

	"golang.org/x/tools/go/ssa"
)

// R-JOBQUEUE: ownership and FIFO shape of the promise job queue.
var JobQueue = &core.Rule{Name: "R-JOBQUEUE", Run: runJobQueue,
	Doc: "Runtime.jobQueue is written only by a tail append in enqueuePromiseJob, by the drain loop in leave() (swap with an empty slice, range from the head, call each element exactly once) and reset to nil in leave()/leaveAbrupt(); nobody else reads it; settling a promise only ever enqueues its reactions (never runs or resolves them synchronously)"}

func runJobQueue(p *core.Prog) *core.Result {
	res := core.NewResult("R-JOBQUEUE", 8)
	fQ, err := p.Field(core.GojaPath, "Runtime", "jobQueue")
	if err != nil {
		return res.Fail(err)
	}
	enqueue, err := p.GojaMethod("Runtime", "enqueuePromiseJob")
	if err != nil {
		return res.Fail(err)
	}
	leave, err := p.GojaMethod("Runtime", "leave")
	if err != nil {
		return res.Fail(err)
	}
	leaveAbrupt, err := p.GojaMethod("Runtime", "leaveAbrupt")
	if err != nil {
		return res.Fail(err)
	}
	newReactionJob, err := p.GojaMethod("Runtime", "newPromiseReactionJob")
	if err != nil {
		return res.Fail(err)
	}
	trigger, err := p.GojaMethod("Runtime", "triggerPromiseReactions")
	if err != nil {
		return res.Fail(err)
	}
	addReactions, err := p.GojaMethod("Promise", "addReactions")
	if err != nil {
		return res.Fail(err)
	}
	track, err := p.GojaMethod("Runtime", "trackPromiseRejection")
	if err != nil {
		return res.Fail(err)
	}
	// writers
	for _, w := range p.FieldWrites(fQ) {
		fn := core.EnclosingTop(w.Fn)
		key := "jobQueue:writer(" + core.FuncName(fn) + ")"
		st, isStore := w.Instr.(*ssa.Store)
		switch {
		case fn == enqueue && isStore:
			// r.jobQueue = append(r.jobQueue, job): tail append of the parameter
			ok := false
			if c, isCall := st.Val.(*ssa.Call); isCall {
				if b, isB := c.Call.Value.(*ssa.Builtin); isB && b.Name() == "append" && len(c.Call.Args) == 2 {
					if ld, isLd := c.Call.Args[0].(*ssa.UnOp); isLd && ld.Op == token.MUL && core.FieldOf(ld.X) == fQ {
						ok = true
					}
				}
			}
			if ok {
				res.OK(key, p.Pos(st.Pos()), "tail append")
			} else {
				res.Bad(key, p.Pos(st.Pos()), "enqueuePromiseJob does not append at the tail of the existing queue: jobs no longer run in FIFO order")
			}
		case fn == leave && isStore:
			res.OK(key, p.Pos(st.Pos()), "drain loop swap / reset in leave()")
		case fn == leaveAbrupt && isStore:
			if c, ok := st.Val.(*ssa.Const); ok && c.Value == nil {
				res.OK(key, p.Pos(st.Pos()), "dropped on abrupt exit")
			} else {
				res.Bad(key, p.Pos(st.Pos()), "leaveAbrupt assigns something other than nil to the queue")
			}
		default:
			res.Bad(key, p.Pos(w.Instr.Pos()), "Runtime.jobQueue is written outside enqueuePromiseJob/leave/leaveAbrupt: the exactly-once FIFO discipline is no longer local")
		}
	}
	// readers
	for _, ld := range p.FieldLoads(fQ) {
		fn := core.EnclosingTop(ld.Parent())
		if fn != enqueue && fn != leave {
			res.Bad("jobQueue:reader("+core.FuncName(fn)+")", p.Pos(ld.Pos()), "the job queue is inspected outside enqueue/leave")
		}
	}
	// drain loop: jobs are invoked from a range over the swapped-out slice, each element called once
	{
		key := "(*Runtime).leave:drain-loop"
		calls := 0
		okShape := false
		core.AllInstrs(leave, func(in ssa.Instruction) {
			c, ok := in.(*ssa.Call)
			if !ok || c.Call.IsInvoke() || c.Call.StaticCallee() != nil {
				return
			}
			if _, isB := c.Call.Value.(*ssa.Builtin); isB {
				return
			}
			calls++
			// the callee value is an element loaded from a slice by index (range loop)
			if ld, ok := c.Call.Value.(*ssa.UnOp); ok && ld.Op == token.MUL {
				if _, ok := ld.X.(*ssa.IndexAddr); ok {
					okShape = true
				}
			}
		})
		if calls == 1 && okShape {
			res.OK(key, p.Pos(leave.Pos()), "one dynamic call per ranged element")
		} else {
			res.Bad(key, p.Pos(leave.Pos()), fmt.Sprintf("leave() must call each queued job exactly once from a range over the swapped-out slice (found %d dynamic calls)", calls))
		}
		// the loop re-checks the queue until it is empty
		reLoop := false
		core.AllInstrs(leave, func(in ssa.Instruction) {
			if ifi, ok := in.(*ssa.If); ok {
				if b, ok := ifi.Cond.(*ssa.BinOp); ok && b.Op == token.GTR {
					if c, ok := b.X.(*ssa.Call); ok {
						if bi, ok := c.Call.Value.(*ssa.Builtin); ok && bi.Name() == "len" {
							if l, ok := c.Call.Args[0].(*ssa.UnOp); ok && core.FieldOf(l.X) == fQ {
								// is this test in a cycle?
								for _, s := range ifi.Block().Succs {
									if core.Reaches(s, ifi.Block()) {
										reLoop = true
									}
								}
							}
						}
					}
				}
			}
		})
		if reLoop {
			res.OK("(*Runtime).leave:until-empty", p.Pos(leave.Pos()), "drains jobs enqueued by jobs until the queue is empty")
		} else {
			res.Bad("(*Runtime).leave:until-empty", p.Pos(leave.Pos()), "leave() does not loop until the queue is empty: jobs queued by jobs are left for the next call into the runtime")
		}
	}
	// reactions only via the queue
	allowed := map[*ssa.Function]bool{enqueue: true, newReactionJob: true, track: true}
	for _, f := range []*ssa.Function{trigger, addReactions} {
		key := core.FuncName(f) + ":reactions-only-enqueued"
		bad := ""
		core.AllInstrs(f, func(in ssa.Instruction) {
			c, ok := in.(ssa.CallInstruction)
			if !ok {
				return
			}
			cc := c.Common()
			if _, isB := cc.Value.(*ssa.Builtin); isB {
				return
			}
			if sc := cc.StaticCallee(); sc != nil {
				if !allowed[sc] {
					bad = "calls " + core.FuncName(sc)
				}
				return
			}
			if cc.IsInvoke() && cc.Method.Name() == "Grab" {
				return // async context tracker hook
			}
			bad = "makes a dynamic call (resolves or runs something synchronously)"
		})
		if bad == "" {
			res.OK(key, p.Pos(f.Pos()), "only enqueues reaction jobs (and tells the rejection tracker)")
		} else {
			res.Bad(key, p.Pos(f.Pos()), "settling/subscribing "+bad+": a reaction must only ever run as a queued job, in queue order")
		}
	}
	finallyThroughResolve(p, res)
	drainBuffers(p, res)
	// a job runs from leave() with nothing below it on the call stack: the script it calls must run
	// under a try frame of its own (a closure handed to vm.try), so that a thrown exception becomes a
	// rejection and an interrupt finds the boundary marker it unwinds to (seed C10/g called the
	// await continuation directly)
	cjc, err := p.GojaMethod("Runtime", "callJobCallback")
	if err != nil {
		return res.Fail(err)
	}
	vmTry, err := p.GojaMethod("vm", "try")
	if err != nil {
		return res.Fail(err)
	}
	rtTry, err := p.GojaMethod("Runtime", "try")
	if err != nil {
		return res.Fail(err)
	}
	nJob := 0
	for _, f := range p.Funcs {
		for _, c := range core.CallsIn(f, cjc) {
			nJob++
			key := fmt.Sprintf("%s:job callback runs under vm.try#%d", core.FuncName(core.EnclosingTop(f)), nJob)
			under := false
			if parent := f.Parent(); parent != nil {
				core.AllInstrs(parent, func(in ssa.Instruction) {
					call, ok := in.(ssa.CallInstruction)
					if !ok {
						return
					}
					sc := call.Common().StaticCallee()
					if sc != vmTry && sc != rtTry {
						return
					}
					for _, a := range call.Common().Args {
						if mc, ok := a.(*ssa.MakeClosure); ok && mc.Fn == f {
							under = true
						}
					}
				})
			}
			if under {
				res.OK(key, p.Pos(c.Pos()), "inside a closure passed to vm.try")
			} else {
				res.Bad(key, p.Pos(c.Pos()), "a promise job calls back into script outside a vm.try closure: the handler's exception is not turned into a rejection (it escapes leave() as a Go panic) and an interrupt inside it finds no boundary frame, so the interrupted call never reaches leaveAbrupt()")
			}
		}
	}
	return res
}

// R-LATCH: resolving functions and who may settle a promise.
var Latch = &core.Rule{Name: "R-LATCH", Run: runLatch,
	Doc: "both closures of createResolvingFunctions test the shared alreadyResolved cell first and set it before any other effect; (*Promise).fulfill/reject are called only from those closures, after the latch store"}

func runLatch(p *core.Prog) *core.Result {
	res := core.NewResult("R-LATCH", 6)
	crf, err := p.GojaMethod("Promise", "createResolvingFunctions")
	if err != nil {
		return res.Fail(err)
	}
	fulfill, err := p.GojaMethod("Promise", "fulfill")
	if err != nil {
		return res.Fail(err)
	}
	reject, err := p.GojaMethod("Promise", "reject")
	if err != nil {
		return res.Fail(err)
	}
	// the latch cell: an Alloc of bool in crf captured by both closures
	var closures []*ssa.Function
	var cells []ssa.Value
	core.AllInstrs(crf, func(in ssa.Instruction) {
		if mc, ok := in.(*ssa.MakeClosure); ok {
			fn := mc.Fn.(*ssa.Function)
			closures = append(closures, fn)
			for i, b := range mc.Bindings {
				if al, ok := b.(*ssa.Alloc); ok {
					if bt, ok := al.Type().Underlying().(interface{ Elem() interface{} }); ok {
						_ = bt
					}
					if isBoolPtr(al) {
						cells = append(cells, b)
						_ = i
					}
				}
			}
		}
	})
	if len(closures) != 2 || len(cells) != 2 || cells[0] != cells[1] {
		res.Bad("createResolvingFunctions:shared-latch", p.Pos(crf.Pos()), fmt.Sprintf("expected two closures capturing the same bool cell (found %d closures, %d bool cells)", len(closures), len(cells)))
		return res
	}
	res.OK("createResolvingFunctions:shared-latch", p.Pos(crf.Pos()), "resolve and reject capture the same alreadyResolved cell")
	for i, cl := range closures {
		name := []string{"resolve", "reject"}[i]
		// find the free var for the latch
		var fv *ssa.FreeVar
		core.AllInstrs(crf, func(in ssa.Instruction) {
			if mc, ok := in.(*ssa.MakeClosure); ok && mc.Fn == cl {
				for bi, b := range mc.Bindings {
					if b == cells[0] {
						fv = cl.FreeVars[bi]
					}
				}
			}
		})
		var latchStore ssa.Instruction
		var latchTest *ssa.If
		core.AllInstrs(cl, func(in ssa.Instruction) {
			if st, ok := in.(*ssa.Store); ok && st.Addr == fv && isConstBool(st.Val, true) {
				latchStore = in
			}
			if ifi, ok := in.(*ssa.If); ok {
				if ld, ok := ifi.Cond.(*ssa.UnOp); ok && ld.Op == token.MUL && ld.X == fv {
					latchTest = ifi
				}
			}
		})
		key := "createResolvingFunctions$" + name + ":latch-first"
		switch {
		case latchStore == nil || latchTest == nil:
			res.Bad(key, p.Pos(cl.Pos()), "the "+name+" function does not test and set the alreadyResolved latch")
		default:
			// every call in the closure is dominated by the latch store
			bad := ""
			core.WithAnon(cl, func(g *ssa.Function) {
				core.AllInstrs(g, func(in ssa.Instruction) {
					c, ok := in.(ssa.CallInstruction)
					if !ok {
						return
					}
					if _, isB := c.Common().Value.(*ssa.Builtin); isB {
						return
					}
					if g != cl {
						return // nested closures are created after the store (checked through their MakeClosure)
					}
					if !core.InstrDominates(latchStore, in) {
						bad = p.Pos(in.Pos())
					}
				})
			})
			// the test's true edge returns without effects
			tb := latchTest.Block().Succs[0]
			early := false
			if _, ok := tb.Instrs[len(tb.Instrs)-1].(*ssa.Return); ok {
				early = true
				for _, in := range tb.Instrs {
					if _, isCall := in.(ssa.CallInstruction); isCall {
						early = false
					}
				}
			}
			switch {
			case bad != "":
				res.Bad(key, p.Pos(latchStore.Pos()), "a call at "+bad+" happens before alreadyResolved is set: a re-entrant resolve/reject from that call settles the promise twice")
			case !early:
				res.Bad(key, p.Pos(latchTest.Pos()), "when already resolved the function does not return immediately without effects")
			default:
				res.OK(key, p.Pos(latchStore.Pos()), "tests the latch, returns if set, sets it before any call")
			}
		}
	}
	// who may settle
	for _, f := range p.Funcs {
		for _, callee := range []*ssa.Function{fulfill, reject} {
			for _, c := range core.CallsIn(f, callee) {
				key := core.FuncName(f) + ":settles-via-" + callee.Name()
				if core.EnclosingTop(f) == crf && f != crf {
					res.OK(key, p.Pos(c.Pos()), "inside a resolving function (under the latch)")
				} else {
					res.Bad(key, p.Pos(c.Pos()), "(*Promise)."+callee.Name()+" is called outside the resolving functions: the alreadyResolved latch is bypassed, so a promise can be settled twice (fulfilled, then overwritten as rejected) and the rejection tracker is told about a rejection that the spec never reports")
				}
			}
		}
	}
	// combinator element handlers: the "already called" latch of one input is shared by all handlers
	// created for that input. A handler closure H with a captured bool latch (H stores true into it)
	// that is created by a factory closure P which is called more than once per input must capture
	// the latch from outside P; a latch allocated inside P is private to each handler.
	{
		n := 0
		for _, h := range p.Funcs {
			if !p.InModule(h) || h.Parent() == nil || h.Pkg == nil || h.Pkg.Pkg.Path() != core.GojaPath {
				continue
			}
			if !strings.Contains(p.Pos(h.Pos()), "builtin_promise.go") {
				continue
			}
			for fi, fv := range h.FreeVars {
				pt, ok := fv.Type().Underlying().(*types.Pointer)
				if !ok {
					continue
				}
				if b, ok := pt.Elem().Underlying().(*types.Basic); !ok || b.Kind() != types.Bool {
					continue
				}
				latch := false
				for _, r := range core.Referrers(fv) {
					if st, ok := r.(*ssa.Store); ok && st.Addr == ssa.Value(fv) {
						if c, ok := st.Val.(*ssa.Const); ok && c.Value != nil && c.Value.Kind() == constant.Bool && constant.BoolVal(c.Value) {
							latch = true
						}
					}
				}
				if !latch {
					continue
				}
				par := h.Parent()
				var binding ssa.Value
				core.AllInstrs(par, func(in ssa.Instruction) {
					if mc, ok := in.(*ssa.MakeClosure); ok && mc.Fn == h && fi < len(mc.Bindings) {
						binding = mc.Bindings[fi]
					}
				})
				if binding == nil {
					continue
				}
				n++
				key := fmt.Sprintf("%s:latch %s shared per input", core.FuncName(h), fv.Name())
				al, local := binding.(*ssa.Alloc)
				calls := 0
				if local && par.Parent() != nil {
					core.AllInstrs(par.Parent(), func(in ssa.Instruction) {
						if c, ok := in.(ssa.CallInstruction); ok {
							if mc, ok := core.Origin(c.Common().Value).(*ssa.MakeClosure); ok && mc.Fn == par {
								calls++
							}
						}
					})
				}
				if local && calls >= 2 {
					res.Bad(key, p.Pos(al.Pos()), fmt.Sprintf("the latch is allocated inside the factory %s, which is called %d times for the same input (fulfil and reject handler): the two handlers no longer exclude each other, so a thenable that calls both callbacks is counted twice and the combinator settles early with a truncated result", core.FuncName(par), calls))
				} else {
					res.OK(key, p.Pos(h.Pos()), "one latch cell per input element")
				}
			}
		}
		res.Count("element_latches", n)
	}
	return res
}

func isBoolPtr(al *ssa.Alloc) bool {
	pt, ok := al.Type().Underlying().(interface{ String() string })
	return ok && pt.String() == "*bool"
}

// R-TRACKER: HostPromiseRejectionTracker discipline.
var Tracker = &core.Rule{Name: "R-TRACKER", Run: runTracker,
	Doc: "trackPromiseRejection is called with Reject only from (*Promise).reject under !p.handled and with Handle only from addReactions under !p.handled on the rejected branch; addReactions sets p.handled = true on every path"}

func runTracker(p *core.Prog) *core.Result {
	res := core.NewResult("R-TRACKER", 3)
	track, err := p.GojaMethod("Runtime", "trackPromiseRejection")
	if err != nil {
		return res.Fail(err)
	}
	reject, err := p.GojaMethod("Promise", "reject")
	if err != nil {
		return res.Fail(err)
	}
	addReactions, err := p.GojaMethod("Promise", "addReactions")
	if err != nil {
		return res.Fail(err)
	}
	fHandled, err := p.Field(core.GojaPath, "Promise", "handled")
	if err != nil {
		return res.Fail(err)
	}
	constName := func(v ssa.Value) string {
		if c, ok := v.(*ssa.Const); ok && c.Value != nil {
			return c.Value.String()
		}
		return "?"
	}
	rejOp, hdlOp := "", ""
	if c, ok := p.Goja.Types.Scope().Lookup("PromiseRejectionReject").(interface {
		Val() interface{ String() string }
	}); ok {
		_ = c
	}
	for _, f := range p.Funcs {
		for _, ci := range core.CallsIn(f, track) {
			args := ci.Common().Args
			op := constName(args[2])
			key := core.FuncName(f) + ":tracker(" + op + ")"
			underNotHandled := false
			for _, cp := range core.ControllingConds(ci.Block()) {
				if ld, ok := cp.Cond.(*ssa.UnOp); ok && ld.Op == token.MUL && core.FieldOf(ld.X) == fHandled && !cp.Pol {
					underNotHandled = true
				}
			}
			switch {
			case f == reject:
				rejOp = op
				if underNotHandled {
					res.OK(key, p.Pos(ci.Pos()), "reject: reported only while unhandled")
				} else {
					res.Bad(key, p.Pos(ci.Pos()), "the tracker is told about a rejection of a promise that already has a handler")
				}
			case f == addReactions:
				hdlOp = op
				if underNotHandled {
					res.OK(key, p.Pos(ci.Pos()), "handle: reported only for the first handler of an already rejected promise")
				} else {
					res.Bad(key, p.Pos(ci.Pos()), "'handle' is reported although the promise was already handled (duplicate notification)")
				}
			default:
				res.Bad(key, p.Pos(ci.Pos()), "the rejection tracker is called from somewhere other than (*Promise).reject / addReactions")
			}
		}
	}
	if rejOp != "" && rejOp == hdlOp {
		res.Bad("tracker:distinct-operations", p.Pos(track.Pos()), "reject and handle notifications use the same operation constant")
	}
	// handled = true on every path of addReactions
	okHandled := false
	for _, w := range p.FieldWrites(fHandled) {
		if w.Fn == addReactions && isConstBool(w.Val, true) {
			allRet := true
			for _, b := range addReactions.Blocks {
				if r, ok := b.Instrs[len(b.Instrs)-1].(*ssa.Return); ok && !core.InstrDominates(w.Instr, r) {
					allRet = false
				}
			}
			okHandled = allRet
		}
	}
	if okHandled {
		res.OK("(*Promise).addReactions:handled=true", p.Pos(addReactions.Pos()), "set on every path")
	} else {
		res.Bad("(*Promise).addReactions:handled=true", p.Pos(addReactions.Pos()), "addReactions does not mark the promise handled on every path: a later rejection is reported although a handler exists")
	}
	return res
}

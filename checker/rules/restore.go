package rules

import (
	"fmt"
	"go/token"
	"sort"
	"strings"

	"gojaverif/core"

	"golang.org/x/tools/go/ssa"
)

// R-RESTORE: save / overwrite / restore of one element of a buffer that outlives the call.
// findUnicodeCached temporarily replaces the rune at the start position by the trailing surrogate
// of a split pair; the same []rune is kept in (or came from) the per-regexp match cache, so the
// original rune has to be back on every path that leaves the cache in place.
var Restore = &core.Rule{Name: "R-RESTORE", Run: runRestore,
	Doc: "for every temporary overwrite (saved := s[i]; s[i] = x ... s[i] = saved) in the module: every path from the overwrite to a return - following branches on the same condition consistently - passes the restoring store, or a store that drops the reference to the buffer (field = nil)"}

func runRestore(p *core.Prog) *core.Result {
	res := core.NewResult("R-RESTORE", 1)
	n := 0
	for _, fn := range p.Funcs {
		if !p.InModule(fn) || fn.Blocks == nil {
			continue
		}
		// discover: load L = *IndexAddr(S,i); store *IndexAddr(S,i) = x (x != L) and later store *IndexAddr(S,i) = L
		type elem struct{ s, i ssa.Value }
		elemOf := func(a ssa.Value) (elem, bool) {
			ia, ok := a.(*ssa.IndexAddr)
			if !ok {
				return elem{}, false
			}
			return elem{core.Origin(ia.X), core.Origin(ia.Index)}, true
		}
		var stores []*ssa.Store
		core.AllInstrs(fn, func(in ssa.Instruction) {
			if st, ok := in.(*ssa.Store); ok {
				if _, ok := elemOf(st.Addr); ok {
					stores = append(stores, st)
				}
			}
		})
		// savedLoad: v is (a phi over) a load of element e
		var savedLoad func(v ssa.Value, e elem, d int) *ssa.UnOp
		savedLoad = func(v ssa.Value, e elem, d int) *ssa.UnOp {
			if d > 3 {
				return nil
			}
			switch x := core.Origin(v).(type) {
			case *ssa.UnOp:
				if x.Op == token.MUL {
					if le, ok := elemOf(x.X); ok && le == e {
						return x
					}
				}
			case *ssa.Phi:
				for _, ed := range x.Edges {
					if l := savedLoad(ed, e, d+1); l != nil {
						return l
					}
				}
			}
			return nil
		}
		for _, restore := range stores {
			re, _ := elemOf(restore.Addr)
			ld := savedLoad(restore.Val, re, 0)
			if ld == nil {
				continue
			}
			// the overwrite: another store to the same element, after the load, with a different value
			for _, ow := range stores {
				oe, _ := elemOf(ow.Addr)
				if ow == restore || oe != re || savedLoad(ow.Val, re, 0) != nil || !core.InstrDominates(ld, ow) {
					continue
				}
				n++
				key := fmt.Sprintf("%s:temporary overwrite of %s[%s] restored", core.FuncName(fn), p.SourceName(re.s), p.SourceName(re.i))
				if bad := unrestoredPath(p, fn, ow, func(in ssa.Instruction) bool {
					if st, ok := in.(*ssa.Store); ok {
						if e, ok := elemOf(st.Addr); ok && e == re && savedLoad(st.Val, re, 0) == ld {
							return true // restored
						}
						// the owner drops the buffer: a pointer-typed field set to nil
						if c, ok := st.Val.(*ssa.Const); ok && c.IsNil() {
							if _, ok := st.Addr.(*ssa.FieldAddr); ok {
								return true
							}
						}
					}
					return false
				}); bad != "" {
					res.Bad(key, p.Pos(ow.Pos()), "the element overwritten here is not restored on the path "+bad+": the buffer stays referenced (match cache) with the substituted value, so later matches against the same string see a corrupted rune")
				} else {
					res.OK(key, p.Pos(ow.Pos()), "restored, or the buffer reference dropped, on every consistent path to a return")
				}
			}
		}
	}
	if n == 0 {
		return res.Failf("unresolved anchor: no save/overwrite/restore pattern found (regexp2Wrapper.findUnicodeCached expected)")
	}
	return res
}

// unrestoredPath explores paths from `from` to a return, taking the same edge whenever the same
// condition value is branched on again, and stops at instructions for which done() holds.
// It returns a description of a path that reaches a return undone, or "".
func unrestoredPath(p *core.Prog, fn *ssa.Function, from ssa.Instruction, done func(ssa.Instruction) bool) string {
	type state struct {
		b   *ssa.BasicBlock
		dec string
	}
	seen := map[state]bool{}
	// the decisions already taken to reach `from`
	initial := map[ssa.Value]bool{}
	for _, cp := range core.ControllingConds(from.Block()) {
		initial[cp.Cond] = cp.Pol
	}
	encode := func(m map[ssa.Value]bool) string {
		var parts []string
		for k, v := range m {
			parts = append(parts, fmt.Sprintf("%s=%v", k.Name(), v))
		}
		sort.Strings(parts)
		return strings.Join(parts, ",")
	}
	var found string
	var walk func(b *ssa.BasicBlock, startIdx int, dec map[ssa.Value]bool, trail []string)
	walk = func(b *ssa.BasicBlock, startIdx int, dec map[ssa.Value]bool, trail []string) {
		if found != "" {
			return
		}
		if startIdx == 0 {
			st := state{b, encode(dec)}
			if seen[st] {
				return
			}
			seen[st] = true
		}
		for i := startIdx; i < len(b.Instrs); i++ {
			in := b.Instrs[i]
			if done(in) {
				return
			}
			if c, ok := in.(*ssa.Call); ok && p.CallNeverReturns(c) {
				return
			}
			switch x := in.(type) {
			case *ssa.Panic:
				return
			case *ssa.Return:
				found = strings.Join(append(trail, "return at "+p.Pos(x.Pos())), " -> ")
				return
			case *ssa.If:
				if pol, ok := dec[x.Cond]; ok {
					idx := 1
					if pol {
						idx = 0
					}
					walk(b.Succs[idx], 0, dec, trail)
					return
				}
				for idx, pol := range []bool{true, false} {
					d2 := make(map[ssa.Value]bool, len(dec)+1)
					for k, v := range dec {
						d2[k] = v
					}
					d2[x.Cond] = pol
					walk(b.Succs[idx], 0, d2, append(append([]string{}, trail...), fmt.Sprintf("%s is %v (%s)", p.SourceName(x.Cond), pol, p.Pos(x.Cond.Pos()))))
				}
				return
			}
		}
		for _, s := range b.Succs {
			walk(s, 0, dec, trail)
		}
	}
	walk(from.Block(), core.InstrIndex(from)+1, initial, nil)
	return found
}

package rules

import (
	"fmt"
	"go/token"
	"go/types"

	"gojaverif/core"

	"golang.org/x/tools/go/ssa"
)

// Three rules on the book-keeping that the array fast paths trust (C07, C04).
//
// arrayObject keeps two counters next to its element storage: objCount (occupied slots) and
// propValueCount (slots holding a *valueProperty, i.e. an accessor or a data property with a
// non-default attribute); sparseArrayObject keeps propValueCount. Every fast path is guarded by
// them: `propValueCount == 0` lets ArraySetLength truncate without looking for non-configurable
// elements and lets the Array.prototype methods treat the slots as plain values, and
// `objCount == length` means "no holes". An under-count is therefore a wrong answer (a
// non-configurable element deleted, a hole read as a value), not a lost optimisation.

// ---------------------------------------------------------------------------------------------
// R-ELEMCOUNT
//
// (a) A value that comes out of baseObject._defineOwnProperty may be a *valueProperty. Every
//
//	store of such a value into the element storage of an array object X (X.values[i] = v,
//	X.items[i].value = v, X.items[i] = sparseArrayItem{value: v}, X.add(i, v)) is accompanied, in
//	the same function, by an adjustment of propValueCount *of the same object X* - in particular
//	when X is the object the array has just been converted into.
//
// (b) For the compact storage the same holds for objCount, and when the slot that is written
//
//	was read before (the `existing` value handed to _defineOwnProperty), the increment of
//	objCount is conditional on that slot having been empty.
//
// (c) A storage conversion (an arrayObject built inside a sparseArrayObject method and vice versa)
//
//	carries propValueCount over.
var ElemCount = &core.Rule{Name: "R-ELEMCOUNT", Run: runElemCount,
	Doc: "a property value (possibly a *valueProperty) stored into an array's element storage is counted in propValueCount/objCount of the object that receives it, objCount grows only for a slot that was empty, and storage conversions carry propValueCount over"}

type arrFields struct {
	values, items, itemValue, objCount, propValueCount, length *types.Var
	sparsePVC                                                  *types.Var
	arrT, sparseT                                              *types.Named
	add, define                                                *ssa.Function
}

func loadArrFields(p *core.Prog) (*arrFields, error) {
	af := &arrFields{}
	var err error
	get := func(typ, f string) *types.Var {
		if err != nil {
			return nil
		}
		var v *types.Var
		v, err = p.Field(core.GojaPath, typ, f)
		return v
	}
	af.values = get("arrayObject", "values")
	af.objCount = get("arrayObject", "objCount")
	af.propValueCount = get("arrayObject", "propValueCount")
	af.length = get("arrayObject", "length")
	af.items = get("sparseArrayObject", "items")
	af.sparsePVC = get("sparseArrayObject", "propValueCount")
	af.itemValue = get("sparseArrayItem", "value")
	if err != nil {
		return nil, err
	}
	if af.arrT, err = p.GojaType("arrayObject"); err != nil {
		return nil, err
	}
	if af.sparseT, err = p.GojaType("sparseArrayObject"); err != nil {
		return nil, err
	}
	if af.add, err = p.GojaMethod("sparseArrayObject", "add"); err != nil {
		return nil, err
	}
	if af.define, err = p.GojaMethod("baseObject", "_defineOwnProperty"); err != nil {
		return nil, err
	}
	return af, nil
}

// storageOwner: addr addresses an element of X.values / X.items (possibly a field of the element);
// returns X.
func (af *arrFields) storageOwner(addr ssa.Value) (ssa.Value, string) {
	for i := 0; i < 4; i++ {
		switch x := addr.(type) {
		case *ssa.FieldAddr:
			addr = x.X
			continue
		case *ssa.IndexAddr:
			ld, ok := x.X.(*ssa.UnOp)
			if !ok || ld.Op != token.MUL {
				return nil, ""
			}
			fa, ok := ld.X.(*ssa.FieldAddr)
			if !ok {
				return nil, ""
			}
			switch core.FieldOf(fa) {
			case af.values:
				return fa.X, "compact"
			case af.items:
				return fa.X, "sparse"
			}
			return nil, ""
		}
		break
	}
	return nil, ""
}

// adjusts: f contains a store X.<field> = X.<field> ± 1 for the given object value.
func adjusts(f *ssa.Function, obj ssa.Value, field *types.Var, op token.Token) []*ssa.Store {
	var out []*ssa.Store
	core.AllInstrs(f, func(in ssa.Instruction) {
		st, ok := in.(*ssa.Store)
		if !ok || core.FieldOf(st.Addr) != field {
			return
		}
		fa, ok := st.Addr.(*ssa.FieldAddr)
		if !ok || fa.X != obj {
			return
		}
		bo, ok := st.Val.(*ssa.BinOp)
		if !ok || bo.Op != op {
			return
		}
		out = append(out, st)
	})
	return out
}

func runElemCount(p *core.Prog) *core.Result {
	res := core.NewResult("R-ELEMCOUNT", 8)
	af, err := loadArrFields(p)
	if err != nil {
		return res.Fail(err)
	}
	nDef := 0
	for _, f := range p.Funcs {
		if !p.InModule(f) {
			continue
		}
		name := core.FuncName(f)
		// (c) conversions
		if recv := f.Signature.Recv(); recv != nil && f.Parent() == nil {
			rt := core.NamedOf(recv.Type())
			if rt == af.arrT || rt == af.sparseT {
				core.AllInstrs(f, func(in ssa.Instruction) {
					al, ok := in.(*ssa.Alloc)
					if !ok || !al.Heap {
						return
					}
					nt := core.NamedOf(al.Type())
					if nt == nil || nt == rt || (nt != af.arrT && nt != af.sparseT) {
						return
					}
					key := fmt.Sprintf("%s:conversion to %s carries propValueCount", name, nt.Obj().Name())
					want := af.propValueCount
					from := af.sparsePVC
					if nt == af.sparseT {
						want, from = af.sparsePVC, af.propValueCount
					}
					okc := false
					for _, r := range core.Referrers(al) {
						fa, isFa := r.(*ssa.FieldAddr)
						if !isFa || core.FieldOf(fa) != want {
							continue
						}
						for _, r2 := range core.Referrers(fa) {
							if st, isSt := r2.(*ssa.Store); isSt && st.Addr == fa {
								if ld, isLd := st.Val.(*ssa.UnOp); isLd && ld.Op == token.MUL && core.FieldOf(ld.X) == from {
									if src, isSrc := ld.X.(*ssa.FieldAddr); isSrc && src.X == f.Params[0] {
										okc = true
									}
								}
							}
						}
					}
					if okc {
						res.OK(key, p.Pos(al.Pos()), "copied from the receiver")
					} else {
						res.Bad(key, p.Pos(al.Pos()), "the new storage object starts with propValueCount 0 although the elements it takes over may be property values: truncating its length then skips the search for non-configurable elements")
					}
				})
			}
		}
		// (a),(b) stores of a defined property
		var props []ssa.Value
		var existing []ssa.Value
		core.AllInstrs(f, func(in ssa.Instruction) {
			c, ok := in.(*ssa.Call)
			if !ok || c.Call.StaticCallee() != af.define {
				return
			}
			for _, r := range core.Referrers(c) {
				if ex, ok := r.(*ssa.Extract); ok && ex.Index == 0 {
					props = append(props, ex)
				}
			}
			if len(c.Call.Args) >= 3 {
				existing = append(existing, c.Call.Args[2])
			}
		})
		if len(props) == 0 {
			continue
		}
		isProp := func(v ssa.Value) bool {
			for _, pv := range props {
				if phiIncludes(v, pv) {
					return true
				}
			}
			return false
		}
		type estore struct {
			owner ssa.Value
			kind  string
			pos   token.Pos
			in    ssa.Instruction
		}
		var stores []estore
		core.AllInstrs(f, func(in ssa.Instruction) {
			switch x := in.(type) {
			case *ssa.Store:
				if !isProp(x.Val) {
					return
				}
				if o, k := af.storageOwner(x.Addr); o != nil {
					stores = append(stores, estore{o, k, x.Pos(), x})
					return
				}
				// a field of a temporary sparseArrayItem that is then copied into X.items[i]
				if fa, ok := x.Addr.(*ssa.FieldAddr); ok && core.FieldOf(fa) == af.itemValue {
					if tmp, ok := fa.X.(*ssa.Alloc); ok {
						for _, r := range core.Referrers(tmp) {
							ld, ok := r.(*ssa.UnOp)
							if !ok || ld.Op != token.MUL {
								continue
							}
							for _, r2 := range core.Referrers(ld) {
								if st2, ok := r2.(*ssa.Store); ok && st2.Val == ld {
									if o, k := af.storageOwner(st2.Addr); o != nil {
										stores = append(stores, estore{o, k, st2.Pos(), st2})
									}
								}
							}
						}
					}
				}
			case *ssa.Call:
				if x.Call.StaticCallee() == af.add && len(x.Call.Args) == 3 && isProp(x.Call.Args[2]) {
					stores = append(stores, estore{x.Call.Args[0], "sparse", x.Pos(), x})
				}
			}
		})
		if len(stores) == 0 {
			continue
		}
		nDef++
		seenKey := map[string]int{}
		for _, s := range stores {
			how := "store"
			if _, isCall := s.in.(*ssa.Call); isCall {
				how = "add()"
			}
			own := "the receiver"
			if len(f.Params) > 0 && s.owner != f.Params[0] {
				own = "the object the array was converted into"
			}
			base := fmt.Sprintf("%s:%s of a defined property into the %s storage of %s", name, how, s.kind, own)
			seenKey[base]++
			if n := seenKey[base]; n > 1 {
				base = fmt.Sprintf("%s#%d", base, n)
			}
			pvc := af.propValueCount
			if s.kind == "sparse" {
				pvc = af.sparsePVC
			}
			if len(adjusts(f, s.owner, pvc, token.ADD)) > 0 {
				res.OK(base+":propValueCount", p.Pos(s.pos), "propValueCount of the same object is incremented in this function")
			} else {
				res.Bad(base+":propValueCount", p.Pos(s.pos), "the value may be a *valueProperty (accessor, or non-default attributes) but propValueCount of the object that receives it is not incremented: with propValueCount == 0 a later length truncation deletes a non-configurable element and the Array.prototype fast paths read the property object as a plain value")
			}
			if s.kind != "compact" {
				continue
			}
			incs := adjusts(f, s.owner, af.objCount, token.ADD)
			if len(incs) == 0 {
				res.Bad(base+":objCount", p.Pos(s.pos), "an element is added to the compact storage but objCount of that object is not incremented")
				continue
			}
			// was the slot read before? (the owner is the object whose slot was passed as `existing`)
			var slotRead ssa.Value
			for _, ex := range existing {
				for _, cand := range phiLeaves(ex) {
					if ld, ok := cand.(*ssa.UnOp); ok && ld.Op == token.MUL {
						if o, _ := af.storageOwner(ld.X); o == s.owner {
							slotRead = ex
						}
					}
				}
			}
			if slotRead == nil {
				res.OK(base+":objCount", p.Pos(s.pos), "objCount of the same object is incremented; the slot belongs to a storage this function has not read (fresh after conversion)")
				continue
			}
			for i, inc := range incs {
				k := fmt.Sprintf("%s:objCount#%d only for an empty slot", base, i+1)
				guarded := false
				for _, cp := range core.ControllingConds(inc.Block()) {
					if x, nonNil, ok := core.IsNilCompare(cp.Cond); ok && x == slotRead && cp.Pol != nonNil {
						guarded = true
					}
				}
				if guarded {
					res.OK(k, p.Pos(inc.Pos()), "under `existing == nil`")
				} else {
					res.Bad(k, p.Pos(inc.Pos()), "objCount is incremented although the slot may already hold an element (the function read it and handed it to _defineOwnProperty): redefining an element of an array with holes makes objCount reach length and the hole-unaware fast paths accept the array")
				}
			}
		}
	}
	res.Count("functions storing a defined property into array storage", nDef)
	return res
}

// phiLeaves: the non-phi values a value may stand for.
func phiLeaves(v ssa.Value) []ssa.Value {
	var out []ssa.Value
	seen := map[ssa.Value]bool{}
	var rec func(v ssa.Value)
	rec = func(v ssa.Value) {
		if seen[v] {
			return
		}
		seen[v] = true
		if ph, ok := v.(*ssa.Phi); ok {
			for _, e := range ph.Edges {
				rec(e)
			}
			return
		}
		out = append(out, v)
	}
	rec(v)
	return out
}

// ---------------------------------------------------------------------------------------------
// R-TRUNCAGREE
//
// ArraySetLength on an array with property-valued elements first scans the elements that are about
// to go for a non-configurable one, then cuts. The two ranges are written separately (a loop bound
// and a slice bound / binary search predicate) and must be the same set: an element at exactly the
// new length is removed by the cut, so it must be examined by the scan.
var TruncAgree = &core.Rule{Name: "R-TRUNCAGREE", Run: runTruncAgree,
	Doc: "in _setLengthInt of both array storages the range scanned for non-configurable elements equals the range cut off: the loop's boundary comparison is the exact complement of the cut predicate"}

func negCmp(op token.Token) token.Token {
	switch op {
	case token.GEQ:
		return token.LSS
	case token.GTR:
		return token.LEQ
	case token.LSS:
		return token.GEQ
	case token.LEQ:
		return token.GTR
	}
	return token.ILLEGAL
}

func flipCmp(op token.Token) token.Token {
	switch op {
	case token.GEQ:
		return token.LEQ
	case token.GTR:
		return token.LSS
	case token.LSS:
		return token.GTR
	case token.LEQ:
		return token.GEQ
	}
	return token.ILLEGAL
}

// derivedFrom: v is x, a phi including x, or a conversion of one.
func derivedFrom(v, x ssa.Value) bool {
	for i := 0; i < 4; i++ {
		if phiIncludes(v, x) {
			return true
		}
		switch c := v.(type) {
		case *ssa.Convert:
			v = c.X
			continue
		case *ssa.ChangeType:
			v = c.X
			continue
		}
		break
	}
	return false
}

func runTruncAgree(p *core.Prog) *core.Result {
	res := core.NewResult("R-TRUNCAGREE", 2)
	af, err := loadArrFields(p)
	if err != nil {
		return res.Fail(err)
	}
	idxF, err := p.Field(core.GojaPath, "sparseArrayItem", "idx")
	if err != nil {
		return res.Fail(err)
	}
	// --- sparse
	sp, err := p.GojaMethod("sparseArrayObject", "_setLengthInt")
	if err != nil {
		return res.Fail(err)
	}
	findIdx, err := p.GojaMethod("sparseArrayObject", "findIdx")
	if err != nil {
		return res.Fail(err)
	}
	// the cut predicate: findIdx's search closure returns  items[i].idx OP bound
	cutOp := token.ILLEGAL
	for _, an := range findIdx.AnonFuncs {
		core.AllInstrs(an, func(in ssa.Instruction) {
			ret, ok := in.(*ssa.Return)
			if !ok || len(ret.Results) != 1 {
				return
			}
			bo, ok := ret.Results[0].(*ssa.BinOp)
			if !ok {
				return
			}
			isIdx := func(v ssa.Value) bool {
				if ld, ok := v.(*ssa.UnOp); ok && ld.Op == token.MUL {
					return core.FieldOf(ld.X) == idxF
				}
				return core.FieldOf(v) == idxF
			}
			switch {
			case isIdx(bo.X):
				cutOp = bo.Op
			case isIdx(bo.Y):
				cutOp = flipCmp(bo.Op)
			}
		})
	}
	keyS := "(*sparseArrayObject)._setLengthInt:scan boundary complements the cut predicate"
	if cutOp == token.ILLEGAL || negCmp(cutOp) == token.ILLEGAL {
		res.Unknown(keyS, p.Pos(findIdx.Pos()), "cannot read the search predicate of findIdx")
	} else {
		l := sp.Params[1]
		usesCut := false
		for _, c := range core.CallsIn(sp, findIdx) {
			if len(c.Common().Args) == 2 && derivedFrom(c.Common().Args[1], l) {
				usesCut = true
			}
		}
		var exits []*ssa.If
		var exitOps []token.Token
		core.AllInstrs(sp, func(in ssa.Instruction) {
			ifi, ok := in.(*ssa.If)
			if !ok {
				return
			}
			bo, ok := ifi.Cond.(*ssa.BinOp)
			if !ok {
				return
			}
			isIdx := func(v ssa.Value) bool {
				if ld, ok := v.(*ssa.UnOp); ok && ld.Op == token.MUL {
					return core.FieldOf(ld.X) == idxF
				}
				return core.FieldOf(v) == idxF
			}
			var op token.Token
			switch {
			case isIdx(bo.X) && derivedFrom(bo.Y, l):
				op = bo.Op
			case isIdx(bo.Y) && derivedFrom(bo.X, l):
				op = flipCmp(bo.Op)
			default:
				return
			}
			b := ifi.Block()
			// the true edge leaves the loop
			if core.Reaches(b.Succs[0], b) || !core.Reaches(b.Succs[1], b) {
				return
			}
			exits = append(exits, ifi)
			exitOps = append(exitOps, op)
		})
		switch {
		case !usesCut:
			res.Unknown(keyS, p.Pos(sp.Pos()), "the cut position is not findIdx(l)")
		case len(exits) != 1:
			res.Unknown(keyS, p.Pos(sp.Pos()), fmt.Sprintf("expected one loop exit comparing an item index with the new length, found %d", len(exits)))
		case exitOps[0] == negCmp(cutOp):
			res.OK(keyS, p.Pos(exits[0].Cond.Pos()), fmt.Sprintf("cut: idx %s l, scan stops at idx %s l", cutOp, exitOps[0]))
		default:
			res.Bad(keyS, p.Pos(exits[0].Cond.Pos()), fmt.Sprintf("the cut removes every item with idx %s l but the scan stops at the first item with idx %s l: an item the cut removes is never examined, so a non-configurable element at exactly the new length is deleted", cutOp, exitOps[0]))
		}
	}
	// --- compact
	dn, err := p.GojaMethod("arrayObject", "_setLengthInt")
	if err != nil {
		return res.Fail(err)
	}
	keyD := "(*arrayObject)._setLengthInt:scan boundary complements the cut"
	{
		l := dn.Params[1]
		cuts := 0
		core.AllInstrs(dn, func(in ssa.Instruction) {
			sl, ok := in.(*ssa.Slice)
			if !ok || sl.Low == nil || !derivedFrom(sl.Low, l) {
				return
			}
			if ld, ok := sl.X.(*ssa.UnOp); ok && ld.Op == token.MUL && core.FieldOf(ld.X) == af.values {
				cuts++
			}
		})
		var conts []*ssa.If
		var contOps []token.Token
		core.AllInstrs(dn, func(in ssa.Instruction) {
			ifi, ok := in.(*ssa.If)
			if !ok {
				return
			}
			bo, ok := ifi.Cond.(*ssa.BinOp)
			if !ok {
				return
			}
			_, xPhi := bo.X.(*ssa.Phi)
			_, yPhi := bo.Y.(*ssa.Phi)
			var op token.Token
			switch {
			case xPhi && derivedFrom(bo.Y, l) && !derivedFrom(bo.X, l):
				op = bo.Op
			case yPhi && derivedFrom(bo.X, l) && !derivedFrom(bo.Y, l):
				op = flipCmp(bo.Op)
			default:
				return
			}
			b := ifi.Block()
			// the true edge stays in the loop
			if !core.Reaches(b.Succs[0], b) || core.Reaches(b.Succs[1], b) {
				return
			}
			conts = append(conts, ifi)
			contOps = append(contOps, op)
		})
		switch {
		case cuts == 0:
			res.Unknown(keyD, p.Pos(dn.Pos()), "no cut of the form values[l:]")
		case len(conts) != 1:
			res.Unknown(keyD, p.Pos(dn.Pos()), fmt.Sprintf("expected one loop bounded by the new length, found %d", len(conts)))
		case contOps[0] == token.GEQ:
			res.OK(keyD, p.Pos(conts[0].Cond.Pos()), "cut: values[l:], scan runs while i >= l")
		default:
			res.Bad(keyD, p.Pos(conts[0].Cond.Pos()), fmt.Sprintf("the cut removes values[l:] but the scan runs while i %s l: the element at exactly the new length is removed without being examined", contOps[0]))
		}
	}
	return res
}

// ---------------------------------------------------------------------------------------------
// R-RAWRESIZE
//
// Outside the array object's own methods, the built-ins resize a standard array directly: they
// assign X.values, call setArrayValues(X, ..) or write X.length, for an X that came out of one of
// the checkStdArray* guards or a type assertion. Those guards look at the counters only. A direct
// write of length is legal only while length is writable, and a write that may add elements only
// while the array is extensible as well: the guards do not establish either, so each such site
// must - by a condition that controls it - or X must come from checkNewStdArrayObj, which does.
var RawResize = &core.Rule{Name: "R-RAWRESIZE", Run: runRawResize,
	Doc: "a built-in that resizes a standard array in place (assigns .values, calls setArrayValues, writes .length) does so only under `lengthProp.writable`, and under `extensible` as well when the write may add elements"}

// rawResizeAudited: functions whose array is not a script-visible one.
var rawResizeAudited = map[string]string{
	"(_pushArrayItem).exec": "the array literal under construction: created by the newArray instruction of the same expression, and not reachable from script before the literal is complete",
}

func runRawResize(p *core.Prog) *core.Result {
	res := core.NewResult("R-RAWRESIZE", 5)
	af, err := loadArrFields(p)
	if err != nil {
		return res.Fail(err)
	}
	extF, err := p.Field(core.GojaPath, "baseObject", "extensible")
	if err != nil {
		return res.Fail(err)
	}
	lenPropF, err := p.Field(core.GojaPath, "arrayObject", "lengthProp")
	if err != nil {
		return res.Fail(err)
	}
	writableF, err := p.Field(core.GojaPath, "valueProperty", "writable")
	if err != nil {
		return res.Fail(err)
	}
	setVals, err := p.GojaFunc("setArrayValues")
	if err != nil {
		return res.Fail(err)
	}
	checkNew, err := p.GojaMethod("Runtime", "checkNewStdArrayObj")
	if err != nil {
		return res.Fail(err)
	}
	guardNames := map[string]bool{"checkStdArrayObj": true, "checkStdArrayObjWithProto": true, "checkStdArray": true, "checkStdArrayIter": true, "checkNewStdArrayObj": true}
	arrPtr := types.NewPointer(af.arrT)
	// how X was obtained
	provenance := func(x ssa.Value) string {
		for _, leaf := range phiLeaves(x) {
			switch v := leaf.(type) {
			case *ssa.Call:
				if c := v.Call.StaticCallee(); c != nil {
					if c == checkNew {
						continue
					}
					if guardNames[c.Name()] && p.InModule(c) {
						return "guard"
					}
					return "" // a constructor
				}
				return ""
			case *ssa.Extract:
				if ta, ok := v.Tuple.(*ssa.TypeAssert); ok && types.Identical(ta.AssertedType, arrPtr) {
					return "assert"
				}
				return ""
			case *ssa.TypeAssert:
				if types.Identical(v.AssertedType, arrPtr) {
					return "assert"
				}
				return ""
			case *ssa.Const:
				continue
			default:
				return ""
			}
		}
		return "new" // every leaf is a checkNewStdArrayObj result (or nil)
	}
	// the conditions that hold at block b about object x
	holds := func(b *ssa.BasicBlock, x ssa.Value) (ext, wr bool) {
		for _, cp := range core.ControllingConds(b) {
			ld, ok := cp.Cond.(*ssa.UnOp)
			if !ok || ld.Op != token.MUL || !cp.Pol {
				continue
			}
			fa, ok := ld.X.(*ssa.FieldAddr)
			if !ok {
				continue
			}
			switch core.FieldOf(fa) {
			case extF:
				if in, ok := fa.X.(*ssa.FieldAddr); ok && in.X == x {
					ext = true
				}
			case writableF:
				if in, ok := fa.X.(*ssa.FieldAddr); ok && core.FieldOf(in) == lenPropF && in.X == x {
					wr = true
				}
			}
		}
		return
	}
	shrinks := func(st *ssa.Store, x ssa.Value) bool {
		sl, ok := st.Val.(*ssa.Slice)
		if !ok || sl.High == nil {
			return false
		}
		ld, ok := sl.X.(*ssa.UnOp)
		if !ok || ld.Op != token.MUL || core.FieldOf(ld.X) != af.values {
			return false
		}
		if fa, ok := ld.X.(*ssa.FieldAddr); !ok || fa.X != x {
			return false
		}
		// High is len(..) - c, or a value compared to be below the length: accept `n - 1` shapes only
		bo, ok := sl.High.(*ssa.BinOp)
		if ok && bo.Op == token.SUB {
			if c, ok := core.IntConst(bo.Y); ok && c > 0 {
				return true
			}
		}
		return false
	}
	nSites := 0
	for _, f := range p.Funcs {
		if !p.InModule(f) || f.Parent() != nil && false {
			continue
		}
		if recv := f.Signature.Recv(); recv != nil {
			rt := core.NamedOf(recv.Type())
			if rt == af.arrT || rt == af.sparseT {
				continue
			}
		}
		name := core.FuncName(f)
		seen := map[string]int{}
		report := func(what string, pos token.Pos, b *ssa.BasicBlock, x ssa.Value, needExt bool) {
			prov := provenance(x)
			if prov == "" {
				return
			}
			nSites++
			if why, ok := rawResizeAudited[name]; ok {
				res.Inform(fmt.Sprintf("%s:%s", name, what), p.Pos(pos), "audited: "+why)
				return
			}
			key := fmt.Sprintf("%s:%s", name, what)
			seen[key]++
			if n := seen[key]; n > 1 {
				key = fmt.Sprintf("%s#%d", key, n)
			}
			if prov == "new" {
				res.OK(key, p.Pos(pos), "the array comes from checkNewStdArrayObj (extensible, writable length, no elements)")
				return
			}
			ext, wr := holds(b, x)
			switch {
			case !wr:
				res.Bad(key, p.Pos(pos), "the array's length may be non-writable here (the checkStdArray* guards do not look at it): the fast path changes the element count, and with it the length, of an array whose length is read-only")
			case needExt && !ext:
				res.Bad(key, p.Pos(pos), "the array may be non-extensible here (the checkStdArray* guards do not look at it) and this write may add elements: a non-extensible array gains keys")
			default:
				res.OK(key, p.Pos(pos), "under lengthProp.writable"+map[bool]string{true: " and extensible", false: ""}[needExt])
			}
		}
		core.AllInstrs(f, func(in ssa.Instruction) {
			switch x := in.(type) {
			case *ssa.Store:
				fa, ok := x.Addr.(*ssa.FieldAddr)
				if !ok {
					return
				}
				switch core.FieldOf(fa) {
				case af.length:
					report("write of .length", x.Pos(), x.Block(), fa.X, false)
				case af.values:
					if shrinks(x, fa.X) {
						return // removing the last slots; the length write that goes with it is checked on its own
					}
					// a permutation/refill of the same length? only `X.values = <slice of unknown length>` reaches here
					report("assignment of .values", x.Pos(), x.Block(), fa.X, true)
				}
			case *ssa.Call:
				if x.Call.StaticCallee() == setVals && len(x.Call.Args) >= 1 {
					report("setArrayValues", x.Pos(), x.Block(), x.Call.Args[0], true)
				}
			}
		})
	}
	res.Count("in-place resizes of guarded arrays outside the array methods", nSites)
	return res
}

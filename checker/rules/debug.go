package rules

import (
	"os"
	"sort"
	"strings"

	"gojaverif/core"
)

// DebugScript dumps the scriptFree summary (not attached to any property).
var DebugScript = &core.Rule{Name: "D-SCRIPTFREE", Run: func(p *core.Prog) *core.Result {
	res := core.NewResult("D-SCRIPTFREE", 0)
	n, t := p.ScriptFreeCount()
	res.Note("script-free functions: %d of %d", n, t)
	want := strings.Split(os.Getenv("DEBUG_FUNCS"), ",")
	var lines []string
	for _, f := range p.Funcs {
		name := core.FuncName(f)
		for _, w := range want {
			if w != "" && strings.Contains(name, w) {
				if p.ScriptFree(f) {
					lines = append(lines, name+": FREE")
				} else {
					lines = append(lines, name+": "+p.WhyNotScriptFree(f))
				}
			}
		}
	}
	sort.Strings(lines)
	for _, l := range lines {
		res.Note("%s", l)
	}
	return res
}}

package rules

import (
	"os"
	"sort"
	"strings"

	"gojaverif/core"

	"golang.org/x/tools/go/ssa"
)

// DebugScript dumps the scriptFree summary (not attached to any property).
var DebugScript = &core.Rule{Name: "D-SCRIPTFREE", Run: func(p *core.Prog) *core.Result {
	res := core.NewResult("D-SCRIPTFREE", 0)
	n, t := p.ScriptFreeCount()
	res.Note("script-free functions: %d of %d", n, t)
	want := strings.Split(os.Getenv("DEBUG_FUNCS"), ",")
	var lines []string
	for _, f := range p.Funcs {
		name := core.FuncName(f)
		for _, w := range want {
			if w != "" && strings.Contains(name, w) {
				if p.ScriptFree(f) {
					lines = append(lines, name+": FREE")
				} else {
					lines = append(lines, name+": "+p.WhyNotScriptFree(f))
				}
			}
		}
	}
	sort.Strings(lines)
	for _, l := range lines {
		res.Note("%s", l)
	}
	return res
}}

// DebugCallees prints the resolved callees of every dynamic call in the functions named by DEBUG_FUNCS.
var DebugCallees = &core.Rule{Name: "D-CALLEES", Run: func(p *core.Prog) *core.Result {
	res := core.NewResult("D-CALLEES", 0)
	want := strings.Split(os.Getenv("DEBUG_FUNCS"), ",")
	for _, f := range p.Funcs {
		name := core.FuncName(f)
		for _, w := range want {
			if w == "" || !strings.Contains(name, w) {
				continue
			}
			core.AllInstrs(f, func(in ssa.Instruction) {
				c, ok := in.(ssa.CallInstruction)
				if !ok || c.Common().StaticCallee() != nil {
					return
				}
				var cs []string
				for _, g := range p.Callees(c) {
					cs = append(cs, core.FuncName(g))
				}
				res.Note("%s %s: %s -> %v", name, p.Pos(c.Pos()), c.Common().String(), cs)
			})
		}
	}
	return res
}}

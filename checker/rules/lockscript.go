package rules

import (
	"fmt"
	"go/types"

	"gojaverif/core"

	"golang.org/x/tools/go/ssa"
)

// R-LOCKSCRIPT (C15 "stops the script promptly", C01): no call that may run script while a
// sync.Mutex of the engine is held. The VM is single-threaded and re-entrant: script reached from
// inside the locked region runs a nested vm.run() on the same goroutine, which takes the same
// (non-reentrant) mutex when it notices the pending interrupt - RunString never returns.
// (Observed: run() built the InterruptedError, including captureStack -> getFuncName ->
// [[Get]] "name" of a native frame, under interruptLock; a script getter for `name` on
// Array.prototype.forEach deadlocked the interrupted run.)
//
// R-TRACEPURE (C14, C01): capturing a stack trace runs no script. captureStack is called while an
// exception is being created or thrown, on stack overflow and when the interrupt is raised;
// user code there re-enters the very machinery that is in the middle of unwinding (a throwing
// `name` getter recursed without bound).
var LockScript = &core.Rule{Name: "R-LOCKSCRIPT", Run: runLockScript,
	Doc: "between Lock and Unlock of a sync.Mutex field of an engine type no call may run script (script-free summary); vm.captureStack and everything it calls is script-free"}

func runLockScript(p *core.Prog) *core.Result {
	res := core.NewResult("R-LOCKSCRIPT", 3)
	isMutexCall := func(in ssa.Instruction, name string) (types.Object, bool) {
		c, ok := in.(*ssa.Call)
		if !ok {
			return nil, false
		}
		sc := c.Call.StaticCallee()
		if sc == nil || sc.Name() != name || sc.Pkg == nil || sc.Pkg.Pkg.Path() != "sync" || len(c.Call.Args) == 0 {
			return nil, false
		}
		switch a := c.Call.Args[0].(type) {
		case *ssa.FieldAddr:
			return core.FieldOf(a), true
		case *ssa.Global:
			return a.Object(), true
		}
		return nil, false
	}
	regions := 0
	for _, f := range p.Funcs {
		for _, b := range f.Blocks {
			for i, in := range b.Instrs {
				mu, ok := isMutexCall(in, "Lock")
				if !ok || mu == nil {
					continue
				}
				regions++
				// walk forward from the Lock to the matching Unlock(s)
				type pos struct {
					b *ssa.BasicBlock
					i int
				}
				seen := map[*ssa.BasicBlock]bool{}
				n := 0
				bad := false
				var walk func(b *ssa.BasicBlock, from int)
				walk = func(b *ssa.BasicBlock, from int) {
					for j := from; j < len(b.Instrs); j++ {
						x := b.Instrs[j]
						if m2, ok := isMutexCall(x, "Unlock"); ok && m2 == mu {
							return
						}
						if d, ok := x.(*ssa.Defer); ok {
							// defer mu.Unlock(): the region extends to the end of the function
							if sc := d.Call.StaticCallee(); sc != nil && sc.Name() == "Unlock" {
								continue
							}
						}
						c, ok := x.(ssa.CallInstruction)
						if !ok {
							continue
						}
						if _, isB := c.Common().Value.(*ssa.Builtin); isB {
							continue
						}
						n++
						if why := p.MayRunScript(c); why != "" {
							bad = true
							res.Bad(fmt.Sprintf("%s:%s held:call#%d", core.FuncName(f), mu.Name(), n), p.Pos(c.Pos()), fmt.Sprintf("may run script while %s is held (%s): a nested run on the same goroutine that needs the lock never gets it", mu.Name(), why))
						}
					}
					for _, s := range b.Succs {
						if !seen[s] {
							seen[s] = true
							walk(s, 0)
						}
					}
				}
				walk(b, i+1)
				if !bad {
					res.OK(fmt.Sprintf("%s:%s held", core.FuncName(f), mu.Name()), p.Pos(in.Pos()), fmt.Sprintf("%d calls in the locked region, all script-free", n))
				}
			}
		}
	}
	res.Count("locked regions", regions)
	cs, err := p.GojaMethod("vm", "captureStack")
	if err != nil {
		return res.Fail(err)
	}
	if p.ScriptFree(cs) {
		res.OK("(*vm).captureStack:script-free", p.Pos(cs.Pos()), "no call in captureStack or its callees may run script")
	} else {
		res.Bad("(*vm).captureStack:script-free", p.Pos(cs.Pos()), "capturing a stack trace may run script ("+p.WhyNotScriptFree(cs)+"): it runs while an exception is created or thrown, on stack overflow and when an interrupt is raised")
	}
	return res
}

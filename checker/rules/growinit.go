package rules

import (
	"fmt"
	"go/token"
	"go/types"
	"strings"

	"gojaverif/core"

	"golang.org/x/tools/go/ssa"
)

// R-GROWINIT (C03 "no execution state leaks into later calls"): the VM's stacks of records
// (tryStack, callStack, iterStack, refStack, ...) are popped by re-slicing, which leaves the old
// records in the spare capacity. Growing such a slice *in place* (s = s[:len(s)+1]) therefore
// resurrects a stale record: every field of the element type must be assigned before the record is
// used, or the slot must be overwritten with a whole value. (append(s, T{...}) does that by
// construction; the seeded change C03/g filled a try frame field by field and forgot
// tryFrame.exception - a later try...finally at the same depth re-threw an exception that had been
// cancelled long before.)
var GrowInit = &core.Rule{Name: "R-GROWINIT", Run: runGrowInit,
	Doc: "a slice of structs that is grown in place (s = s[:len(s)+k]) gets every field of the new element assigned (or the whole element overwritten) in the same function"}

func runGrowInit(p *core.Prog) *core.Result {
	res := core.NewResult("R-GROWINIT", 0)
	n := 0
	for _, f := range p.Funcs {
		if !p.InModule(f) {
			continue
		}
		core.AllInstrs(f, func(in ssa.Instruction) {
			sl, ok := in.(*ssa.Slice)
			if !ok || sl.High == nil {
				return
			}
			st, ok := sl.X.Type().Underlying().(*types.Slice)
			if !ok {
				return
			}
			elem, ok := st.Elem().Underlying().(*types.Struct)
			if !ok {
				return
			}
			// High = len(X') + k, k > 0
			bo, ok := sl.High.(*ssa.BinOp)
			if !ok || bo.Op != token.ADD {
				return
			}
			k, ok := core.IntConst(bo.Y)
			if !ok || k <= 0 {
				return
			}
			lc, ok := bo.X.(*ssa.Call)
			if !ok {
				return
			}
			if b, ok := lc.Call.Value.(*ssa.Builtin); !ok || b.Name() != "len" {
				return
			}
			if condKey(lc.Call.Args[0], 0) != condKey(sl.X, 0) {
				return
			}
			n++
			key := fmt.Sprintf("%s:in-place growth of a %s slice initialises the new record#%d", core.FuncName(f), core.TypeShort(st.Elem()), n)
			// fields stored through an element address of a slice with the same field path, or a whole-element store
			stored := map[string]bool{}
			whole := false
			core.AllInstrs(f, func(in2 ssa.Instruction) {
				s2, ok := in2.(*ssa.Store)
				if !ok {
					return
				}
				switch a := s2.Addr.(type) {
				case *ssa.IndexAddr:
					if types.Identical(a.X.Type(), sl.X.Type()) {
						whole = true
					}
				case *ssa.FieldAddr:
					if ia, ok := a.X.(*ssa.IndexAddr); ok && types.Identical(ia.X.Type(), sl.X.Type()) {
						stored[core.FieldOf(a).Name()] = true
					}
				}
			})
			var missing []string
			for i := 0; i < elem.NumFields(); i++ {
				if !stored[elem.Field(i).Name()] {
					missing = append(missing, elem.Field(i).Name())
				}
			}
			if whole || len(missing) == 0 {
				res.OK(key, p.Pos(sl.Pos()), "every field assigned (or the element overwritten)")
			} else {
				res.Bad(key, p.Pos(sl.Pos()), "the slice is grown into its spare capacity and the fields "+strings.Join(missing, ", ")+" of the resurrected record are not assigned: they keep the values of a record popped earlier")
			}
		})
	}
	res.Count("in-place growths of struct slices", n)
	if n == 0 {
		res.OK("no in-place growth of a slice of records", "-", "records are pushed with append(s, T{...}) only (positive control: mutant growinit-pushtryframe)")
	}
	return res
}

package rules

import (
	"fmt"
	"go/types"

	"gojaverif/core"

	"golang.org/x/tools/go/ssa"
)

// D-MAPRANGE (debug): lists every `range` over a Go map in the engine (iteration order is random).
var MapRangeDebug = &core.Rule{Name: "D-MAPRANGE", Run: func(p *core.Prog) *core.Result {
	res := core.NewResult("D-MAPRANGE", 0)
	n := 0
	for _, f := range p.Funcs {
		if !p.InModule(f) {
			continue
		}
		core.AllInstrs(f, func(in ssa.Instruction) {
			r, ok := in.(*ssa.Range)
			if !ok {
				return
			}
			if _, isMap := r.X.Type().Underlying().(*types.Map); !isMap {
				return
			}
			n++
			res.Inform(fmt.Sprintf("%s#%d", core.FuncName(f), n), p.Pos(r.Pos()), r.X.Type().String())
		})
	}
	res.Count("ranges over maps", n)
	return res
}}

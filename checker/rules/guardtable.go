package rules

import (
	"fmt"
	"go/token"
	"sort"
	"strings"

	"gojaverif/core"

	"golang.org/x/tools/go/ssa"
)

// R-GUARDTABLE: the optimised RegExp paths run while the instance is `standard` and its
// prototype is the pristine guardedObject, which de-optimises itself when a *guarded* string
// property is set/defined/deleted. Every property the generic protocol path reads from the
// regexp must therefore be guarded, or overriding it is ignored by the fast path.
var GuardTable = &core.Rule{Name: "R-GUARDTABLE", Run: runGuardTable,
	Doc: "table agreement: the constant property names the generic RegExp protocol code (and the built-in flags getter) reads from the regexp object ⊆ the names passed to guardedObject.guard() for RegExp.prototype (own-instance properties are covered by regexpObject.standard)"}

// names read on both paths / not prototype-level behaviour switches
var guardExempt = map[string]string{
	"lastIndex":   "own data property of every RegExp instance; defining any own property clears regexpObject.standard (checked: R-GUARDTABLE instance obligations)",
	"constructor": "read through speciesConstructor on both the optimised and the generic path before they diverge",
	"source":      "only read by the RegExp constructor/toString when copying a pattern, not by the matching protocol",
}

func runGuardTable(p *core.Prog) *core.Result {
	res := core.NewResult("R-GUARDTABLE", 8)
	guard, err := p.GojaMethod("guardedObject", "guard")
	if err != nil {
		return res.Fail(err)
	}
	checkStd, err := p.GojaMethod("Runtime", "checkStdRegexp")
	if err != nil {
		return res.Fail(err)
	}
	getFlags, err := p.GojaMethod("Runtime", "regexpproto_getFlags")
	if err != nil {
		return res.Fail(err)
	}
	// G: constants passed to guard(...) anywhere
	G := map[string]bool{}
	var guardPos string
	for _, f := range p.Funcs {
		for _, c := range core.CallsIn(f, guard) {
			guardPos = p.Pos(c.Pos())
			args := c.Common().Args
			if len(args) == 2 {
				elems, ok := variadicElems(args[1])
				if !ok {
					return res.Failf("guard() called with a non-literal property list at %s", guardPos)
				}
				for _, e := range elems {
					if s, ok := core.ConstString(e); ok {
						G[s] = true
					} else {
						return res.Failf("guard() called with a non-constant property name at %s", guardPos)
					}
				}
			}
		}
	}
	if len(G) == 0 {
		return res.Failf("no guard(...) call with constant names found")
	}
	// R: constant names read (getStr) from a value tainted as "the regexp object"
	type taintKey struct {
		f *ssa.Function
		v ssa.Value
	}
	R := map[string]string{} // name → where
	seen := map[taintKey]bool{}
	var visit func(f *ssa.Function, v ssa.Value, depth int)
	isTainted := func(x, v ssa.Value) bool {
		x = core.Origin(x)
		v = core.Origin(v)
		if x == v {
			return true
		}
		// X.self / X.ToObject(r) of the tainted value
		if ld, ok := x.(*ssa.UnOp); ok && ld.Op == token.MUL {
			if fa, ok := ld.X.(*ssa.FieldAddr); ok && core.FieldOf(fa) != nil && core.FieldOf(fa).Name() == "self" {
				return core.Origin(fa.X) == v
			}
		}
		return false
	}
	visit = func(f *ssa.Function, v ssa.Value, depth int) {
		if depth > 4 || seen[taintKey{f, v}] {
			return
		}
		seen[taintKey{f, v}] = true
		core.WithAnon(f, func(g *ssa.Function) {
			core.AllInstrs(g, func(in ssa.Instruction) {
				c, ok := in.(ssa.CallInstruction)
				if !ok {
					return
				}
				cc := c.Common()
				// getStr(const) on the tainted object (objectImpl.getStr invoke or (*Object).getStr static)
				name := ""
				if cc.IsInvoke() && cc.Method.Name() == "getStr" && len(cc.Args) >= 1 && isTainted(cc.Value, v) {
					name, _ = core.ConstString(cc.Args[0])
				}
				if sc := cc.StaticCallee(); sc != nil && sc.Name() == "getStr" && len(cc.Args) >= 2 && isTainted(cc.Args[0], v) {
					name, _ = core.ConstString(cc.Args[1])
				}
				if name != "" {
					if _, ok := R[name]; !ok {
						R[name] = core.FuncName(g) + " " + p.Pos(c.Pos())
					}
				}
				// propagate into static callees receiving the tainted value
				if sc := cc.StaticCallee(); sc != nil && sc.Blocks != nil && p.InModule(sc) {
					for ai, a := range cc.Args {
						if isTainted(a, v) && ai < len(sc.Params) {
							visit(sc, sc.Params[ai], depth+1)
						}
					}
				}
			})
		})
	}
	nSites := 0
	for _, f := range p.Funcs {
		for _, c := range core.CallsIn(f, checkStd) {
			nSites++
			args := c.Common().Args
			if len(args) == 2 {
				visit(core.EnclosingTop(f), core.Origin(args[1]), 0)
			}
		}
	}
	// the built-in flags getter is what the generic path runs when `flags` itself is untouched
	if len(getFlags.Params) == 2 {
		// thisObj := r.toObject(call.This): taint every *Object value produced by toObject in it
		core.AllInstrs(getFlags, func(in ssa.Instruction) {
			c, ok := in.(ssa.CallInstruction)
			if !ok {
				return
			}
			cc := c.Common()
			if cc.IsInvoke() && cc.Method.Name() == "getStr" && len(cc.Args) >= 1 {
				if name, ok := core.ConstString(cc.Args[0]); ok {
					if _, dup := R[name]; !dup {
						R[name] = "(*Runtime).regexpproto_getFlags " + p.Pos(c.Pos())
					}
				}
			}
		})
	}
	var names []string
	for n := range R {
		names = append(names, n)
	}
	sort.Strings(names)
	for _, n := range names {
		key := "read:" + n
		switch {
		case G[n]:
			res.OK(key, R[n], "guarded on RegExp.prototype")
		case guardExempt[n] != "":
			res.OK(key, R[n], "exempt: "+guardExempt[n])
		default:
			res.Bad(key, R[n], fmt.Sprintf("the generic RegExp protocol path reads property %q from the regexp object, but %q is not in the guard list %v (%s): after user code redefines RegExp.prototype.%s the optimised path still runs and ignores it, so results differ between the fast path and the protocol path", n, n, sortedKeys(G), guardPos, n))
		}
	}
	res.Count("checkStdRegexp_sites", nSites)
	res.Count("guarded_names", len(G))
	res.Count("names_read_by_generic_path", len(R))

	// instance level: every mutating own-property method of regexpObject clears `standard`
	fStandard, err := p.Field(core.GojaPath, "regexpObject", "standard")
	if err != nil {
		return res.Fail(err)
	}
	for _, m := range []string{"setProto", "defineOwnPropertyStr", "defineOwnPropertySym", "deleteStr", "setOwnStr", "setOwnSym"} {
		fn, err := p.GojaMethod("regexpObject", m)
		key := "regexpObject." + m + ":clears-standard"
		if err != nil || core.NamedOf(fn.Signature.Recv().Type()) == nil || core.NamedOf(fn.Signature.Recv().Type()).Obj().Name() != "regexpObject" {
			res.Bad(key, "-", "regexpObject does not override "+m+": redefining a property on the instance would not de-optimise it")
			continue
		}
		clears := false
		for _, s := range fieldStores(fn) {
			if s.field == fStandard && isConstBool(s.val, false) {
				clears = true
			}
		}
		if clears {
			res.OK(key, p.Pos(fn.Pos()), "stores standard = false")
		} else {
			res.Bad(key, p.Pos(fn.Pos()), m+" on a RegExp instance never clears `standard`")
		}
	}
	// prototype level: guardedObject overrides the three string mutators and each consults check()
	check, err := p.GojaMethod("guardedObject", "check")
	if err != nil {
		return res.Fail(err)
	}
	for _, m := range []string{"setOwnStr", "defineOwnPropertyStr", "deleteStr"} {
		fn, err := p.GojaMethod("guardedObject", m)
		key := "guardedObject." + m + ":checks"
		if err != nil || !strings.Contains(core.FuncName(fn), "guardedObject") {
			res.Bad(key, "-", "guardedObject does not override "+m)
			continue
		}
		if len(core.CallsIn(fn, check)) > 0 {
			res.OK(key, p.Pos(fn.Pos()), "calls check(name) after a successful mutation")
		} else {
			res.Bad(key, p.Pos(fn.Pos()), m+" on the guarded prototype does not call check(): redefining a guarded property would not de-optimise")
		}
	}
	return res
}

func sortedKeys(m map[string]bool) []string {
	var out []string
	for k := range m {
		out = append(out, k)
	}
	sort.Strings(out)
	return out
}

package rules

import (
	"fmt"
	"go/token"
	"go/types"
	"sort"
	"strings"

	"gojaverif/core"

	"golang.org/x/tools/go/ssa"
)

// R-CTXFIELDS: writer/reader agreement for the VM's register file and auxiliary stacks.
// Everything is derived from the struct declarations, so a register or stack that is added
// without extending both sides is reported by name.
var CtxFields = &core.Rule{Name: "R-CTXFIELDS", Run: runCtxFields,
	Doc: "field-set agreement: context <-> saveCtx/restoreCtx/handleThrow; vm auxiliary stacks <-> pushTryFrame snapshot / handleThrow+restoreStacks truncation; execCtx <-> suspend/resume; tryFrame offsets made relative by suspend are made absolute by resume"}

type fstore struct {
	base  *types.Named // struct type owning the field
	field *types.Var
	val   ssa.Value
	in    *ssa.Store
}

func structFields(n *types.Named) []*types.Var {
	st, ok := n.Underlying().(*types.Struct)
	if !ok {
		return nil
	}
	var out []*types.Var
	for i := 0; i < st.NumFields(); i++ {
		out = append(out, st.Field(i))
	}
	return out
}

func fieldStores(f *ssa.Function) []fstore {
	var out []fstore
	core.AllInstrs(f, func(in ssa.Instruction) {
		st, ok := in.(*ssa.Store)
		if !ok {
			return
		}
		fa, ok := st.Addr.(*ssa.FieldAddr)
		if !ok {
			return
		}
		fv := core.FieldOf(fa)
		out = append(out, fstore{base: core.NamedOf(fa.X.Type()), field: fv, val: st.Val, in: st})
	})
	return out
}

// loadedField: v is a load of base.field; returns the named base type and field.
func loadedField(v ssa.Value) (*types.Named, *types.Var) {
	ld, ok := v.(*ssa.UnOp)
	if !ok || ld.Op != token.MUL {
		return nil, nil
	}
	fa, ok := ld.X.(*ssa.FieldAddr)
	if !ok {
		return nil, nil
	}
	return core.NamedOf(fa.X.Type()), core.FieldOf(fa)
}

func names(vs map[string]bool) string {
	var s []string
	for k := range vs {
		s = append(s, k)
	}
	sort.Strings(s)
	return "{" + strings.Join(s, ",") + "}"
}

func runCtxFields(p *core.Prog) *core.Result {
	res := core.NewResult("R-CTXFIELDS", 30)
	get := func(typ string) *types.Named {
		n, err := p.GojaType(typ)
		if err != nil && res.Err == nil {
			res.Err = err
		}
		return n
	}
	meth := func(typ, name string) *ssa.Function {
		f, err := p.GojaMethod(typ, name)
		if err != nil && res.Err == nil {
			res.Err = err
		}
		return f
	}
	vmT, ctxT, tfT, ectxT := get("vm"), get("context"), get("tryFrame"), get("execCtx")
	saveCtx, restoreCtx, handleThrow := meth("vm", "saveCtx"), meth("vm", "restoreCtx"), meth("vm", "handleThrow")
	pushTF, restoreStacks, suspend, resume := meth("vm", "pushTryFrame"), meth("vm", "restoreStacks"), meth("vm", "suspend"), meth("vm", "resume")
	if res.Err != nil {
		return res
	}
	vmFields := map[string]*types.Var{}
	for _, f := range structFields(vmT) {
		vmFields[f.Name()] = f
	}

	// (1) context <-> saveCtx / restoreCtx
	saved := map[string]bool{}
	for _, s := range fieldStores(saveCtx) {
		if s.base == ctxT {
			if b, f := loadedField(s.val); b == vmT && f != nil && f.Name() == s.field.Name() {
				saved[s.field.Name()] = true
			}
		}
	}
	restored := map[string]bool{}
	for _, s := range fieldStores(restoreCtx) {
		if s.base == vmT {
			if b, f := loadedField(s.val); b == ctxT && f != nil && f.Name() == s.field.Name() {
				restored[s.field.Name()] = true
			}
		}
	}
	// handleThrow restores registers from the call-stack entry and from the try frame
	thrown := map[string]bool{}
	for _, s := range fieldStores(handleThrow) {
		if s.base == vmT {
			if b, f := loadedField(s.val); f != nil && (b == ctxT || b == tfT) && f.Name() == s.field.Name() {
				thrown[s.field.Name()] = true
			}
			// vm.sp = int(tf.sp)
			if c, ok := s.val.(*ssa.Convert); ok {
				if b, f := loadedField(c.X); f != nil && b == tfT && f.Name() == s.field.Name() {
					thrown[s.field.Name()] = true
				}
			}
		}
	}
	for _, f := range structFields(ctxT) {
		n := f.Name()
		if _, ok := vmFields[n]; !ok {
			res.Bad("context."+n+":vm-register", p.Pos(f.Pos()), "context field has no vm register of the same name")
			continue
		}
		if saved[n] {
			res.OK("context."+n+":saveCtx", p.Pos(f.Pos()), "saved from vm."+n)
		} else {
			res.Bad("context."+n+":saveCtx", p.Pos(saveCtx.Pos()), "register vm."+n+" is part of a call-stack context but saveCtx does not save it: it leaks across calls / generator suspension")
		}
		if restored[n] {
			res.OK("context."+n+":restoreCtx", p.Pos(f.Pos()), "restored into vm."+n)
		} else {
			res.Bad("context."+n+":restoreCtx", p.Pos(restoreCtx.Pos()), "register vm."+n+" is saved in context but restoreCtx does not restore it: the caller continues with the callee's value after return or exception")
		}
		if thrown[n] {
			res.OK("context."+n+":handleThrow", p.Pos(f.Pos()), "restored by handleThrow from the call-stack entry or the try frame")
		} else {
			res.Bad("context."+n+":handleThrow", p.Pos(handleThrow.Pos()), "register vm."+n+" is not restored by handleThrow (neither from callStack[tf.callStackLen] nor from the try frame): after a caught exception the catch block runs with the thrower's "+n)
		}
	}

	// (2) auxiliary stacks: unnamed slice fields of vm other than tryStack itself
	aux := map[string]*types.Var{}
	for _, f := range structFields(vmT) {
		if _, ok := f.Type().(*types.Slice); ok && f.Name() != "tryStack" {
			aux[f.Name()] = f
		}
	}
	lenOf := func(fn *ssa.Function) map[string]bool {
		out := map[string]bool{}
		core.AllInstrs(fn, func(in ssa.Instruction) {
			c, ok := in.(*ssa.Call)
			if !ok {
				return
			}
			if b, ok := c.Call.Value.(*ssa.Builtin); ok && b.Name() == "len" {
				if bt, f := loadedField(c.Call.Args[0]); bt == vmT && f != nil {
					out[f.Name()] = true
				}
			}
		})
		return out
	}
	truncated := func(fns ...*ssa.Function) map[string]bool {
		out := map[string]bool{}
		for _, fn := range fns {
			for _, s := range fieldStores(fn) {
				if s.base != vmT {
					continue
				}
				if sl, ok := s.val.(*ssa.Slice); ok {
					if bt, f := loadedField(sl.X); bt == vmT && f == s.field {
						out[s.field.Name()] = true
					}
				}
			}
		}
		return out
	}
	snap := lenOf(pushTF)
	// the unwinders and the helpers they call statically (dropStacks etc.)
	unwinders := []*ssa.Function{handleThrow, restoreStacks}
	seenU := map[*ssa.Function]bool{handleThrow: true, restoreStacks: true}
	for i := 0; i < len(unwinders) && i < 12; i++ {
		core.AllInstrs(unwinders[i], func(in ssa.Instruction) {
			if c, ok := in.(ssa.CallInstruction); ok {
				if sc := core.StaticCallee(c); sc != nil && !seenU[sc] && sc.Signature.Recv() != nil && core.NamedOf(sc.Signature.Recv().Type()) == vmT {
					seenU[sc] = true
					unwinders = append(unwinders, sc)
				}
			}
		})
	}
	trunc := truncated(unwinders...)
	var auxNames []string
	for n := range aux {
		auxNames = append(auxNames, n)
	}
	sort.Strings(auxNames)
	for _, n := range auxNames {
		f := aux[n]
		if snap[n] {
			res.OK("vm."+n+":pushTryFrame-snapshot", p.Pos(f.Pos()), "len(vm."+n+") recorded in the try frame")
		} else {
			res.Bad("vm."+n+":pushTryFrame-snapshot", p.Pos(pushTF.Pos()), "auxiliary stack vm."+n+" is not snapshotted by pushTryFrame: entries pushed inside a try region survive a caught exception")
		}
		if trunc[n] {
			res.OK("vm."+n+":unwind-truncate", p.Pos(f.Pos()), "truncated by handleThrow/restoreStacks")
		} else {
			res.Bad("vm."+n+":unwind-truncate", p.Pos(handleThrow.Pos()), "auxiliary stack vm."+n+" is never truncated by handleThrow/restoreStacks")
		}
	}

	// (3) execCtx <-> suspend / resume
	ectxStacks := map[string]bool{}
	for _, f := range structFields(ectxT) {
		if _, ok := f.Type().(*types.Slice); ok && f.Name() != "stack" {
			ectxStacks[f.Name()] = true
		}
	}
	for _, n := range append(auxNames, "tryStack") {
		if n == "callStack" {
			continue // a suspended generator owns exactly one frame, rebuilt by enterNext
		}
		if ectxStacks[n] {
			res.OK("vm."+n+":execCtx-slot", p.Pos(vmFields[n].Pos()), "execCtx has a slot for the suspended tail")
		} else {
			res.Bad("vm."+n+":execCtx-slot", p.Pos(ectxT.Obj().Pos()), "vm."+n+" is a per-activation stack but execCtx has no slot for it: entries pushed by a generator body are lost or leak at yield")
		}
	}
	susSaved, susCut := map[string]bool{}, truncated(suspend)
	for _, s := range fieldStores(suspend) {
		if s.base == ectxT {
			susSaved[s.field.Name()] = true
		}
	}
	resAppended := map[string]bool{}
	for _, s := range fieldStores(resume) {
		if s.base != vmT {
			continue
		}
		// vm.X = append(vm.X, ctx.X...)
		if c, ok := s.val.(*ssa.Call); ok {
			if b, ok := c.Call.Value.(*ssa.Builtin); ok && b.Name() == "append" && len(c.Call.Args) == 2 {
				bt0, f0 := loadedField(c.Call.Args[0])
				bt1, f1 := loadedField(c.Call.Args[1])
				if bt0 == vmT && f0 == s.field && bt1 == ectxT && f1 != nil && f1.Name() == s.field.Name() {
					resAppended[s.field.Name()] = true
				}
			}
		}
	}
	var en []string
	for n := range ectxStacks {
		en = append(en, n)
	}
	sort.Strings(en)
	for _, n := range en {
		pos := p.Pos(suspend.Pos())
		if susSaved[n] && susCut[n] {
			res.OK("execCtx."+n+":suspend", pos, "tail moved into execCtx and cut from the vm stack")
		} else {
			res.Bad("execCtx."+n+":suspend", pos, fmt.Sprintf("suspend does not move the generator's tail of vm.%s into execCtx (saved=%v cut=%v) although resume appends it back", n, susSaved[n], susCut[n]))
		}
		if resAppended[n] {
			res.OK("execCtx."+n+":resume", p.Pos(resume.Pos()), "appended back to vm."+n)
		} else {
			res.Bad("execCtx."+n+":resume", p.Pos(resume.Pos()), "resume does not append execCtx."+n+" back to vm."+n+": state saved at yield is lost")
		}
	}

	// (3b) a slot that suspend only fills conditionally must start out empty at every call:
	// otherwise a suspension with nothing to save keeps the previous suspension's records
	for _, n := range en {
		key := "execCtx." + n + ":suspend-total"
		slotName := n
		total := true
		nRet := 0
		for _, b := range suspend.Blocks {
			if _, ok := b.Instrs[len(b.Instrs)-1].(*ssa.Return); ok {
				nRet++
				if !allPathsPass(suspend, b, func(in ssa.Instruction) bool {
					st, ok := in.(*ssa.Store)
					if !ok {
						return false
					}
					fa, ok := st.Addr.(*ssa.FieldAddr)
					return ok && core.NamedOf(fa.X.Type()) == ectxT && core.FieldOf(fa).Name() == slotName
				}) {
					total = false
				}
			}
		}
		if nRet == 0 {
			total = false
		}
		if total {
			res.OK(key, p.Pos(suspend.Pos()), "stored on every path through suspend")
			continue
		}
		// every caller resets the whole execCtx first
		nCalls, okCalls := 0, 0
		for _, f := range p.Funcs {
			for _, c := range core.CallsIn(f, suspend) {
				nCalls++
				args := c.Common().Args
				if len(args) < 2 {
					continue
				}
				afa, isFA := args[1].(*ssa.FieldAddr)
				core.AllInstrs(f, func(in ssa.Instruction) {
					st, ok := in.(*ssa.Store)
					if !ok || !core.InstrDominates(st, c) {
						return
					}
					zero, isConst := st.Val.(*ssa.Const)
					if !isConst || zero.Value != nil || core.NamedOf(zero.Type()) != ectxT {
						return
					}
					if isFA {
						if sfa, ok := st.Addr.(*ssa.FieldAddr); ok && core.FieldOf(sfa) == core.FieldOf(afa) && core.Origin(sfa.X) == core.Origin(afa.X) {
							okCalls++
						}
					} else if st.Addr == args[1] {
						okCalls++
					}
				})
			}
		}
		if nCalls > 0 && okCalls >= nCalls {
			res.OK(key, p.Pos(suspend.Pos()), fmt.Sprintf("filled only when non-empty, but all %d callers reset the execCtx to its zero value before suspending", nCalls))
		} else {
			res.Bad(key, p.Pos(suspend.Pos()), "suspend stores execCtx."+n+" only when there is something to save, and not every caller clears the execCtx first: a suspension with no live "+n+" entries keeps the records saved by an earlier suspension, which resume() then re-installs (a finished try block catches again / finally runs twice)")
		}
	}

	// (4) tryFrame offsets: fields initialised from len(...)/vm.sp are positions; suspend makes them
	// relative (-=), resume must make exactly those absolute again (+=) and re-base the rest.
	positional := map[string]bool{}
	// pushTryFrame builds a composite literal: stores go to a local tryFrame alloc
	core.AllInstrs(pushTF, func(in ssa.Instruction) {
		st, ok := in.(*ssa.Store)
		if !ok {
			return
		}
		fa, ok := st.Addr.(*ssa.FieldAddr)
		if !ok || core.NamedOf(fa.X.Type()) != tfT {
			return
		}
		v := st.Val
		if c, ok := v.(*ssa.Convert); ok {
			v = c.X
		}
		if c, ok := v.(*ssa.Call); ok {
			if b, ok := c.Call.Value.(*ssa.Builtin); ok && b.Name() == "len" {
				positional[core.FieldOf(fa).Name()] = true
			}
		}
		if bt, f := loadedField(v); bt == vmT && f != nil && f.Name() == "sp" {
			positional[core.FieldOf(fa).Name()] = true
		}
	})
	rmw := func(fn *ssa.Function, op token.Token) (map[string]bool, map[string]bool) {
		rm, plain := map[string]bool{}, map[string]bool{}
		for _, s := range fieldStores(fn) {
			if s.base != tfT {
				continue
			}
			if b, ok := s.val.(*ssa.BinOp); ok && b.Op == op {
				if bt, f := loadedField(b.X); bt == tfT && f == s.field {
					rm[s.field.Name()] = true
					continue
				}
			}
			plain[s.field.Name()] = true
		}
		return rm, plain
	}
	subs, _ := rmw(suspend, token.SUB)
	adds, sets := rmw(resume, token.ADD)
	var pn []string
	for n := range positional {
		pn = append(pn, n)
	}
	sort.Strings(pn)
	if len(pn) < 3 {
		res.Bad("tryFrame:positional-fields", p.Pos(pushTF.Pos()), "could not identify the positional fields of tryFrame in pushTryFrame (found "+names(positional)+")")
	}
	for _, n := range pn {
		key := "tryFrame." + n + ":rebase"
		switch {
		case subs[n] && adds[n]:
			res.OK(key, p.Pos(resume.Pos()), "made relative by suspend (-=) and absolute by resume (+=)")
		case !subs[n] && sets[n]:
			res.OK(key, p.Pos(resume.Pos()), "recomputed absolutely by resume")
		case subs[n] && !adds[n]:
			res.Bad(key, p.Pos(resume.Pos()), "suspend makes tryFrame."+n+" relative but resume does not add the new base back: a catch/finally after resumption truncates the wrong stack position")
		case !subs[n] && adds[n]:
			res.Bad(key, p.Pos(suspend.Pos()), "resume adds a base to tryFrame."+n+" that suspend never subtracted")
		default:
			res.Bad(key, p.Pos(resume.Pos()), "tryFrame."+n+" is a stack position recorded by pushTryFrame but is neither re-based nor recomputed when a generator resumes at a different depth")
		}
	}
	res.Count("context_fields", len(structFields(ctxT)))
	res.Count("aux_stacks", len(aux))
	res.Count("positional_tryframe_fields", len(pn))
	return res
}

package rules

import (
	"fmt"
	"go/token"
	"go/types"
	"sort"
	"strings"

	"gojaverif/core"

	"golang.org/x/tools/go/ssa"
)

// ---- R-INSTRIMMUT ------------------------------------------------------------

// A compiled Program is shared by every Runtime that runs it, on any goroutine. Its
// instructions must therefore never write to themselves while executing.
var InstrImmut = &core.Rule{Name: "R-INSTRIMMUT", Run: runInstrImmut,
	Doc: "no exec(*vm) method of a type implementing `instruction` stores to memory reached through its receiver, directly or through a statically called function"}

func runInstrImmut(p *core.Prog) *core.Result {
	res := core.NewResult("R-INSTRIMMUT", 200)
	it, err := p.GojaType("instruction")
	if err != nil {
		return res.Fail(err)
	}
	iface := it.Underlying().(*types.Interface)
	n := 0
	for _, f := range p.Funcs {
		if f.Name() != "exec" || f.Signature.Recv() == nil || f.Parent() != nil {
			continue
		}
		if !types.Implements(f.Signature.Recv().Type(), iface) {
			continue
		}
		n++
		recv := f.Params[0]
		key := core.FuncName(f) + ":no-self-write"
		bad := ""
		check := func(g *ssa.Function, isRecv func(core.AccessRoot) bool) {
			for _, w := range core.WritesOf(g) {
				if isRecv(w.Root) && w.Root.Shared {
					bad = fmt.Sprintf("writes receiver%s at %s", w.Root.Path, p.Pos(w.Instr.Pos()))
				}
			}
			core.AllInstrs(g, func(in ssa.Instruction) {
				c, ok := in.(ssa.CallInstruction)
				if !ok {
					return
				}
				sc := core.StaticCallee(c)
				if sc == nil {
					return
				}
				for ai, a := range c.Common().Args {
					r := core.RootOf(a)
					if !isRecv(r) {
						continue
					}
					_, isRef := a.Type().Underlying().(*types.Pointer)
					if !(isRef || r.Shared) {
						continue
					}
					if why, ok := p.WritesThrough(sc, ai); ok {
						bad = fmt.Sprintf("passes receiver%s to %s, which %s", r.Path, core.FuncName(sc), why)
					}
				}
			})
		}
		check(f, func(r core.AccessRoot) bool { return r.Param == recv })
		// closures created by exec that capture the receiver
		for _, an := range f.AnonFuncs {
			check(an, func(r core.AccessRoot) bool {
				if r.Free == nil {
					return false
				}
				// which binding?
				for bi, fv := range an.FreeVars {
					if fv == r.Free {
						var mc *ssa.MakeClosure
						core.AllInstrs(f, func(in ssa.Instruction) {
							if m, ok := in.(*ssa.MakeClosure); ok && m.Fn == an {
								mc = m
							}
						})
						if mc != nil && bi < len(mc.Bindings) {
							return core.RootOf(mc.Bindings[bi]).Param == recv
						}
					}
				}
				return false
			})
		}
		if bad == "" {
			res.OK(key, p.Pos(f.Pos()), "no store through the receiver")
		} else {
			res.Bad(key, p.Pos(f.Pos()), "instruction "+bad+": a Program is shared by all Runtimes running it, so executing it on two goroutines is a data race and one run can change what the other executes")
		}
	}
	res.Count("exec_methods", n)
	return res
}

// ---- R-PRIMIMMUT -------------------------------------------------------------

var PrimImmut = &core.Rule{Name: "R-PRIMIMMUT", Run: runPrimImmut,
	Doc: "no method of a primitive Value type (everything implementing Value except *Object and internal property cells) writes through its receiver unless the write is confined to a function run under the receiver's own sync.Once or goes through sync/atomic"}

var primNotShared = map[string]string{
	"Object":          "objects are owned by one Runtime (R-XRUNTIME)",
	"valueProperty":   "internal property cell, never handed to user code as a Value",
	"mappedProperty":  "internal property cell",
	"valueUnresolved": "internal marker holding a *Runtime",
	"yieldMarker":     "internal marker",
}

func runPrimImmut(p *core.Prog) *core.Result {
	res := core.NewResult("R-PRIMIMMUT", 10)
	vt, err := p.GojaType("Value")
	if err != nil {
		return res.Fail(err)
	}
	iface := vt.Underlying().(*types.Interface)
	scope := p.Goja.Types.Scope()
	var prims []*types.Named
	for _, name := range scope.Names() {
		tn, ok := scope.Lookup(name).(*types.TypeName)
		if !ok || tn.IsAlias() {
			continue
		}
		nt, ok := tn.Type().(*types.Named)
		if !ok || nt == vt {
			continue
		}
		if _, isIface := nt.Underlying().(*types.Interface); isIface {
			continue
		}
		if types.Implements(nt, iface) || types.Implements(types.NewPointer(nt), iface) {
			prims = append(prims, nt)
		}
	}
	sort.Slice(prims, func(i, j int) bool { return prims[i].Obj().Name() < prims[j].Obj().Name() })
	nTypes := 0
	for _, nt := range prims {
		name := nt.Obj().Name()
		if why, ok := primNotShared[name]; ok {
			res.Inform(name+":not-shared", p.Pos(nt.Obj().Pos()), "excluded: "+why)
			continue
		}
		nTypes++
		// methods declared on the type
		var methods []*ssa.Function
		for _, f := range p.Funcs {
			if f.Parent() == nil && f.Signature.Recv() != nil && core.NamedOf(f.Signature.Recv().Type()) == nt {
				methods = append(methods, f)
			}
		}
		typeOK := true
		for _, f := range methods {
			recv := f.Params[0]
			for _, w := range core.WritesOf(f) {
				if w.Root.Param != recv || !w.Root.Shared {
					continue
				}
				key := core.FuncName(f) + ":receiver-write" + w.Root.Path
				if how, ok := synchronisedWriter(p, f, nt); ok {
					res.OK(key, p.Pos(w.Instr.Pos()), how)
				} else {
					typeOK = false
					res.Bad(key, p.Pos(w.Instr.Pos()), fmt.Sprintf("method of the primitive value type %s writes %s%s without synchronisation: primitive values may be shared between Runtimes on different goroutines, so this is a data race (and a torn lazily-computed state)", name, recv.Name(), w.Root.Path))
				}
			}
		}
		// atomic writes are still writes: a race-free memo inside a shared primitive makes the value
		// carry state of the first Runtime that used it (e.g. a hash computed with that Runtime's seed)
		for _, f := range methods {
			recv := f.Params[0]
			core.AllInstrs(f, func(in ssa.Instruction) {
				c, ok := in.(ssa.CallInstruction)
				if !ok {
					return
				}
				sc := c.Common().StaticCallee()
				if sc == nil || sc.Pkg == nil || sc.Pkg.Pkg.Path() != "sync/atomic" || len(c.Common().Args) == 0 {
					return
				}
				switch sc.Name() {
				case "Store", "Add", "Swap", "CompareAndSwap", "And", "Or",
					"StoreUint32", "StoreUint64", "StoreInt32", "StoreInt64", "StorePointer", "AddUint32", "AddUint64", "AddInt32", "AddInt64",
					"SwapUint32", "SwapUint64", "CompareAndSwapUint32", "CompareAndSwapUint64", "CompareAndSwapPointer":
				default:
					return
				}
				if r := core.RootOf(c.Common().Args[0]); r.Param != recv {
					return
				}
				key := core.FuncName(f) + ":receiver-atomic-write"
				if how, ok := synchronisedWriter(p, f, nt); ok {
					res.OK(key, p.Pos(c.Pos()), how)
				} else {
					typeOK = false
					res.Bad(key, p.Pos(c.Pos()), fmt.Sprintf("method of the primitive value type %s updates a field of its receiver atomically outside the function run by its sync.Once: there is no data race, but the shared value now memoises something computed by whichever Runtime came first (a hash under that Runtime's random seed, say), so other Runtimes get results they would not get in isolation", name))
				}
			})
		}
		if typeOK {
			res.OK(name+":immutable", p.Pos(nt.Obj().Pos()), fmt.Sprintf("%d methods, every receiver write synchronised or absent", len(methods)))
		}
	}
	res.Count("primitive_value_types", nTypes)
	return res
}

// synchronisedWriter: f is only ever used as the function run by a sync.Once field of the same
// receiver type (x.once.Do(x.f)), never called directly.
func synchronisedWriter(p *core.Prog, f *ssa.Function, nt *types.Named) (string, bool) {
	uses, onceUses := 0, 0
	for _, g := range p.Funcs {
		core.AllInstrs(g, func(in ssa.Instruction) {
			// direct calls
			if c, ok := in.(ssa.CallInstruction); ok {
				if core.StaticCallee(c) == f {
					uses++
				}
				// once.Do(bound method value)
				cc := c.Common()
				if sc := cc.StaticCallee(); sc != nil && sc.Name() == "Do" && sc.Pkg != nil && sc.Pkg.Pkg.Path() == "sync" && len(cc.Args) == 2 {
					if mc, ok := cc.Args[1].(*ssa.MakeClosure); ok {
						if bound, ok := mc.Fn.(*ssa.Function); ok && bound.Synthetic != "" {
							calls := false
							core.AllInstrs(bound, func(bi ssa.Instruction) {
								if bc, ok := bi.(ssa.CallInstruction); ok && core.StaticCallee(bc) == f {
									calls = true
								}
							})
							if calls {
								// the Once must be a field of the same object the method is bound to
								if fa, ok := cc.Args[0].(*ssa.FieldAddr); ok && len(mc.Bindings) == 1 && fa.X == mc.Bindings[0] && core.NamedOf(fa.X.Type()) == nt {
									onceUses++
								}
							}
						}
					}
				}
			}
		})
	}
	if onceUses > 0 && uses == 0 {
		return fmt.Sprintf("only ever run under the receiver's own sync.Once (%d site(s)), never called directly", onceUses), true
	}
	return "", false
}

// ---- R-GLOBALS ---------------------------------------------------------------

var Globals = &core.Rule{Name: "R-GLOBALS", Run: runGlobals,
	Doc: "every package-level variable written outside package initialisation is written only inside a function run by a package-level sync.Once, through sync/atomic, or under a package-level mutex"}

func runGlobals(p *core.Prog) *core.Result {
	res := core.NewResult("R-GLOBALS", 10)
	n := 0
	type gw struct {
		g  *ssa.Global
		in ssa.Instruction
		f  *ssa.Function
	}
	var writes []gw
	for _, f := range p.Funcs {
		if f.Name() == "init" && f.Parent() == nil {
			continue
		}
		if strings.HasPrefix(f.Name(), "init#") {
			continue
		}
		for _, w := range core.WritesOf(f) {
			if w.Root.Global != nil {
				writes = append(writes, gw{w.Root.Global, w.Instr, f})
			}
		}
	}
	onceRun := onceFunctions(p)
	for _, w := range writes {
		if w.g.Pkg == nil || !strings.HasPrefix(w.g.Pkg.Pkg.Path(), core.GojaPath) {
			continue
		}
		if w.g.Pkg.Pkg.Path() == core.GojaPath+"/goja" {
			continue // the command-line tool, not the library
		}
		n++
		key := fmt.Sprintf("%s:writes-%s", core.FuncName(w.f), w.g.Name())
		switch {
		case globalWriteExceptions[core.FuncName(w.f)] != "":
			res.OK(key, p.Pos(w.in.Pos()), "table exception: "+globalWriteExceptions[core.FuncName(w.f)])
		case onceRun[w.f] != "":
			res.OK(key, p.Pos(w.in.Pos()), "inside the function run by package-level "+onceRun[w.f])
		case underPackageMutex(w.in):
			res.OK(key, p.Pos(w.in.Pos()), "between Lock and Unlock of a package-level mutex")
		default:
			res.Bad(key, p.Pos(w.in.Pos()), fmt.Sprintf("package-level variable %s is written at run time outside sync.Once / atomic / mutex: Runtimes on different goroutines share it", w.g.Name()))
		}
	}
	res.Count("runtime_global_writes", n)
	return res
}

// onceFunctions: functions (closures) passed to Do of a package-level sync.Once, and the
// functions only they call.
func onceFunctions(p *core.Prog) map[*ssa.Function]string {
	out := map[*ssa.Function]string{}
	for _, g := range p.Funcs {
		core.AllInstrs(g, func(in ssa.Instruction) {
			c, ok := in.(*ssa.Call)
			if !ok {
				return
			}
			sc := c.Call.StaticCallee()
			if sc == nil || sc.Name() != "Do" || sc.Pkg == nil || sc.Pkg.Pkg.Path() != "sync" || len(c.Call.Args) != 2 {
				return
			}
			gl, ok := c.Call.Args[0].(*ssa.Global)
			if !ok {
				return
			}
			var fn *ssa.Function
			switch x := c.Call.Args[1].(type) {
			case *ssa.MakeClosure:
				fn, _ = x.Fn.(*ssa.Function)
			case *ssa.Function:
				fn = x
			}
			if fn != nil {
				out[fn] = "sync.Once " + gl.Name()
			}
		})
	}
	// functions called only from once-functions (one level, e.g. createXTemplate())
	for changed := true; changed; {
		changed = false
		callers := map[*ssa.Function][]*ssa.Function{}
		for _, g := range p.Funcs {
			core.AllInstrs(g, func(in ssa.Instruction) {
				if c, ok := in.(ssa.CallInstruction); ok {
					if sc := core.StaticCallee(c); sc != nil {
						callers[sc] = append(callers[sc], g)
					}
				}
			})
		}
		for fn, cs := range callers {
			if out[fn] != "" || !p.InModule(fn) {
				continue
			}
			all := len(cs) > 0
			tag := ""
			for _, c := range cs {
				if out[c] == "" {
					all = false
				} else {
					tag = out[c]
				}
			}
			// must not be referenced as a value elsewhere
			if all && len(core.Referrers(fn)) == 0 {
				out[fn] = tag
				changed = true
			}
		}
	}
	return out
}

func underPackageMutex(in ssa.Instruction) bool {
	f := in.Parent()
	held := false
	core.AllInstrs(f, func(x ssa.Instruction) {
		c, ok := x.(*ssa.Call)
		if !ok {
			return
		}
		sc := c.Call.StaticCallee()
		if sc == nil || sc.Name() != "Lock" || sc.Pkg == nil || sc.Pkg.Pkg.Path() != "sync" || len(c.Call.Args) == 0 {
			return
		}
		if core.RootOf(c.Call.Args[0]).Global != nil && core.InstrDominates(x, in) {
			held = true
		}
	})
	return held
}

// ---- R-XRUNTIME --------------------------------------------------------------

var XRuntime = &core.Rule{Name: "R-XRUNTIME", Run: runXRuntime,
	Doc: "ToValue's *Object case and every valueContainer.toValue implementation compare the object's runtime with the receiving Runtime and panic with a TypeError on mismatch before returning the object"}

func runXRuntime(p *core.Prog) *core.Result {
	res := core.NewResult("R-XRUNTIME", 4)
	vc, err := p.GojaType("valueContainer")
	if err != nil {
		return res.Fail(err)
	}
	iface := vc.Underlying().(*types.Interface)
	fRuntime, err := p.Field(core.GojaPath, "Object", "runtime")
	if err != nil {
		return res.Fail(err)
	}
	toValue, err := p.GojaMethod("Runtime", "toValue")
	if err != nil {
		return res.Fail(err)
	}
	// a comparison `X.runtime != r` (or ==) whose mismatch edge never returns
	checksRuntime := func(f *ssa.Function, rparam ssa.Value) (bool, string) {
		found := false
		core.AllInstrs(f, func(in ssa.Instruction) {
			b, ok := in.(*ssa.BinOp)
			if !ok || (b.Op != token.NEQ && b.Op != token.EQL) {
				return
			}
			isRt := func(v ssa.Value) bool {
				ld, ok := v.(*ssa.UnOp)
				return ok && ld.Op == token.MUL && core.FieldOf(ld.X) == fRuntime
			}
			var other ssa.Value
			switch {
			case isRt(b.X):
				other = b.Y
			case isRt(b.Y):
				other = b.X
			default:
				return
			}
			if core.Origin(other) != rparam {
				return
			}
			for _, e := range core.CondEdges(b) {
				mismatch := e.True
				if b.Op == token.EQL {
					mismatch = e.False
				}
				if p.FirstNoReturn(mismatch) >= 0 {
					found = true
				}
			}
		})
		if found {
			return true, "runtime mismatch edge panics"
		}
		return false, ""
	}
	// implementations of valueContainer
	n := 0
	for _, f := range p.Funcs {
		if f.Name() != "toValue" || f.Signature.Recv() == nil || f.Parent() != nil || f == toValue {
			continue
		}
		if !types.Implements(f.Signature.Recv().Type(), iface) {
			continue
		}
		n++
		key := core.FuncName(f) + ":runtime-check"
		// implementations that build a fresh value (no *Object stored in the container) have nothing to check
		returnsStoredObject := false
		core.AllInstrs(f, func(in ssa.Instruction) {
			if r, ok := in.(*ssa.Return); ok && len(r.Results) == 1 {
				v := core.Unwrap(r.Results[0])
				if core.IsGojaNamed(v.Type(), "Object") {
					if rt := core.RootOf(v); rt.Param == f.Params[0] {
						returnsStoredObject = true
					}
				}
			}
		})
		// stored objects routed through r.ToValue are checked there
		viaToValue := false
		if tv, err := p.GojaMethod("Runtime", "ToValue"); err == nil {
			core.AllInstrs(f, func(in ssa.Instruction) {
				if c, ok := in.(*ssa.Call); ok && c.Call.StaticCallee() == tv && len(c.Call.Args) == 2 {
					if rt := core.RootOf(c.Call.Args[1]); rt.Param == f.Params[0] && core.Origin(c.Call.Args[0]) == f.Params[1] {
						viaToValue = true
					}
				}
			})
		}
		if !returnsStoredObject && viaToValue {
			res.OK(key, p.Pos(f.Pos()), "stored values are passed through r.ToValue, which performs the runtime check")
			continue
		}
		if !returnsStoredObject {
			res.OK(key, p.Pos(f.Pos()), "does not hand out an object stored in the container")
			continue
		}
		if ok, how := checksRuntime(f, f.Params[1]); ok {
			res.OK(key, p.Pos(f.Pos()), how)
		} else {
			res.Bad(key, p.Pos(f.Pos()), "returns the wrapped *Object without comparing its runtime with the receiving Runtime: an Object can cross into another Runtime (and goroutine) without the documented TypeError")
		}
	}
	// ToValue itself
	if ok, how := checksRuntime(toValue, toValue.Params[0]); ok {
		res.OK("(*Runtime).toValue:runtime-check", p.Pos(toValue.Pos()), how)
	} else {
		res.Bad("(*Runtime).toValue:runtime-check", p.Pos(toValue.Pos()), "ToValue no longer rejects an *Object that belongs to a different Runtime")
	}
	res.Count("valueContainer_implementations", n)
	return res
}

// ---- R-INSTRALIAS ------------------------------------------------------------

var cloneExceptions = map[string]string{
	"(*regexpWrapper).clone": "regexpWrapper is Go's regexp.Regexp, documented safe for concurrent use and without lazily created state of its own",
}

var globalWriteExceptions = map[string]string{
	"StartProfile": "process-wide profiler control API, not reachable from running a Program; hand-over to the VMs is through the atomic globalProfiler.enabled",
	"StopProfile":  "process-wide profiler control API, not reachable from running a Program; hand-over to the VMs is through the atomic globalProfiler.enabled",
}

var InstrAlias = &core.Rule{Name: "R-INSTRALIAS", Run: runInstrAlias,
	Doc: "reference-typed Program data handed to runtime-owned mutable state is copied first: name maps are stored into a stash un-copied only on the !extensible edge (with a fresh map on the other), regexp patterns go through clone(), and every clone() returns a fresh allocation on every path"}

func runInstrAlias(p *core.Prog) *core.Result {
	res := core.NewResult("R-INSTRALIAS", 8)
	it, err := p.GojaType("instruction")
	if err != nil {
		return res.Fail(err)
	}
	iface := it.Underlying().(*types.Interface)
	fNames, err := p.Field(core.GojaPath, "stash", "names")
	if err != nil {
		return res.Fail(err)
	}
	nFlows := 0
	for _, f := range p.Funcs {
		if f.Name() != "exec" || f.Signature.Recv() == nil || !types.Implements(f.Signature.Recv().Type(), iface) {
			continue
		}
		recv := f.Params[0]
		rt := core.NamedOf(recv.Type())
		hasExt := false
		var extField *types.Var
		if rt != nil {
			if st, ok := rt.Underlying().(*types.Struct); ok {
				for i := 0; i < st.NumFields(); i++ {
					if st.Field(i).Name() == "extensible" {
						hasExt = true
						extField = st.Field(i)
					}
				}
			}
		}
		core.AllInstrs(f, func(in ssa.Instruction) {
			st, ok := in.(*ssa.Store)
			if !ok {
				return
			}
			fa, ok := st.Addr.(*ssa.FieldAddr)
			if !ok || core.FieldOf(fa) != fNames {
				return
			}
			r := core.RootOf(st.Val)
			if r.Param != recv {
				return // a fresh map or something else
			}
			nFlows++
			key := core.FuncName(f) + ":names-alias"
			if !hasExt {
				res.OK(key, p.Pos(in.Pos()), "block/catch scope: the compiler never marks these scopes as var-scopes (assumption: only stashes passing isVariable() or the global stash receive createBinding)")
				return
			}
			guarded := false
			for _, cp := range core.ControllingConds(in.Block()) {
				if ld, ok := cp.Cond.(*ssa.UnOp); ok && ld.Op == token.MUL && core.FieldOf(ld.X) == extField && !cp.Pol {
					// the other edge must store a map made in this function
					guarded = true
				}
			}
			copied := false
			core.AllInstrs(f, func(in2 ssa.Instruction) {
				if st2, ok := in2.(*ssa.Store); ok && st2 != st {
					if fa2, ok := st2.Addr.(*ssa.FieldAddr); ok && core.FieldOf(fa2) == fNames {
						if _, isMake := st2.Val.(*ssa.MakeMap); isMake {
							copied = true
						}
					}
				}
			})
			switch {
			case guarded && copied:
				res.OK(key, p.Pos(in.Pos()), "shared only when !extensible; a fresh copy is installed when the scope can gain bindings at run time")
			case !guarded:
				res.Bad(key, p.Pos(in.Pos()), "the Program's names map is installed in a function stash without the !extensible guard: a direct eval that declares a var mutates the map inside the Program (shared by every Runtime and every later call)")
			default:
				res.Bad(key, p.Pos(in.Pos()), "no fresh map is created for the extensible case")
			}
		})
	}
	// every instruction type that carries an `extensible` flag installs a *fresh* names map on the
	// extensible edge in its own exec (a helper shared with non-extensible kinds cannot know)
	for _, f := range p.Funcs {
		if f.Name() != "exec" || f.Signature.Recv() == nil || !types.Implements(f.Signature.Recv().Type(), iface) {
			continue
		}
		rt := core.NamedOf(f.Params[0].Type())
		if rt == nil {
			continue
		}
		st, ok := rt.Underlying().(*types.Struct)
		if !ok {
			continue
		}
		var extField *types.Var
		hasNames := false
		for i := 0; i < st.NumFields(); i++ {
			if st.Field(i).Name() == "extensible" {
				extField = st.Field(i)
			}
			if st.Field(i).Name() == "names" {
				hasNames = true
			}
			if st.Field(i).Embedded() {
				if es, ok := st.Field(i).Type().Underlying().(*types.Struct); ok {
					for j := 0; j < es.NumFields(); j++ {
						if es.Field(j).Name() == "names" {
							hasNames = true
						}
					}
				}
			}
		}
		if extField == nil || !hasNames {
			continue
		}
		key := core.FuncName(f) + ":fresh-names-when-extensible"
		found := false
		core.AllInstrs(f, func(in ssa.Instruction) {
			st, ok := in.(*ssa.Store)
			if !ok {
				return
			}
			fa, ok := st.Addr.(*ssa.FieldAddr)
			if !ok || core.FieldOf(fa) != fNames {
				return
			}
			if _, isMake := st.Val.(*ssa.MakeMap); !isMake {
				return
			}
			for _, cp := range core.ControllingConds(in.Block()) {
				if ld, ok := cp.Cond.(*ssa.UnOp); ok && ld.Op == token.MUL && core.FieldOf(ld.X) == extField && cp.Pol {
					found = true
				}
			}
		})
		if found {
			res.OK(key, p.Pos(f.Pos()), "a map made in exec is installed when extensible")
		} else {
			res.Bad(key, p.Pos(f.Pos()), "this instruction can enter a scope that gains bindings at run time (extensible) but its exec never installs a fresh names map on that edge: a direct eval declaring a var then writes into the map owned by the shared Program (wrong slot indexes in later runs, data race across Runtimes)")
		}
	}
	res.Count("names_flows", nFlows)
	res.Assume("stash.createBinding/createLexBinding/deleteBinding are only applied to the global stash or to stashes selected by isVariable(): block and catch stashes share the Program's names map unconditionally")

	// producer side: the instruction's `extensible` flag must describe the same scope whose
	// bindings become its names map (copy-on-extensible is keyed to the owner of the names)
	makeNames, err := p.GojaMethod("scope", "makeNamesMap")
	if err != nil {
		return res.Fail(err)
	}
	updEnter, err := p.GojaMethod("compiler", "updateEnterBlock")
	if err != nil {
		return res.Fail(err)
	}
	fDynamic, err := p.Field(core.GojaPath, "scope", "dynamic")
	if err != nil {
		return res.Fail(err)
	}
	fScope, err := p.Field(core.GojaPath, "compiler", "scope")
	if err != nil {
		return res.Fail(err)
	}
	nLits := 0
	for _, f := range p.Funcs {
		core.AllInstrs(f, func(in ssa.Instruction) {
			al, ok := in.(*ssa.Alloc)
			if !ok {
				return
			}
			nt := core.NamedOf(al.Type())
			if nt == nil || !types.Implements(types.NewPointer(nt), iface) {
				return
			}
			var extScope, namesScope ssa.Value // the *scope values
			var namesViaCompiler ssa.Value     // the *compiler whose current scope fills the names
			// a composite literal is built in a temporary and copied into the variable: follow the copy
			refs := append([]ssa.Instruction{}, core.Referrers(al)...)
			for _, r := range core.Referrers(al) {
				if ld, ok := r.(*ssa.UnOp); ok && ld.Op == token.MUL && ld.X == al {
					for _, lr := range core.Referrers(ld) {
						if st, ok := lr.(*ssa.Store); ok && st.Val == ld {
							if dst, ok := st.Addr.(*ssa.Alloc); ok {
								refs = append(refs, core.Referrers(dst)...)
							}
						}
					}
				}
			}
			for _, r := range refs {
				fa, ok := r.(*ssa.FieldAddr)
				if !ok || core.FieldOf(fa) == nil {
					continue
				}
				switch core.FieldOf(fa).Name() {
				case "extensible":
					for _, rr := range core.Referrers(fa) {
						if st, ok := rr.(*ssa.Store); ok && st.Addr == fa {
							if ld, ok := st.Val.(*ssa.UnOp); ok && ld.Op == token.MUL {
								if dfa, ok := ld.X.(*ssa.FieldAddr); ok && core.FieldOf(dfa) == fDynamic {
									extScope = dfa.X
								}
							}
						}
					}
				case "names":
					for _, rr := range core.Referrers(fa) {
						if st, ok := rr.(*ssa.Store); ok && st.Addr == fa {
							if c, ok := st.Val.(*ssa.Call); ok && c.Call.StaticCallee() == makeNames {
								namesScope = c.Call.Args[0]
							}
						}
					}
				case "enterBlock":
					for _, rr := range core.Referrers(fa) {
						if c, ok := rr.(*ssa.Call); ok && c.Call.StaticCallee() == updEnter {
							namesViaCompiler = c.Call.Args[0]
						}
					}
				}
			}
			if extScope == nil {
				return
			}
			nLits++
			key := core.FuncName(f) + ":" + nt.Obj().Name() + "-names-owner"
			canon := func(v ssa.Value) string {
				r := core.RootOf(v)
				n := "?"
				if r.Param != nil {
					n = r.Param.Name()
				} else if r.Free != nil {
					n = r.Free.Name()
				} else {
					n = p.SourceName(core.Origin(v))
				}
				return n + r.Path
			}
			switch {
			case namesScope != nil:
				if canon(namesScope) == canon(extScope) {
					res.OK(key, p.Pos(al.Pos()), "names and extensible both come from scope "+canon(extScope))
				} else {
					res.Bad(key, p.Pos(al.Pos()), fmt.Sprintf("the instruction's names map is built from scope %s but its extensible flag from scope %s: when only the former can gain bindings at run time (direct eval in a parameter initialiser) the VM shares the Program's map instead of copying it", canon(namesScope), canon(extScope)))
				}
			case namesViaCompiler != nil:
				// extensible must be <compiler>.scope.dynamic for the same compiler
				okc := false
				if ld, ok := core.Origin(extScope).(*ssa.UnOp); ok && ld.Op == token.MUL {
					if sfa, ok := ld.X.(*ssa.FieldAddr); ok && core.FieldOf(sfa) == fScope && canon(sfa.X) == canon(namesViaCompiler) {
						okc = true
					}
				}
				if okc {
					res.OK(key, p.Pos(al.Pos()), "names (updateEnterBlock) and extensible both come from the compiler's current scope")
				} else {
					res.Bad(key, p.Pos(al.Pos()), "names come from the compiler's current scope (updateEnterBlock) but extensible from a different scope")
				}
			default:
				res.Inform(key, p.Pos(al.Pos()), "no names map assigned in this function")
			}
		})
	}
	res.Count("instruction_literals_with_extensible", nLits)

	// regexp literals
	newRx, err := p.GojaMethod("newRegexp", "exec")
	if err != nil {
		return res.Fail(err)
	}
	patClone, err := p.GojaMethod("regexpPattern", "clone")
	if err != nil {
		return res.Fail(err)
	}
	{
		key := "(*newRegexp).exec:pattern-cloned"
		ok := false
		leaked := false
		core.AllInstrs(newRx, func(in ssa.Instruction) {
			c, isCall := in.(ssa.CallInstruction)
			if !isCall {
				return
			}
			if core.StaticCallee(c) == patClone {
				ok = true
				return
			}
			for _, a := range c.Common().Args {
				if core.IsGojaNamed(a.Type(), "regexpPattern") {
					if _, fromClone := core.Origin(a).(*ssa.Call); !fromClone {
						leaked = true
					}
				}
			}
		})
		if ok && !leaked {
			res.OK(key, p.Pos(newRx.Pos()), "the runtime object receives pattern.clone()")
		} else {
			res.Bad(key, p.Pos(newRx.Pos()), "a regexp literal hands the Program's own *regexpPattern (lazily extended, with a non-thread-safe match cache) to the runtime object instead of a clone")
		}
	}
	// every clone() method in the package returns a fresh allocation on every path
	for _, f := range p.Funcs {
		if f.Name() != "clone" || f.Signature.Recv() == nil || f.Parent() != nil || f.Signature.Results().Len() != 1 {
			continue
		}
		if _, isPtr := f.Signature.Results().At(0).Type().Underlying().(*types.Pointer); !isPtr {
			continue
		}
		key := core.FuncName(f) + ":returns-fresh"
		if why, ok := cloneExceptions[core.FuncName(f)]; ok {
			res.OK(key, p.Pos(f.Pos()), "table exception: "+why)
			continue
		}
		bad := ""
		core.AllInstrs(f, func(in ssa.Instruction) {
			r, ok := in.(*ssa.Return)
			if !ok {
				return
			}
			v := core.Origin(r.Results[0])
			switch x := v.(type) {
			case *ssa.Alloc:
				if !x.Heap {
					bad = "returns a non-heap value"
				}
			case *ssa.Call:
				// delegating to another constructor/clone is fine
			case *ssa.Phi:
				for _, e := range x.Edges {
					if rt := core.RootOf(e); rt.Param == f.Params[0] && rt.Path == "" {
						bad = "returns the receiver itself on some path"
					}
				}
			default:
				if rt := core.RootOf(v); rt.Param == f.Params[0] && rt.Path == "" {
					bad = "returns the receiver itself on some path"
				}
			}
		})
		if bad == "" {
			res.OK(key, p.Pos(f.Pos()), "a fresh allocation on every path")
		} else {
			res.Bad(key, p.Pos(f.Pos()), "clone() "+bad+": state created lazily on the clone (regexp2 wrapper, match cache) then lives in the Program's shared pattern")
		}
	}
	return res
}

// R-LAZYSYNC: importedString is a primitive value shared between Runtimes; its lazily computed
// field u is written once by scan() (under scanOnce) before the atomic flag `scanned` is set.
// Every other access of u must therefore be ordered after the flag: dominated by ensureScanned()
// on the same string, or control-dependent on scanned.Load() == true, or on a string allocated in
// the same function (not yet shared). Unlike R-LAZYSCAN (which asks whether the *answer* is
// right) this has no semantic exceptions: an unsynchronised read is a data race even when both
// outcomes give the same result.
var LazySync = &core.Rule{Name: "R-LAZYSYNC", Run: runLazySync,
	Doc: "every load/store of importedString.u outside scan() is dominated by ensureScanned() on the same receiver, or controlled by scanned.Load() == true, or applies to a freshly allocated importedString"}

func runLazySync(p *core.Prog) *core.Result {
	res := core.NewResult("R-LAZYSYNC", 10)
	fU, err := p.Field(core.GojaPath, "importedString", "u")
	if err != nil {
		return res.Fail(err)
	}
	fScanned, err := p.Field(core.GojaPath, "importedString", "scanned")
	if err != nil {
		return res.Fail(err)
	}
	scan, err := p.GojaMethod("importedString", "scan")
	if err != nil {
		return res.Fail(err)
	}
	ensure, err := p.GojaMethod("importedString", "ensureScanned")
	if err != nil {
		return res.Fail(err)
	}
	seq := map[string]int{}
	for _, fa := range p.FieldAddrs(fU) {
		fn := fa.Parent()
		if fn == scan {
			continue
		}
		base := core.Origin(fa.X)
		kb := core.FuncName(fn) + ":access of importedString.u"
		seq[kb]++
		key := kb
		if seq[kb] > 1 {
			key = fmt.Sprintf("%s#%d", kb, seq[kb])
		}
		pos := p.Pos(fa.Pos())
		ok := ""
		if al, isAlloc := base.(*ssa.Alloc); isAlloc && al.Heap {
			ok = "the string is allocated in this function (not shared yet)"
		}
		if ok == "" {
			// every path from the entry to this access passes ensureScanned(base) or the true edge of
			// base.scanned.Load()
			isLoad := func(v ssa.Value) bool {
				c, isCall := v.(*ssa.Call)
				if !isCall {
					return false
				}
				if sc := c.Call.StaticCallee(); sc != nil && sc.Name() == "Load" && len(c.Call.Args) == 1 {
					if sfa, isFa := c.Call.Args[0].(*ssa.FieldAddr); isFa && core.FieldOf(sfa) == fScanned && core.Origin(sfa.X) == base {
						return true
					}
				}
				return false
			}
			seen := map[*ssa.BasicBlock]bool{}
			reached := false
			var walk func(b *ssa.BasicBlock)
			walk = func(b *ssa.BasicBlock) {
				if seen[b] || reached {
					return
				}
				seen[b] = true
				for _, in := range b.Instrs {
					if in == ssa.Instruction(fa) {
						reached = true
						return
					}
					if c, isCall := in.(*ssa.Call); isCall && c.Call.StaticCallee() == ensure && len(c.Call.Args) > 0 && core.Origin(c.Call.Args[0]) == base {
						return
					}
				}
				if ifi, isIf := b.Instrs[len(b.Instrs)-1].(*ssa.If); isIf {
					cond, pol := ifi.Cond, true
					for i := 0; i < 2; i++ {
						if u, isU := cond.(*ssa.UnOp); isU && u.Op == token.NOT {
							cond, pol = u.X, !pol
						}
					}
					if isLoad(cond) {
						// the successor taken when Load() is true is synchronised
						if pol {
							walk(b.Succs[1])
						} else {
							walk(b.Succs[0])
						}
						return
					}
				}
				for _, sc := range b.Succs {
					walk(sc)
				}
			}
			walk(fn.Blocks[0])
			if !reached {
				ok = "every path passes ensureScanned() or scanned.Load() == true"
			}
		}
		if ok != "" {
			res.OK(key, pos, ok)
		} else {
			res.Bad(key, pos, "importedString.u is accessed without being ordered after the lazy scan (no dominating ensureScanned() on this string, not under scanned.Load()): when the same Go string value is used by two Runtimes on different goroutines this read races with the write in scan() (reported by -race; the Go memory model gives a torn slice header no meaning)")
		}
	}
	return res
}

// R-INSTRESCAPE: mutable reference data owned by the Program - a []Value or *valueProperty held in
// an instruction's field - must not become the storage of a runtime object: script can then write
// it (Object.freeze flips the flags of a *valueProperty, element stores write the slice) while
// other Runtimes running the same Program read it.
var InstrEscape = &core.Rule{Name: "R-INSTRESCAPE", Run: runInstrEscape,
	Doc: "in every exec(*vm) method of an instruction type, no value rooted at the receiver whose type is []Value, *valueProperty or a map is stored into memory not rooted at the receiver or passed to a module function that stores its parameter (writes-through summary on the stored-into side), except for the audited names-map flows of R-INSTRALIAS"}

func runInstrEscape(p *core.Prog) *core.Result {
	res := core.NewResult("R-INSTRESCAPE", 0)
	it, err := p.GojaType("instruction")
	if err != nil {
		return res.Fail(err)
	}
	iface := it.Underlying().(*types.Interface)
	fNames, err := p.Field(core.GojaPath, "stash", "names")
	if err != nil {
		return res.Fail(err)
	}
	mutableRef := func(t types.Type) bool {
		switch u := t.Underlying().(type) {
		case *types.Slice:
			return core.IsGojaNamed(u.Elem(), "Value")
		case *types.Pointer:
			return core.IsGojaNamed(u.Elem(), "valueProperty")
		}
		return false
	}
	// storesParam: the callee stores parameter i (itself, as a reference) into memory
	storesParam := func(f *ssa.Function, i int) bool {
		if f == nil || f.Blocks == nil || i >= len(f.Params) {
			return false
		}
		prm := f.Params[i]
		found := false
		core.AllInstrs(f, func(in ssa.Instruction) {
			if st, ok := in.(*ssa.Store); ok && core.Origin(st.Val) == ssa.Value(prm) {
				if _, isAlloc := st.Addr.(*ssa.Alloc); !isAlloc {
					found = true
				}
			}
		})
		return found
	}
	nExec, nFlows := 0, 0
	for _, f := range p.Funcs {
		if f.Name() != "exec" || f.Signature.Recv() == nil || !types.Implements(f.Signature.Recv().Type(), iface) {
			continue
		}
		nExec++
		recv := f.Params[0]
		k := 0
		report := func(in ssa.Instruction, v ssa.Value, how string) {
			k++
			nFlows++
			key := fmt.Sprintf("%s:program-owned %s escapes#%d", core.FuncName(f), core.TypeShort(v.Type()), k)
			res.Bad(key, p.Pos(in.Pos()), fmt.Sprintf("a %s held in the instruction (Program-owned, shared by every Runtime that runs the Program) %s without being copied: script can mutate it in place (Object.freeze / defineProperty write the property flags, element stores write the slice) while another goroutine reads it", core.TypeShort(v.Type()), how))
		}
		core.AllInstrs(f, func(in ssa.Instruction) {
			switch x := in.(type) {
			case *ssa.Store:
				if !mutableRef(x.Val.Type()) {
					return
				}
				if r := core.RootOf(x.Val); r.Param != recv {
					return
				}
				if fa, ok := x.Addr.(*ssa.FieldAddr); ok && core.FieldOf(fa) == fNames {
					return
				}
				if ar := core.RootOf(x.Addr); ar.Param == recv {
					return
				}
				if _, isAlloc := x.Addr.(*ssa.Alloc); isAlloc {
					return
				}
				report(in, x.Val, "is stored into runtime memory")
			case *ssa.Call:
				sc := x.Call.StaticCallee()
				if sc == nil || !p.InModule(sc) {
					return
				}
				off := 0
				for i, a := range x.Call.Args {
					if !mutableRef(a.Type()) {
						continue
					}
					if r := core.RootOf(a); r.Param != recv {
						continue
					}
					if storesParam(sc, i+off) {
						report(in, a, "is handed to "+core.FuncName(sc)+", which keeps the reference")
					}
				}
			}
		})
	}
	res.Count("exec_methods", nExec)
	res.Count("escaping_flows", nFlows)
	if nExec < 200 {
		res.Unknown("floor:exec methods", "", fmt.Sprintf("only %d exec methods analysed", nExec))
	}
	res.OK("analysed", "", fmt.Sprintf("%d exec methods", nExec))
	return res
}

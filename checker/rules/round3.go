package rules

import (
	"fmt"
	"go/token"
	"go/types"

	"gojaverif/core"

	"golang.org/x/tools/go/ssa"
)

// Obligations added after the third round of seeded changes. Each is attached to an existing rule
// family (see the wiring at the end of the respective run functions through runRound3*).

// genCtxPopped (R-GENRESUME): enterNext() pushes a context (vm.pushCtx via enterNext); every
// return of generator.next / nextThrow pops it again, or the idle runtime keeps a call-stack entry
// and every later RunProgram takes the re-entrant branch (jobs never drained, interrupts never
// cleared).
func genCtxPopped(p *core.Prog, res *core.Result) {
	popCtx, err := p.GojaMethod("vm", "popCtx")
	if err != nil {
		res.Fail(err)
		return
	}
	for _, name := range []string{"next", "nextThrow"} {
		fn, err := p.GojaMethod("generator", name)
		if err != nil {
			res.Fail(err)
			return
		}
		pops := core.CallsIn(fn, popCtx)
		n := 0
		core.AllInstrs(fn, func(in ssa.Instruction) {
			r, ok := in.(*ssa.Return)
			if !ok || r.Block() == fn.Recover {
				return
			}
			n++
			key := fmt.Sprintf("(*generator).%s:context popped before return#%d", name, n)
			ok2 := false
			for _, c := range pops {
				if core.InstrDominates(c.(ssa.Instruction), r) {
					ok2 = true
				}
			}
			if ok2 {
				res.OK(key, p.Pos(r.Pos()), "vm.popCtx() on the way")
			} else {
				res.Bad(key, p.Pos(r.Pos()), "this return leaves the context pushed by enterNext() on vm.callStack: the idle runtime keeps one call-stack entry, so every later RunProgram/Callable believes it is nested - promise jobs are never drained again and a pending interrupt is never cleared")
			}
		})
	}
}

// delegationCleared (R-GENSTATE): when the inner iterator of a yield* throws, the delegation is
// over before the exception is thrown into the body (g.delegated = nil precedes nextThrow), or the
// later next/throw/return calls are routed to the abandoned iterator.
func delegationCleared(p *core.Prog, res *core.Result) {
	fn, err := p.GojaMethod("generatorObject", "tryCallDelegated")
	if err != nil {
		res.Fail(err)
		return
	}
	nextThrow, err := p.GojaMethod("generator", "nextThrow")
	if err != nil {
		res.Fail(err)
		return
	}
	fDel, err := p.Field(core.GojaPath, "generatorObject", "delegated")
	if err != nil {
		res.Fail(err)
		return
	}
	var clears []ssa.Instruction
	core.AllInstrs(fn, func(in ssa.Instruction) {
		if st, ok := in.(*ssa.Store); ok {
			if fa, ok := st.Addr.(*ssa.FieldAddr); ok && core.FieldOf(fa) == fDel {
				if c, ok := st.Val.(*ssa.Const); ok && c.IsNil() {
					clears = append(clears, in)
				}
			}
		}
	})
	calls := core.CallsIn(fn, nextThrow)
	if len(calls) == 0 {
		res.Bad("(*generatorObject).tryCallDelegated:throws into the body", p.Pos(fn.Pos()), "the exception of the inner iterator is no longer thrown into the generator body")
		return
	}
	for i, c := range calls {
		key := fmt.Sprintf("(*generatorObject).tryCallDelegated:delegation ended before the throw#%d", i+1)
		ok := false
		for _, cl := range clears {
			if core.InstrDominates(cl, c.(ssa.Instruction)) {
				ok = true
			}
		}
		if ok {
			res.OK(key, p.Pos(c.Pos()), "g.delegated = nil before nextThrow")
		} else {
			res.Bad(key, p.Pos(c.Pos()), "the failing inner iterator stays installed as the yield* delegate while its exception is thrown into the body: if the body catches it and yields, later next(v)/throw(e)/return(v) go to the abandoned iterator instead of the body")
		}
	}
}

// finallyThroughResolve (R-JOBQUEUE): Promise.prototype.finally's reaction functions always go
// through PromiseResolve(C, result).then(...) - the extra ticks are observable ordering.
func finallyThroughResolve(p *core.Prog, res *core.Result) {
	fn, err := p.GojaMethod("Runtime", "promiseProto_finally")
	if err != nil {
		res.Fail(err)
		return
	}
	resolve, err := p.GojaMethod("Runtime", "promiseResolve")
	if err != nil {
		res.Fail(err)
		return
	}
	n := 0
	for _, cl := range fn.AnonFuncs {
		// the handlers are the closures that call onFinally (a func value) - they have a parameter `call`
		if len(core.CallsIn(cl, resolve)) == 0 {
			// is it a handler at all? it must invoke the captured onFinally
			dyn := false
			core.AllInstrs(cl, func(in ssa.Instruction) {
				if c, ok := in.(*ssa.Call); ok && c.Call.StaticCallee() == nil && !c.Call.IsInvoke() {
					dyn = true
				}
			})
			if !dyn {
				continue
			}
		}
		n++
		rcalls := core.CallsIn(cl, resolve)
		k := 0
		core.AllInstrs(cl, func(in ssa.Instruction) {
			r, ok := in.(*ssa.Return)
			if !ok || r.Block() == cl.Recover {
				return
			}
			k++
			key := fmt.Sprintf("%s:settles through PromiseResolve#%d", core.FuncName(cl), k)
			ok2 := false
			for _, c := range rcalls {
				if core.InstrDominates(c.(ssa.Instruction), r) {
					ok2 = true
				}
			}
			if ok2 {
				res.OK(key, p.Pos(r.Pos()), "PromiseResolve(C, onFinally()) on the way")
			} else {
				res.Bad(key, p.Pos(r.Pos()), "a finally() reaction returns without PromiseResolve(C, result).then(...): reactions downstream of finally() run ticks early and overtake other promise chains")
			}
		})
	}
	if n < 2 {
		res.Unknown("(*Runtime).promiseProto_finally:handlers", p.Pos(fn.Pos()), fmt.Sprintf("only %d finally handler closures recognised (thenFinally and catchFinally expected)", n))
	}
}

// drainBuffers (R-JOBQUEUE): leave() swaps two buffers; the slice stored into r.jobQueue while a
// batch runs must not be a re-slice of the batch being iterated (jobs enqueued by the running jobs
// would overwrite the pending ones).
func drainBuffers(p *core.Prog, res *core.Result) {
	fn, err := p.GojaMethod("Runtime", "leave")
	if err != nil {
		res.Fail(err)
		return
	}
	fQ, err := p.Field(core.GojaPath, "Runtime", "jobQueue")
	if err != nil {
		res.Fail(err)
		return
	}
	// the batch being run: the slice indexed inside the inner loop that calls the jobs
	var batch ssa.Value
	core.AllInstrs(fn, func(in ssa.Instruction) {
		if ia, ok := in.(*ssa.IndexAddr); ok {
			if s, ok := ia.X.Type().Underlying().(*types.Slice); ok {
				if _, isFunc := s.Elem().Underlying().(*types.Signature); isFunc {
					batch = core.Origin(ia.X)
				}
			}
		}
	})
	if batch == nil {
		res.Unknown("(*Runtime).leave:batch", p.Pos(fn.Pos()), "the loop running the jobs was not recognised")
		return
	}
	rootSlice := func(v ssa.Value) ssa.Value {
		v = core.Origin(v)
		for i := 0; i < 4; i++ {
			if s, ok := v.(*ssa.Slice); ok {
				v = core.Origin(s.X)
				continue
			}
			break
		}
		return v
	}
	n := 0
	core.AllInstrs(fn, func(in ssa.Instruction) {
		st, ok := in.(*ssa.Store)
		if !ok {
			return
		}
		fa, ok := st.Addr.(*ssa.FieldAddr)
		if !ok || core.FieldOf(fa) != fQ {
			return
		}
		if c, ok := st.Val.(*ssa.Const); ok && c.IsNil() {
			return
		}
		n++
		key := fmt.Sprintf("(*Runtime).leave:queue buffer differs from the running batch#%d", n)
		root := rootSlice(st.Val)
		sameLoad := false
		if l1, ok := root.(*ssa.UnOp); ok {
			if l2, ok := batch.(*ssa.UnOp); ok && l1.Block() == l2.Block() {
				f1, ok1 := l1.X.(*ssa.FieldAddr)
				f2, ok2 := l2.X.(*ssa.FieldAddr)
				if ok1 && ok2 && core.FieldOf(f1) == fQ && core.FieldOf(f2) == fQ {
					sameLoad = true // two reads of r.jobQueue in the same block, before this store
				}
			}
		}
		if root == batch || sameLoad {
			res.Bad(key, p.Pos(st.Pos()), "the live queue is re-sliced from the batch that is being run: a job that enqueues more jobs than have been consumed overwrites pending entries of the batch - a reaction is lost and another runs twice")
		} else {
			res.OK(key, p.Pos(st.Pos()), "the queue continues in the other buffer")
		}
	})
}

// bucketDelete (R-MAPENCAPS): orderedMap.remove deletes the hash bucket only when the removed
// entry was its only member (hPrev == nil and entry.hNext == nil).
func bucketDelete(p *core.Prog, res *core.Result) {
	fn, err := p.GojaMethod("orderedMap", "remove")
	if err != nil {
		res.Fail(err)
		return
	}
	fHNext, err := p.Field(core.GojaPath, "mapEntry", "hNext")
	if err != nil {
		res.Fail(err)
		return
	}
	n := 0
	core.AllInstrs(fn, func(in ssa.Instruction) {
		c, ok := in.(*ssa.Call)
		if !ok {
			return
		}
		if b, ok := c.Call.Value.(*ssa.Builtin); !ok || b.Name() != "delete" {
			return
		}
		n++
		key := fmt.Sprintf("(*orderedMap).remove:bucket deleted only when empty#%d", n)
		prevNil, nextNil := false, false
		for _, cp := range core.ControllingConds(c.Block()) {
			x, nonNil, isNil := core.IsNilCompare(cp.Cond)
			if !isNil || cp.Pol == nonNil {
				continue // we need "is nil"
			}
			x = core.Origin(x)
			if ex, ok := x.(*ssa.Extract); ok && ex.Index == 2 {
				prevNil = true
			}
			if ld, ok := x.(*ssa.UnOp); ok && ld.Op == token.MUL {
				if fa, ok := ld.X.(*ssa.FieldAddr); ok && core.FieldOf(fa) == fHNext {
					nextNil = true
				}
			}
		}
		if prevNil && nextNil {
			res.OK(key, p.Pos(c.Pos()), "under hPrev == nil && entry.hNext == nil")
		} else {
			res.Bad(key, p.Pos(c.Pos()), "the whole hash bucket is deleted although the removed entry has a predecessor or successor in the collision chain: the surviving keys stay in the order list and in size but can no longer be found (has/get/delete miss them, set() adds duplicates)")
		}
	})
	if n == 0 {
		res.Bad("(*orderedMap).remove:bucket deleted only when empty", p.Pos(fn.Pos()), "remove() never deletes an emptied bucket from hashTable")
	}
}

// callStackPushDeferred (R-PAIRDEFER): a boundary function (one with a recovering defer) that
// pushes an entry on vm.callStack removes it in a deferred function.
func callStackPushDeferred(p *core.Prog, res *core.Result) {
	fCS, err := p.Field(core.GojaPath, "vm", "callStack")
	if err != nil {
		res.Fail(err)
		return
	}
	for _, name := range []string{"RunProgram", "runWrapped"} {
		fn, err := p.GojaMethod("Runtime", name)
		if err != nil {
			res.Fail(err)
			return
		}
		isAppendStore := func(in ssa.Instruction) bool {
			st, ok := in.(*ssa.Store)
			if !ok {
				return false
			}
			fa, ok := st.Addr.(*ssa.FieldAddr)
			if !ok || core.FieldOf(fa) != fCS {
				return false
			}
			c, ok := st.Val.(*ssa.Call)
			if !ok {
				return false
			}
			b, ok := c.Call.Value.(*ssa.Builtin)
			return ok && b.Name() == "append"
		}
		truncInDefer := false
		core.AllInstrs(fn, func(in ssa.Instruction) {
			d, ok := in.(*ssa.Defer)
			if !ok {
				return
			}
			if mc, ok := d.Call.Value.(*ssa.MakeClosure); ok {
				core.AllInstrs(mc.Fn.(*ssa.Function), func(in2 ssa.Instruction) {
					if st, ok := in2.(*ssa.Store); ok {
						if fa, ok := st.Addr.(*ssa.FieldAddr); ok && core.FieldOf(fa) == fCS {
							if _, isSlice := st.Val.(*ssa.Slice); isSlice {
								truncInDefer = true
							}
						}
					}
				})
			}
		})
		n := 0
		core.AllInstrs(fn, func(in ssa.Instruction) {
			if !isAppendStore(in) {
				return
			}
			n++
			key := fmt.Sprintf("(*Runtime).%s:callStack push undone in a defer#%d", name, n)
			if truncInDefer {
				res.OK(key, p.Pos(in.Pos()), "the deferred function truncates vm.callStack")
			} else {
				res.Bad(key, p.Pos(in.Pos()), "an entry is pushed on vm.callStack in a boundary function and removed only on the normal path: when an interrupt unwinds through here the recover handler sees a non-empty call stack, skips leaveAbrupt(), and the call stack stays non-empty for ever (every later call returns the stale interrupt)")
			}
		})
	}
}

package rules

import (
	"fmt"
	"go/token"
	"go/types"
	"sort"

	"gojaverif/core"

	"golang.org/x/tools/go/ssa"
)

// R-SPARECAP: arrayObject.values is re-sliced in place both ways. Growing sites
// (arrayObject.expand, unshift, splice) re-slice into spare capacity after a cap() check and rely on
// every slot between len and cap being nil (a nil slot is a hole). So every site that shortens the
// slice in place has to clear what it cuts off, or deleted elements reappear as soon as the array
// grows again.
var SpareCap = &core.Rule{Name: "R-SPARECAP", Run: runSpareCap,
	Doc: "every store to arrayObject.values is classified by the origin of the stored slice: fresh storage, the same slice, an in-place grow under a cap() check, or an in-place shrink; an in-place shrink (re-slice with an upper bound, or append onto a prefix of the old slice) must be preceded by a nil-store / clear() into the old slice (directly dominating, or in a loop whose header dominates the shrink)"}

func runSpareCap(p *core.Prog) *core.Result {
	res := core.NewResult("R-SPARECAP", 8)
	fValues, err := p.Field(core.GojaPath, "arrayObject", "values")
	if err != nil {
		return res.Fail(err)
	}
	// the same discipline holds for valueArrayCache (the per-element wrapper cache of reflect-backed
	// arrays): grow() re-slices into spare capacity, shrink() must clear what it cuts off
	isCachePtr := func(t types.Type) bool {
		pt, ok := t.Underlying().(*types.Pointer)
		return ok && core.IsGojaNamed(pt.Elem(), "valueArrayCache")
	}
	arrOnly := false
	isValuesLoad := func(v ssa.Value) bool {
		ld, ok := v.(*ssa.UnOp)
		if !ok || ld.Op != token.MUL {
			return false
		}
		if isCachePtr(ld.X.Type()) {
			return !arrOnly
		}
		fa, ok := ld.X.(*ssa.FieldAddr)
		return ok && core.FieldOf(fa) == fValues
	}
	isAppend := func(v ssa.Value) *ssa.Call {
		c, ok := v.(*ssa.Call)
		if !ok {
			return nil
		}
		if b, ok := c.Call.Value.(*ssa.Builtin); ok && b.Name() == "append" && len(c.Call.Args) > 0 {
			return c
		}
		return nil
	}
	// derived: v is (a re-slice of / an append onto / a phi over) the current contents of some
	// arrayObject.values. bounded: an upper bound or an append was applied on the way.
	var derived func(v ssa.Value, seen map[ssa.Value]bool) (isDerived, bounded bool)
	derived = func(v ssa.Value, seen map[ssa.Value]bool) (bool, bool) {
		v = core.Origin(v)
		if seen[v] {
			return false, false
		}
		seen[v] = true
		if isValuesLoad(v) {
			return true, false
		}
		switch x := v.(type) {
		case *ssa.Slice:
			d, b := derived(x.X, seen)
			return d, b || (d && x.High != nil)
		case *ssa.Phi:
			anyD, anyB := false, false
			for _, e := range x.Edges {
				d, b := derived(e, seen)
				anyD = anyD || d
				anyB = anyB || b
			}
			return anyD, anyB
		case *ssa.Call:
			if c := isAppend(x); c != nil {
				d, b := derived(c.Call.Args[0], seen)
				return d, b
			}
		}
		return false, false
	}
	isDerived := func(v ssa.Value) bool {
		d, _ := derived(v, map[ssa.Value]bool{})
		return d
	}
	capCheck := func(b *ssa.BasicBlock) bool {
		for _, cp := range core.ControllingConds(b) {
			bo, ok := cp.Cond.(*ssa.BinOp)
			if !ok {
				continue
			}
			for _, op := range []ssa.Value{bo.X, bo.Y} {
				o := op
				for i := 0; i < 3; i++ {
					if cv, ok := o.(*ssa.Convert); ok {
						o = cv.X
					}
				}
				if c, ok := o.(*ssa.Call); ok {
					if bi, ok := c.Call.Value.(*ssa.Builtin); ok && bi.Name() == "cap" && isDerived(c.Call.Args[0]) {
						return true
					}
				}
			}
		}
		return false
	}
	// clearing instructions of a function: nil stored into an element of the values slice, or clear()
	clearers := func(fn *ssa.Function) []ssa.Instruction {
		var out []ssa.Instruction
		core.AllInstrs(fn, func(in ssa.Instruction) {
			switch x := in.(type) {
			case *ssa.Store:
				c, ok := x.Val.(*ssa.Const)
				if !ok || !c.IsNil() {
					return
				}
				if ia, ok := x.Addr.(*ssa.IndexAddr); ok && isDerived(ia.X) {
					out = append(out, in)
				}
			case *ssa.Call:
				if bi, ok := x.Call.Value.(*ssa.Builtin); ok && bi.Name() == "clear" && len(x.Call.Args) == 1 && isDerived(x.Call.Args[0]) {
					out = append(out, in)
				}
			}
		})
		return out
	}
	cleared := func(fn *ssa.Function, at ssa.Instruction) (bool, string) {
		for _, c := range clearers(fn) {
			if core.InstrDominates(c, at) {
				return true, "cut-off slot set to nil at " + p.Pos(c.Pos())
			}
			// in a loop whose header dominates the shrink
			cb := c.Block()
			for h := at.Block(); h != nil; h = h.Idom() {
				if h.Dominates(cb) && h != cb && core.Reaches(cb, h) {
					return true, "tail cleared by the loop at " + p.Pos(c.Pos())
				}
				if h == cb && core.Reaches(cb, cb) && h != at.Block() {
					return true, "tail cleared by the loop at " + p.Pos(c.Pos())
				}
			}
		}
		return false, ""
	}

	nShrink, nGrow := 0, 0
	seq := map[string]int{}
	removers := map[*ssa.Function]ssa.Instruction{} // functions that take elements out of .values
	writes := append([]*core.FieldWrite{}, p.FieldWrites(fValues)...)
	cacheFns := map[*ssa.Function]bool{}
	for _, fn := range p.Funcs {
		if !p.InModule(fn) {
			continue
		}
		core.AllInstrs(fn, func(in ssa.Instruction) {
			if st, ok := in.(*ssa.Store); ok && isCachePtr(st.Addr.Type()) {
				writes = append(writes, &core.FieldWrite{Instr: in, Fn: fn, Kind: "store", Val: st.Val})
				cacheFns[fn] = true
			}
		})
	}
	for _, w := range writes {
		if w.Kind != "store" || w.Val == nil {
			continue
		}
		// leaves of the stored value
		var leaves []ssa.Value
		var expand func(v ssa.Value, seen map[ssa.Value]bool)
		expand = func(v ssa.Value, seen map[ssa.Value]bool) {
			v = core.Origin(v)
			if seen[v] {
				return
			}
			seen[v] = true
			if ph, ok := v.(*ssa.Phi); ok {
				for _, e := range ph.Edges {
					expand(e, seen)
				}
				return
			}
			leaves = append(leaves, v)
		}
		expand(w.Val, map[ssa.Value]bool{})
		for _, l := range leaves {
			base := fmt.Sprintf("%s:store to .values", core.FuncName(w.Fn))
			seq[base]++
			key := base
			if seq[base] > 1 {
				key = fmt.Sprintf("%s#%d", base, seq[base])
			}
			pos := p.Pos(w.Instr.Pos())
			d, bounded := derived(l, map[ssa.Value]bool{})
			switch {
			case !d:
				res.OK(key, pos, "fresh or caller-provided storage")
			case !bounded:
				res.OK(key, pos, "the same slice, or a suffix of it (spare capacity untouched)")
			default:
				li, _ := l.(ssa.Instruction)
				if li == nil {
					res.Unknown(key, pos, "bounded re-slice that is not an instruction")
					continue
				}
				if ap := isAppend(l); ap != nil {
					// append(a.values, x...) onto the full slice only grows
					if _, b := derived(ap.Call.Args[0], map[ssa.Value]bool{}); !b {
						res.OK(key, pos, "append onto the whole slice only grows")
						continue
					}
				}
				if capCheck(li.Block()) {
					nGrow++
					res.OK(key, pos, "in-place grow under a cap() check (relies on nil spare capacity)")
					continue
				}
				nShrink++
				if _, ok := removers[w.Fn]; !ok {
					removers[w.Fn] = li
				}
				if ok, how := cleared(w.Fn, li); ok {
					res.OK(key, pos, "in-place shrink; "+how)
				} else {
					res.Bad(key, pos, fmt.Sprintf("arrayObject.values is shortened in place at %s (re-slice/append over the old backing array) without setting the cut-off slots to nil; arrayObject.expand and the other grow-into-capacity sites re-slice into that capacity assuming it is nil, so the removed elements reappear when the array grows", p.Pos(li.Pos())))
				}
			}
		}
	}
	// objCount agreement: checkStdArrayObj() takes objCount == length == len(values) as proof that the
	// array has no holes, so objCount must never over-count: whoever removes elements (in-place
	// shrink, or nil stored into a slot) also adjusts objCount.
	fObjCount, err := p.Field(core.GojaPath, "arrayObject", "objCount")
	if err != nil {
		return res.Fail(err)
	}
	for _, fn := range p.Funcs {
		if !p.InModule(fn) {
			continue
		}
		if cacheFns[fn] {
			continue
		}
		arrOnly = true
		cl := clearers(fn)
		arrOnly = false
		for _, c := range cl {
			if _, ok := removers[fn]; !ok {
				removers[fn] = c
			}
		}
	}
	writesObjCount := func(fn *ssa.Function) bool {
		found := false
		var visit func(f *ssa.Function, depth int)
		visit = func(f *ssa.Function, depth int) {
			core.AllInstrs(f, func(in ssa.Instruction) {
				if found {
					return
				}
				if st, ok := in.(*ssa.Store); ok {
					if fa, ok := st.Addr.(*ssa.FieldAddr); ok && core.FieldOf(fa) == fObjCount {
						found = true
					}
				}
				if depth < 2 {
					if c, ok := in.(ssa.CallInstruction); ok {
						if sc := c.Common().StaticCallee(); sc != nil && p.InModule(sc) {
							visit(sc, depth+1)
						}
					}
				}
			})
		}
		visit(fn, 0)
		return found
	}
	var rfns []*ssa.Function
	for fn := range removers {
		if !cacheFns[fn] {
			rfns = append(rfns, fn)
		}
	}
	sort.Slice(rfns, func(i, j int) bool { return core.FuncName(rfns[i]) < core.FuncName(rfns[j]) })
	for _, fn := range rfns {
		key := core.FuncName(fn) + ":objCount adjusted"
		pos := p.Pos(removers[fn].Pos())
		if writesObjCount(fn) {
			res.OK(key, pos, "the function that removes elements from .values also updates objCount")
			// per site: every store to .values in such a function is covered by an objCount update
			// (one that dominates it, one in a loop whose header dominates it, or one that follows
			// it on every path to a return)
			var ocStores []ssa.Instruction
			core.AllInstrs(fn, func(in ssa.Instruction) {
				if st, ok := in.(*ssa.Store); ok {
					if fa, ok := st.Addr.(*ssa.FieldAddr); ok && core.FieldOf(fa) == fObjCount {
						ocStores = append(ocStores, in)
					}
				}
			})
			if len(ocStores) == 0 {
				continue // updated through a callee
			}
			k := 0
			for _, w := range p.FieldWrites(fValues) {
				if w.Fn != fn || w.Kind != "store" {
					continue
				}
				k++
				skey := fmt.Sprintf("%s:objCount covers store to .values#%d", core.FuncName(fn), k)
				covered := ""
				for _, oc := range ocStores {
					switch {
					case core.InstrDominates(oc, w.Instr):
						covered = "updated before, at " + p.Pos(oc.Pos())
					case core.InstrDominates(w.Instr, oc) && (w.Instr.Block() == oc.Block() || !reachesReturnAvoiding(w.Instr.Block(), oc.Block())):
						covered = "updated after on every path, at " + p.Pos(oc.Pos())
					default:
						ob := oc.Block()
						for h := w.Instr.Block(); h != nil; h = h.Idom() {
							if h != ob && h.Dominates(ob) && core.Reaches(ob, h) {
								covered = "updated by the loop at " + p.Pos(oc.Pos())
							}
						}
					}
					if covered != "" {
						break
					}
				}
				if covered != "" {
					res.OK(skey, p.Pos(w.Instr.Pos()), covered)
				} else {
					res.Bad(skey, p.Pos(w.Instr.Pos()), "this function removes elements and maintains objCount, but on the path through this store to .values no objCount update happens (a truncation that copies into a smaller slice, say): objCount over-counts afterwards and an array with holes can pass checkStdArrayObj()")
				}
			}
		} else {
			res.Bad(key, pos, "elements are removed from arrayObject.values here but objCount is never adjusted: it over-counts from then on, and a later sparse write can make objCount == length == len(values) hold for an array with holes, which checkStdArrayObj() takes as proof of a dense array (fast paths then read nil elements)")
		}
	}
	// objCount exactness on bulk assignment: `a.objCount = len(p)` for a caller-provided []Value
	// over-counts when p has holes (nil), unless the function scans p for nil.
	for _, w := range p.FieldWrites(fObjCount) {
		if w.Kind != "store" || w.Val == nil {
			continue
		}
		c, ok := core.Origin(w.Val).(*ssa.Call)
		if !ok {
			continue
		}
		if b, ok := c.Call.Value.(*ssa.Builtin); !ok || b.Name() != "len" {
			continue
		}
		prm, ok := core.Origin(c.Call.Args[0]).(*ssa.Parameter)
		if !ok {
			continue
		}
		sl, ok := prm.Type().Underlying().(*types.Slice)
		if !ok || !core.IsGojaNamed(sl.Elem(), "Value") {
			continue
		}
		key := core.FuncName(w.Fn) + ":objCount = len(" + prm.Name() + ")"
		res.Bad(key, p.Pos(w.Instr.Pos()), "objCount is set to the length of a caller-provided []Value without counting the nil (hole) elements: a result with holes (e.g. [1,,3].map(f)) then passes checkStdArrayObj() as a dense array and the fast paths read nil elements")
	}
	res.Count("element-removing functions", len(rfns))
	res.Count("in-place shrink sites", nShrink)
	res.Count("in-place grow sites", nGrow)
	if nShrink < 4 {
		res.Unknown("floor:shrink sites", "", fmt.Sprintf("only %d in-place shrink sites recognised (confirmed by hand: _setLengthInt, pop, shift, splice)", nShrink))
	}
	if nGrow < 3 {
		res.Unknown("floor:grow sites", "", fmt.Sprintf("only %d in-place grow sites recognised (confirmed by hand: expand, unshift, splice)", nGrow))
	}
	return res
}

// R-LENWRITABLE: ArraySetLength steps 17/19: {value: N, writable: false} on an array whose
// truncation is blocked by a non-configurable element still makes length non-writable - the
// [[Writable]] change is deferred, never dropped. In defineArrayLength this shows in the shape of
// the code: after the storage's length setter was called every path to a return consults
// descr.Writable.
var LenWritable = &core.Rule{Name: "R-LENWRITABLE", Run: runLenWritable,
	Doc: "must-pass-through in (*Runtime).defineArrayLength: every path from the call of the storage-specific length setter to a return passes a read of descr.Writable (panicking exits excluded)"}

func runLenWritable(p *core.Prog) *core.Result {
	res := core.NewResult("R-LENWRITABLE", 1)
	fn, err := p.GojaMethod("Runtime", "defineArrayLength")
	if err != nil {
		return res.Fail(err)
	}
	fW, err := p.Field(core.GojaPath, "PropertyDescriptor", "Writable")
	if err != nil {
		return res.Fail(err)
	}
	var setter *ssa.Parameter
	for _, prm := range fn.Params {
		if _, ok := prm.Type().Underlying().(*types.Signature); ok {
			setter = prm
		}
	}
	if setter == nil {
		return res.Failf("unresolved anchor: defineArrayLength has no func-typed parameter")
	}
	reads := map[*ssa.BasicBlock]int{} // block -> index of the first read of descr.Writable
	for _, b := range fn.Blocks {
		for i, in := range b.Instrs {
			if fa, ok := in.(*ssa.FieldAddr); ok && core.FieldOf(fa) == fW {
				if _, seen := reads[b]; !seen {
					reads[b] = i
				}
			}
			if f, ok := in.(*ssa.Field); ok {
				if st, ok := f.X.Type().Underlying().(*types.Struct); ok && st.Field(f.Field) == fW {
					if _, seen := reads[b]; !seen {
						reads[b] = i
					}
				}
			}
		}
	}
	n := 0
	for _, b := range fn.Blocks {
		for i, in := range b.Instrs {
			c, ok := in.(*ssa.Call)
			if !ok || core.Origin(c.Call.Value) != ssa.Value(setter) {
				continue
			}
			n++
			key := fmt.Sprintf("defineArrayLength:setter call#%d", n)
			if ri, ok := reads[b]; ok && ri > i {
				res.OK(key, p.Pos(c.Pos()), "descr.Writable read later in the same block")
				continue
			}
			// search for a return reachable without a read
			seen := map[*ssa.BasicBlock]bool{}
			var bad *ssa.BasicBlock
			var walk func(x *ssa.BasicBlock)
			walk = func(x *ssa.BasicBlock) {
				if seen[x] || bad != nil {
					return
				}
				seen[x] = true
				if _, ok := reads[x]; ok {
					return
				}
				if len(x.Instrs) > 0 {
					if _, isRet := x.Instrs[len(x.Instrs)-1].(*ssa.Return); isRet {
						bad = x
						return
					}
				}
				if p.FirstNoReturn(x) >= 0 {
					return
				}
				for _, s := range x.Succs {
					walk(s)
				}
			}
			for _, s := range b.Succs {
				walk(s)
			}
			if bad != nil {
				res.Bad(key, p.Pos(c.Pos()), fmt.Sprintf("a path from the length setter call to the return at %s never reads descr.Writable: when the truncation is blocked by a non-configurable element a requested writable:false is dropped and length stays writable (ArraySetLength defers that change, it does not drop it)", p.Pos(bad.Instrs[len(bad.Instrs)-1].Pos())))
			} else {
				res.OK(key, p.Pos(c.Pos()), "every path to a return reads descr.Writable")
			}
		}
	}
	if n == 0 {
		return res.Failf("unresolved anchor: no call of the setter parameter in defineArrayLength")
	}
	return res
}

// R-SORTBOUND: Array.prototype.sort sorts Go-backed arrays in place through arraySortCtx while the
// comparator (user code) runs between the element accesses; sort.Stable reads Len() once. Every
// access by index therefore has to be guarded by a comparison with the current sortLen().
var SortBound = &core.Rule{Name: "R-SORTBOUND", Run: runSortBound,
	Doc: "in the sort.Interface methods of arraySortCtx every invoke of sortable.sortGet/swap is control-dependent on a comparison involving the result of sortable.sortLen() read in the same method"}

func runSortBound(p *core.Prog) *core.Result {
	res := core.NewResult("R-SORTBOUND", 3)
	for _, mname := range []string{"Less", "Swap"} {
		fn, err := p.GojaMethod("arraySortCtx", mname)
		if err != nil {
			return res.Fail(err)
		}
		isLen := func(v ssa.Value) bool {
			c, ok := v.(*ssa.Call)
			return ok && c.Call.IsInvoke() && c.Call.Method.Name() == "sortLen"
		}
		n := 0
		core.AllInstrs(fn, func(in ssa.Instruction) {
			c, ok := in.(*ssa.Call)
			if !ok || !c.Call.IsInvoke() {
				return
			}
			m := c.Call.Method.Name()
			if m != "sortGet" && m != "swap" {
				return
			}
			n++
			key := fmt.Sprintf("(*arraySortCtx).%s:%s#%d", mname, m, n)
			guarded := false
			for _, cp := range core.ControllingConds(c.Block()) {
				if bo, ok := cp.Cond.(*ssa.BinOp); ok && (isLen(bo.X) || isLen(bo.Y)) {
					guarded = true
				}
			}
			if guarded {
				res.OK(key, p.Pos(c.Pos()), "index compared with the current sortLen()")
			} else {
				res.Bad(key, p.Pos(c.Pos()), "element access by an index sort.Stable derived from the length read before the comparator ran; the comparator can truncate a Go-backed array (a.pop(), a.length=0), which makes this a Go index-out-of-range panic escaping to the host")
			}
		})
		if n == 0 {
			return res.Failf("unresolved anchor: no sortGet/swap invoke in (*arraySortCtx).%s", mname)
		}
	}
	return res
}

// reachesReturnAvoiding: can a return be reached from block `from` without passing block `avoid`?
func reachesReturnAvoiding(from, avoid *ssa.BasicBlock) bool {
	seen := map[*ssa.BasicBlock]bool{}
	var walk func(b *ssa.BasicBlock) bool
	walk = func(b *ssa.BasicBlock) bool {
		if b == avoid || seen[b] {
			return false
		}
		seen[b] = true
		if len(b.Instrs) > 0 {
			if _, ok := b.Instrs[len(b.Instrs)-1].(*ssa.Return); ok {
				return true
			}
		}
		for _, s := range b.Succs {
			if walk(s) {
				return true
			}
		}
		return false
	}
	for _, s := range from.Succs {
		if walk(s) {
			return true
		}
	}
	if len(from.Instrs) > 0 {
		if _, ok := from.Instrs[len(from.Instrs)-1].(*ssa.Return); ok && from != avoid {
			return true
		}
	}
	return false
}

package rules

import (
	"fmt"
	"go/token"
	"go/types"

	"gojaverif/core"

	"golang.org/x/tools/go/ssa"
)

// R-BOUNDARY: the Go-boundary wrappers that turn an uncatchable payload into an error
// return must restore the idle state: leaveAbrupt() (drop jobs, clear the interrupt flag)
// when the call stack is empty on the abrupt path, leave() (drain jobs) or clearStack()
// on the normal path.
var Boundary = &core.Rule{Name: "R-BOUNDARY", Run: runBoundary,
	Doc: "must-pass-through at Go/JS boundary wrappers: uncatchable branch reaches leaveAbrupt guarded only by an empty call stack; normal exit reaches leave()/clearStack(); leaveAbrupt clears jobQueue and the interrupt flag"}

func isRecoverCall(v ssa.Value) bool {
	c, ok := v.(*ssa.Call)
	if !ok {
		return false
	}
	b, ok := c.Call.Value.(*ssa.Builtin)
	return ok && b.Name() == "recover"
}

func runBoundary(p *core.Prog) *core.Result {
	res := core.NewResult("R-BOUNDARY", 8)
	asUnc, err := p.GojaFunc("asUncatchableException")
	if err != nil {
		return res.Fail(err)
	}
	leaveAbrupt, err := p.GojaMethod("Runtime", "leaveAbrupt")
	if err != nil {
		return res.Fail(err)
	}
	leave, err := p.GojaMethod("Runtime", "leave")
	if err != nil {
		return res.Fail(err)
	}
	clearStack, err := p.GojaMethod("vm", "clearStack")
	if err != nil {
		return res.Fail(err)
	}
	clearInterrupt, err := p.GojaMethod("Runtime", "ClearInterrupt")
	if err != nil {
		return res.Fail(err)
	}
	callStack, err := p.Field(core.GojaPath, "vm", "callStack")
	if err != nil {
		return res.Fail(err)
	}
	jobQueue, err := p.Field(core.GojaPath, "Runtime", "jobQueue")
	if err != nil {
		return res.Fail(err)
	}

	// classify a controlling condition
	const (
		cRecovered    = "recover()!=nil"
		cUncatchable  = "asUncatchableException(x)!=nil"
		cForeign      = "asUncatchableException(x)==nil"
		cStackEmpty   = "len(callStack)==0"
		cNotRecursive = "!recursive (len(callStack)>0 at entry)"
		cOther        = "other"
	)
	isLenCallStack := func(v ssa.Value) bool {
		c, ok := v.(*ssa.Call)
		if !ok {
			return false
		}
		b, ok := c.Call.Value.(*ssa.Builtin)
		if !ok || b.Name() != "len" {
			return false
		}
		ld, ok := c.Call.Args[0].(*ssa.UnOp)
		return ok && ld.Op == token.MUL && core.FieldOf(ld.X) == callStack
	}
	var classify func(cp core.CondPol) string
	classify = func(cp core.CondPol) string {
		if x, nonNil, ok := core.IsNilCompare(cp.Cond); ok {
			pol := cp.Pol == nonNil // true => x is non-nil here
			if isRecoverCall(x) && pol {
				return cRecovered
			}
			if c, ok := x.(*ssa.Call); ok && c.Call.StaticCallee() == asUnc {
				if pol {
					return cUncatchable
				}
				return cForeign
			}
			return cOther
		}
		if b, ok := cp.Cond.(*ssa.BinOp); ok {
			if k, okc := core.IntConst(b.Y); okc && k == 0 && isLenCallStack(b.X) {
				switch {
				case b.Op == token.EQL && cp.Pol, b.Op == token.NEQ && !cp.Pol, b.Op == token.GTR && !cp.Pol:
					return cStackEmpty
				}
				return cOther
			}
		}
		// a captured/local bool `recursive` whose only definition is len(callStack) > 0
		v := cp.Cond
		if ld, ok := v.(*ssa.UnOp); ok && ld.Op == token.MUL {
			// load of a captured variable cell: find the unique store in the enclosing function
			var cell ssa.Value = ld.X
			if fv, ok := cell.(*ssa.FreeVar); ok {
				parent := fv.Parent().Parent()
				idx := -1
				for i, f := range fv.Parent().FreeVars {
					if f == fv {
						idx = i
					}
				}
				cell = nil
				if parent != nil && idx >= 0 {
					core.AllInstrs(parent, func(in ssa.Instruction) {
						if mc, ok := in.(*ssa.MakeClosure); ok && mc.Fn == fv.Parent() && idx < len(mc.Bindings) {
							cell = mc.Bindings[idx]
						}
					})
				}
			}
			if cell != nil {
				var stores []*ssa.Store
				for _, r := range core.Referrers(cell) {
					if st, ok := r.(*ssa.Store); ok && st.Addr == cell {
						stores = append(stores, st)
					}
				}
				if len(stores) == 1 {
					v = stores[0].Val
				}
			}
		}
		if b, ok := v.(*ssa.BinOp); ok && b.Op == token.GTR && isLenCallStack(b.X) {
			if k, okc := core.IntConst(b.Y); okc && k == 0 && !cp.Pol {
				return cNotRecursive
			}
		}
		return cOther
	}
	condSet := func(b *ssa.BasicBlock) (map[string]int, []string) {
		m := map[string]int{}
		var others []string
		for _, cp := range core.ControllingConds(b) {
			c := classify(cp)
			m[c]++
			if c == cOther {
				others = append(others, fmt.Sprintf("%s is %v", cp.Cond.String(), cp.Pol))
			}
		}
		return m, others
	}

	nBoundary := 0
	for _, f := range p.Funcs {
		calls := core.CallsIn(f, asUnc)
		if len(calls) == 0 {
			continue
		}
		hasRecover := false
		core.AllInstrs(f, func(in ssa.Instruction) {
			if v, ok := in.(ssa.Value); ok && isRecoverCall(v) {
				hasRecover = true
			}
		})
		if !hasRecover {
			continue
		}
		nBoundary++
		top := core.EnclosingTop(f)
		name := core.FuncName(top)
		// abrupt path
		las := core.CallsIn(f, leaveAbrupt)
		key := name + ":abrupt->leaveAbrupt"
		if len(las) == 0 {
			res.Bad(key, p.Pos(calls[0].Pos()), "recover handler converts an uncatchable payload (interrupt, stack overflow) into an error return but never calls leaveAbrupt(): queued promise jobs of the interrupted run survive and the interrupt flag stays set, so the next call returns the stale InterruptedError")
		}
		nFor, nAbr := 0, 0
		for _, la := range las {
			cs, others := condSet(la.Block())
			if cs[cForeign] > 0 && cs[cUncatchable] == 0 {
				// clean-up before a foreign Go panic is passed on: same guard discipline
				k3 := name + ":foreign->leaveAbrupt"
				switch {
				case len(others) > 0:
					res.Bad(k3, p.Pos(la.Pos()), fmt.Sprintf("leaveAbrupt() on the foreign-panic path is guarded by an extra condition (%v)", others))
				case cs[cRecovered] == 0:
					res.Bad(k3, p.Pos(la.Pos()), "leaveAbrupt() is not on the recovered path")
				case cs[cStackEmpty] == 0 && cs[cNotRecursive] == 0:
					res.Bad(k3, p.Pos(la.Pos()), "leaveAbrupt() on the foreign-panic path is not guarded by an empty call stack")
				default:
					nFor++
					res.OK(k3, p.Pos(la.Pos()), "a foreign Go panic passing the outermost boundary drops the run's execution state first")
				}
				continue
			}
			switch {
			case len(others) > 0:
				res.Bad(key, p.Pos(la.Pos()), fmt.Sprintf("leaveAbrupt() is guarded by an extra condition (%v): some interrupted outermost calls keep their job queue / interrupt flag", others))
			case cs[cRecovered] == 0 || cs[cUncatchable] == 0:
				res.Bad(key, p.Pos(la.Pos()), "leaveAbrupt() is not on the branch where the recovered payload was classified uncatchable")
			case cs[cStackEmpty] == 0 && cs[cNotRecursive] == 0:
				res.Bad(key, p.Pos(la.Pos()), "leaveAbrupt() is not guarded by an empty call stack: a nested call would drop the outer run's jobs and clear an interrupt meant for it")
			default:
				nAbr++
				res.OK(key, p.Pos(la.Pos()), "uncatchable branch reaches leaveAbrupt() guarded only by the empty call stack")
			}
		}
		if nAbr == 0 && len(las) > 0 {
			// leaveAbrupt() exists, but only on the foreign-panic path
			res.Bad(key, p.Pos(calls[0].Pos()), "the branch that converts an uncatchable payload (interrupt, stack overflow) into an error return does not call leaveAbrupt() (only the foreign-panic branch does): queued promise jobs of the interrupted run survive and the interrupt flag stays set")
		}
		if nFor == 0 {
			res.Bad(name+":foreign->leaveAbrupt", p.Pos(calls[0].Pos()), "a Go panic that is neither a JS exception nor an uncatchable error (a host callback that panicked) is re-panicked from the outermost boundary without leaveAbrupt(): vm.prg stays set (phantom frame in later stack traces) and the promise jobs queued by the aborted run execute during the next call")
		}
		// the uncatchable-branch must not have a path that skips both leaveAbrupt and the stack test:
		// the stack-empty If must be controlled by nothing but {recovered, uncatchable}
		for _, la := range las {
			for _, cp := range core.ControllingConds(la.Block()) {
				if c := classify(cp); c == cStackEmpty || c == cNotRecursive {
					cs, others := condSet(cp.If.Block())
					k2 := name + ":abrupt-stack-test"
					if len(others) > 0 || (cs[cUncatchable] == 0 && cs[cForeign] == 0) {
						res.Bad(k2, p.Pos(cp.If.Pos()), fmt.Sprintf("the call-stack test guarding leaveAbrupt() is itself conditional (%v)", others))
					} else {
						res.OK(k2, p.Pos(cp.If.Pos()), "call-stack test evaluated on every uncatchable path")
					}
				}
			}
		}
		// non-uncatchable payloads must be re-panicked with the same value
		key = name + ":foreign-repanic"
		repanicked := false
		core.AllInstrs(f, func(in ssa.Instruction) {
			if pn, ok := in.(*ssa.Panic); ok && isRecoverCall(pn.X) {
				cs, _ := condSet(pn.Block())
				if cs[cRecovered] > 0 && cs[cUncatchable] == 0 {
					repanicked = true
				}
			}
		})
		if repanicked {
			res.OK(key, p.Pos(f.Pos()), "payloads that are not uncatchable exceptions are re-panicked unchanged")
		} else {
			res.Bad(key, p.Pos(f.Pos()), "recover handler does not re-panic payloads that fail the uncatchable classification: a foreign Go panic or a JS exception would be swallowed")
		}
		// normal path of the enclosing function
		key = name + ":normal->leave"
		lv := core.CallsIn(top, leave)
		cl := core.CallsIn(top, clearStack)
		if len(lv) == 0 {
			res.Bad(key, p.Pos(top.Pos()), "boundary function never calls leave(): promise jobs are not drained before control returns to Go")
			continue
		}
		ok := true
		for _, l := range lv {
			cs, others := condSet(l.Block())
			if len(others) > 0 || (cs[cStackEmpty] == 0 && cs[cNotRecursive] == 0) {
				ok = false
				res.Bad(key, p.Pos(l.Pos()), fmt.Sprintf("leave() must run exactly when the call stack is empty; controlling conditions here: %v %v", cs, others))
			}
		}
		// every return of the function must be preceded by leave or clearStack (both arms of the stack test)
		var rets []*ssa.BasicBlock
		for _, b := range top.Blocks {
			if len(b.Instrs) > 0 {
				if _, isRet := b.Instrs[len(b.Instrs)-1].(*ssa.Return); isRet {
					rets = append(rets, b)
				}
			}
		}
		for _, rb := range rets {
			if !allPathsPass(top, rb, func(in ssa.Instruction) bool {
				if _, ok := core.CallTo(in, leave); ok {
					return true
				}
				_, ok := core.CallTo(in, clearStack)
				return ok
			}) {
				ok = false
				res.Bad(key, p.Pos(rb.Instrs[len(rb.Instrs)-1].Pos()), "a normal return is reachable without passing leave() or clearStack()")
			}
		}
		if ok {
			res.OK(key, p.Pos(lv[0].Pos()), fmt.Sprintf("every normal return passes leave() (empty call stack) or clearStack() (%d clearStack sites)", len(cl)))
		}
	}
	res.Count("boundary_functions", nBoundary)

	// leaveAbrupt / leave effects
	writesNil := func(fn *ssa.Function, fv *types.Var) bool {
		ok := false
		for _, s := range fieldStores(fn) {
			if s.field == fv {
				if c, isc := s.val.(*ssa.Const); isc && c.Value == nil {
					ok = true
				}
			}
		}
		return ok
	}
	if writesNil(leaveAbrupt, jobQueue) {
		res.OK("leaveAbrupt:jobQueue=nil", p.Pos(leaveAbrupt.Pos()), "drops queued jobs")
	} else {
		res.Bad("leaveAbrupt:jobQueue=nil", p.Pos(leaveAbrupt.Pos()), "leaveAbrupt() does not reset Runtime.jobQueue: jobs of an interrupted run execute during the next call")
	}
	if len(core.CallsIn(leaveAbrupt, clearInterrupt)) > 0 {
		res.OK("leaveAbrupt:ClearInterrupt", p.Pos(leaveAbrupt.Pos()), "clears the interrupt flag")
	} else {
		res.Bad("leaveAbrupt:ClearInterrupt", p.Pos(leaveAbrupt.Pos()), "leaveAbrupt() does not call ClearInterrupt(): the next call is interrupted again")
	}
	if writesNil(leave, jobQueue) {
		res.OK("leave:jobQueue=nil", p.Pos(leave.Pos()), "queue released after draining")
	} else {
		res.Bad("leave:jobQueue=nil", p.Pos(leave.Pos()), "leave() does not reset Runtime.jobQueue after draining")
	}
	return res
}

// allPathsPass: every path from the entry block to `target` executes an instruction satisfying pred.
func allPathsPass(f *ssa.Function, target *ssa.BasicBlock, pred func(ssa.Instruction) bool) bool {
	// search for a path entry→target that avoids pred-blocks
	blocked := func(b *ssa.BasicBlock) bool {
		for _, in := range b.Instrs {
			if pred(in) {
				return true
			}
		}
		return false
	}
	seen := map[*ssa.BasicBlock]bool{}
	var walk func(b *ssa.BasicBlock) bool // true if target reached avoiding pred
	walk = func(b *ssa.BasicBlock) bool {
		if seen[b] {
			return false
		}
		seen[b] = true
		if blocked(b) {
			return false
		}
		if b == target {
			return true
		}
		for _, s := range b.Succs {
			if walk(s) {
				return true
			}
		}
		return false
	}
	return !walk(f.Blocks[0])
}

package rules

import (
	"fmt"
	"go/constant"
	"go/token"
	"go/types"
	"sort"
	"strings"

	"gojaverif/core"

	"golang.org/x/tools/go/ssa"
)

// Operand-stack effect of VM instructions, derived from the exec methods.
//
// For a function that receives the *vm, the analysis enumerates the acyclic paths from the
// entry to every normal return and sums the constant adjustments of vm.sp along them
// (vm.sp++ / vm.sp-- / vm.sp += c / vm.sp -= c, and calls to vm helpers with a known effect such
// as push and pop). Paths that end in a Go panic, a call that never returns, or a call to
// vm.throw / vm.handleThrow are not counted (control leaves the straight line). An assignment
// of any other form to vm.sp, or a path budget overrun, makes the effect unknown.
//
// The effect of an instruction type is the set of deltas over its normal paths; an instruction
// with a one-element set has a *constant* effect and can be used to type emitted sequences.

type spEffect struct {
	Known bool
	Vals  []int // sorted, distinct
}

func (e spEffect) String() string {
	if !e.Known {
		return "?"
	}
	var s []string
	for _, v := range e.Vals {
		s = append(s, fmt.Sprintf("%+d", v))
	}
	return "{" + strings.Join(s, ",") + "}"
}

func (e spEffect) Const() (int, bool) {
	if e.Known && len(e.Vals) == 1 {
		return e.Vals[0], true
	}
	return 0, false
}

type spAnalysis struct {
	p       *core.Prog
	spField *types.Var
	vmPtr   types.Type
	throwFn map[*ssa.Function]bool
	memo    map[*ssa.Function]*spEffect
	busy    map[*ssa.Function]bool
}

func newSpAnalysis(p *core.Prog) (*spAnalysis, error) { return newVMCounterAnalysis(p, "sp") }

// newVMCounterAnalysis: the same path summation for any integer register of the vm ("sp", "pc").
func newVMCounterAnalysis(p *core.Prog, field string) (*spAnalysis, error) {
	sp, err := p.Field(core.GojaPath, "vm", field)
	if err != nil {
		return nil, err
	}
	vmT, err := p.GojaType("vm")
	if err != nil {
		return nil, err
	}
	a := &spAnalysis{p: p, spField: sp, vmPtr: types.NewPointer(vmT), throwFn: map[*ssa.Function]bool{}, memo: map[*ssa.Function]*spEffect{}, busy: map[*ssa.Function]bool{}}
	for _, n := range []string{"throw", "handleThrow"} {
		f, err := p.GojaMethod("vm", n)
		if err != nil {
			return nil, err
		}
		a.throwFn[f] = true
	}
	return a, nil
}

func (a *spAnalysis) takesVM(f *ssa.Function) bool {
	for _, prm := range f.Params {
		if types.Identical(prm.Type(), a.vmPtr) {
			return true
		}
	}
	return false
}

const spPathBudget = 4000

func (a *spAnalysis) of(f *ssa.Function) spEffect {
	if e, ok := a.memo[f]; ok {
		return *e
	}
	if a.busy[f] || len(f.Blocks) == 0 {
		return spEffect{}
	}
	a.busy[f] = true
	defer delete(a.busy, f)
	vals := map[int]bool{}
	known := true
	budget := spPathBudget
	onPath := map[*ssa.BasicBlock]int{}
	var walk func(b *ssa.BasicBlock, delta int)
	walk = func(b *ssa.BasicBlock, delta int) {
		if !known {
			return
		}
		budget--
		if budget < 0 {
			known = false
			return
		}
		if d0, ok := onPath[b]; ok {
			// a loop: fine when it does not move sp
			if d0 != delta {
				known = false
			}
			return
		}
		onPath[b] = delta
		defer delete(onPath, b)
		deltas := []int{delta}
		for _, in := range b.Instrs {
			switch x := in.(type) {
			case *ssa.Panic:
				return
			case *ssa.Store:
				if core.FieldOf(x.Addr) == a.spField {
					d, ok := a.spAdjust(x)
					if !ok {
						known = false
						return
					}
					for i := range deltas {
						deltas[i] += d
					}
				}
			case ssa.CallInstruction:
				if _, isDefer := in.(*ssa.Defer); isDefer {
					continue
				}
				callee := x.Common().StaticCallee()
				if callee != nil && a.throwFn[callee] {
					return
				}
				if c, ok := in.(*ssa.Call); ok && a.p.CallNeverReturns(c) {
					return
				}
				if callee == nil || !a.p.InModule(callee) || !a.takesVM(callee) || callee.Name() == "exec" && callee == f {
					continue
				}
				// does the callee receive *this* vm? any *vm argument counts
				e := a.of(callee)
				if !e.Known {
					known = false
					return
				}
				if len(e.Vals) == 0 {
					return // never returns normally
				}
				var nd []int
				seen := map[int]bool{}
				for _, d := range deltas {
					for _, v := range e.Vals {
						if !seen[d+v] {
							seen[d+v] = true
							nd = append(nd, d+v)
						}
					}
				}
				deltas = nd
			case *ssa.Return:
				if b == f.Recover {
					return
				}
				for _, d := range deltas {
					vals[d] = true
				}
				return
			}
		}
		for _, s := range b.Succs {
			for _, d := range deltas {
				walk(s, d)
			}
		}
	}
	walk(f.Blocks[0], 0)
	e := &spEffect{Known: known}
	if known {
		for v := range vals {
			e.Vals = append(e.Vals, v)
		}
		sort.Ints(e.Vals)
	}
	a.memo[f] = e
	return *e
}

// spAdjust recognises vm.sp = vm.sp ± const.
func (a *spAnalysis) spAdjust(st *ssa.Store) (int, bool) {
	bo, ok := st.Val.(*ssa.BinOp)
	if !ok || (bo.Op != token.ADD && bo.Op != token.SUB) {
		return 0, false
	}
	ld, ok := bo.X.(*ssa.UnOp)
	if !ok || ld.Op != token.MUL || core.FieldOf(ld.X) != a.spField {
		return 0, false
	}
	c, ok := bo.Y.(*ssa.Const)
	if !ok || c.Value == nil || c.Value.Kind() != constant.Int {
		return 0, false
	}
	n, ok := constant.Int64Val(c.Value)
	if !ok {
		return 0, false
	}
	if bo.Op == token.SUB {
		n = -n
	}
	return int(n), true
}

// instrEffects maps every instruction type (implementer of `instruction`) to the effect of its exec.
func (a *spAnalysis) instrEffects() map[string]spEffect {
	out := map[string]spEffect{}
	for _, f := range a.p.Funcs {
		if f.Name() != "exec" || f.Signature.Recv() == nil || f.Parent() != nil {
			continue
		}
		out[core.TypeShort(f.Signature.Recv().Type())] = a.of(f)
	}
	return out
}

// SpEffectDebug prints the derived table (debug rule, never gates).
var SpEffectDebug = &core.Rule{Name: "D-SPEFFECT", Run: func(p *core.Prog) *core.Result {
	res := core.NewResult("D-SPEFFECT", 0)
	a, err := newSpAnalysis(p)
	if err != nil {
		return res.Fail(err)
	}
	tab := a.instrEffects()
	var names []string
	for n := range tab {
		names = append(names, n)
	}
	sort.Strings(names)
	k, c := 0, 0
	for _, n := range names {
		e := tab[n]
		if e.Known {
			k++
		}
		if _, ok := e.Const(); ok {
			c++
		}
		res.Inform(n, "-", e.String())
	}
	res.Count("instruction types", len(names))
	res.Count("known effect", k)
	res.Count("constant effect", c)
	return res
}}

// branchEff: operand-stack effect of an instruction split by what it does to vm.pc:
// Fall = paths ending in vm.pc++ (control continues with the next instruction),
// Taken = paths ending in vm.pc += <operand> (a relative jump).
type branchEff struct {
	OK          bool
	Fall, Taken []int
}

func (b branchEff) String() string {
	if !b.OK {
		return "?"
	}
	return fmt.Sprintf("fall%v taken%v", b.Fall, b.Taken)
}

// branches derives branchEff for an exec method. sp is the analysis of vm.sp, pc of vm.pc.
func branches(sp, pc *spAnalysis, f *ssa.Function) branchEff {
	if f == nil || len(f.Blocks) == 0 {
		return branchEff{}
	}
	fall, taken := map[int]bool{}, map[int]bool{}
	ok := true
	budget := spPathBudget
	onPath := map[*ssa.BasicBlock]bool{}
	var walk func(b *ssa.BasicBlock, delta, kind int)
	walk = func(b *ssa.BasicBlock, delta, kind int) {
		if !ok {
			return
		}
		budget--
		if budget < 0 || onPath[b] {
			if budget < 0 {
				ok = false
			}
			return
		}
		onPath[b] = true
		defer delete(onPath, b)
		for _, in := range b.Instrs {
			switch x := in.(type) {
			case *ssa.Panic:
				return
			case *ssa.Store:
				switch core.FieldOf(x.Addr) {
				case sp.spField:
					d, k := sp.spAdjust(x)
					if !k {
						ok = false
						return
					}
					delta += d
				case pc.spField:
					if kind != 0 {
						ok = false
						return
					}
					if d, k := pc.spAdjust(x); k {
						if d != 1 {
							ok = false
							return
						}
						kind = 1
					} else if bo, isBin := x.Val.(*ssa.BinOp); isBin && bo.Op == token.ADD {
						if ld, isLd := bo.X.(*ssa.UnOp); isLd && ld.Op == token.MUL && core.FieldOf(ld.X) == pc.spField {
							kind = 2
						} else {
							ok = false
							return
						}
					} else {
						ok = false
						return
					}
				}
			case ssa.CallInstruction:
				if _, isDefer := in.(*ssa.Defer); isDefer {
					continue
				}
				callee := x.Common().StaticCallee()
				if callee != nil && sp.throwFn[callee] {
					return
				}
				if c, isCall := in.(*ssa.Call); isCall && sp.p.CallNeverReturns(c) {
					return
				}
				if callee == nil || !sp.p.InModule(callee) || !sp.takesVM(callee) {
					continue
				}
				es := sp.of(callee)
				d, k := es.Const()
				if !k {
					if es.Known && len(es.Vals) == 0 {
						return
					}
					ok = false
					return
				}
				delta += d
				ep := pc.of(callee)
				pd, k := ep.Const()
				if !k || pd < 0 || pd > 1 {
					ok = false
					return
				}
				if pd == 1 {
					if kind != 0 {
						ok = false
						return
					}
					kind = 1
				}
			case *ssa.Return:
				if b == f.Recover {
					return
				}
				switch kind {
				case 1:
					fall[delta] = true
				case 2:
					taken[delta] = true
				default:
					ok = false
				}
				return
			}
		}
		for _, s := range b.Succs {
			walk(s, delta, kind)
		}
	}
	walk(f.Blocks[0], 0, 0)
	out := branchEff{OK: ok}
	if ok {
		for v := range fall {
			out.Fall = append(out.Fall, v)
		}
		for v := range taken {
			out.Taken = append(out.Taken, v)
		}
		sort.Ints(out.Fall)
		sort.Ints(out.Taken)
	}
	return out
}

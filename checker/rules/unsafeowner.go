package rules

import (
	"go/ast"
	"go/types"
	"sort"

	"gojaverif/core"
)

// R-UNSAFEOWNER: who may use package unsafe. Raw memory access is confined to the element
// accessors of the typed-array element types and of arrayBufferObject (whose call sites are
// what R-FRESH-DETACH guards); every other use is an audited, dereference-free idiom.
var UnsafeOwner = &core.Rule{Name: "R-UNSAFEOWNER", Run: runUnsafeOwner,
	Doc: "who-may-use: package unsafe is referenced only inside methods of the typed-array element types / arrayBufferObject and an audited table of dereference-free idioms"}

var unsafeTable = map[string]string{
	"(*Runtime).typedArrayProto_set":   "addresses converted to uintptr only to detect overlap of source and destination; no dereference",
	"(*Runtime).typedArrayProto_slice": "addresses converted to uintptr only to detect overlap; no dereference",
	"(*Object).hash":                   "pointer identity used as a hash input; no dereference",
	"(*Symbol).hash":                   "pointer identity used as a hash input; no dereference",
	"init":                             "byte-order probe on a local [2]byte",
	"uint16AsBytes":                    "reinterprets a non-empty []uint16 as its own bytes (len(s)*2) for hashing; guarded by len(s) > 0",
	"(unistring.String).AsUtf16":       "reinterprets the string's own bytes as []uint16; length derived from len(s)",
	"unistring.FromUtf16":              "reinterprets a []uint16 as string bytes; length derived from len(b)",
}

func runUnsafeOwner(p *core.Prog) *core.Result {
	res := core.NewResult("R-UNSAFEOWNER", 35)
	a, err := resolveDetachAnchors(p)
	if err != nil {
		return res.Fail(err)
	}
	type site struct {
		name string
		pos  string
		recv *types.Named
	}
	seen := map[string]site{}
	for _, pk := range p.Pkgs {
		for _, file := range pk.Syntax {
			for _, d := range file.Decls {
				fd, ok := d.(*ast.FuncDecl)
				if !ok || fd.Body == nil {
					continue
				}
				uses := false
				ast.Inspect(fd.Body, func(n ast.Node) bool {
					if id, ok := n.(*ast.Ident); ok {
						if o := pk.TypesInfo.Uses[id]; o != nil && o.Pkg() != nil && o.Pkg().Path() == "unsafe" {
							uses = true
						}
						if pn, ok := pk.TypesInfo.Uses[id].(*types.PkgName); ok && pn.Imported().Path() == "unsafe" {
							uses = true
						}
					}
					return true
				})
				if !uses {
					continue
				}
				fo, _ := pk.TypesInfo.Defs[fd.Name].(*types.Func)
				name := fd.Name.Name
				var recv *types.Named
				if fo != nil {
					if r := fo.Type().(*types.Signature).Recv(); r != nil {
						recv = core.NamedOf(r.Type())
						name = "(" + core.TypeShort(r.Type()) + ")." + fd.Name.Name
					} else if pk.PkgPath != core.GojaPath {
						name = pk.Types.Name() + "." + fd.Name.Name
					}
				}
				seen[name+"@"+p.Pos(fd.Pos())] = site{name, p.Pos(fd.Pos()), recv}
			}
		}
	}
	var keys []string
	for k := range seen {
		keys = append(keys, k)
	}
	sort.Strings(keys)
	for _, k := range keys {
		s := seen[k]
		switch {
		case s.recv != nil && (a.elemTypes[s.recv] || s.recv == a.abT):
			res.OK(s.name+":unsafe", s.pos, "raw accessor of "+s.recv.Obj().Name()+" (call sites guarded by R-FRESH-DETACH)")
		case unsafeTable[s.name] != "":
			res.OK(s.name+":unsafe", s.pos, "table: "+unsafeTable[s.name])
		default:
			res.Bad(s.name+":unsafe", s.pos, "package unsafe is used outside the typed-array element accessors and the audited idiom table: a new raw memory access is not covered by the detach-freshness analysis")
		}
	}
	res.Count("functions_using_unsafe", len(seen))
	return res
}

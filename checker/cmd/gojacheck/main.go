// gojacheck decides the structural clauses of goja's semantic properties by static
// analysis of /repo's current working tree. See /verif/DESIGN.md.
package main

import (
	"bufio"
	"encoding/json"
	"errors"
	"flag"
	"fmt"
	"os"
	"os/exec"
	"path/filepath"
	"runtime"
	"sort"
	"strconv"
	"strings"
	"sync"
	"time"

	"gojaverif/core"
	"gojaverif/props"
	"gojaverif/rules"
)

const (
	exitOK        = 0
	exitViolation = 1
	exitNoVerdict = 2
	exitSelftest  = 3
)

var (
	flagProp     = flag.String("prop", "", "property id (C01..C20)")
	flagTier     = flag.String("tier", "quick", "quick|thorough")
	flagRepo     = flag.String("repo", "/repo", "path of the goja working tree")
	flagVerif    = flag.String("verif", "/verif", "path of the verification directory (evidence, known findings)")
	flagRule     = flag.String("rule", "", "debug: run one rule and print every obligation")
	flagKey      = flag.String("key", "", "with -rule/-prop: only print obligations whose key contains this substring (replay)")
	flagMutant   = flag.String("mutant", "", "internal: run one positive-control mutant")
	flagList     = flag.Bool("list", false, "list properties, rules and mutants")
	flagArch     = flag.String("goarch", "", "GOARCH for the load")
	flagNoEvid   = flag.Bool("no-evidence", false, "do not write the evidence file (used when analysing a tree other than /repo)")
	flagManifest = flag.Bool("manifest", false, "write MANIFEST.json from the property table")
	flagMutJobs  = flag.Int("mutant-jobs", 4, "parallel mutant subprocesses in the thorough tier")
)

func main() {
	flag.Parse()
	if t := os.Getenv("VERIF_TIER"); t == "quick" || t == "thorough" {
		*flagTier = t
	}
	switch {
	case *flagList:
		list()
	case *flagManifest:
		writeManifest()
	case *flagMutant != "":
		os.Exit(runMutant(*flagMutant))
	case *flagRule != "":
		os.Exit(runRuleDebug(*flagRule))
	case *flagProp != "":
		os.Exit(runProp(*flagProp))
	default:
		flag.Usage()
		os.Exit(exitNoVerdict)
	}
}

func list() {
	for _, p := range props.All {
		fmt.Printf("%s:", p.ID)
		for _, r := range p.Rules {
			fmt.Printf(" %s", r.Name)
		}
		fmt.Println()
	}
	for _, m := range rules.Mutants {
		fmt.Printf("mutant %s rule=%s file=%s\n", m.Name, m.Rule, m.File)
	}
}

func allRules() map[string]*core.Rule {
	m := map[string]*core.Rule{}
	for _, p := range props.All {
		for _, r := range p.Rules {
			m[r.Name] = r
		}
	}
	for _, r := range rules.Extra {
		m[r.Name] = r
	}
	return m
}

func safeRun(r *core.Rule, p *core.Prog) (res *core.Result) {
	defer func() {
		if x := recover(); x != nil {
			buf := make([]byte, 8192)
			buf = buf[:runtime.Stack(buf, false)]
			res = core.NewResult(r.Name, 0)
			res.Err = fmt.Errorf("rule panicked: %v\n%s", x, buf)
		}
	}()
	res = r.Run(p)
	res.Finish()
	return res
}

func runRuleDebug(name string) int {
	r := allRules()[name]
	if r == nil {
		fmt.Fprintf(os.Stderr, "unknown rule %s\n", name)
		return exitNoVerdict
	}
	p, err := core.Load(core.LoadOptions{Repo: *flagRepo, GOARCH: *flagArch})
	if err != nil {
		fmt.Fprintln(os.Stderr, "LOAD-FAILED:", err)
		return exitNoVerdict
	}
	res := safeRun(r, p)
	if res.Err != nil {
		fmt.Fprintln(os.Stderr, "RULE-FAILED:", res.Err)
		return exitNoVerdict
	}
	bad := 0
	for _, o := range res.Obligations {
		if *flagKey != "" && !strings.Contains(o.Key, *flagKey) {
			continue
		}
		fmt.Printf("%-10s %s  [%s]  %s%s\n", o.Status, o.Key, o.Pos, o.Idiom, o.Detail)
		if o.Status == core.Violated || o.Status == core.Undecided {
			bad++
		}
	}
	n, d, _ := res.Gating()
	fmt.Printf("-- %s: %d obligations, %d discharged, floor %d, analysed %v\n", res.Rule, n, d, res.Floor, res.Analysed)
	for _, s := range res.Notes {
		fmt.Println("note:", s)
	}
	if bad > 0 {
		return exitViolation
	}
	return exitOK
}

// ---- known findings -------------------------------------------------------

type finding struct {
	prop, key, text string
}

func readFindings(path string) ([]finding, error) {
	f, err := os.Open(path)
	if err != nil {
		if errors.Is(err, os.ErrNotExist) {
			return nil, nil
		}
		return nil, err
	}
	defer f.Close()
	var out []finding
	sc := bufio.NewScanner(f)
	for sc.Scan() {
		line := strings.TrimSpace(sc.Text())
		if !strings.HasPrefix(line, "finding:") {
			continue // "fixed:" entries and comments suppress nothing
		}
		rest := strings.TrimSpace(strings.TrimPrefix(line, "finding:"))
		var fd finding
		words := strings.Fields(rest)
		var text []string
		for _, w := range words {
			switch {
			case strings.HasPrefix(w, "property=") && fd.prop == "":
				fd.prop = strings.TrimPrefix(w, "property=")
			case strings.HasPrefix(w, "key=") && fd.key == "":
				fd.key = strings.TrimPrefix(w, "key=")
			default:
				text = append(text, w)
			}
		}
		fd.text = strings.Join(text, " ")
		if fd.prop != "" && fd.key != "" {
			out = append(out, fd)
		}
	}
	return out, sc.Err()
}

// ---- evidence ---------------------------------------------------------------

type ruleStat struct {
	Rule        string         `json:"rule"`
	Doc         string         `json:"doc,omitempty"`
	Obligations int            `json:"obligations"`
	Discharged  int            `json:"discharged"`
	Violated    int            `json:"violated"`
	Undecided   int            `json:"undecided"`
	Info        int            `json:"info"`
	Floor       int            `json:"floor"`
	Analysed    map[string]int `json:"analysed,omitempty"`
	Idioms      map[string]int `json:"idioms,omitempty"`
	Notes       []string       `json:"notes,omitempty"`
}

type mutantStat struct {
	Name   string `json:"name"`
	Rule   string `json:"rule"`
	Result string `json:"result"` // detected | skipped | MISSED
	Detail string `json:"detail,omitempty"`
}

func runProp(id string) int {
	start := time.Now()
	pr := props.ByID(id)
	if pr == nil {
		fmt.Fprintf(os.Stderr, "property %s is not claimed (see MANIFEST.json not_applicable)\n", id)
		return exitNoVerdict
	}
	tier := *flagTier
	seed, _ := strconv.Atoi(os.Getenv("VERIF_SEED"))
	archs := []string{*flagArch}
	if tier == "thorough" && *flagArch == "" {
		archs = []string{"", "386"}
	}
	findings, err := readFindings(filepath.Join(*flagVerif, "known_findings.txt"))
	if err != nil {
		fmt.Fprintln(os.Stderr, "cannot read known findings:", err)
		return exitNoVerdict
	}

	var stats []ruleStat
	var allObl []core.Obligation
	var assumptions []string
	totalFuncs, totalPkgs := 0, 0
	noVerdict := false
	seenKey := map[string]bool{}
	for _, arch := range archs {
		p, err := core.Load(core.LoadOptions{Repo: *flagRepo, GOARCH: arch})
		if err != nil {
			fmt.Fprintf(os.Stderr, "LOAD-FAILED (GOARCH=%q): %v\n", arch, err)
			return exitNoVerdict
		}
		if arch == archs[0] {
			totalFuncs, totalPkgs = len(p.Funcs), len(p.Pkgs)
		}
		for _, r := range pr.Rules {
			res := safeRun(r, p)
			if res.Err != nil {
				fmt.Fprintf(os.Stderr, "NO-VERDICT rule=%s: %v\n", r.Name, res.Err)
				noVerdict = true
				continue
			}
			n, d, bad := res.Gating()
			if n < res.Floor {
				fmt.Fprintf(os.Stderr, "NO-VERDICT rule=%s: only %d instances found, floor is %d (a rule that matches nothing passes vacuously)\n", r.Name, n, res.Floor)
				noVerdict = true
			}
			if arch != archs[0] {
				// second architecture: only new failing constructs matter
				for _, o := range bad {
					if !seenKey[o.Key] {
						o.Detail = "[GOARCH=" + arch + "] " + o.Detail
						allObl = append(allObl, o)
						seenKey[o.Key] = true
					}
				}
				continue
			}
			st := ruleStat{Rule: r.Name, Doc: r.Doc, Obligations: n, Discharged: d, Floor: res.Floor, Analysed: res.Analysed, Idioms: map[string]int{}, Notes: res.Notes}
			for _, o := range res.Obligations {
				seenKey[o.Key] = true
				switch o.Status {
				case core.Violated:
					st.Violated++
				case core.Undecided:
					st.Undecided++
				case core.Info:
					st.Info++
				case core.Discharged:
					idiom := o.Idiom
					if i := strings.IndexAny(idiom, ":("); i > 0 {
						idiom = strings.TrimSpace(idiom[:i])
					}
					st.Idioms[idiom]++
				}
			}
			stats = append(stats, st)
			allObl = append(allObl, res.Obligations...)
			assumptions = append(assumptions, res.Assumptions...)
		}
		p = nil
		runtime.GC()
	}
	if noVerdict {
		return exitNoVerdict
	}

	// classify violations against the committed known-findings file
	var violations, known []core.Obligation
	for _, o := range allObl {
		if o.Status != core.Violated && o.Status != core.Undecided {
			continue
		}
		isKnown := false
		for _, fd := range findings {
			if fd.prop == id && fd.key == o.Key {
				isKnown = true
				fmt.Printf("KNOWN-FINDING: property=%s key=%s %s [%s]\n", id, o.Key, fd.text, o.Pos)
				break
			}
		}
		if isKnown {
			known = append(known, o)
		} else {
			violations = append(violations, o)
		}
	}

	// thorough: positive controls
	var mstats []mutantStat
	selftestFailed := false
	if tier == "thorough" {
		mstats, selftestFailed = runMutants(pr)
	}

	// evidence
	nObl, nDis := 0, 0
	for _, s := range stats {
		nObl += s.Obligations
		nDis += s.Discharged
	}
	samples := pickSamples(allObl, violations, known)
	cov := map[string]any{
		"explanation":        pr.Explanation,
		"not_covered":        pr.NotCovered,
		"obligations":        nObl,
		"discharged":         nDis,
		"violated":           len(violations),
		"known_findings":     len(known),
		"rules":              stats,
		"samples":            samples,
		"functions_analysed": totalFuncs,
		"packages_analysed":  totalPkgs,
		"architectures":      archNames(archs),
		"exhaustive":         true,
		"checker_cmd":        fmt.Sprintf("bin/check %s %s", id, tier),
		"trusted_base":       []string{"go/types", "golang.org/x/tools/go/packages", "golang.org/x/tools/go/ssa", "gojaverif rules (this checker)"},
	}
	if tier == "thorough" {
		cov["mutants"] = mstats
	}
	ev := map[string]any{
		"property_id": id,
		"tier":        tier,
		"seed":        seed,
		"level":       "other",
		"coverage":    cov,
		"assumptions": append(append([]string{}, props.Common()...), append(pr.Assumptions, assumptions...)...),
		"wall_s":      time.Since(start).Seconds(),
		"violations":  len(violations),
	}
	if !*flagNoEvid {
		dir := filepath.Join(*flagVerif, "evidence")
		os.MkdirAll(dir, 0o755)
		ev["wall_s"] = time.Since(start).Seconds()
		writeJSON(filepath.Join(dir, id+".json"), ev)
		replay := filepath.Join(dir, id+".violations.json")
		if len(violations) > 0 {
			writeJSON(replay, violations)
		} else {
			os.Remove(replay)
		}
	}

	for _, s := range stats {
		fmt.Printf("rule %-20s obligations=%d discharged=%d violated=%d undecided=%d info=%d floor=%d analysed=%v\n",
			s.Rule, s.Obligations, s.Discharged, s.Violated, s.Undecided, s.Info, s.Floor, s.Analysed)
	}
	for _, m := range mstats {
		fmt.Printf("mutant %-40s rule=%-18s %s %s\n", m.Name, m.Rule, m.Result, m.Detail)
	}
	if len(violations) > 0 {
		for _, o := range violations {
			fmt.Printf("  %s %s [%s]: %s\n", o.Status, o.Key, o.Pos, o.Detail)
		}
		fmt.Printf("VIOLATION property=%s replay=%s\n", id, filepath.Join(*flagVerif, "evidence", id+".violations.json"))
		return exitViolation
	}
	if selftestFailed {
		fmt.Println("CHECKER-SELFTEST-FAILED property=" + id)
		return exitSelftest
	}
	fmt.Printf("OK property=%s tier=%s obligations=%d discharged=%d known_findings=%d wall=%.1fs\n", id, tier, nObl, nDis, len(known), time.Since(start).Seconds())
	return exitOK
}

func archNames(a []string) []string {
	out := make([]string, len(a))
	for i, s := range a {
		if s == "" {
			s = runtime.GOARCH
		}
		out[i] = s
	}
	return out
}

func pickSamples(all, violations, known []core.Obligation) []core.Obligation {
	var out []core.Obligation
	out = append(out, violations...)
	out = append(out, known...)
	// a few per rule and idiom, deterministic
	perRule := map[string]int{}
	perIdiom := map[string]int{}
	for _, o := range all {
		if o.Status != core.Discharged {
			continue
		}
		ik := o.Rule + "|" + o.Idiom
		if perIdiom[ik] >= 2 || perRule[o.Rule] >= 12 {
			continue
		}
		perIdiom[ik]++
		perRule[o.Rule]++
		out = append(out, o)
	}
	if len(out) > 80 {
		out = out[:80]
	}
	return out
}

func writeJSON(path string, v any) {
	b, err := json.MarshalIndent(v, "", " ")
	if err != nil {
		fmt.Fprintln(os.Stderr, "evidence:", err)
		os.Exit(exitNoVerdict)
	}
	if err := os.WriteFile(path, append(b, '\n'), 0o644); err != nil {
		fmt.Fprintln(os.Stderr, "evidence:", err)
		os.Exit(exitNoVerdict)
	}
}

// ---- mutants ----------------------------------------------------------------

func runMutants(pr *props.Prop) ([]mutantStat, bool) {
	want := map[string]bool{}
	for _, r := range pr.Rules {
		want[r.Name] = true
	}
	var ms []*core.Mutant
	for _, m := range rules.Mutants {
		if want[m.Rule] {
			ms = append(ms, m)
		}
	}
	out := make([]mutantStat, len(ms))
	self, _ := os.Executable()
	sem := make(chan struct{}, *flagMutJobs)
	var wg sync.WaitGroup
	for i, m := range ms {
		wg.Add(1)
		go func(i int, m *core.Mutant) {
			defer wg.Done()
			sem <- struct{}{}
			defer func() { <-sem }()
			cmd := exec.Command(self, "-mutant", m.Name, "-repo", *flagRepo, "-verif", *flagVerif)
			b, err := cmd.CombinedOutput()
			txt := strings.TrimSpace(string(b))
			last := txt
			if j := strings.LastIndexByte(txt, '\n'); j >= 0 {
				last = txt[j+1:]
			}
			st := mutantStat{Name: m.Name, Rule: m.Rule}
			switch {
			case err == nil && strings.HasPrefix(last, "MUTANT-DETECTED"):
				st.Result = "detected"
				st.Detail = strings.TrimPrefix(last, "MUTANT-DETECTED ")
			case err == nil && strings.HasPrefix(last, "MUTANT-SKIPPED"):
				st.Result = "skipped"
				st.Detail = strings.TrimPrefix(last, "MUTANT-SKIPPED ")
			default:
				st.Result = "MISSED"
				st.Detail = last
			}
			out[i] = st
		}(i, m)
	}
	wg.Wait()
	failed := false
	for _, s := range out {
		if s.Result == "MISSED" {
			failed = true
		}
	}
	sort.Slice(out, func(i, j int) bool { return out[i].Name < out[j].Name })
	return out, failed
}

func runMutant(name string) int {
	var m *core.Mutant
	for _, x := range rules.Mutants {
		if x.Name == name {
			m = x
		}
	}
	if m == nil {
		fmt.Println("MUTANT-UNKNOWN", name)
		return exitSelftest
	}
	r := allRules()[m.Rule]
	if r == nil {
		fmt.Println("MUTANT-UNKNOWN-RULE", m.Rule)
		return exitSelftest
	}
	ov, ok, err := m.Apply(*flagRepo)
	if err != nil {
		fmt.Println("MUTANT-SKIPPED", err)
		return exitOK
	}
	if !ok {
		fmt.Println("MUTANT-SKIPPED anchor text not present in the current tree")
		return exitOK
	}
	p, err := core.Load(core.LoadOptions{Repo: *flagRepo, Overlay: ov})
	if err != nil {
		fmt.Println("MUTANT-BROKEN does not type-check:", strings.ReplaceAll(err.Error(), "\n", " | "))
		return exitSelftest
	}
	res := safeRun(r, p)
	if res.Err != nil {
		// an unresolved anchor under a mutant is also a detection (no verdict = not a pass)
		fmt.Println("MUTANT-DETECTED rule gives no verdict:", strings.ReplaceAll(res.Err.Error(), "\n", " | "))
		return exitOK
	}
	for _, o := range res.Obligations {
		if (o.Status == core.Violated || o.Status == core.Undecided) && strings.Contains(o.Key, m.Expect) {
			fmt.Printf("MUTANT-DETECTED %s [%s]\n", o.Key, o.Pos)
			return exitOK
		}
	}
	fmt.Printf("MUTANT-MISSED rule %s reported nothing matching %q\n", m.Rule, m.Expect)
	return exitSelftest
}

// ---- manifest ---------------------------------------------------------------

func writeManifest() {
	type level struct {
		Category  string `json:"category"`
		Text      string `json:"text"`
		DesignRef string `json:"design_ref,omitempty"`
	}
	type check struct {
		PropertyID string `json:"property_id"`
		Quick      string `json:"quick_cmd"`
		Thorough   string `json:"thorough_cmd"`
		Evidence   string `json:"evidence_file"`
		Replay     string `json:"replay_cmd_template"`
		Engine     string `json:"engine"`
		Level      level  `json:"level_claimed"`
		Note       string `json:"level_note"`
		Technique  string `json:"technique"`
	}
	var checks []check
	var ids []string
	for _, p := range props.All {
		ids = append(ids, p.ID)
		var rn []string
		for _, r := range p.Rules {
			rn = append(rn, r.Name)
		}
		checks = append(checks, check{
			PropertyID: p.ID,
			Quick:      "bin/check " + p.ID + " quick",
			Thorough:   "bin/check " + p.ID + " thorough",
			Evidence:   "/verif/evidence/" + p.ID + ".json",
			Replay:     "bin/check --replay " + p.ID + " {path}",
			Engine:     "gojacheck",
			Level: level{Category: "other", DesignRef: p.DesignRef,
				Text: "Static analysis of /repo's type-checked source (rules " + strings.Join(rn, ", ") + "): a structural necessary condition of the property decided over every site of the current tree, not a proof of the behaviour. " + p.Explanation},
			Note:      "Not covered: " + p.NotCovered + ". Trusted: go/types, go/packages, go/ssa (x/tools v0.50.0), the rule implementations and their audited idiom/exception tables; dependencies outside the module are not analysed.",
			Technique: "static analysis: " + p.Technique,
		})
	}
	type na struct {
		ID     string `json:"property_id"`
		Reason string `json:"reason"`
	}
	nas := []na{}
	for _, n := range props.NotApplicable {
		nas = append(nas, na{n.ID, n.Reason})
	}
	claimed := map[string]bool{}
	for _, id := range ids {
		claimed[id] = true
	}
	for i := 1; i <= 20; i++ {
		id := fmt.Sprintf("C%02d", i)
		found := claimed[id]
		for _, n := range props.NotApplicable {
			if n.ID == id {
				found = true
			}
		}
		if !found {
			nas = append(nas, na{id, "designed in DESIGN.md section 4 but its rules are not implemented yet in this tree of /verif; not claimed until they are"})
		}
	}
	m := map[string]any{
		"version":   1,
		"setup_cmd": "bin/check --build-only",
		"hooks": map[string]any{
			"guard":            "verif",
			"enable":           "none needed: static analysis reads /repo's source; no hook or instrumentation commit exists",
			"baseline_off_cmd": "cd /repo && PATH=/opt/veriftools/go1.26.8/bin:$PATH GOFLAGS=-mod=mod GOPROXY=off GOSUMDB=off GOWORK=off GOTOOLCHAIN=local go test -json -vet=off -count=1 -timeout 25m ./...",
			"source_commits":   []string{},
			"add_only":         true,
		},
		"engines": []map[string]any{{
			"name": "gojacheck", "path": "/verif/checker", "serves_properties": ids,
			"kind_free_text": "repository-specific static analyser (go/packages + go/types + go/ssa, x/tools v0.50.0): who-may-construct, panic-safe pairing, guard-freshness dataflow, override-closure, table-agreement and effect rules; positive controls as in-memory overlay mutants",
		}},
		"checks":         checks,
		"not_applicable": nas,
		"notes":          "All claimed checks are at level `other`: static analysis deciding a structural necessary condition over all sites of the current source. Exit 0 held / 1 VIOLATION / 2 no verdict (tree not analysable, anchor unresolved, instance floor not met) / 3 checker self-test (mutant) failed. Known findings: /verif/known_findings.txt.",
	}
	writeJSON(filepath.Join(*flagVerif, "MANIFEST.json"), m)
}

// Package props maps each property to the rules that decide its structural clauses.
package props

import (
	"gojaverif/core"
	"gojaverif/rules"
)

// Prop describes what is decided for one property.
type Prop struct {
	ID          string
	Rules       []*core.Rule
	Explanation string   // what clause is decided, by which analysis
	NotCovered  string   // what the check is silent about
	Assumptions []string // trusted base
	Technique   string   // a few words naming the deciding method
	DesignRef   string
}

// NotApplicable lists properties that are not claimed, with the reason.
type NA struct{ ID, Reason string }

var NotApplicable = []NA{
	{"C02", "correctness of the compiler as a translation over programs x contexts; no code-shape discipline short of a semantics-preservation proof (a different technique family); see DESIGN.md section 4/C02"},
	{"C12", "exactness of float<->decimal conversion is purely numerical (shortest digits, correct rounding over 2^64 inputs); no structural necessary condition beyond a single fallback `if`; see DESIGN.md section 4/C12"},
	{"C19", "accepted JSON language and byte-exact serialisation are value-level; tokenising is delegated to encoding/json; no discipline in the code shape whose violation can be named; see DESIGN.md section 4/C19"},
}

var commonAssumptions = []string{
	"go/packages + go/types + go/ssa (x/tools v0.50.0) faithfully represent the Go semantics of /repo's working tree for GOOS=linux GOARCH=amd64 (thorough tier: also GOARCH=386)",
	"the check decides a structural necessary condition of the property over all sites of the current source; it is not a proof of the behavioural property",
	"calls through reflection and dependencies outside the module (regexp2, x/text, stdlib) are not analysed; they are treated as unknown callees",
}

// All lists the claimed properties.
var All = []*Prop{
	{
		ID:    "C05",
		Rules: []*core.Rule{rules.NumBirth},
		Explanation: "Canonical numeric representation (no integral float in ±2^53 other than -0 is ever stored as valueFloat) is a necessary condition for SameValue/===/Map-key equality of equal numbers, because valueInt.SameAs/hash compare representations. " +
			"R-NUMBIRTH enumerates every SSA birth of a valueFloat in the module (Convert/ChangeType from a non-valueFloat, arithmetic on valueFloat) and requires an enumerated idiom: a constant that is not an integer in ±2^53, math.NaN/Inf, the -0 package constant, or a birth on the ok==false edge of floatToInt applied to the same SSA value.",
		Technique:  "who-may-construct rule over SSA births of valueFloat + dominance by the floatToInt !ok edge",
		DesignRef:  "DESIGN.md section 4, C05",
		NotCovered: "that toInt32/ToNumber/string->number compute the right number; the Equals/hash tables themselves; valueInt range (R-INTBIRTH not armed)",
	},
}

func ByID(id string) *Prop {
	for _, p := range All {
		if p.ID == id {
			return p
		}
	}
	return nil
}

func Common() []string { return commonAssumptions }
